"""T1 `pure.splitscope`: the real `_split_scope` of the three grouping schedulers and the real `@group` tagging of
`WorkerInteractor.pytest_collection_modifyitems` vs. the Lean model, on structured test descriptors and raw strings."""
from __future__ import annotations

import random
from types import SimpleNamespace
from typing import Any

from common import CompResult, Disagreement, Violation, esc, h, run_driver

ALPHA = "abcxyz019_-. "
ODD = ["::", "@", "[", "]", ":", "@]", "]@", "[@", "a::b", "x@y"]


def word(rng: random.Random, odd: float) -> str:
    s = "".join(rng.choice(ALPHA) for _ in range(rng.randrange(1, 5)))
    if rng.random() < odd:
        s = s[: rng.randrange(len(s) + 1)] + rng.choice(ODD) + s[rng.randrange(len(s) + 1):]
    return s.strip() or "w"


def descriptor(rng: random.Random) -> dict[str, Any]:
    depth = rng.choice([0, 0, 1, 1, 2])
    return {"path": "/".join(["pkg"] * rng.randrange(0, 3) + [f"t{rng.randrange(4)}.py" if rng.random() < 0.85 else "__init__.py"]),
            "classes": [f"C{rng.randrange(3)}" for _ in range(depth)],
            "func": f"test_{rng.randrange(5)}" if rng.random() < 0.9 else "pkg.mod.func",
            "param": None if rng.random() < 0.5 else (rng.choice(["1", "a-b", "u@example.com", "x::y", "q]w", "[z"]) if rng.random() < 0.6 else word(rng, 0.35)),
            "group": None if rng.random() < 0.5 else (rng.choice(["g1", "g2", "db"]) if rng.random() < 0.8 else word(rng, 0.5))}


def render(d: dict[str, Any], with_group: bool) -> str:
    nid = "::".join([d["path"], *d["classes"], d["func"]])
    if d["param"] is not None:
        nid += f"[{d['param']}]"
    if with_group and d["group"] is not None:
        nid += "@" + d["group"]
    return nid


def group_of(mode: str, d: dict[str, Any]) -> Any:
    if mode == "loadfile":
        return d["path"]
    if mode == "loadscope":
        return (d["path"], tuple(d["classes"]))
    return ("g", d["group"]) if d["group"] is not None else ("t", render(d, False))


def run(tier: str, seed: int) -> CompResult:
    from xdist.remote import WorkerInteractor
    from xdist.scheduler import LoadFileScheduling, LoadGroupScheduling, LoadScopeScheduling

    # bound methods of real (uninitialised) scheduler objects: `_split_scope` may use `self` / `super()`
    real = {"loadscope": LoadScopeScheduling.__new__(LoadScopeScheduling)._split_scope,
            "loadfile": LoadFileScheduling.__new__(LoadFileScheduling)._split_scope,
            "loadgroup": LoadGroupScheduling.__new__(LoadGroupScheduling)._split_scope}
    res = CompResult(component="pure.splitscope")
    res.rule = ("node ids rendered from structured descriptors (packages, nested classes, doctest-style names, parametrisation ids and group names over an "
                "alphabet rich in : @ [ ]) plus raw adversarial strings; pairs of descriptors are compared for key soundness; distinct by (mode, id)")
    rng = random.Random(f"{seed}-splitscope")
    n = {"quick": 1500, "search": 4000}.get(tier, 20000)
    lines, impl = [], []
    descs = [descriptor(rng) for _ in range(max(60, n // 10))]
    for i in range(n):
        mode = rng.choice(list(real))
        if rng.random() < 0.8:
            d = rng.choice(descs)
            nid = render(d, mode == "loadgroup")
        else:
            nid = "".join(rng.choice("ab:@[]/. ") for _ in range(rng.randrange(0, 14)))
        lines.append(f"split {mode} {esc(nid)}")
        impl.append(esc(real[mode](nid)))
        res.distinct.add(h((mode, nid)))
    # tagging by the worker (remote.py:236-252)
    for i in range(min(200, n // 5)):
        d = rng.choice(descs)
        nid = render(d, False)
        g = d["group"] if d["group"] is not None else "default"
        style = rng.randrange(3)
        mark = SimpleNamespace(args=(g,), kwargs={}) if style == 0 else SimpleNamespace(args=(), kwargs={"name": g} if style == 1 else {})
        want = g if style < 2 else "default"
        item = SimpleNamespace(nodeid=nid, _nodeid=nid, get_closest_marker=lambda name, m=mark: m if name == "xdist_group" else None)
        cfg = SimpleNamespace(getvalue=lambda name: True)
        wi = object.__new__(WorkerInteractor)      # a real instance (helper methods reachable through `self`), without a channel
        wi.config = cfg
        wi.pytest_collection_modifyitems(cfg, [item])  # type: ignore[arg-type]
        lines.append(f"tag {esc(nid)} {esc(want)}")
        impl.append(esc(item._nodeid))
        # C06 across the two sides (independent of the model): what the worker reports for a marked test must be put, by the
        # controller's grouping rule, into the work unit of its group (well-formed group names only: F10 lists the others)
        if "@" not in want and "]" not in want:
            key = real["loadgroup"](item._nodeid)
            if key != want:
                res.violations.append(Violation("C06", "pure.splitscope", f"a test marked xdist_group({want!r}) with id {nid!r} is reported by the worker as "
                                                f"{item._nodeid!r}, which --dist loadgroup puts into the work unit {key!r}: the group is not kept together",
                                                "marked-test-not-in-its-group", [lines[-1]], {}))
    # key soundness on pairs (C06a), independent of the model
    base = {"path": "t0.py", "classes": [], "func": "test_1", "param": None, "group": None}
    fixed = [("loadscope", dict(base, param="x::y"), dict(base, param="z")),
             ("loadgroup", dict(base, group="g]1"), dict(base, func="test_2", group="g]1")),
             ("loadgroup", dict(base, group="a@k"), dict(base, func="test_2", group="b@k"))]
    for k in range(n):
        mode = rng.choice(list(real))
        a, b_ = rng.choice(descs), rng.choice(descs)
        if k < len(fixed):
            mode, a, b_ = fixed[k]
        ka, kb = real[mode](render(a, mode == "loadgroup")), real[mode](render(b_, mode == "loadgroup"))
        same = group_of(mode, a) == group_of(mode, b_)
        if same == (ka == kb):
            continue
        parts = [a, b_]
        if mode == "loadscope" and any(x["param"] and "::" in x["param"] for x in parts):
            sig = "loadscope-param-with-colons"
        elif mode == "loadgroup" and any(x["group"] and "]" in x["group"] for x in parts):
            sig = "loadgroup-group-name-with-bracket"
        elif mode == "loadgroup" and any(x["group"] and "@" in x["group"] for x in parts):
            sig = "loadgroup-group-name-with-at"
        else:
            sig = f"key-unsound:{mode}"
        res.violations.append(Violation("C06", "pure.splitscope",
                                        f"{mode}: {render(a, mode == 'loadgroup')!r} -> {ka!r} and {render(b_, mode == 'loadgroup')!r} -> {kb!r}, "
                                        f"{'same' if same else 'different'} group", sig, [f"split {mode} {esc(render(a, mode == 'loadgroup'))}",
                                                                                       f"split {mode} {esc(render(b_, mode == 'loadgroup'))}"], {}))
    model = run_driver("pure", lines)
    res.evaluations = len(lines)
    for l, m, i in zip(lines, model, impl):
        if m != i:
            if len(res.disagreements) < 6:
                res.disagreements.append(Disagreement("pure.splitscope", [l], [m], [i], 0))
        else:
            res.traces_validated += 1
    res.samples = [{"line": lines[0], "impl": impl[0]}]
    return res
