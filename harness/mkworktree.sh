#!/bin/sh
# usage: mkworktree.sh <dir>   -- scratch worktree of /repo HEAD outside /repo and /verif (with the generated _version.py)
set -e
git -C /repo worktree add --detach "$1" HEAD >/dev/null 2>&1
cp /repo/src/xdist/_version.py "$1/src/xdist/_version.py"
echo "$1"
