"""Entry point of every registered check.

Verdict logic (DESIGN §2.4):
  proofs build + audit clean + correspondence agrees + monitors quiet          -> exit 0
  a monitor finds a failing input on the real code, listed in known_findings  -> KNOWN-FINDING line, exit 0
  a monitor finds an unlisted failing input                                   -> VIOLATION ... replay=<file>, exit 1
  proof obligation or correspondence broken, search finds a failing input     -> VIOLATION ... replay=<file>, exit 1
  proof obligation or correspondence broken, search finds none                -> VIOLATION ... replay=<file> no-failing-input-found, exit 1
  harness / infrastructure trouble                                            -> exit 2
"""
from __future__ import annotations

import json
import os
import shutil
import signal
import sys
import tempfile
import time
import traceback
from pathlib import Path

import common
from common import EVIDENCE, REPLAYS, VERIF, CompResult, Infra


def write_replay(prop: str, kind: str, payload: dict) -> Path:
    REPLAYS.mkdir(exist_ok=True)
    name = f"{prop}-{kind}-{common.h(payload)}.json"
    p = REPLAYS / name
    p.write_text(json.dumps(payload, indent=1, default=str))
    return p


def main(argv: list[str]) -> int:
    if len(argv) >= 2 and argv[0] == "--replay":
        import registry

        return registry.replay(Path(argv[1]))
    if len(argv) < 2:
        print(__doc__)
        return 2
    prop, tier = argv[0], argv[1]
    if os.environ.get("VERIF_TIER") in ("quick", "thorough"):
        tier = os.environ["VERIF_TIER"]
    t0 = time.time()
    scratch = Path(tempfile.mkdtemp(prefix="xdist-verif-"))
    os.environ["VERIF_SCRATCH"] = str(scratch)
    os.chdir(scratch)
    try:
        return run_check(prop, tier, t0)
    except Infra as e:
        print(f"INFRA-ERROR property={prop}: {e}")
        return 2
    except Exception:  # noqa: BLE001
        traceback.print_exc()
        print(f"INFRA-ERROR property={prop}: harness exception")
        return 2
    finally:
        os.chdir("/")
        shutil.rmtree(scratch, ignore_errors=True)


def run_check(prop: str, tier: str, t0: float) -> int:
    import registry

    spec = registry.PROPS.get(prop)
    if spec is None:
        raise Infra(f"unknown property {prop}")
    seed = common.seed_of(spec.get("seed", 20260930))
    broken: list[dict] = []          # proof obligations / correspondences that no longer check

    # ---- 1. proofs
    ok, log = common.lean_build()
    if not ok:
        broken.append({"kind": "lean-build", "detail": log[-3000:]})
        audit = {"obligations": len(common.props_index().get(prop, {}).get("theorems", [])) or 1, "discharged": 0, "bad": {"build": "lake build failed"}, "theorems": {}}
    else:
        audit = common.audit(prop)
        for thm, why in audit["bad"].items():
            broken.append({"kind": "theorem", "theorem": thm, "detail": why})
        hits = common.grep_forbidden()
        if hits:
            broken.append({"kind": "forbidden-construct", "detail": hits[:20]})
    checker_cmd = "cd lean && lake build && lake env lean <generated #print axioms file for the indexed theorems>"
    leanchecker = None
    if tier == "thorough" and ok:
        leanchecker = registry.run_leanchecker(prop)
        checker_cmd += f" && lake env leanchecker {' '.join(leanchecker['modules'])}"
        if not leanchecker["ok"]:
            broken.append({"kind": "leanchecker", "detail": leanchecker["out"][-2000:]})

    # ---- 2. correspondence + monitors
    results: list[CompResult] = []
    limit = int(os.environ.get("VERIF_COMPONENT_TIMEOUT", "900" if tier == "quick" else "14400"))

    class Hang(Exception):
        pass

    def on_alarm(signum: int, frame: object) -> None:
        raise Hang()

    signal.signal(signal.SIGALRM, on_alarm)
    if ok:
        for comp in spec["components"]:
            try:
                signal.alarm(limit)
                try:
                    results.append(comp(tier, seed, prop))
                finally:
                    signal.alarm(0)
            except Hang:
                # the code under test (driven in-process by most components) does not return: an endless loop in a scheduler call, say
                broken.append({"kind": "component-hung", "component": getattr(comp, "__qualname__", str(comp)).split(".")[0],
                               "detail": f"no result within {limit} s: a call into the code under test does not return (normal duration: seconds to a few minutes)"})
            except Exception as e:  # noqa: BLE001
                # an exception that comes out of the code under test while a component is being set up or driven (a NameError in a
                # helper every scheduler calls, say) is not a defect of the harness: the component's correspondence no longer checks
                # (the formatted chain: an exception that crossed a thread or process pool carries its origin as text only)
                if isinstance(e, Infra):
                    raise
                text = "".join(traceback.format_exception(type(e), e, e.__traceback__))
                where = [l.strip() for l in text.splitlines() if l.strip().startswith("File ") and str(common.SRC) in l]
                # ... and an exception in the harness's own code while it digests what the code under test returned (a value of
                # a shape the unchanged code never produces) means the same: the component could not be driven to its end, its
                # correspondence is not shown.  (On the unchanged tree neither happens: every component runs to completion.)
                broken.append({"kind": "component-crashed", "component": getattr(comp, "__qualname__", str(comp)).split(".")[0],
                               "detail": (f"{type(e).__name__}: {e} raised in the code under test ({where[-1][:160]})" if where else
                                          f"{type(e).__name__}: {e} raised while the harness processed what the code under test returned"),
                               "traceback": text[-2500:]})
    for r in results:
        for d in r.disagreements:
            broken.append({"kind": "correspondence", "component": d.component, "ops": d.ops, "model": d.model,
                           "impl": d.impl, "first_difference_at": d.at, "note": d.note})

    violations = [v for r in results for v in r.violations if v.prop == prop]

    kf = common.known_findings()
    listed = {(f["property"], f["signature"]): f for f in kf.get("findings", [])}

    # ---- 3. failing-input search when something no longer checks (a listed finding is not the failing input looked for)
    if broken and ok and all((v.prop, v.signature) in listed for v in violations):
        try:
            signal.alarm(limit)
            try:
                for r in registry.search(prop, tier, seed, broken):
                    results.append(r)
                    violations += [v for v in r.violations if v.prop == prop]
            finally:
                signal.alarm(0)
        except Hang:
            broken.append({"kind": "search-hung", "detail": f"the failing-input search did not return within {limit} s"})
        except Exception as e:  # noqa: BLE001
            if isinstance(e, Infra):
                raise
            broken.append({"kind": "search-crashed", "detail": f"{type(e).__name__}: {e} raised in the code under test during the failing-input search",
                           "traceback": "".join(traceback.format_exception(type(e), e, e.__traceback__))[-2500:]})

    # ---- 4. verdict
    known, fresh = [], []
    seen = set()
    for v in violations:
        if (v.prop, v.signature) in seen:
            continue
        seen.add((v.prop, v.signature))
        (known if (v.prop, v.signature) in listed else fresh).append(v)
    lines = []
    for v in known:
        lines.append(f"KNOWN-FINDING: property={prop} {listed[(v.prop, v.signature)]['what']} [{v.signature}]")
    rc = 0
    for v in fresh:
        p = write_replay(prop, "violation", {"property": prop, "component": v.component, "what": v.what,
                                            "signature": v.signature, "ops": v.ops, "detail": v.detail,
                                            "broken": broken})
        lines.append(f"VIOLATION property={prop} replay={p}")
        rc = 1
    if broken and not fresh:
        p = write_replay(prop, "unproved", {"property": prop, "no_longer_checks": broken,
                                           "note": "no failing input found by the search; the property is no longer shown to hold"})
        lines.append(f"VIOLATION property={prop} replay={p} no-failing-input-found")
        rc = 1

    # ---- 5. evidence
    evaluations = sum(r.evaluations for r in results)
    distinct = sum(len(r.distinct) for r in results)
    ev = {
        "property_id": prop,
        "tier": tier,
        "seed": seed,
        "level": "proof",
        "coverage": {
            "obligations": audit["obligations"],
            "discharged": audit["discharged"],
            "checker_cmd": checker_cmd,
            "trusted_base": registry.TRUSTED_BASE + spec.get("trusted_extra", []),
            "theorems": {t: audit["theorems"].get(t) for t in audit["theorems"]},
            "evaluations": evaluations,
            "distinct_nontrivial": distinct,
            "rule": " || ".join(f"{r.component}: {r.rule}" for r in results if r.rule),
            "samples": [s for r in results for s in r.samples][:6] or [{"theorems": list(audit["theorems"])[:5]}],
            "traces_validated_against_impl": sum(r.traces_validated for r in results),
            "disagreements_checked": sum(len(r.disagreements) for r in results),
            "exhaustive": all(r.exhaustive for r in results) if results else False,
            "components": {r.component: {"evaluations": r.evaluations, "distinct_nontrivial": len(r.distinct),
                                         "histogram": dict(sorted(r.histogram.items())), "notes": r.notes} for r in results},
            "leanchecker": leanchecker,
        },
        "assumptions": spec.get("assumptions", []),
        "wall_s": round(time.time() - t0, 2),
        "violations": len(fresh) + (1 if broken and not fresh else 0),
        "known_findings_reported": [v.signature for v in known],
    }
    EVIDENCE.mkdir(exist_ok=True)
    (EVIDENCE / f"{prop}.json").write_text(json.dumps(ev, indent=1, default=str))
    for l in lines:
        print(l)
    print(f"{prop} {tier}: obligations {audit['discharged']}/{audit['obligations']}, "
          f"{evaluations} cases ({distinct} distinct non-trivial), {len(broken)} broken, "
          f"{len(known)} known, {len(fresh)} new; {ev['wall_s']} s")
    return rc


if __name__ == "__main__":
    sys.exit(main(sys.argv[1:]))
