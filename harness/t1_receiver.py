"""T1 `ctl.receiver`: the real `WorkerController.process_from_remote` on generated message streams vs. the Lean receiver
model (Ctl/Receiver.lean).  Monitors: C04 (per worker: posted exactly once, in order, tagged) and C17 (nothing raises,
messages of a written-off worker are tolerated, one errordown at most)."""
from __future__ import annotations

import random
from typing import Any

import pytest

from common import CompResult, Disagreement, Violation, b, h, run_driver

KINDS = ["workerready", "collectionstart", "logstart", "testreport", "collectreport", "collectionfinish", "runtest_protocol_complete",
         "unscheduled", "logfinish", "warning_recorded", "logwarning", "internal_error"]


def run(tier: str, seed: int) -> CompResult:
    import sim as S
    from xdist.workermanage import Marker, WorkerController

    res = CompResult(component="ctl.receiver")
    res.rule = ("message streams of one worker (well-formed events of every kind, undecodable messages of four sorts, workerfinished, end marker, "
                "anything after those) through the real process_from_remote; non-trivial if >=3 events are posted; distinct by stream")
    rng = random.Random(f"{seed}-receiver")
    config = S.get_config(S.SimCfg(mode="load", numnodes=2, ids=[]))
    nseq = {"quick": 200, "search": 600}.get(tier, 3000)
    lines, impl = [], []
    bounds = []

    class Chan:
        def __init__(self) -> None:
            self.sent: list = []

        def send(self, obj: Any) -> None:
            self.sent.append(obj)

        def isclosed(self) -> bool:      # the rest of execnet's channel interface, as a refactoring of the code may use it
            return False

        def close(self) -> None:
            pass

        def _getremoteerror(self) -> Any:
            # nothing / a lost connection / an exception of the worker's entry code: the end marker means the worker is gone
            return rng.choice([None, None, EOFError("connection lost"), RuntimeError("remote entry code raised")])

    def mk_report(outcome: str) -> dict:
        rep = pytest.TestReport(nodeid="t.py::test_x", location=("t.py", 1, "test_x"), keywords={}, outcome=outcome,
                                longrepr=None if outcome == "passed" else "boom", when="call")
        return config.hook.pytest_report_to_serializable(config=config, report=rep)

    import contextlib
    import io

    for _ in range(nseq):
        posted: list = []
        node = WorkerController.__new__(WorkerController)
        node.config = config
        node.channel = Chan()
        node.putevent = posted.append
        node._down = False
        node._shutdown_sent = False
        node.log = lambda *a, **k: None
        node.gateway = type("G", (), {"id": "gw0", "spec": None})()
        seq_l, seq_i = ["recv-init"], ["ok"]
        n = rng.randrange(1, 12)
        nposts = 0
        raised = None
        produced = []
        for i in range(n):
            r = rng.random()
            if rng.random() < 0.12:
                # the main thread tells this worker to shut down between two messages (triggershutdown, check_schedule)
                sent_before = len(node.channel.sent)
                try:
                    node.shutdown()
                except Exception as e:  # noqa: BLE001
                    raised = e
                    break
                wrote = any(c[0] == "shutdown" for c in node.channel.sent[sent_before:])
                seq_l.append("recv-shut")
                seq_i.append(f"down={b(node._down)} sent={b(node._shutdown_sent)} | - | wrote={b(wrote)}")
                res.hit("shut")
            if r < 0.62:
                kind = rng.choice(KINDS)
                if kind == "collectionstart":
                    msg, line = (kind, {}), "recv ignored"
                else:
                    kw: dict[str, Any] = {}
                    if kind == "workerready":
                        kw = {"workerinfo": {"v": 1}}
                    elif kind in ("logstart", "logfinish"):
                        kw = {"nodeid": "t.py::x", "location": ("t.py", 1, "x")}
                    elif kind in ("testreport", "collectreport"):
                        kw = {"data": mk_report(rng.choice(["passed", "failed"]))}
                        if kind == "testreport":
                            kw["data"]["item_index"] = 3
                            kw["data"]["worker_id"] = "gw0"
                    elif kind == "collectionfinish":
                        kw = {"ids": ["a", "b"], "topdir": "/x"}
                    elif kind == "runtest_protocol_complete":
                        kw = {"item_index": 3, "duration": 0.1}
                    elif kind == "unscheduled":
                        kw = {"indices": [1, 2]}
                    elif kind == "warning_recorded":
                        import warnings

                        from xdist.remote import serialize_warning_message

                        wm = warnings.WarningMessage(UserWarning("w"), UserWarning, "f.py", 3)
                        kw = {"warning_message_data": serialize_warning_message(wm),
                              "when": "runtest", "nodeid": "t.py::x", "location": ("f.py", 3, "x")}
                    elif kind == "logwarning":
                        kw = {"message": "m", "code": "C1", "nodeid": "t.py::x", "fslocation": None}
                    elif kind == "internal_error":
                        kw = {"formatted_error": "boom"}
                    msg, line = (kind, kw), f"recv event {kind}"
                    produced.append(kind)
            elif r < 0.74:
                sort = rng.randrange(4)
                msg = [("no_such_event", {}), ("testreport", {"data": {"$report_type": "Nope"}}), 42, ("collectionfinish", {})][sort]
                line = "recv garbage"
            elif r < 0.86:
                msg, line = ("workerfinished", {"workeroutput": {"exitstatus": 0, "shouldfail": False, "shouldstop": False}}), "recv finished"
            else:
                msg, line = Marker.END, "recv end"
            before = len(posted)
            sent_before = len(node.channel.sent)
            try:
                with contextlib.redirect_stderr(io.StringIO()), contextlib.redirect_stdout(io.StringIO()):
                    node.process_from_remote(msg)  # type: ignore[arg-type]
            except BaseException as e:  # noqa: BLE001
                raised = e
                break
            names = []
            for ev, kw2 in posted[before:]:
                if ev in ("workerfinished", "errordown"):
                    names.append(ev)
                else:
                    names.append(f"event:{ev}")
                    if kw2.get("node", node) is not node and ev not in ("warning_recorded", "logwarning"):
                        res.violations.append(Violation("C04", "ctl.receiver", f"event {ev} posted without its worker", "event-untagged", list(seq_l), {}))
            nposts += len(names)
            wrote = any(c[0] == "shutdown" for c in node.channel.sent[sent_before:])
            seq_l.append(line)
            seq_i.append(f"down={b(node._down)} sent={b(node._shutdown_sent)} | {';'.join(names) or '-'} | wrote={b(wrote)}")
            res.hit(line.split()[1])
        if raised is not None:
            res.violations.append(Violation("C17", "ctl.receiver", f"process_from_remote raised {type(raised).__name__}: {raised}",
                                            "receiver-raised", list(seq_l), {}))
        # monitors on the whole stream
        nshut = sum(1 for c in node.channel.sent if c[0] == "shutdown")
        if nshut > 1:
            res.violations.append(Violation("C16", "ctl.receiver", f"{nshut} shutdown signals were written to one worker (main thread + receiver thread's error handler)",
                                            "shutdown-sent-twice", list(seq_l), {}))
        evs = [ev for ev, _ in posted]
        if evs.count("errordown") + evs.count("workerfinished") > 1:
            res.violations.append(Violation("C17", "ctl.receiver", f"a worker was reported down {evs.count('errordown') + evs.count('workerfinished')} times: {evs}",
                                            "down-posted-twice", list(seq_l), {}))
        term = next((i for i, e in enumerate(evs) if e in ("errordown", "workerfinished")), None)
        if term is not None and term != len(evs) - 1:
            for pr in ("C17", "C04"):
                res.violations.append(Violation(pr, "ctl.receiver", f"events {evs[term + 1:]} of a worker already written off were passed on "
                                                "(its tests were re-dispatched: they get a second verdict)", "events-after-down", list(seq_l), {}))
        body = [e for e in evs if e not in ("errordown", "workerfinished")]
        if body != produced[: len(body)]:
            res.violations.append(Violation("C04", "ctl.receiver", f"posted {body}, the worker produced {produced}", "posted-out-of-order", list(seq_l), {}))
        bounds.append((len(lines), len(seq_l), nposts >= 3))
        lines += seq_l
        impl += seq_i
    model = run_driver("ctl", lines)
    for start, n, nt in bounds:
        res.evaluations += 1
        if nt:
            res.distinct.add(h(lines[start:start + n]))
        bad = [j for j in range(n) if model[start + j] != impl[start + j]]
        if bad:
            j = bad[0]
            if len(res.disagreements) < 5:
                res.disagreements.append(Disagreement("ctl.receiver", lines[start:start + j + 1], model[start:start + j + 1], impl[start:start + j + 1], j))
        else:
            res.traces_validated += 1
    res.samples = [{"lines": lines[:6], "impl": impl[:6]}]
    return res
