"""T3: end-to-end runs of the real program (`python -m pytest -n ...` in a subprocess) on generated suites, with a recording
conftest written into the scratch suite (nothing is loaded into /repo).  Used by C04 (tallies vs. a single-process run,
report stream), C12 (identities, environment, fixtures, basetemp), C14 (warnings), C06 (groups on real marks).
"""
from __future__ import annotations

import json
import os
import random
import shutil
import subprocess
import sys
import textwrap
from collections import Counter
from concurrent.futures import ThreadPoolExecutor
from pathlib import Path
from typing import Any

from common import SRC, CompResult, Disagreement, Violation, h

CONFTEST = r'''
import json, os, warnings, pytest
REC = os.environ["VERIF_REC"]
def _w(obj):
    with open(os.path.join(REC, "%s-%d.jsonl" % (os.environ.get("PYTEST_XDIST_WORKER", "ctl"), os.getpid())), "a") as f:
        f.write(json.dumps(obj, default=str) + "\n")
def _is_worker(config): return hasattr(config, "workerinput")
_w({"k": "import-env", "env_worker": os.environ.get("PYTEST_XDIST_WORKER"), "env_count": os.environ.get("PYTEST_XDIST_WORKER_COUNT"),
    "env_uid": os.environ.get("PYTEST_XDIST_TESTRUNUID"), "pid": os.getpid()})

@pytest.hookimpl(tryfirst=True)
def pytest_runtest_protocol(item, nextitem):
    if _is_worker(item.config) or not item.config.pluginmanager.hasplugin("dsession"):
        _w({"k": "proto", "item": item.nodeid, "next": None if nextitem is None else nextitem.nodeid,
            "worker": os.environ.get("PYTEST_XDIST_WORKER")})

def pytest_runtest_logreport(report):
    node = getattr(report, "node", None)
    _w({"k": "report", "side": "worker" if os.environ.get("PYTEST_XDIST_WORKER") else "ctl", "nodeid": report.nodeid, "when": report.when,
        "outcome": report.outcome, "node": None if node is None else node.gateway.id, "worker_id": getattr(report, "worker_id", None),
        "longrepr": str(report.longrepr)[:300] if report.longrepr else "", "sections": report.sections,
        "props": list(report.user_properties), "wasxfail": getattr(report, "wasxfail", None),
        "testrun_uid": getattr(report, "testrun_uid", None)})

def pytest_collectreport(report):
    if not report.passed:
        _w({"k": "collect", "side": "worker" if os.environ.get("PYTEST_XDIST_WORKER") else "ctl", "nodeid": report.nodeid,
            "outcome": report.outcome, "longrepr": str(report.longrepr)[:200]})

def pytest_warning_recorded(warning_message, when, nodeid, location):
    _w({"k": "warning", "side": "worker" if os.environ.get("PYTEST_XDIST_WORKER") else "ctl",
        "category": warning_message.category.__name__, "message": str(warning_message.message),
        "filename": os.path.basename(warning_message.filename), "lineno": warning_message.lineno, "nodeid": nodeid, "when": when})

def pytest_sessionfinish(session, exitstatus):
    _w({"k": "finish", "side": "worker" if os.environ.get("PYTEST_XDIST_WORKER") else "ctl", "exitstatus": int(exitstatus)})
    if _is_worker(session.config) and os.environ.get("VERIF_FINISH_WARN"):
        # a warning raised while the worker's session ends (as coverage / reporting plugins do): it must still reach the controller
        warnings.warn(UserWarning("finish-warning-of-" + os.environ.get("PYTEST_XDIST_WORKER", "?")))

@pytest.fixture(autouse=True)
def _verif_identity(request, worker_id, testrun_uid, tmp_path_factory):
    _w({"k": "ident", "nodeid": request.node.nodeid, "env_worker": os.environ.get("PYTEST_XDIST_WORKER"),
        "env_count": os.environ.get("PYTEST_XDIST_WORKER_COUNT"), "env_uid": os.environ.get("PYTEST_XDIST_TESTRUNUID"),
        "fx_worker": worker_id, "fx_uid": testrun_uid, "basetemp": str(tmp_path_factory.getbasetemp()), "pid": os.getpid()})
    yield
'''


# a conftest.py below the root directory that pytest loads at start-up (`test*` directories of the invocation directory are
# scanned for initial conftests): its reporting hook is one of the controller's reporting hooks
SUB_CONFTEST = r'''
import json, os
REC = os.environ["VERIF_REC"]
def pytest_runtest_logreport(report):
    if not os.environ.get("PYTEST_XDIST_WORKER"):
        with open(os.path.join(REC, "ctl-sub-%d.jsonl" % os.getpid()), "a") as f:
            f.write(json.dumps({"k": "subreport", "side": "ctl", "nodeid": report.nodeid, "when": report.when, "outcome": report.outcome}) + "\n")
'''


def write_suite(root: Path, files: dict[str, str]) -> None:
    root.mkdir(parents=True, exist_ok=True)
    (root / "conftest.py").write_text(CONFTEST)
    for name, src in files.items():
        p = root / name
        p.parent.mkdir(parents=True, exist_ok=True)
        p.write_text(textwrap.dedent(src))


def run_pytest(root: Path, args: list[str], tag: str, timeout: int = 180, env_extra: dict[str, str] | None = None) -> dict[str, Any]:
    rec = root / f"rec-{tag}"
    shutil.rmtree(rec, ignore_errors=True)
    rec.mkdir()
    tmproot = root.parent / f"tmproot-{root.name}-{tag}"
    tmproot.mkdir(exist_ok=True)
    env = dict(os.environ, VERIF_REC=str(rec), PYTHONPATH=str(SRC), PYTEST_DEBUG_TEMPROOT=str(tmproot), PYTHONDONTWRITEBYTECODE="1")
    env.pop("PYTEST_ADDOPTS", None)
    env.update(env_extra or {})
    cmd = [sys.executable, "-m", "pytest", "-p", "no:cacheprovider", "-q", "--tb=short", *args]
    try:
        p = subprocess.run(cmd, cwd=root, env=env, capture_output=True, text=True, timeout=timeout)
        rc, out = p.returncode, p.stdout + p.stderr
    except subprocess.TimeoutExpired as e:
        rc, out = 124, "TIMEOUT " + str(e.stdout)[-500:]
    records = []
    for f in sorted(rec.glob("*.jsonl")):
        for line in f.read_text().splitlines():
            try:
                obj = json.loads(line)
                obj["_file"] = f.stem
                records.append(obj)
            except json.JSONDecodeError:
                pass
    shutil.rmtree(tmproot, ignore_errors=True)
    return {"rc": rc, "out": out, "records": records, "args": args}


def tally(records: list[dict], side: str) -> Counter:
    """pytest's summary categories from the published reports"""
    c: Counter = Counter()
    for r in records:
        if r["k"] != "report" or r["side"] != side:
            continue
        when, out = r["when"], r["outcome"]
        if out == "failed":
            c["failed" if when == "call" else "error"] += 1
        elif out == "skipped":
            c["xfailed" if r.get("wasxfail") is not None else "skipped"] += 1
        elif out == "passed" and when == "call":
            c["xpassed" if r.get("wasxfail") is not None else "passed"] += 1
    return c


# ----------------------------------------------------------------------------- suites

OUTCOMES = ["pass", "pass", "pass", "fail", "skip", "xfail", "xpass", "setuperr", "teardownerr", "out", "prop", "param"]


def gen_suite(rng: random.Random, with_warnings: bool = False, with_crash: bool = False, groups: bool = False) -> dict[str, str]:
    files: dict[str, str] = {}
    nfiles = rng.randrange(1, 4)
    for fi in range(nfiles):
        lines = ["import os, sys, warnings, pytest", "",
                 "@pytest.fixture", "def bad_setup():", "    raise RuntimeError('setup boom')", "",
                 "@pytest.fixture", "def bad_teardown():", "    yield", "    raise RuntimeError('teardown boom')", ""]
        n = rng.randrange(2, 7)
        in_class = False
        for ti in range(n):
            kind = rng.choice(OUTCOMES)
            ind = "    " if in_class else ""
            if not in_class and rng.random() < 0.25:
                lines += [f"class TestC{ti}:"]
                in_class = True
                ind = "    "
            elif in_class and rng.random() < 0.3:
                in_class = False
                ind = ""
            selfarg = "self, " if in_class else ""
            deco = []
            body = ["pass"]
            args = ""
            if groups and rng.random() < 0.5:
                deco.append(f"@pytest.mark.xdist_group(name='g{rng.randrange(2)}')")
            if kind == "fail":
                body = [f"assert {ti} == -1, 'failure text {fi}-{ti}'"]
            elif kind == "skip":
                deco.append("@pytest.mark.skip(reason='skipped here')")
            elif kind == "xfail":
                deco.append("@pytest.mark.xfail(reason='known')")
                body = ["assert 0"]
            elif kind == "xpass":
                deco.append("@pytest.mark.xfail(reason='known')")
            elif kind == "setuperr":
                args = "bad_setup"
            elif kind == "teardownerr":
                args = "bad_teardown"
            elif kind == "out":
                body = [f"print('captured {fi}-{ti}')", f"sys.stderr.write('err {fi}-{ti}\\n')"]
            elif kind == "prop":
                args = "record_property"
                body = [f"record_property('key{ti}', 'value {fi}')"]
            elif kind == "param":
                deco.append("@pytest.mark.parametrize('v', [1, 'a-b', 'x::y'])")
                args = "v"
                body = ["assert v != 'a-b'"]
            if with_warnings and rng.random() < 0.4:
                body = [f"warnings.warn({rng.choice(['UserWarning', 'DeprecationWarning', 'RuntimeWarning'])}('warned {fi}-{ti}'))"] + body
            for d in deco:
                lines.append(ind + d)
            lines.append(f"{ind}def test_{fi}_{ti}({selfarg}{args}):")
            lines += [f"{ind}    {b}" for b in body]
            lines.append("")
        files[f"test_m{fi}.py"] = "\n".join(lines) + "\n"
    if with_crash:
        files["test_zcrash.py"] = (
            "import os\n\n"
            "def test_before(): pass\n\n"
            "def test_crash():\n"
            "    flag = os.path.join(os.environ['VERIF_REC'], 'crashed-once')\n"
            "    if os.environ.get('PYTEST_XDIST_WORKER'):\n"
            "        try:\n"
            "            # atomic: with --dist each every environment reaches this test at about the same time, exactly one may die\n"
            "            os.close(os.open(flag, os.O_CREAT | os.O_EXCL | os.O_WRONLY))\n"
            "        except FileExistsError:\n"
            "            return\n"
            "        os._exit(1)\n\n"
            "def test_after(): pass\n")
    return files


# ----------------------------------------------------------------------------- checks

def check_identities(res: CompResult, r: dict[str, Any], n: int, ops: list[str]) -> None:
    """C12 on a real distributed run"""
    idents = [x for x in r["records"] if x["k"] == "ident"]
    reports = [x for x in r["records"] if x["k"] == "report" and x["side"] == "ctl"]

    def fire(sig: str, what: str) -> None:
        res.violations.append(Violation("C12", "e2e.identity", what, sig, ops, {"args": r["args"]}))

    by_pid: dict[int, set] = {}
    for x in idents:
        by_pid.setdefault(x["pid"], set()).add(x["env_worker"])
        if x["env_worker"] != x["fx_worker"] or not str(x["env_worker"]).startswith("gw"):
            fire("env-fixture-differ", f"PYTEST_XDIST_WORKER={x['env_worker']} but worker_id fixture={x['fx_worker']}")
        if x["env_count"] != str(n):
            fire("worker-count-wrong", f"PYTEST_XDIST_WORKER_COUNT={x['env_count']} with -n{n}")
        if x["env_uid"] != x["fx_uid"]:
            fire("uid-env-fixture-differ", f"testrun uid env={x['env_uid']} fixture={x['fx_uid']}")
    for x in r["records"]:
        if x["k"] == "import-env" and x["pid"] in by_pid:        # a worker process: what it saw when its conftest was imported
            inproc = next(iter(by_pid[x["pid"]]))
            uid = next((i["env_uid"] for i in idents if i["pid"] == x["pid"]), None)
            if x["env_worker"] != inproc or x["env_count"] != str(n) or x["env_uid"] != uid:
                fire("env-not-set-at-startup", f"worker {inproc}: while its conftest was imported the environment said worker={x['env_worker']} "
                     f"count={x['env_count']} uid={x['env_uid']}")
    ids_per_proc = [next(iter(s)) for s in by_pid.values() if len(s) == 1]
    if len(set(ids_per_proc)) != len(ids_per_proc) or any(len(s) != 1 for s in by_pid.values()):
        fire("worker-id-shared", f"worker ids per process: { {p: sorted(s) for p, s in by_pid.items()} }")
    if len({x["env_uid"] for x in idents}) > 1:
        fire("uid-not-shared", f"several run uids: { {x['env_uid'] for x in idents} }")
    temps = {x["env_worker"]: x["basetemp"] for x in idents}
    if len(set(temps.values())) != len(temps):
        fire("basetemp-shared", f"base temporary directories {temps}")
    parents = {os.path.dirname(t) for t in temps.values()}
    if len(parents) > 1:
        fire("basetemp-parents-differ", f"base temporary directories {temps}")
    for w, t in temps.items():
        if os.path.basename(t) != f"popen-{w}":
            fire("basetemp-name", f"worker {w} has basetemp {t}")
    ran_on = {x["nodeid"]: x["env_worker"] for x in idents}
    for rep in reports:
        if rep["when"] == "???":
            continue
        if rep["node"] != ran_on.get(rep["nodeid"], rep["node"]) and sum(1 for x in idents if x["nodeid"] == rep["nodeid"]) == 1:
            fire("report-tagged-wrong-worker", f"report of {rep['nodeid']} is tagged {rep['node']}, it ran on {ran_on.get(rep['nodeid'])}")
        if rep["worker_id"] != rep["node"]:
            fire("report-worker-id-differs", f"report.worker_id={rep['worker_id']} node={rep['node']}")


def check_against_inprocess(res: CompResult, dist: dict[str, Any], base: dict[str, Any], ops: list[str], label: str) -> None:
    """C04: tallies, ids, exit status of the distributed run equal those of the single-process run; per-report fidelity"""
    def fire(sig: str, what: str) -> None:
        res.violations.append(Violation("C04", "e2e.reports", what, sig, ops, {"args": dist["args"], "out": dist["out"][-600:]}))

    td, tb = tally(dist["records"], "ctl"), tally(base["records"], "ctl")
    if td != tb:
        fire("tally-differs", f"{label}: tallies {dict(td)} differ from the single-process run {dict(tb)}")
    if dist["rc"] != base["rc"]:
        fire("exit-status-differs", f"{label}: exit status {dist['rc']} vs {base['rc']} in a single process")

    lg = "loadgroup" in dist["args"]

    def key(r: dict) -> tuple:
        nid = r["nodeid"]
        if lg and "@" in nid.rsplit("]", 1)[-1]:
            nid = nid.rsplit("@", 1)[0]      # --dist loadgroup tags the id with "@<group>" (remote.py:236-252, documented)
        return (nid, r["when"])

    bd = {key(r): r for r in base["records"] if r["k"] == "report" and r["side"] == "ctl"}
    dd: dict[tuple, dict] = {}
    for r in dist["records"]:
        if r["k"] == "report" and r["side"] == "ctl":
            if key(r) in dd:
                fire("report-delivered-twice", f"{label}: {key(r)} published twice")
            dd[key(r)] = r
    if set(bd) != set(dd):
        fire("report-ids-differ", f"{label}: missing {sorted(set(bd) - set(dd))[:4]} extra {sorted(set(dd) - set(bd))[:4]}")
    for k, r in dd.items():
        b = bd.get(k)
        if b is None:
            continue
        for fld in ("outcome", "sections", "props", "wasxfail"):
            if r[fld] != b[fld]:
                fire("report-field-differs", f"{label}: {k} field {fld}: {r[fld]!r} vs {b[fld]!r} in a single process")
        if (r["longrepr"] or "").split("\n")[-1][:60] != (b["longrepr"] or "").split("\n")[-1][:60]:
            fire("report-longrepr-differs", f"{label}: {k} failure text differs")
        if r["node"] is None or r["worker_id"] != r["node"]:
            fire("report-untagged", f"{label}: {k} carries node={r['node']} worker_id={r['worker_id']}")
    # every reporting hook the controller has loaded gets every report: the one of a conftest.py below the root directory too
    if any(r["k"] == "subreport" for r in dist["records"]) or "tests_sub/conftest.py" in json.loads(ops[0]).get("files", {}):
        sub = Counter((r["nodeid"], r["when"], r["outcome"]) for r in dist["records"] if r["k"] == "subreport")
        top = Counter((r["nodeid"], r["when"], r["outcome"]) for r in dist["records"] if r["k"] == "report" and r["side"] == "ctl")
        if sub != top:
            fire("hook-below-rootdir-starved", f"{label}: the reporting hook of tests_sub/conftest.py (loaded at start-up) received {sum(sub.values())} "
                 f"of the {sum(top.values())} reports the controller published")
    # per worker: the controller published the worker's reports in the order the worker produced them
    produced: dict[str, list] = {}
    for r in dist["records"]:
        if r["k"] == "report" and r["side"] == "worker":
            produced.setdefault(r["_file"], []).append(key(r))
    published: dict[str, list] = {}
    for r in dist["records"]:
        if r["k"] == "report" and r["side"] == "ctl" and r["node"]:
            published.setdefault(r["node"], []).append(key(r))
    for f_, seq in produced.items():
        w = f_.split("-")[0]
        if published.get(w, []) != seq and len([x for x in produced if x.startswith(w + "-")]) == 1:
            fire("worker-report-order", f"{label}: worker {w} produced {seq[:5]}..., the controller published {published.get(w, [])[:5]}...")


def check_crash_run(res: CompResult, d: dict[str, Any], n: int, mode: str, ops: list[str]) -> None:
    """C03 / C01 on a real run in which `test_crash` kills its worker once: every other test ran exactly once, the crashed
    test was started once and not again, exactly one 'crashed while running' report names the dead worker"""
    def fire(prop: str, sig: str, what: str) -> None:
        res.violations.append(Violation(prop, "e2e.crash", what, sig, ops, {"args": d["args"], "out": d["out"][-500:]}))

    each = mode == "each"
    protos = [x for x in d["records"] if x["k"] == "proto"]
    starts = Counter((x["item"].split("@")[0], x["worker"] if each else None) for x in protos)
    reports = [x for x in d["records"] if x["k"] == "report" and x["side"] == "ctl"]
    crash_reps = [x for x in reports if x["when"] == "???"]
    if each:
        # C08 on a real run: every environment runs every test exactly once (the crashing test once per environment, reported as
        # crashed; what the dead worker had left is run by its replacement)
        setups = Counter(x["nodeid"] for x in reports if x["when"] == "setup")
        allids = {x["item"] for x in protos}
        for t in sorted(allids):
            if t.endswith("::test_crash"):
                continue
            if setups[t] != n:
                fire("C08", "e2e-each-test-count", f"--dist each with {n} environments: {t} was run {setups[t]} times (setup reports)")
                break
        if len(crash_reps) != 1:
            fire("C08", "e2e-each-crash-count", f"--dist each, test_crash kills one worker once: {len(crash_reps)} crash reports")
        return
    for (item, _), c in starts.items():
        if c != 1:
            fire("C03", "e2e-test-started-twice", f"{item} was started {c} times in a run with one worker crash")
    called = {x["nodeid"].split("@")[0] for x in reports if x["when"] == "call"} | {x["nodeid"].split("@")[0] for x in reports if x["when"] == "setup" and x["outcome"] != "passed"}
    collected = {x["item"].split("@")[0] for x in protos}
    ids_all = {x["nodeid"].split("@")[0] for x in reports if x["when"] != "???"}
    crashed_flag = any(x["nodeid"].split("@")[0].endswith("::test_crash") for x in crash_reps)
    if len(crash_reps) != 1 or not crashed_flag:
        fire("C03", "e2e-crash-report-count", f"expected exactly one crash report for test_crash, got {[(x['nodeid'], x['node']) for x in crash_reps]}")
    else:
        rep = crash_reps[0]
        ran_on = [x["worker"] for x in protos if x["item"].split("@")[0].endswith("::test_crash")]
        if ran_on and rep["node"] != ran_on[0]:
            fire("C03", "e2e-crash-report-wrong-worker", f"test_crash died on {ran_on[0]}, the report names {rep['node']}")
        if "crashed while running" not in rep["longrepr"]:
            fire("C03", "e2e-crash-message", f"crash report text: {rep['longrepr'][:100]!r}")
    for want in ("::test_before", "::test_after"):
        if not any(i.endswith(want) for i in ids_all):
            fire("C03", "e2e-test-lost-after-crash", f"no report for {want} (reports for {sorted(ids_all)[:6]}...)")
    if d["rc"] != 1:
        fire("C03", "e2e-crash-exit-status", f"exit status {d['rc']} (expected 1: one failed test)")


def e2e(tier: str, seed: int, what: str) -> CompResult:
    res = CompResult(component=f"e2e.{what}")
    res.rule = ("real `pytest -n` subprocess runs on generated suites with a recording conftest; a run is non-trivial if >=2 workers executed tests; "
                "distinct by hash of (suite, arguments)")
    rng = random.Random(f"{seed}-e2e-{what}")
    scratch = Path(os.environ.get("VERIF_SCRATCH", "/tmp")) / f"e2e-{what}"
    nsuites = {"quick": 3, "search": 6}.get(tier, 16)
    modes = ["load", "loadscope", "loadfile", "loadgroup", "worksteal", "each"]
    jobs = []
    for si in range(nsuites):
        root = scratch / f"s{si}"
        files = gen_suite(rng, with_warnings=(what == "warnings"), with_crash=(what in ("crash", "crash-each") or (what == "identity" and si % 2 == 0)), groups=True)
        if what == "warnings" and si % 2 == 1:
            # a config-time warning in every worker, issued before its interactor exists ("No files were found in testpaths")
            files["pytest.ini"] = "[pytest]\ntestpaths = no_such_dir\n"
        if what == "reports" and si % 2 == 1:
            files["tests_sub/conftest.py"] = SUB_CONFTEST
            files["tests_sub/test_sub.py"] = "def test_sub_a(): pass\n\ndef test_sub_b(): assert 0, 'sub failure'\n"
        write_suite(root, files)
        combos = [(rng.choice(modes[:5]), rng.choice([1, 2, 3]))] if tier == "quick" else [(m, rng.choice([1, 2, 4])) for m in rng.sample(modes[:5], 3)]
        if what == "crash-each":
            combos = [("each", rng.choice([2, 3]))]
        # some runs name their workers explicitly (`--tx popen//id=...`): a replacement must still get a fresh id
        explicit = what in ("crash", "crash-each") and rng.random() < (0.7 if what == "crash-each" else 0.35)
        combos = [(m, n, explicit and n >= 2) for m, n in combos]
        jobs.append((root, files, combos))

    def one(job: tuple) -> list[tuple]:
        root, files, combos = job
        out = []
        base = run_pytest(root, ["-n0"], "base") if what not in ("identity", "crash") else None
        for mode, n, explicit in combos:
            if explicit:
                args = [a for k in range(n) for a in ("--tx", f"popen//id=env{chr(65 + k)}")] + ["--dist", mode]
            else:
                args = ["-n", str(n), "--dist", mode]
            # a nested run: the controller itself runs under an outer xdist worker and inherits that worker's identity variables;
            # the inner workers must still get their own
            nested = what == "identity" and (n + len(mode)) % 2 == 0
            extra = {"PYTEST_XDIST_WORKER": "gw7", "PYTEST_XDIST_WORKER_COUNT": "9", "PYTEST_XDIST_TESTRUNUID": "outer-run-uid"} if nested else None
            if what == "warnings":
                extra = {"VERIF_FINISH_WARN": "1"}
            d = run_pytest(root, args, f"{mode}{n}", env_extra=extra)
            out.append((root, files, mode, n, base, d))
        return out

    with ThreadPoolExecutor(max_workers=6) as ex:
        results = [x for part in ex.map(one, jobs) for x in part]
    for root, files, mode, n, base, d in results:
        ops = [json.dumps({"files": files, "args": d["args"]})]
        res.evaluations += 1
        res.hit(f"mode:{mode}")
        res.hit(f"n:{n}")
        res.hit(f"rc:{d['rc']}")
        workers = {x["worker"] for x in d["records"] if x["k"] == "proto" and x.get("worker")}
        if len(workers) >= 2:
            res.distinct.add(h((files, d["args"])))
        if d["rc"] in (3, 4, 124):
            res.violations.append(Violation({"identity": "C17", "crash": "C03", "crash-each": "C08", "warnings": "C14"}.get(what, "C04"), f"e2e.{what}", f"pytest {d['args']} ended with status {d['rc']}: {d['out'][-300:]}",
                                            f"e2e-internal-error:{d['rc']}", ops, {}))
            continue
        if what == "identity":
            check_identities(res, d, n, ops)
        elif what in ("crash", "crash-each"):
            check_crash_run(res, d, n, mode, ops)
        elif what == "reports" and base is not None:
            check_against_inprocess(res, d, base, ops, f"--dist {mode} -n{n}")
        elif what == "warnings" and base is not None:
            check_warnings(res, d, base, ops, f"--dist {mode} -n{n}")
        res.traces_validated += 1
        if len(res.samples) < 1:
            res.samples.append({"args": d["args"], "tally": dict(tally(d["records"], "ctl")), "rc": d["rc"]})
    shutil.rmtree(scratch, ignore_errors=True)
    return res


def check_warnings(res: CompResult, dist: dict[str, Any], base: dict[str, Any], ops: list[str], label: str) -> None:
    """C14 end to end: the warnings recorded on the controller equal those of the single-process run"""
    lg = "loadgroup" in dist["args"]

    def nid(x: str) -> str:
        return x.rsplit("@", 1)[0] if lg and "@" in x.rsplit("]", 1)[-1] else x     # documented "@<group>" tag of loadgroup

    def ws(r: dict[str, Any]) -> Counter:
        return Counter((x["category"], x["message"], x["filename"], x["lineno"], nid(x["nodeid"])) for x in r["records"]
                       if x["k"] == "warning" and x["side"] == "ctl" and x["filename"].startswith("test_"))

    # the warnings of these suites (config-time, in tests, at session end) must not cost a single test
    def reported(r: dict[str, Any]) -> set:
        return {nid(x["nodeid"]) for x in r["records"] if x["k"] == "report" and x["side"] == "ctl"}

    missing = sorted(reported(base) - reported(dist))
    if missing and dist["rc"] not in (3, 4, 124):
        res.violations.append(Violation("C14", "e2e.warnings", f"{label}: {len(missing)} test(s) of the single-process run have no report at all in the distributed run "
                                        f"(e.g. {missing[:2]}); exit status {dist['rc']}; tail: {dist['out'][-200:]}", "tests-lost-in-warnings-run", ops, {}))
    # warnings raised in the workers' pytest_sessionfinish (conftest): one per worker that took part
    took_part = sorted({x["worker"] for x in dist["records"] if x["k"] == "proto" and x.get("worker")})
    arrived = {x["message"] for x in dist["records"] if x["k"] == "warning" and x["side"] == "ctl"}
    lost = [w for w in took_part if not any(f"finish-warning-of-{w}" in m for m in arrived)]
    if lost and dist["rc"] not in (3, 4, 124):
        res.violations.append(Violation("C14", "e2e.warnings", f"{label}: the warning raised in pytest_sessionfinish of worker(s) {lost} never reached the controller",
                                        "sessionfinish-warning-lost", ops, {}))
    a, b = ws(dist), ws(base)
    if a != b:
        res.violations.append(Violation("C14", "e2e.warnings", f"{label}: warnings on the controller {sorted((a - b).elements())[:3]} extra, "
                                        f"{sorted((b - a).elements())[:3]} missing compared with a single-process run", "warnings-differ", ops, {}))


# ----------------------------------------------------------------------------- the modelled worker against real workers
WFIN_PLUGIN = r'''
import json, os
def pytest_sessionfinish(session, exitstatus):
    if os.environ.get("PYTEST_XDIST_WORKER"):
        with open(os.path.join(os.environ["VERIF_REC"], "wfin-%s-%d.jsonl" % (os.environ["PYTEST_XDIST_WORKER"], os.getpid())), "a") as f:
            f.write(json.dumps({"k": "wfin", "worker": os.environ["PYTEST_XDIST_WORKER"], "exitstatus": int(exitstatus),
                                "sf": bool(session.shouldfail), "ss": bool(session.shouldstop)}) + "\n")
'''

# scenario -> (files, arguments, what the simulated worker of sim.py (and `Sys.mainStep` of the Lean model) does in that situation):
#   per worker that ran tests: "exit2=<session ended with exit status 2> sf=<shouldfail set> ss=<shouldstop set>", and the tests started
WORKER_MODEL = {
    # a collection error does not keep an xdist worker from running tests (sim.py: `collect` -> `loop0`; MainP.collect interrupt=false)
    "collect-error": ({"test_ok.py": "def test_a(): pass\n\ndef test_b(): pass\n", "test_bad.py": "import no_such_module_xyz\n\ndef test_c(): pass\n"},
                      ["-n2"], ["exit2=0 sf=0 ss=0"], ["test_a", "test_b"]),
    # pytest.exit() inside a test: exit status 2, no completion event, nothing of this worker's queue runs afterwards (sim.py kind "exit")
    "exit-in-test": ({"test_e.py": "import pytest\n\ndef test_a(): pass\n\ndef test_b():\n    pytest.exit('bye')\n\ndef test_c(): pass\n\ndef test_d(): pass\n"},
                     ["-n1"], ["exit2=1 sf=0 ss=0"], ["test_a", "test_b"]),
    # session.shouldstop set by a test: the worker leaves its loop after that test and says so (sim.py kind "stop")
    "shouldstop-in-test": ({"test_s.py": "def test_a(): pass\n\ndef test_b(request):\n    request.session.shouldstop = 'plugin asked to stop'\n\n"
                                         "def test_c(): pass\n\ndef test_d(): pass\n"},
                           ["-n1"], ["exit2=0 sf=0 ss=1"], ["test_a", "test_b"]),
    # the worker counts its own failures against --maxfail and leaves its loop (sim.py `worker_maxfail`)
    "maxfail-in-worker": ({"test_x.py": "def test_a(): assert 0\n\ndef test_b(): pass\n\ndef test_c(): pass\n\ndef test_d(): pass\n"},
                          ["-n1", "-x"], ["exit2=0 sf=1 ss=0"], ["test_a"]),
}


def worker_model(tier: str, seed: int) -> CompResult:
    """The life cycle of a worker process is *modelled* (sim.py's worker, `Sys.mainStep`): pytest core decides it, not xdist.
    These real runs check the modelled behaviour against real workers; a difference is a broken correspondence of the model
    (it was one once: DESIGN 12.17), not by itself a violation."""
    res = CompResult(component="e2e.worker-model")
    res.rule = "real `pytest -n` runs of fixed suites; per worker that ran tests: exit status 2?, shouldfail?, shouldstop?, and the tests it started"
    scratch = Path(os.environ.get("VERIF_SCRATCH", "/tmp")) / "e2e-worker-model"
    shutil.rmtree(scratch, ignore_errors=True)

    def one(name: str) -> tuple:
        files, args, exp_w, exp_ran = WORKER_MODEL[name]
        root = scratch / name
        write_suite(root, dict(files))
        (root / "wfin_plugin.py").write_text(WFIN_PLUGIN)
        d = run_pytest(root, ["-p", "wfin_plugin", *args], name)
        ran_by = {r["worker"] for r in d["records"] if r["k"] == "proto" and r.get("worker")}
        obs_w = sorted({f"exit2={int(r['exitstatus'] == 2)} sf={int(r['sf'])} ss={int(r['ss'])}" for r in d["records"] if r["k"] == "wfin" and r["worker"] in ran_by})
        obs_ran = sorted({r["item"].split("::")[-1] for r in d["records"] if r["k"] == "proto"})
        return name, files, args, sorted(set(exp_w)), exp_ran, obs_w, obs_ran, d

    with ThreadPoolExecutor(max_workers=4) as ex:
        results = list(ex.map(one, WORKER_MODEL))
    for name, files, args, exp_w, exp_ran, obs_w, obs_ran, d in results:
        res.evaluations += 1
        res.hit(f"scenario:{name}")
        res.distinct.add(h((name, obs_w, obs_ran)))
        model = [f"workers {' | '.join(exp_w) or '-'}", f"ran {','.join(exp_ran)}"]
        impl = [f"workers {' | '.join(obs_w) or '-'}", f"ran {','.join(obs_ran)}"]
        if model != impl:
            at = 0 if model[0] != impl[0] else 1
            res.disagreements.append(Disagreement("e2e.worker-model", [json.dumps({"scenario": name, "files": files, "args": args})], model, impl, at,
                                                  f"real workers behave differently from the modelled worker in scenario {name!r}: {d['out'][-300:]}"))
        res.traces_validated += 1
    shutil.rmtree(scratch, ignore_errors=True)
    return res
