#!/usr/bin/env python3
"""Confirms a seeded change delivered by a sub-agent, in a fresh scratch worktree of /repo (outside /repo and /verif):
   demo passes on the unchanged tree, fails with the patch, and the pinned test suite still passes with the patch.
   usage: mutverify.py <mutation-dir> <name> [--no-suite]
   writes <mutation-dir>/verify.json and removes the worktree."""
from __future__ import annotations

import json
import os
import re
import shutil
import subprocess
import sys
import time
import xml.etree.ElementTree as ET
from pathlib import Path

KNOWN_FAIL = {"test_handlecrashitem_one", "test_remote_usage_prog", "test_workqueue_ordered_by_size"}


def sh(cmd: str, cwd: str, env: dict, timeout: int) -> tuple[int, str]:
    try:
        p = subprocess.run(cmd, shell=True, cwd=cwd, env=env, capture_output=True, text=True, timeout=timeout)
        return p.returncode, (p.stdout + p.stderr)[-3000:]
    except subprocess.TimeoutExpired as e:
        return 124, f"TIMEOUT after {timeout}s: {(e.stdout or b'')[-1500:]!r}"


def main() -> int:
    mdir = Path(sys.argv[1]).resolve()
    name = sys.argv[2]
    suite = "--no-suite" not in sys.argv
    wt = Path("/tmp/mv") / name
    if wt.exists():
        subprocess.run(["git", "-C", "/repo", "worktree", "remove", "--force", str(wt)])
        shutil.rmtree(wt, ignore_errors=True)
    wt.parent.mkdir(exist_ok=True)
    subprocess.run(["/verif/harness/mkworktree.sh", str(wt)], check=True)
    res: dict = {"name": name, "at": time.strftime("%F %T")}
    try:
        meta = json.loads((mdir / "meta.json").read_text())
        how = str(meta.get("how_to_run_demo", ""))
        orig = None
        m = re.search(r"/tmp/mut/C\d\d", how + (mdir / "patch.diff").read_text()[:0])
        demo_files = [p for p in mdir.iterdir() if p.name not in ("patch.diff", "meta.json", "verify.json") and p.is_file()]
        ddir = wt / "_demo"
        ddir.mkdir()
        for p in demo_files:
            txt = p.read_text(errors="replace")
            txt = re.sub(r"/tmp/mut\d*/C\d\d(?:/MUTATION\d)?(?=/src|['\"/ ]|$)", lambda mm: str(wt) if "MUTATION" not in mm.group(0) else str(ddir), txt)
            (ddir / p.name).write_text(txt)
        demo = next((p for p in demo_files if p.name.startswith("demo")), demo_files[0])
        pytester = "-p pytester" in how
        use_pytest = pytester or ("--python" not in sys.argv and (("python -m pytest" in how and demo.name in how) or demo.name.startswith("test_")))
        tmproot = Path("/tmp/mv-tmp") / name
        shutil.rmtree(tmproot, ignore_errors=True)
        tmproot.mkdir(parents=True)
        env = dict(os.environ, PYTHONPATH=f"{wt}/src", PYTEST_DEBUG_TEMPROOT=str(tmproot), PYTHONDONTWRITEBYTECODE="1")
        cmd = (f"/venv/bin/python -m pytest -q -p no:cacheprovider {'-p pytester ' if pytester else '-x '}{ddir / demo.name}" if use_pytest
               else f"/venv/bin/python {ddir / demo.name}")
        res["demo_cmd"] = cmd
        rc0, out0 = sh(cmd, str(wt), env, 900)
        res["demo_unpatched_rc"] = rc0
        res["demo_unpatched_tail"] = out0[-600:]
        ap = subprocess.run(["git", "apply", str(mdir / "patch.diff")], cwd=wt, capture_output=True, text=True)
        res["patch_applies"] = ap.returncode == 0
        if ap.returncode != 0:
            res["apply_err"] = ap.stderr[-500:]
        else:
            rc1, out1 = sh(cmd, str(wt), env, 900)
            res["demo_patched_rc"] = rc1
            res["demo_patched_tail"] = out1[-600:]
            if suite:
                junit = wt / "_junit.xml"
                t = time.time()
                rc2, out2 = sh(f"/venv/bin/python -m pytest -q -p no:cacheprovider --timeout=900 --continue-on-collection-errors "
                               f"--junitxml={junit} testing", str(wt), env, 3600)
                res["suite_rc"] = rc2
                res["suite_s"] = round(time.time() - t)
                failed = []
                if junit.exists():
                    for tc in ET.parse(junit).getroot().iter("testcase"):
                        if tc.find("failure") is not None or tc.find("error") is not None:
                            failed.append(f"{tc.get('classname')}::{tc.get('name')}")
                res["suite_failed"] = failed
                res["suite_unexpected"] = [f for f in failed if not any(k in f for k in KNOWN_FAIL)]
                res["suite_tail"] = out2[-400:]
        ok = (res.get("demo_unpatched_rc") == 0 and res.get("patch_applies") and res.get("demo_patched_rc") not in (0, None, 124)
              and (not suite or (res.get("suite_unexpected") == [] and res.get("suite_rc") in (0, 1))))
        res["confirmed"] = bool(ok)
    finally:
        subprocess.run(["git", "-C", "/repo", "worktree", "remove", "--force", str(wt)], capture_output=True)
        shutil.rmtree(wt, ignore_errors=True)
        shutil.rmtree(Path("/tmp/mv-tmp") / name, ignore_errors=True)
    (mdir / "verify.json").write_text(json.dumps(res, indent=1))
    print(json.dumps({k: v for k, v in res.items() if not k.endswith("_tail")}, indent=1))
    return 0 if res.get("confirmed") else 1


if __name__ == "__main__":
    sys.exit(main())
