"""T1 for C19: the real `make_reltoroot`, `HostRSync.filter`, `NodeManager._getrsyncdirs` / `_getrsyncoptions` vs. the Lean
model (Pure/Remote.lean), on a real scratch tree."""
from __future__ import annotations

import json
import os
import random
from pathlib import Path
from typing import Any

from common import CompResult, Disagreement, Violation, b, esc, h, run_driver, show_str_list


def run(tier: str, seed: int) -> CompResult:
    import execnet
    from _pytest.config import _prepareconfig

    from xdist.workermanage import HostRSync, NodeManager, make_reltoroot

    res = CompResult(component="pure.remote")
    res.rule = ("arguments (existing files under a root with and without '::' selectors, the root itself, non-existent names, existing paths outside all "
                "roots incl. siblings sharing a string prefix, relative paths) x root sets; patterns x names for the filter; spec lists; distinct by line")
    rng = random.Random(f"{seed}-remote")
    base = (Path(os.environ.get("VERIF_SCRATCH", "/tmp")) / "remote").resolve()
    files = ["rootA/t/test_x.py", "rootA/test_y.py", "rootA/nested/deep/test_z.py", "rootB/test_b.py", "rootA_extra/test_e.py",
             "outside/test_o.py", "rootB/sub/conftest.py"]
    for f in files:
        p = base / f
        p.parent.mkdir(parents=True, exist_ok=True)
        p.write_text("def test_x(): pass\n")
    existing = {str(base / f) for f in files} | {str(p) for f in files for p in (base / f).parents if str(p).startswith(str(base))}
    rootsets = [["rootA"], ["rootA", "rootB"], ["rootB", "rootA"], ["rootA/nested", "rootA"], ["rootA", "rootA/nested"], []]
    sels = ["", "::test_x", "::C::test_m[a::b]", "::test_p[1-2]", "::"]
    lines, impl = [], []
    n = {"quick": 400, "search": 1000}.get(tier, 5000)

    def add(line: str, out: str) -> None:
        lines.append(line)
        impl.append(out)
        res.distinct.add(h(line))

    cwd = os.getcwd()
    os.chdir(base)
    try:
        for _ in range(n):
            roots = [base / r for r in rng.choice(rootsets)]
            kind = rng.choice(["file", "file", "root", "missing", "outside", "prefix", "dir", "relative", "dotted"])
            if kind == "file":
                ps = str(base / rng.choice(files[:4]))
            elif kind == "root":
                ps = str(rng.choice(roots)) if roots else str(base / "rootA")
            elif kind == "missing":
                ps = rng.choice(["no_such.py", str(base / "rootA/no_such.py"), "-k", "tests"])
            elif kind == "outside":
                ps = str(base / "outside/test_o.py")
            elif kind == "prefix":
                ps = str(base / "rootA_extra/test_e.py")
            elif kind == "dir":
                ps = str(base / "rootA/t")
            elif kind == "relative":
                ps = rng.choice(["rootA/test_y.py", "rootB/test_b.py"])
            else:
                ps = str(base / "rootA") + "/./t//test_x.py"
            rest = rng.choice(sels)
            arg = ps + rest
            norm = os.path.normpath(ps) if ps.startswith("/") else ps
            exists = (norm in existing) if ps.startswith("/") else (str(base / ps) in existing)
            try:
                r = make_reltoroot(roots, [arg])
                out = f"ok {esc(r[0])}"
            except ValueError:
                out = "ValueError"
            add(f"reltoroot {b(exists)} {show_str_list(str(x) for x in roots)} {esc(ps)} {esc(rest)}", out)
            res.hit(f"arg:{kind}")
            # ---- monitors (C19 sentences, independent of the model)
            under = [x for x in roots if ps.startswith("/") and (Path(norm) == x or x in Path(norm).parents)]
            if not exists and out != f"ok {esc(arg)}":
                res.violations.append(Violation("C19", "pure.remote", f"argument {arg!r} names nothing on disk but became {out}", "missing-arg-rewritten", [lines[-1]], {}))
            if exists and not under and out != "ValueError":
                res.violations.append(Violation("C19", "pure.remote", f"existing path {arg!r} lies outside the roots {[str(x) for x in roots]} but was accepted: {out}",
                                                "outside-path-accepted", [lines[-1]], {}))
            if exists and under:
                x = under[0] if len(under) == 1 else next(r for r in roots if r in under)
                rel = os.path.relpath(norm, x)
                want = f"ok {esc(x.name + '/' + rel + rest)}"
                if out != want:
                    res.violations.append(Violation("C19", "pure.remote", f"{arg!r} under root {x} became {out}, expected {want}", "wrong-rewrite", [lines[-1]], {}))
    finally:
        os.chdir(cwd)
    # ---- the rsync filter
    pats = [".*", "*.pyc", "*.pyo", "*~", "build*", "*.egg-info", "t?st", "[ab]*", "[!a-c]x", "data[0-9]", "x[", "a*b*c", "*/skip/*", "**", "?"]
    names = ["mod.py", "mod.pyc", ".git", "a~", "build_1", "x.egg-info", "test", "tast", "bx", "dx", "ax", "data7", "datax", "x[", "abc", "aXbYc", "skip", "q", "", "pyc"]
    for _ in range(n):
        user = rng.sample(pats[4:], rng.randrange(0, 3))
        ignores = NodeManager.DEFAULT_IGNORES + user
        name = rng.choice(names) or "n"
        d = rng.choice(["/r", "/r/pkg", "/r/skip/in", "/r/.hidden"])
        full = f"{d}/{name}"
        hr = HostRSync("/r", ignores=ignores)
        out = b(hr.filter(full))
        add(f"rfilter {show_str_list(ignores)} {esc(name)} {esc(full)}", out)
        import fnmatch

        want = not any(fnmatch.fnmatchcase(name, p) or fnmatch.fnmatchcase(full, p) for p in ignores)
        if (out == "1") != want:
            res.violations.append(Violation("C19", "pure.remote", f"filter({full!r}) = {out} with ignores {ignores}", "filter-wrong", [lines[-1]], {}))
        res.hit("filter:" + out)
    # ---- which specs synchronise, and the ignore options (two sessions in one process: the built-in list must not grow)
    import pytest

    pyt = os.path.dirname(pytest.__file__)
    import _pytest

    pyt2 = os.path.dirname(_pytest.__file__)
    speclists = [["popen"], ["popen", "popen"], ["popen//chdir=abc"], ["popen", "popen//chdir=abc"], ["socket=1.2.3.4:8888"], ["ssh=h", "popen"]]
    for k in range(12 if tier == "quick" else 60):
        specs = rng.choice(speclists)
        extra = rng.sample([str(base / "rootA"), str(base / "rootB"), str(base / "rootA")], rng.randrange(0, 3))
        ign = rng.sample(["gen_*", "*.tmp", "node_modules"], rng.randrange(0, 3))
        args = ["-p", "no:cacheprovider", "-p", "no:terminal", "-s"]
        for e in extra:
            args += ["--rsyncdir", e]
        for g in ign:
            args += ["--rsyncignore", g]
        config = _prepareconfig(args, None)
        try:
            nm = NodeManager(config, specs=[execnet.XSpec(x) for x in specs])
            code = ["p" + ("1" if "chdir" in x else "0") if x.startswith("popen") else "r0" for x in specs]
            cands = [pyt, pyt2, *extra]
            add(f"rsyncdirs {show_str_list(code)} {show_str_list(cands)}", show_str_list(str(x) for x in nm.roots))
            local = all(c == "p0" for c in code)
            if local and nm.roots:
                res.violations.append(Violation("C19", "pure.remote", f"purely local specs {specs} but roots {nm.roots} would be synchronised", "local-specs-sync", [lines[-1]], {}))
            add(f"ignores {show_str_list(ign)} -", show_str_list(nm.rsyncoptions["ignores"]))
            if nm.rsyncoptions["ignores"][:4] != [".*", "*.pyc", "*.pyo", "*~"] or list(NodeManager.DEFAULT_IGNORES) != [".*", "*.pyc", "*.pyo", "*~"]:
                res.violations.append(Violation("C19", "pure.remote", f"built-in ignore patterns changed: {NodeManager.DEFAULT_IGNORES}", "builtin-ignores-changed", [lines[-1]], {}))
        finally:
            config._ensure_unconfigure()
    # ---- which execution environments get their arguments mapped: `WorkerController.setup()` on a recording gateway
    from xdist.workermanage import WorkerController

    class _Chan:
        def __init__(self) -> None:
            self.sent: list = []

        def send(self, obj: Any) -> None:
            self.sent.append(obj)

        def setcallback(self, *a: Any, **k: Any) -> None:
            pass

        def isclosed(self) -> bool:
            return False

        def close(self) -> None:
            pass

    class _Gw:
        def __init__(self, spec: Any, gid: str) -> None:
            self.spec, self.id, self.chan = spec, gid, _Chan()
            spec.id = gid

        def remote_exec(self, module: Any) -> Any:
            return self.chan

        def _rinfo(self) -> Any:
            return None

        def exit(self) -> None:
            pass

    os.chdir(base)
    try:
        for k in range(10 if tier == "quick" else 60):
            specstr = rng.choice(["popen", "popen//chdir=abc", "socket=1.2.3.4:8888", "ssh=h", "ssh=h//chdir=rem", "popen//python=python3"])
            testargs = rng.sample([str(base / "rootA/t/test_x.py") + "::test_x", str(base / "rootA/test_y.py"), "no_such_name.py", str(base / "rootA")], rng.randrange(1, 4))
            args = ["-p", "no:cacheprovider", "-p", "no:terminal", "--rsyncdir", str(base / "rootA"), *testargs]
            config = _prepareconfig(args, None)
            try:
                spec = execnet.XSpec(specstr)
                nm = NodeManager(config, specs=[spec])
                gw = _Gw(spec, "gw0")
                wc = WorkerController(nm, gw, config, None)  # type: ignore[arg-type]
                try:
                    wc.setup()
                except Exception as e:  # noqa: BLE001  (every argument lies under the root or names nothing on disk: nothing to reject)
                    res.violations.append(Violation("C19", "pure.remote", f"execution environment {specstr!r}: starting the worker with arguments {testargs} "
                                                    f"raised {type(e).__name__}: {e}", "setup-argument-mapping-raised",
                                                    [json.dumps({"spec": specstr, "args": testargs})], {}))
                    continue
                sent_args = list(gw.chan.sent[0][1])
                given = [str(x) for x in config.invocation_params.args]
                remote_or_chdir = (not spec.popen) or bool(spec.chdir)
                want = make_reltoroot(nm.roots, given) if remote_or_chdir else given
                res.evaluations += 1
                res.hit(f"setup:{'mapped' if remote_or_chdir else 'local'}")
                res.distinct.add(h((specstr, tuple(testargs))))
                if sent_args != want:
                    res.violations.append(Violation("C19", "pure.remote", f"execution environment {specstr!r}: the worker was started with arguments {sent_args[-3:]}, "
                                                    f"expected {'mapped into the synced roots' if remote_or_chdir else 'unchanged'}: {want[-3:]}",
                                                    "setup-argument-mapping", [json.dumps({"spec": specstr, "args": testargs})], {}))
            finally:
                config._ensure_unconfigure()
    finally:
        os.chdir(cwd)
    # ---- which execution environments trigger file synchronisation: the real `NodeManager.rsync()` with the transfer stubbed out
    import xdist.workermanage as WM

    calls: list = []
    orig_add, orig_send = WM.HostRSync.add_target_host, WM.HostRSync.send
    WM.HostRSync.add_target_host = lambda self, gateway, finished=None: calls.append(("add", gateway.id))  # type: ignore[method-assign]
    WM.HostRSync.send = lambda self, *a, **k: calls.append(("send",))  # type: ignore[method-assign]

    class _Exec:
        def waitclose(self) -> None:
            pass

    class _Gw2(_Gw):
        def remote_exec(self, source: Any) -> Any:
            calls.append(("exec",))
            return _Exec()

    os.chdir(base)
    try:
        for specstr in ["popen", "popen//chdir=abc", "socket=1.2.3.4:8888", "ssh=h", "popen//python=python3", "ssh=h//chdir=rem"]:
            config = _prepareconfig(["-p", "no:cacheprovider", "-p", "no:terminal", "--rsyncdir", str(base / "rootA")], None)
            try:
                spec = execnet.XSpec(specstr)
                nm = NodeManager(config, specs=[spec])
                gw2 = _Gw2(spec, "gw0")
                calls.clear()
                try:
                    nm.rsync(gw2, str(base / "rootA"))
                except Exception as e:  # noqa: BLE001
                    res.violations.append(Violation("C19", "pure.remote", f"execution environment {specstr!r}: rsync() raised {type(e).__name__}: {e}",
                                                    "rsync-raised", [json.dumps({"spec": specstr})], {}))
                    continue
                synced = any(c[0] in ("add", "send") for c in calls)
                local = bool(spec.popen) and not spec.chdir
                res.evaluations += 1
                res.hit(f"rsync:{'local' if local else 'remote'}:{'synced' if synced else 'not'}")
                if local and synced:
                    res.violations.append(Violation("C19", "pure.remote", f"the purely local execution environment {specstr!r} triggered file synchronisation",
                                                    "local-worker-synced", [json.dumps({"spec": specstr})], {}))
                if not local and not synced:
                    res.violations.append(Violation("C19", "pure.remote", f"the remote/chdir execution environment {specstr!r} was not synchronised "
                                                    "(its arguments are mapped into roots that do not exist there)", "remote-worker-not-synced",
                                                    [json.dumps({"spec": specstr})], {}))
            finally:
                config._ensure_unconfigure()
    finally:
        WM.HostRSync.add_target_host, WM.HostRSync.send = orig_add, orig_send  # type: ignore[method-assign]
        os.chdir(cwd)
    model = run_driver("pure", lines)
    res.evaluations += len(lines)
    for l, m, i in zip(lines, model, impl):
        if m != i:
            if len(res.disagreements) < 8:
                res.disagreements.append(Disagreement("pure.remote", [l], [m], [i], 0))
        else:
            res.traces_validated += 1
    res.samples = [{"line": lines[0], "impl": impl[0]}]
    return res
