#!/usr/bin/env python3
"""Automatic small mutants of src/xdist (self-test of the checks, by hand only; works in scratch worktrees, never in /repo).
usage: automut.py gen <N> <seed>            -> /tmp/am/mutants/<id>/{file,src.py,desc}
       automut.py run <lane> <id> [...]     -> runs the checks of the properties anchored in the mutated file (stop at first detection),
                                               then, if nothing fired, the pinned suite; prints one line per mutant."""
import ast, json, os, random, re, subprocess, sys, time, collections
from pathlib import Path

AM = Path("/tmp/am")
FILES = ["dsession.py", "workermanage.py", "remote.py", "scheduler/load.py", "scheduler/loadscope.py", "scheduler/worksteal.py",
         "scheduler/each.py", "scheduler/loadgroup.py", "scheduler/loadfile.py", "looponfail.py", "plugin.py"]
SWAP = {ast.Lt: "<=", ast.LtE: "<", ast.Gt: ">=", ast.GtE: ">", ast.Eq: "!=", ast.NotEq: "==", ast.Is: "is not", ast.IsNot: "is",
        ast.In: "not in", ast.NotIn: "in"}
TOK = {ast.Lt: "<", ast.LtE: "<=", ast.Gt: ">", ast.GtE: ">=", ast.Eq: "==", ast.NotEq: "!=", ast.Is: "is", ast.IsNot: "is not",
       ast.In: "in", ast.NotIn: "not in"}
NOISE = re.compile(r"self\.log\(|\.log\(|print\(|report_line|warnings\.warn|\.debug\(|rewrite\(|write_line|write_sep|ensure_newline")


def props_of(rel: str) -> list[str]:
    out = []
    for l in open("/verif/properties.jsonl"):
        d = json.loads(l)
        if f"src/xdist/{rel}" in d["anchors"]["files"]:
            out.append(d["id"])
    return out


def seg(lines, node):
    if node.lineno == node.end_lineno:
        return lines[node.lineno - 1][node.col_offset:node.end_col_offset]
    return None


def candidates(src: str):
    tree = ast.parse(src)
    lines = src.split("\n")
    parents = {}
    for p in ast.walk(tree):
        for c in ast.iter_child_nodes(p):
            parents[c] = p

    def in_assert_or_typing(n):
        while n in parents:
            n = parents[n]
            if isinstance(n, ast.Assert):
                return True
            if isinstance(n, ast.If) and "TYPE_CHECKING" in ast.unparse(n.test):
                return True
            if isinstance(n, ast.FunctionDef) and n.name in ("__repr__", "pytest_addoption", "pytest_addhooks"):
                return True
        return False
    out = []
    for n in ast.walk(tree):
        if in_assert_or_typing(n):
            continue
        if isinstance(n, ast.Compare) and len(n.ops) == 1 and n.lineno == n.end_lineno:
            l, r = n.left, n.comparators[0]
            if l.end_lineno != n.lineno or r.lineno != n.lineno:
                continue
            line = lines[n.lineno - 1]
            gap = line[l.end_col_offset:r.col_offset]
            tok = TOK[type(n.ops[0])]
            if re.fullmatch(r"\s*" + re.escape(tok).replace(r"\ ", r"\s+") + r"\s*", gap):
                new = line[:l.end_col_offset] + " " + SWAP[type(n.ops[0])] + " " + line[r.col_offset:]
                out.append(("cmp", n.lineno, new, f"{tok} -> {SWAP[type(n.ops[0])]}"))
        elif isinstance(n, ast.BoolOp) and n.lineno == n.end_lineno and len(n.values) == 2:
            a, b = n.values
            line = lines[n.lineno - 1]
            gap = line[a.end_col_offset:b.col_offset]
            tok = "and" if isinstance(n.op, ast.And) else "or"
            if re.fullmatch(r"\s*" + tok + r"\s*", gap):
                new = line[:a.end_col_offset] + (" or " if tok == "and" else " and ") + line[b.col_offset:]
                out.append(("bool", n.lineno, new, f"{tok} -> {'or' if tok == 'and' else 'and'}"))
        elif isinstance(n, ast.UnaryOp) and isinstance(n.op, ast.Not) and n.lineno == n.end_lineno and n.operand.lineno == n.lineno:
            line = lines[n.lineno - 1]
            new = line[:n.col_offset] + line[n.operand.col_offset:]
            out.append(("not", n.lineno, new, "drop not"))
        elif isinstance(n, ast.Constant) and isinstance(n.value, bool) is False and isinstance(n.value, int) and 0 <= n.value <= 8 and n.lineno == n.end_lineno:
            line = lines[n.lineno - 1]
            if line[n.col_offset:n.end_col_offset] == str(n.value):
                for d in (1, -1):
                    if n.value + d >= 0:
                        new = line[:n.col_offset] + str(n.value + d) + line[n.end_col_offset:]
                        out.append(("const", n.lineno, new, f"{n.value} -> {n.value + d}"))
        elif isinstance(n, ast.Constant) and isinstance(n.value, bool) and n.lineno == n.end_lineno:
            line = lines[n.lineno - 1]
            if line[n.col_offset:n.end_col_offset] == str(n.value):
                new = line[:n.col_offset] + str(not n.value) + line[n.end_col_offset:]
                out.append(("bool-const", n.lineno, new, f"{n.value} -> {not n.value}"))
        elif isinstance(n, (ast.Expr, ast.Assign, ast.AugAssign)) and isinstance(parents.get(n), (ast.FunctionDef, ast.If, ast.For, ast.While, ast.With, ast.Try)):
            if isinstance(n, ast.Expr) and not isinstance(n.value, ast.Call):
                continue
            text = "\n".join(lines[n.lineno - 1:n.end_lineno])
            if NOISE.search(text):
                continue
            first = lines[n.lineno - 1]
            indent = first[:len(first) - len(first.lstrip())]
            if first[:n.col_offset].strip():
                continue
            new = [indent + "pass"] + [""] * (n.end_lineno - n.lineno)
            out.append(("del", (n.lineno, n.end_lineno), new, "delete: " + " ".join(text.split())[:90]))
        elif isinstance(n, ast.If) and n.test.lineno == n.test.end_lineno and not isinstance(n.test, ast.UnaryOp):
            line = lines[n.test.lineno - 1]
            s = line[n.test.col_offset:n.test.end_col_offset]
            new = line[:n.test.col_offset] + "not (" + s + ")" + line[n.test.end_col_offset:]
            out.append(("negate-if", n.test.lineno, new, "negate: if " + s[:80]))
    return out


def gen(n: int, seed: int) -> None:
    rng = random.Random(seed)
    (AM / "mutants").mkdir(parents=True, exist_ok=True)
    sizes = {f: len(open(f"/repo/src/xdist/{f}").read().split("\n")) for f in FILES}
    made = 0
    seen = set()
    while made < n:
        f = rng.choices(FILES, weights=[sizes[x] for x in FILES])[0]
        src = open(f"/repo/src/xdist/{f}").read()
        cands = candidates(src)
        kind = rng.choice(["cmp", "bool", "not", "const", "bool-const", "del", "del", "negate-if", "negate-if"])
        cs = [c for c in cands if c[0] == kind]
        if not cs:
            continue
        c = rng.choice(cs)
        key = (f, c[0], str(c[1]), c[3])
        if key in seen:
            continue
        seen.add(key)
        lines = src.split("\n")
        if c[0] == "del":
            a, b = c[1]
            lines[a - 1:b] = c[2]
        else:
            lines[c[1] - 1] = c[2]
        new = "\n".join(lines)
        try:
            compile(new, f, "exec")
        except SyntaxError:
            continue
        mid = f"m{seed}-{made:03d}"
        d = AM / "mutants" / mid
        d.mkdir(parents=True, exist_ok=True)
        (d / "file").write_text(f)
        (d / "src.py").write_text(new)
        ln = c[1][0] if isinstance(c[1], tuple) else c[1]
        (d / "desc").write_text(f"{f}:{ln} {c[0]}: {c[3]}")
        made += 1
    print("generated", made)


def run(lane: str, ids: list[str]) -> None:
    wt = AM / f"wt{lane}"
    if not wt.exists():
        subprocess.run(["/verif/harness/mkworktree.sh", str(wt)], check=True, capture_output=True)
    env = dict(os.environ, VERIF_REPO=str(wt), VERIF_EVIDENCE_DIR=str(AM / f"ev{lane}"), VERIF_REPLAY_DIR=str(AM / f"rp{lane}"),
               VERIF_SCRATCH=str(AM / f"sc{lane}"), PYTHONDONTWRITEBYTECODE="1")
    for k in ("VERIF_EVIDENCE_DIR", "VERIF_REPLAY_DIR", "VERIF_SCRATCH"):
        Path(env[k]).mkdir(parents=True, exist_ok=True)
    for mid in ids:
        d = AM / "mutants" / mid
        rel = (d / "file").read_text()
        desc = (d / "desc").read_text()
        subprocess.run(["git", "-C", str(wt), "checkout", "--", "."], capture_output=True)
        (wt / "src/xdist" / rel).write_text((d / "src.py").read_text())
        verdict, by, t0 = "SURVIVED-CHECKS", "", time.time()
        for p in props_of(rel):
            r = subprocess.run(["/verif/harness/check", p, "quick"], env=env, capture_output=True, text=True, cwd="/verif")
            out = r.stdout + r.stderr
            viol = [l for l in out.splitlines() if l.startswith("VIOLATION")]
            if viol:
                verdict = "concrete" if any("no-failing-input-found" not in l for l in viol) else "unproved"
                by = p
                break
            if "INFRA" in out:
                verdict, by = "INFRA", p
                break
        suite = ""
        if verdict == "SURVIVED-CHECKS":
            tmproot = AM / f"tmp{lane}"
            subprocess.run(["rm", "-rf", str(tmproot)])
            tmproot.mkdir()
            e2 = dict(os.environ, PYTHONPATH=str(wt / "src"), PYTEST_DEBUG_TEMPROOT=str(tmproot), PYTHONDONTWRITEBYTECODE="1")
            r = subprocess.run("/venv/bin/python -m pytest -q -p no:cacheprovider --timeout=900 --continue-on-collection-errors -x "
                               "-k 'not test_handlecrashitem_one and not test_remote_usage_prog and not test_workqueue_ordered_by_size' 2>&1 | tail -3",
                               shell=True, cwd=str(wt), env=e2, capture_output=True, text=True, timeout=1500)
            tail = r.stdout.strip().splitlines()[-1] if r.stdout.strip() else "?"
            suite = "suite:PASS" if (" passed" in tail and " failed" not in tail and " error" not in tail) else "suite:FAIL"
        line = f"{mid} {verdict} {by} {suite} [{time.time() - t0:.0f}s] {desc}"
        print(line, flush=True)
        with open(AM / "results.txt", "a") as fh:
            fh.write(line + "\n")
    subprocess.run(["git", "-C", str(wt), "checkout", "--", "."], capture_output=True)


if __name__ == "__main__":
    if sys.argv[1] == "gen":
        gen(int(sys.argv[2]), int(sys.argv[3]))
    else:
        run(sys.argv[2], sys.argv[3:])
