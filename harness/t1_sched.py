"""T1 component differential check for the six scheduler classes.

The real scheduler class (constructed from a real pytest Config) is driven with an op sequence; the nodes are
real `WorkerController` objects whose gateway/channel are fakes, so that `shutdown`, `shutting_down`,
`send_runtest_some`, `send_steal`, `sendcommand` are the real code.  The same op lines go to the Lean driver.
"""
from __future__ import annotations

import random
import re
from typing import Any

from common import CompResult, Disagreement, Violation, b, esc, h, run_driver, show_nat_list, show_str_list

import pytest  # noqa: E402
from _pytest.config import _prepareconfig  # noqa: E402

MODES = ["load", "worksteal", "loadscope", "loadfile", "loadgroup", "each"]


class FakeSpec:
    def __init__(self, key: int) -> None:
        self.key = key
        self.popen = True
        self.chdir = None
        self.id = None

    def __eq__(self, other: object) -> bool:
        return isinstance(other, FakeSpec) and other.key == self.key

    def __hash__(self) -> int:
        return hash(self.key)


class FakeGateway:
    def __init__(self, k: int, spec: FakeSpec) -> None:
        self.id = f"gw{k}"
        self.spec = spec


class FakeChannel:
    def __init__(self, k: int, log: list) -> None:
        self.k = k
        self.log = log
        self.broken = False

    def send(self, obj: Any) -> None:
        if self.broken:
            raise OSError("cannot send (already closed?)")
        self.log.append((self.k, obj))


def make_node(k: int, spec: FakeSpec, log: list) -> Any:
    from xdist.workermanage import WorkerController

    node = WorkerController.__new__(WorkerController)
    node.gateway = FakeGateway(k, spec)
    node.channel = FakeChannel(k, log)
    node._down = False
    node._shutdown_sent = False
    node.log = lambda *a, **k: None
    node._verif_id = k
    return node


class CollectRecorder:
    def __init__(self) -> None:
        self.log: list | None = None

    @pytest.hookimpl
    def pytest_collectreport(self, report: Any) -> None:
        if self.log is not None:
            self.log.append(("collectreport", report))


_configs: dict[tuple, tuple[Any, CollectRecorder]] = {}


def get_config(numnodes: int, msc: int | None) -> tuple[Any, CollectRecorder]:
    key = (numnodes, msc)
    if key not in _configs:
        args = ["-p", "no:cacheprovider", "-p", "no:terminal", "-s", "--tx", f"{numnodes}*popen", "--dist", "load"]
        if msc is not None:
            args += [f"--maxschedchunk={msc}"]
        config = _prepareconfig(args, None)
        rec = CollectRecorder()
        config.pluginmanager.register(rec, "verif-collect-recorder")
        _configs[key] = (config, rec)
    return _configs[key]


def sched_class(mode: str) -> Any:
    from xdist import scheduler as S

    return {
        "load": S.LoadScheduling,
        "worksteal": S.WorkStealingScheduling,
        "loadscope": S.LoadScopeScheduling,
        "loadfile": S.LoadFileScheduling,
        "loadgroup": S.LoadGroupScheduling,
        "each": S.EachScheduling,
    }[mode]


def exc_name(e: BaseException) -> str:
    n = type(e).__name__
    return {"UsageError": "UsageError"}.get(n, n)


class RealSched:
    """Executes op lines on the real scheduler and renders the observation line of Driver/Sched.lean."""

    def __init__(self) -> None:
        self.sched: Any = None
        self.mode = ""
        self.nodes: dict[int, Any] = {}
        self.specs: dict[int, int] = {}
        self.log: list = []
        self.dead = False
        self.rec: CollectRecorder | None = None

    def node(self, k: int) -> Any:
        if k not in self.nodes:
            self.nodes[k] = make_node(k, FakeSpec(self.specs.get(k, 0)), self.log)
        return self.nodes[k]

    # ---- rendering
    def outs(self) -> str:
        parts = []
        for k, obj in self.log:
            if k == "collectreport":
                rep = obj
                m = re.search(r"between (gw\d+) and (gw\d+)", str(rep.longrepr))
                first = m.group(1)[2:] if m else "?"
                ok = m is not None and m.group(2) == rep.nodeid and rep.outcome == "failed"
                parts.append(f"collectreport:{rep.nodeid[2:]}:{first}" + ("" if ok else ":MALFORMED"))
                continue
            name, kw = obj
            if name == "runtests":
                parts.append(f"run:{k}:{show_nat_list(kw['indices'])}")
            elif name == "runtests_all":
                parts.append(f"runall:{k}")
            elif name == "steal":
                parts.append(f"steal:{k}:{show_nat_list(kw['indices'])}")
            elif name == "shutdown":
                parts.append(f"shutdown:{k}")
            else:
                parts.append(f"?{name}:{k}")
        del self.log[:]
        return ";".join(parts) if parts else "-"

    @staticmethod
    def books(d: dict) -> str:
        if not d:
            return "-"
        return ";".join(f"{n._verif_id}:{show_nat_list(p)}" for n, p in d.items())

    @staticmethod
    def workload(w: dict) -> str:
        if not w:
            return "-"
        return ";".join(
            esc(scope) + "(" + ",".join(f"{esc(t)}={b(done)}" for t, done in unit.items()) + ")" for scope, unit in w.items()
        )

    def view(self) -> str:
        s = self.sched
        if s is None:
            return "-"
        if self.mode == "load":
            return f"P={show_nat_list(s.pending)} B={self.books(s.node2pending)}"
        if self.mode == "worksteal":
            r = s.steal_requested_from_node
            return f"P={show_nat_list(s.pending)} B={self.books(s.node2pending)} R={'-' if r is None else r._verif_id}"
        if self.mode == "each":
            return (
                f"B={self.books(s.node2pending)} R={self.books(s._removed2pending)} "
                f"S={show_nat_list(n._verif_id for n in s._started)}"
            )
        a = " ".join(f"{n._verif_id}:[{self.workload(w)}]" for n, w in s.assigned_work.items()) or "-"
        return f"Q={self.workload(s.workqueue)} A={a}"

    def obs(self) -> str:
        s = self.sched
        if s is None:
            return "nodes=- sd=- tf=0 hp=0 cic=0 | -"
        ns = s.nodes
        sd = ",".join(f"{n._verif_id}:{b(n.shutting_down)}" for n in ns) or "-"
        return (
            f"nodes={show_nat_list(n._verif_id for n in ns)} sd={sd} tf={b(s.tests_finished)} "
            f"hp={b(s.has_pending)} cic={b(s.collection_is_completed)} | {self.view()}"
        )

    # ---- ops
    def apply(self, line: str) -> str:
        ws = line.split()
        op = ws[0]
        if op == "init":
            mode, k, msc = ws[1], int(ws[2]), (None if ws[3] == "None" else int(ws[3]))
            config, rec = get_config(k, msc)
            self.__init__()
            self.mode = mode
            self.rec = rec
            rec.log = self.log
            self.sched = sched_class(mode)(config)
            self.sched.log = lambda *a, **k: None  # the default Producer prints to stderr
            return f"ok | - | - | {self.obs()}"
        if self.dead and op in ("down", "broken", "spec"):
            return "dead"
        if op == "down":
            self.node(int(ws[1]))._down = True
            return f"ok | - | - | {self.obs()}"
        if op == "broken":
            self.node(int(ws[1])).channel.broken = True
            return f"ok | - | - | {self.obs()}"
        if op == "spec":
            self.specs[int(ws[1])] = int(ws[2])
            if int(ws[1]) in self.nodes:
                self.nodes[int(ws[1])].gateway.spec = FakeSpec(int(ws[2]))
            return f"ok | - | - | {self.obs()}"
        if self.dead:
            return "dead"
        s = self.sched
        ret = "-"
        try:
            if s is None:
                raise RuntimeError("no scheduler")
            if op == "add":
                s.add_node(self.node(int(ws[1])))
            elif op == "coll":
                ids = [] if ws[2] == "-" else [unesc(x) for x in ws[2].split(",")]
                s.add_node_collection(self.node(int(ws[1])), ids)
            elif op == "sched":
                s.schedule()
            elif op == "done":
                s.mark_test_complete(self.node(int(ws[1])), int(ws[2]), 0.25 if ws[3] == "1" else 0.0)
            elif op == "pend":
                s.mark_test_pending(unesc(ws[1]))
            elif op == "unsched":
                idx = [] if ws[2] == "-" else [int(x) for x in ws[2].split(",")]
                s.remove_pending_tests_from_node(self.node(int(ws[1])), idx)
            elif op == "rm":
                r = s.remove_node(self.node(int(ws[1])))
                ret = "crash:None" if r is None else f"crash:{esc(r)}"
            elif op == "shut":
                self.node(int(ws[1])).shutdown()
            elif op == "trig":
                for n in s.nodes:
                    n.shutdown()
            else:
                return "bad-op"
        except Exception as e:  # noqa: BLE001
            self.dead = True
            del self.log[:]
            return exc_name(e)
        return f"ok | {self.outs()} | {ret} | {self.obs()}"


def unesc(s: str) -> str:
    if s == "~":
        return ""
    return re.sub(r"%([0-9a-fA-F]{2})", lambda m: chr(int(m.group(1), 16)), s)


# ----------------------------------------------------------------------------- generation

def gen_collection(rng: random.Random, mode: str) -> list[str]:
    size = rng.choice([0, 1, 1, 2, 2, 3, 3, 4, 5, 6, 8, 10, 13, 20, 40])
    nfiles = rng.choice([1, 1, 2, 3, 5])
    ids = []
    for i in range(size):
        f = f"t/f{rng.randrange(nfiles)}.py" if rng.random() < 0.8 else f"f{rng.randrange(nfiles)}.py"
        cls = rng.choice(["", "", "::A", "::B", "::A::In"])
        name = f"::test_{i}" if rng.random() < 0.85 else f"::test_p[{rng.choice(['1', 'a-b', 'x::y', 'u@v', 'q]w'])}{i}]"
        nid = f + cls + name
        if mode == "loadgroup" and rng.random() < 0.4:
            nid += "@" + rng.choice(["g1", "g2", "g1", "h@k"])
        ids.append(nid)
    if mode in ("loadscope", "loadfile", "loadgroup") and rng.random() < 0.7:
        ids.sort(key=lambda x: x.split("::")[0])  # pytest collects file by file
    if size >= 2 and rng.random() < 0.04:
        ids[rng.randrange(size)] = ids[rng.randrange(size)]  # duplicated id (--keep-duplicates)
    return ids


def variant(rng: random.Random, col: list[str]) -> list[str]:
    c = list(col)
    k = rng.randrange(4)
    if k == 0 and len(c) >= 2:
        i, j = rng.sample(range(len(c)), 2)
        c[i], c[j] = c[j], c[i]
    elif k == 1 and c:
        del c[rng.randrange(len(c))]
    elif k == 2:
        c.insert(rng.randrange(len(c) + 1), "t/extra.py::test_x")
    else:
        c = []
    return c


class Walk:
    """Generates one op sequence while executing it on the real scheduler (so that choices are mostly legal)."""

    def __init__(self, rng: random.Random, mode: str, res: CompResult, malformed: float = 0.02, crash: float = 0.04):
        self.rng, self.mode, self.res = rng, mode, res
        self.malformed, self.crash = malformed, crash
        self.real = RealSched()
        self.ops: list[str] = []
        self.impl: list[str] = []
        self.steal_out: dict[int, list[int]] = {}
        self.written_off: list[int] = []          # told to shut down and marked down by the receiver thread; `remove_node` still to come
        self.nextid = 0
        self.tocollect: list[int] = []
        self.collection: list[str] = []
        self.mon = Monitor(mode, res)

    def do(self, line: str) -> str:
        before = self.snapshot()
        out = self.real.apply(line)
        self.ops.append(line)
        self.impl.append(out)
        self.mon.observe(line, out, before, self.snapshot(), self.ops)
        self.res.hit("op:" + line.split()[0])
        if not out.startswith("ok") and out not in ("dead",):
            self.res.hit("err:" + out)
        if out.startswith("ok"):
            for part in out.split(" | ")[1].split(";"):
                if part.startswith("steal:"):
                    _, n, idx = part.split(":")
                    self.steal_out[int(n)] = [int(x) for x in idx.split(",") if x not in ("", "-")]   # "-": a request for nothing
        return out

    def snapshot(self) -> dict:
        s = self.real.sched
        if s is None:
            return {"books": {}, "pool": [], "col": None, "sd": {}}
        if self.mode in ("load", "worksteal"):
            pool = list(s.pending)
            col = s.collection
        elif self.mode == "each":
            pool, col = [], None
        else:
            col = s.collection
            pool = []
            if col:
                for u in s.workqueue.values():
                    pool += [col.index(t) for t, d in u.items() if not d and t in col]
        return {"books": self.books(), "pool": pool, "col": None if col is None else list(col),
                "sd": {n._verif_id: n.shutting_down for n in self.real.nodes.values()}}

    def books(self) -> dict[int, list[int]]:
        s = self.real.sched
        if self.mode in ("load", "worksteal", "each"):
            return {n._verif_id: list(p) for n, p in s.node2pending.items()}
        out = {}
        for n, w in s.assigned_work.items():
            col = s.registered_collections.get(n)
            out[n._verif_id] = [col.index(t) for u in w.values() for t, d in u.items() if not d and col and t in col]
        return out

    def run(self, maxsteps: int) -> None:
        rng, mode = self.rng, self.mode
        k = rng.choice([1, 1, 2, 2, 2, 3, 3, 4, 5])
        msc = rng.choice([None, None, None, -1, 0, 1, 2, 5])
        self.collection = gen_collection(rng, mode)
        self.do(f"init {mode} {k} {msc}")
        if mode == "each" and rng.random() < 0.3:
            for i in range(k):
                self.do(f"spec {i} {rng.randrange(2)}")
        startup = []
        for i in range(k):
            startup.append([f"add {i}", ("coll", i)])
        self.nextid = k
        differ = rng.random() < 0.12
        # interleave the per-node start-up sequences
        while any(startup) and not self.real.dead:
            seq = rng.choice([s for s in startup if s])
            item = seq.pop(0)
            if isinstance(item, tuple):
                col = variant(rng, self.collection) if (differ and rng.random() < 0.5) else self.collection
                self.do(f"coll {item[1]} {show_str_list(col)}")
                if self.real.sched.collection_is_completed or rng.random() < self.malformed:
                    self.do("sched")
            else:
                self.do(item)
            if rng.random() < self.crash / 2:
                self.crash_one()
        steps = 0
        while steps < maxsteps and not self.real.dead:
            steps += 1
            if not self.step():
                break

    def crash_one(self, avoid: set[int] | None = None) -> None:
        rng = self.rng
        s = self.real.sched
        live = [n._verif_id for n in s.nodes if not avoid or n._verif_id not in avoid]
        if not live:
            return
        n = rng.choice(live)
        if n in self.written_off:
            self.written_off.remove(n)
        else:
            if rng.random() < 0.3:
                self.do(f"broken {n}")
            self.do(f"down {n}")
        self.remove(n)

    def remove(self, n: int) -> None:
        """the controller handles the death notice of node `n`"""
        rng = self.rng
        out = self.do(f"rm {n}")
        self.steal_out.pop(n, None)
        if self.real.dead:
            return
        if self.mode in ("load", "worksteal") and "crash:" in out and "crash:None" not in out and rng.random() < 0.3:
            item = out.split(" | ")[2][len("crash:"):]
            self.do(f"pend {item}")
            if rng.random() < 0.3 and not self.real.dead:
                self.do(f"pend {item}")        # a plugin may re-queue the crashed test several times from one hook call
        if rng.random() < 0.8:
            new = self.nextid
            self.nextid += 1
            if self.mode == "each":
                self.do(f"spec {new} {self.real.specs.get(n, 0)}")
            self.do(f"add {new}")
            self.tocollect.append(new)

    def step(self) -> bool:
        rng = self.rng
        real = self.real
        s = real.sched
        r = rng.random()
        if r < self.malformed:
            self.illegal()
            return True
        if r < self.malformed + self.crash:
            self.crash_one()
            return True
        if self.crash > 0 and rng.random() < 0.015:
            # an undecodable message: the receiver thread tells the worker to shut down and marks it down at once; the death
            # notice is queued behind events already waiting, so the scheduler keeps running with that node for a while
            cand = [n._verif_id for n in s.nodes if not n.shutting_down and n._verif_id not in self.steal_out]
            if cand:
                n = rng.choice(cand)
                self.do(f"shut {n}")
                self.do(f"down {n}")
                self.written_off.append(n)
                return True
        if self.written_off and rng.random() < 0.25:
            n = self.written_off.pop(0)
            self.steal_out.pop(n, None)
            if any(x._verif_id == n for x in s.nodes):
                self.remove(n)
            return True
        if self.steal_out and self.crash > 0 and rng.random() < 0.06:
            # a worker other than the one that owes a steal answer dies while the request is outstanding
            self.crash_one(avoid=set(self.steal_out))
            return True
        if self.tocollect and rng.random() < 0.4:
            n = self.tocollect.pop(0)
            col = variant(rng, self.collection) if rng.random() < 0.1 else self.collection
            self.do(f"coll {n} {show_str_list(col)}")
            if not real.dead and s.collection_is_completed:
                self.do("sched")
            return True
        if self.steal_out and rng.random() < 0.5:
            n = rng.choice(list(self.steal_out))
            req = self.steal_out.pop(n)
            book = self.books().get(n, [])
            q = book[2:]      # what a worker that has taken its first two tests still has queued
            can = all(i in q for i in req) and len([x for x in q if x in req]) == len(set(req))   # remote.py: all-or-nothing
            give = req if (can and rng.random() < 0.75) else []
            self.do(f"unsched {n} {show_nat_list(give)}")
            return True
        books = self.books()
        busy = [n for n, p in books.items() if p and not (n in self.steal_out and len(p) <= 1)]
        if busy and rng.random() < 0.9:
            n = rng.choice(busy)
            p = books[n]
            i = p[0] if rng.random() < 0.93 else rng.choice(p)
            self.do(f"done {n} {i} {b(rng.random() < 0.2)}")
            return True
        # nodes that were shut down and hold nothing finish
        idle = [n for n in s.nodes if n.shutting_down and not books.get(n._verif_id)]
        if idle:
            n = rng.choice(idle)._verif_id
            self.do(f"down {n}")
            self.do(f"rm {n}")
            return True
        if s.tests_finished and s.nodes and rng.random() < 0.9:
            self.do("trig")
            return True
        if not busy and not self.tocollect and not self.steal_out:
            return False
        return True

    def illegal(self) -> None:
        rng = self.rng
        n = rng.randrange(self.nextid + 1)
        choice = rng.randrange(7)
        line = [
            f"done {n} {rng.randrange(45)} 0",
            f"add {n}",
            f"rm {n}",
            f"coll {n} {show_str_list(self.collection[: rng.randrange(3)])}",
            "sched",
            f"unsched {n} {show_nat_list(rng.sample(range(10), rng.randrange(3)))}",
            f"pend {esc(rng.choice(self.collection) if self.collection and rng.random() < .7 else 'nope')}",
        ][choice]
        self.res.hit("illegal")
        self.mon.illegal_seen = True
        self.do(line)


class Monitor:
    """Property predicates evaluated on the implementation's side of a scheduler trace (failing-input search)."""

    def __init__(self, mode: str, res: CompResult) -> None:
        from collections import Counter

        self.mode, self.res = mode, res
        self.shut: set[int] = set()
        self.completed: Counter = Counter()
        self.crashed: Counter = Counter()
        self.requeued: Counter = Counter()
        self.started: Counter = Counter()
        self.had_crash = False
        self.had_requeue = False
        self.fired: set[str] = set()
        self.illegal_seen = False
        self.steal_open: int | None = None      # node that owes an answer to a steal request

    def fire(self, props: list[str], sig: str, what: str, ops: list[str], detail: dict) -> None:
        if sig in self.fired:
            return
        self.fired.add(sig)
        for p in props:
            self.res.violations.append(Violation(p, f"sched.{self.mode}", what, sig, list(ops), detail))

    def observe(self, line: str, out: str, before: dict, after: dict, ops: list[str]) -> None:
        from collections import Counter

        mode = self.mode
        if not out.startswith("ok") or self.illegal_seen:
            return
        parts = out.split(" | ")
        outs = [] if parts[1] == "-" else parts[1].split(";")
        op = line.split()
        col = after["col"]
        lb = mode != "each"
        if op[0] in ("unsched", "rm") and self.steal_open == int(op[1]):
            self.steal_open = None          # the answer arrived / the victim is gone: the request is settled
        if op[0] == "pend" and before["col"] is not None and unesc(op[1]) in before["col"]:
            # counted before the wire is examined: this very call may dispatch the re-queued copies together
            self.requeued[before["col"].index(unesc(op[1]))] += 1
        # ---- wire (C16)
        for o in outs:
            f = o.split(":")
            if f[0] in ("run", "steal", "shutdown", "runall"):
                n = int(f[1])
                if n in self.shut:
                    self.fire(["C16"], f"command-after-shutdown:{f[0]}", f"{o} sent to gw{n} after its shutdown signal", ops, {"out": out})
                if f[0] == "shutdown":
                    self.shut.add(n)
                if f[0] == "run" and lb:
                    idx = [int(x) for x in f[2].split(",")] if f[2] != "-" else []
                    if col is not None and any(i >= len(col) for i in idx):
                        self.fire(["C16"], "run-index-out-of-range", f"{o}: index beyond the agreed collection", ops, {"len": len(col)})
                    dup = [i for i in set(idx) if idx.count(i) > 1 and idx.count(i) > self.requeued[i]]
                    if dup:      # (a test re-queued k times by the crash hook may legitimately be dispatched k times)
                        self.fire(["C16", "C01"], "run-index-twice-in-command", f"{o} repeats index {dup}", ops, {})
                if f[0] == "steal":
                    if self.steal_open is not None:
                        self.fire(["C07"], "second-steal-while-outstanding",
                                  f"{o} sent while gw{self.steal_open} still owes the answer to an earlier request", ops, {"out": out})
                    self.steal_open = n
                    idx = [int(x) for x in f[2].split(",")] if f[2] != "-" else []
                    book = after["books"].get(n, [])
                    if any(i not in book for i in idx):
                        self.fire(["C16", "C07"], "steal-not-in-book", f"{o}: not all queued on gw{n} ({book})", ops, {})
        # ---- what is dispatched in one call is a prefix of the unassigned list (as extended by that call), in order:
        #      this is what keeps a re-queued test ahead of the others (C15) and the hand-out in collection order
        if mode in ("load", "worksteal") and before["col"] is not None and op[0] in ("pend", "done", "unsched", "rm"):
            pool0 = list(before["pool"])
            if op[0] == "pend":
                t0 = unesc(op[1])
                pool0 = ([before["col"].index(t0)] if t0 in before["col"] else []) + pool0
            elif op[0] == "rm":
                pool0 = pool0 + before["books"].get(int(op[1]), [])[1:]
            elif op[0] == "unsched":
                pool0 = pool0 + ([] if op[2] == "-" else [int(x) for x in op[2].split(",")])
            sent = [int(x) for o in outs if o.startswith("run:") for x in o.split(":")[2].split(",") if x != "-"]
            if sent != pool0[: len(sent)]:
                self.fire(["C15"] if self.had_requeue or op[0] == "pend" else ["C16"], "dispatch-not-pool-prefix",
                          f"dispatched {sent}, the unassigned list was {pool0}", ops, {"line": line})
        # ---- after an answer the book is the old book without the returned tests, in the old order (C07; C03 relies on it)
        if op[0] == "unsched" and mode == "worksteal":
            n = int(op[1])
            given = [] if op[2] == "-" else [int(x) for x in op[2].split(",")]
            if n in before["books"] and n in after["books"]:
                want = [i for i in before["books"][n] if i not in given]
                got = after["books"][n]
                # tests sent to the node in the same call are appended behind
                if got[: len(want)] != want:
                    self.fire(["C07", "C03"], "book-order-changed-by-steal-answer",
                              f"after the answer {given} of gw{n} the controller's book is {got}, the worker's queue is {want}", ops, {})
        # ---- crash item (C03)
        if op[0] == "rm":
            n = int(op[1])
            book = before["books"].get(n, [])
            ret = parts[2]
            c = before["col"]
            if mode == "each":
                c = None
            if book:
                self.had_crash = True
                self.crashed[book[0]] += 1
                if c is not None and book[0] >= len(c):
                    self.fire(["C16", "C09"], "book-index-out-of-range", f"gw{n}'s book {book} holds an index beyond the agreed collection ({len(c)} tests)", ops, {})
                elif c is not None and ret != "crash:" + esc(c[book[0]]):
                    self.fire(["C03"], "wrong-crash-item", f"remove_node returned {ret}, the dead worker was on {c[book[0]]!r}", ops, {"book": book})
            elif ret != "crash:None":
                self.fire(["C03"], "crash-item-for-idle-node", f"remove_node returned {ret} for a node holding nothing", ops, {})
        if op[0] == "done":
            self.completed[int(op[2])] += 1
        if op[0] == "pend" and before["col"] is not None:
            t = unesc(op[1])
            if t in before["col"]:
                self.had_requeue = True
                idx0 = before["col"].index(t)
                # C15: the re-queued test goes ahead of the other unassigned tests
                runs = [o for o in outs if o.startswith("run:")]
                if idx0 in after["pool"]:
                    if after["pool"][0] != idx0:
                        self.fire(["C15"], "requeued-not-first-in-pool", f"re-queued index {idx0} is not at the front of the unassigned list {after['pool']}", ops, {})
                elif runs:
                    first = runs[0].split(":")[2].split(",")[0]
                    if first != str(idx0) and before["pool"]:
                        self.fire(["C15"], "requeued-not-dispatched-first", f"re-queued index {idx0} was dispatched behind other unassigned tests: {runs}", ops, {})
        if op[0] == "sched" and before["col"] is None and after["col"] is not None:
            self.started = Counter(range(len(after["col"])))
        # ---- ledger (C01 / C03 / C15), load-balancing modes, duplicate-free collection
        if lb and col is not None and len(set(col)) == len(col):
            outstanding = Counter(after["pool"])
            for b_ in after["books"].values():
                outstanding += Counter(b_)
            twice = sorted(i for i, c in outstanding.items() if c > 1 and self.requeued[i] == 0)
            if twice:
                self.fire(["C16", "C01"], "index-outstanding-twice", f"indices {twice} are outstanding twice (pool/books {after['pool']} {after['books']})",
                          ops, {"line": line, "out": out})
            lhs = outstanding + self.completed + self.crashed
            rhs = self.started + self.requeued
            if lhs != rhs and op[0] == "unsched" and any(before["books"].get(int(op[1]), []).count(int(x)) > 1
                                                        for x in (op[2].split(",") if op[2] != "-" else [])):
                # the same index is twice in this worker's book (re-queued twice, both copies dispatched to it) and one copy is
                # given back: remove_pending_tests_from_node removes *all* occurrences, the worker removed only the queued one
                self.fire(["C15"], "steal-answer-with-duplicate-index",
                          f"index given back by gw{op[1]} was twice in its book {before['books'].get(int(op[1]))}; the controller dropped both copies", ops, {})
                self.illegal_seen = True      # the books are inconsistent from here on
            elif lhs != rhs:
                props = ["C15"] if self.had_requeue else (["C03"] if self.had_crash else ["C01"])
                lost = sorted((rhs - lhs).elements())
                extra = sorted((lhs - rhs).elements())
                self.fire(props, "ledger-unbalanced", f"tests lost {lost} / duplicated {extra} in the controller's books", ops,
                          {"pool": after["pool"], "books": after["books"]})


def nontrivial(ops: list[str]) -> bool:
    adds = sum(1 for o in ops if o.startswith("add "))
    colls = [o for o in ops if o.startswith("coll ")]
    big = any(o.split()[2] != "-" and len(o.split()[2].split(",")) >= 3 for o in colls)
    return adds >= 2 and big and any(o == "sched" for o in ops) and any(o.startswith("done ") for o in ops)


def replay_real(ops: list[str]) -> list[str]:
    real = RealSched()
    return [real.apply(o) for o in ops]


def first_diff(a: list[str], c: list[str]) -> int | None:
    for i, (x, y) in enumerate(zip(a, c)):
        if x != y:
            return i
    return None


def shrink(ops: list[str]) -> list[str]:
    """delta-debug the op list down to a 1-minimal disagreeing sequence (keeps the init line)."""

    def disagrees(cand: list[str]) -> bool:
        if not cand or not cand[0].startswith("init"):
            return False
        return first_diff(run_driver("sched", cand), replay_real(cand)) is not None

    cur = list(ops)
    d = first_diff(run_driver("sched", cur), replay_real(cur))
    if d is None:
        return cur
    cur = cur[: d + 1]
    changed = True
    while changed:
        changed = False
        i = 1
        while i < len(cur):
            cand = cur[:i] + cur[i + 1 :]
            if disagrees(cand):
                cur = cand
                changed = True
            else:
                i += 1
    return cur


def run(mode: str, n_seq: int, seed: int, maxsteps: int = 80, crash: float = 0.04, malformed: float = 0.02) -> CompResult:
    res = CompResult(component=f"sched.{mode}")
    res.rule = (
        "random walks of the DSession-like environment over the real scheduler class; a sequence is non-trivial if it "
        "registers >=2 nodes, a collection of >=3 tests, reaches schedule() and contains a completion; distinct by hash of the op list"
    )
    rng = random.Random(seed * 1000003 + hash(mode) % 1000)
    rng = random.Random(f"{seed}-{mode}")
    seqs: list[tuple[list[str], list[str]]] = []
    from pathlib import Path

    from common import CORPUS

    cdir = CORPUS / f"sched.{mode}"
    if cdir.is_dir():
        for p in sorted(cdir.glob("*.ops")):
            ops = [l for l in p.read_text().split("\n") if l.strip()]
            seqs.append((ops, replay_real(ops)))
            res.hit("corpus")
    for _ in range(n_seq):
        w = Walk(rng, mode, res, malformed=malformed, crash=crash)
        w.run(maxsteps)
        seqs.append((w.ops, w.impl))
    all_lines = [l for ops, _ in seqs for l in ops]
    model = run_driver("sched", all_lines)
    pos = 0
    for ops, impl in seqs:
        m = model[pos : pos + len(ops)]
        pos += len(ops)
        res.evaluations += 1
        if nontrivial(ops):
            res.distinct.add(h(ops))
        d = first_diff(m, impl)
        if d is not None:
            small = shrink(ops)
            sm = run_driver("sched", small)
            si = replay_real(small)
            res.disagreements.append(
                Disagreement(component=res.component, ops=small, model=sm, impl=si, at=first_diff(sm, si) or 0)
            )
        else:
            res.traces_validated += 1
        if len(res.samples) < 2 and nontrivial(ops):
            res.samples.append({"ops": ops[:40], "impl_last": impl[min(len(impl), 40) - 1]})
    return res
