#!/usr/bin/env python3
"""Prints the brief given to an independent sub-agent that produces behaviour-PRESERVING rewrites of the code a property is
anchored in (DESIGN §12.8): the registered checks must stay quiet on them. Only the property's own text goes in."""
import json, sys
from pathlib import Path
pid, wt = sys.argv[1], sys.argv[2]
props = {json.loads(l)["id"]: json.loads(l) for l in (Path(__file__).resolve().parent.parent / "properties.jsonl").read_text().splitlines() if l.strip()}
p = props[pid]
print(f"""You are working on a scratch git worktree of the pytest-xdist plugin at {wt} (a pytest plugin that distributes tests across worker processes via execnet). Work ONLY inside {wt}; never touch /repo or /verif and do not read /verif. There is no network.

How to run things: use /venv/bin/python and always set PYTHONPATH={wt}/src so that THIS copy of xdist is imported (check with: cd {wt} && PYTHONPATH={wt}/src /venv/bin/python -c "import xdist; print(xdist.__file__)"). The existing tests live in {wt}/testing; run them with: cd {wt} && PYTHONPATH={wt}/src /venv/bin/python -m pytest -q -p no:cacheprovider --timeout=900 testing/... (the whole suite takes 10-15 minutes; on the unchanged tree test_handlecrashitem_one and test_remote_usage_prog always fail and test_workqueue_ordered_by_size is flaky - ignore those three).

Here is a semantic property of pytest-xdist that currently holds:

PROPERTY {pid}: {p['title']}
{p['statement']}
It is meant to hold {p['quantifier']['text']}.
(Relevant source files: {', '.join(p['anchors']['files'])}.)

YOUR TASK: write TWO different, independent REFACTORINGS of the source under {wt}/src/xdist, each touching the code that implements the property above (different code sites or different styles for the two), of the kind a maintainer would merge as a clean-up: e.g. restructure control flow (early returns, merged/split conditionals, loop <-> comprehension, while <-> for), extract or inline a private helper, rename local variables, reorder statements that are independent, replace a hand-written loop by an equivalent library call, change the internal representation of a purely local value, add type hints / assertions that always hold, rewrite string handling with an equivalent method. Each refactoring must be NON-TRIVIAL (not just whitespace/comments; it should change at least ~10 lines of executable code in the functions that matter for the property) and must
  1. preserve the observable behaviour EXACTLY, for every input, message order, crash point and thread interleaving: same messages sent to workers in the same order, same reports and hook calls, same exceptions, same log-independent results, same values of the instance attributes of the classes (keep the names and meaning of classes, methods, and instance attributes - other plugins rely on them), same locking discipline (do not move anything into or out of a locked region, do not change which thread does what);
  2. keep the property above true;
  3. pass the existing test suite in {wt}/testing unedited (apart from the three tests named above) - actually run at least the test files related to the code you touched, preferably the whole suite.
Be careful and conservative about semantics: think about edge cases (empty lists, duplicates, None, ordering of dict iteration, aliasing of lists, exceptions raised midway, truthiness) and convince yourself that nothing observable changes. If you are not sure a rewrite is exactly equivalent, pick another one.

DELIVERABLES (create these, then restore the source with `git checkout -- src` so the worktree is clean apart from the REFACTOR dirs):
  {wt}/REFACTOR1/patch.diff   - output of `git diff -- src` for refactoring 1 (must apply with `git apply` on the unchanged tree)
  {wt}/REFACTOR1/meta.json    - {{"property": "{pid}", "summary": "...what was rewritten...", "why_equivalent": "...the argument, including edge cases considered...", "tests_run": "...which existing tests you ran with the change and their result..."}}
  and the same under {wt}/REFACTOR2/.
Finish with a short report: for each refactoring one paragraph on what it rewrites and why behaviour is unchanged.""")
