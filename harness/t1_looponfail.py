"""T1 for C18: the real `StatRecorder` on a real scratch tree, and `RemoteControl.loop_once` with the remote
session stubbed, against the Lean model (Pure/Looponfail.lean).

The model's input is the file-system state itself: after each batch of file operations the harness takes its
own snapshot of *all* regular files below the scratch base (own os.walk, nothing filtered) and sends it, with the
root list, to the driver; the driver keeps the cache.  Monitors restate C18 independently of the model.
"""
from __future__ import annotations

import os
import random
import shutil
from pathlib import Path
from types import SimpleNamespace
from typing import Any

from common import CompResult, Disagreement, Violation, b, esc, h, run_driver, show_str_list

DIRS = ["r1", "r1/sub", "r1", "r1/sub", "r2", "r1", "r1/sub", "r1/sub/deep", "r1/.hid", "r1/.hid/in", "r2", "r2/__pycache__", "r2/pkg", "out", ".top", ".top/x"]
NAMES = ["a.py", "b.txt", ".hidden.py", "c.pyc", "d.py~", "e f.py", "x.pyc.py", "mod.py", "mod.pyc", "y.PYC", "z.pyc.", "n"]
ROOTSETS = [["r1"], ["r1", "r2"], ["r1", "r1"], ["r1", "r1/sub"], ["r1/sub", "r1"], ["r2", "r1", "r2"], [".top"], ["r1/.hid"],
            ["r1", "r1/sub/deep", "r2/pkg"], ["nonexistent", "r2"], [],
            # a root nested in another one *through a hidden directory*: the outer walk prunes it, only its own walk reaches it
            ["r1", "r1/.hid"], ["r1/.hid/in", "r1"], ["r1", "r1/.hid/in", "r2"]]


def snapshot(base: Path) -> dict[str, tuple[int, int]]:
    out = {}
    for dp, _dn, fn in os.walk(base):
        for f in fn:
            p = Path(dp, f)
            st = p.stat()
            rel = "/" + str(p.relative_to(base))
            m = st.st_mtime_ns
            out[rel] = (m // 10**9 if m % 10**9 == 0 else m, st.st_size)
    return out


def is_watched(roots: list[str], rel: str) -> bool:
    """independent restatement of the property's 'watched file'"""
    parts = rel.strip("/").split("/")
    for r in roots:
        rp = r.strip("/").split("/")
        if len(parts) > len(rp) and parts[: len(rp)] == rp:
            below = parts[len(rp):]
            if any(x.startswith(".") for x in below):
                continue
            if below[-1].endswith(".pyc") and len(below[-1]) > 4:
                continue
            return True
    return False


class Tree:
    def __init__(self, base: Path, rng: random.Random) -> None:
        self.base, self.rng = base, rng
        self.clock = 1_000_000_000
        base.mkdir(parents=True)

    def tick(self) -> int:
        self.clock += self.rng.choice([1, 1, 2, 5])
        return self.clock

    def files(self) -> list[Path]:
        return [Path(dp, f) for dp, _dn, fn in os.walk(self.base) for f in fn]

    def op(self, res: CompResult) -> None:
        rng = self.rng
        k = rng.choice(["create", "create", "modify", "touch", "subtouch", "rewrite", "delete", "rename", "mkdir", "rmdir", "rmtree", "noop"])
        fs = self.files()
        res.hit("fsop:" + k)
        if k == "create":
            d = self.base / rng.choice(DIRS)
            d.mkdir(parents=True, exist_ok=True)
            p = d / rng.choice(NAMES)
            if p.is_dir():
                return
            p.write_text("x" * rng.randrange(1, 6))
            t = self.tick()
            os.utime(p, (t, t))
        elif k == "modify" and fs:
            p = rng.choice(fs)
            p.write_text("y" * (p.stat().st_size + rng.randrange(1, 3)))
            t = self.tick() if rng.random() < 0.7 else int(p.stat().st_mtime)
            os.utime(p, (t, t))
        elif k == "touch" and fs:
            p = rng.choice(fs)
            t = self.tick()
            os.utime(p, (t, t))
        elif k == "subtouch" and fs:
            # a same-size save within the same wall-clock second (editor save + formatter, `sed -i`): only the sub-second part of
            # the modification time moves (milliseconds: well above the resolution of the float `st_mtime`)
            p = rng.choice(fs)
            st = p.stat()
            new = (st.st_mtime_ns // 10**9) * 10**9 + rng.randrange(1, 1000) * 10**6
            if new == st.st_mtime_ns:
                new += 10**6
            if rng.random() < 0.5:
                p.write_text("s" * st.st_size)
            os.utime(p, ns=(new, new))
        elif k == "rewrite" and fs:   # same size, same mtime: not a change
            p = rng.choice(fs)
            st = p.stat()
            p.write_text("z" * st.st_size)
            os.utime(p, ns=(st.st_mtime_ns, st.st_mtime_ns))
        elif k == "delete" and fs:
            rng.choice(fs).unlink()
        elif k == "rename" and fs:
            p = rng.choice(fs)
            d = self.base / rng.choice(DIRS)
            d.mkdir(parents=True, exist_ok=True)
            q = d / rng.choice(NAMES)
            if q.is_dir():
                return
            st = p.stat()
            p.rename(q)
            if rng.random() < 0.5:
                os.utime(q, ns=(st.st_mtime_ns, st.st_mtime_ns))
        elif k == "mkdir":
            (self.base / rng.choice(DIRS) / rng.choice(["emp", ".emp"])).mkdir(parents=True, exist_ok=True)
        elif k == "rmdir":
            for dp, dn, fn in os.walk(self.base, topdown=False):
                if not dn and not fn and Path(dp) != self.base:
                    os.rmdir(dp)
                    break
        elif k == "rmtree":
            d = self.base / rng.choice(DIRS)
            if d.is_dir() and rng.random() < 0.4:
                shutil.rmtree(d)


def statrecorder(tier: str, seed: int) -> CompResult:
    from xdist.looponfail import StatRecorder

    class Rec(StatRecorder):
        last: bool | None = None

        def check(self, removepycfiles: bool = True) -> bool:
            import contextlib
            import io

            with contextlib.redirect_stdout(io.StringIO()):   # "# MODIFIED" lines
                self.last = super().check(removepycfiles)
            return self.last

    res = CompResult(component="pure.statrecorder")
    res.rule = ("sequences of file operations on a real scratch tree under generated root sets (single, several, nested, duplicated, "
                "hidden, missing); a sequence is non-trivial if it has >=2 polls reporting a change and >=2 reporting none; distinct by hash of the driver lines")
    rng = random.Random(f"{seed}-statrecorder")
    nseq = {"quick": 250, "search": 600}.get(tier, 3000)
    scratch = Path(os.environ.get("VERIF_SCRATCH", "/tmp")) / "lof"
    all_lines: list[str] = []
    all_impl: list[str] = []
    bounds = []
    for s in range(nseq):
        base = scratch / f"t{s}"
        tree = Tree(base, rng)
        roots = rng.choice(ROOTSETS)
        for _ in range(rng.randrange(0, 8)):
            tree.op(res)
        lines, impl = ["sr-init"], ["ok"]
        rootarg = show_str_list(["/" + r for r in roots])
        sr = None
        prev_vis: dict[str, tuple[int, int]] | None = None
        polls = rng.randrange(4, 14)
        nchg = nsame = 0
        for i in range(polls):
            if i > 0:
                for _ in range(rng.choice([0, 1, 1, 2, 3, 4])):
                    tree.op(res)
            snap = snapshot(base)
            if sr is None:
                sr = Rec([base / r for r in roots])
            else:
                sr.check(removepycfiles=rng.random() < 0.8)
            changed = bool(sr.last)
            keys = sorted("/" + str(p.relative_to(base)) for p in sr.statcache)
            line = f"sr-poll {rootarg} {show_str_list(f'{p}|{m}|{z}' for p, (m, z) in snap.items())}"
            lines.append(line)
            impl.append(f"{b(changed)} {show_str_list(keys)}")
            # ---- monitors (C18, independent of the model)
            vis = {p: v for p, v in snap.items() if is_watched(["/" + r for r in roots], p)}
            expect = (vis != (prev_vis if prev_vis is not None else {}))
            if changed != expect:
                diff = sorted(set(vis.items()) ^ set((prev_vis or {}).items()))
                what = (f"poll reports changed={changed} but the watched files " + ("did not change" if not expect else f"differ: {diff[:4]}")
                        + f" (roots {roots})")
                res.violations.append(Violation("C18", "pure.statrecorder", what,
                                                "poll-without-change" if changed else "change-not-reported", list(lines), {"roots": roots}))
            if set(keys) != set(vis):
                res.violations.append(Violation("C18", "pure.statrecorder", f"cache keys {keys} != watched files {sorted(vis)}",
                                                "cache-not-watched-set", list(lines), {"roots": roots}))
            prev_vis = vis
            nchg += changed
            nsame += not changed
            res.hit("poll:changed" if changed else "poll:same")
        res.hit(f"roots:{len(roots)}" + ("dup" if len(set(roots)) < len(roots) else ""))
        bounds.append((len(all_lines), len(lines), nchg >= 2 and nsame >= 2))
        all_lines += lines
        all_impl += impl
        shutil.rmtree(base, ignore_errors=True)
    model = run_driver("pure", all_lines)
    for start, n, nt in bounds:
        res.evaluations += 1
        seg_l, seg_m, seg_i = all_lines[start:start + n], model[start:start + n], all_impl[start:start + n]
        if nt:
            res.distinct.add(h(seg_l))
        bad = [j for j in range(n) if seg_m[j] != seg_i[j]]
        if bad:
            if len(res.disagreements) < 5:
                j = bad[0]
                res.disagreements.append(Disagreement("pure.statrecorder", seg_l[: j + 1], seg_m[: j + 1], seg_i[: j + 1], j))
        else:
            res.traces_validated += 1
    res.samples = [{"lines": all_lines[1:3], "impl": all_impl[1:3]}]
    return res


def failures(tier: str, seed: int) -> CompResult:
    from xdist.looponfail import RemoteControl

    res = CompResult(component="pure.looponfail")
    res.rule = "sequences of run results (trails with repetitions, collection failures) through the real RemoteControl.loop_once; distinct by sequence"
    rng = random.Random(f"{seed}-lof")
    ids = ["t.py::a", "t.py::b", "t.py::C::m", "u.py::x[1]", "u.py::x[2]", "t.py::a b"]
    lines, impl = [], []
    for s in range({"quick": 150, "search": 400}.get(tier, 1500)):
        rc = RemoteControl(SimpleNamespace(option=SimpleNamespace(debug=False)))  # type: ignore[arg-type]
        rc.setup = lambda: None  # type: ignore[method-assign]
        seq = []
        for _ in range(rng.randrange(1, 6)):
            trails = [rng.choice(ids) for _ in range(rng.choice([0, 0, 1, 2, 3, 5, 8]))]
            cf = rng.random() < 0.25
            before = list(rc.failures)
            rc.runsession = lambda trails=trails, cf=cf: (list(trails), ["r"] * len(trails), cf)  # type: ignore[method-assign]
            rc.loop_once()
            line = f"lf {show_str_list(before)} {show_str_list(trails)} {b(cf)}"
            lines.append(line)
            impl.append(f"{show_str_list(rc.failures)} {b(bool(rc.wasfailing))}")
            seq.append(line)
            # monitors
            want = before if cf else list(dict.fromkeys(trails))
            if list(rc.failures) != want:
                res.violations.append(Violation("C18", "pure.looponfail", f"remembered failures {rc.failures} after run {trails} (collection failed={cf}), expected {want}",
                                                "failure-memory-wrong", [line], {}))
            res.hit("cf" if cf else "run")
        res.evaluations += 1
        res.distinct.add(h(seq))
    model = run_driver("pure", lines)
    for l, m, i in zip(lines, model, impl):
        if m != i:
            if len(res.disagreements) < 5:
                res.disagreements.append(Disagreement("pure.looponfail", [l], [m], [i], 0))
        else:
            res.traces_validated += 1
    res.samples = [{"line": lines[0], "impl": impl[0]}]
    return res
