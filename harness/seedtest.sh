#!/bin/sh
# usage: harness/seedtest.sh <patch.diff> <Cxx> [more Cxx ...]   -- applies the patch to /repo, runs the quick checks, always reverts
set -u
PATCH="$1"; shift
cd /repo || exit 2
if [ -n "$(git status --porcelain --untracked-files=no)" ]; then echo "repo not clean"; exit 2; fi
git apply "$PATCH" || { echo "patch does not apply"; exit 2; }
trap 'git -C /repo checkout -- . ' EXIT INT TERM
cd /verif
export VERIF_EVIDENCE_DIR=/tmp/xv/seed-evidence VERIF_REPLAY_DIR=/tmp/xv/seed-replays
mkdir -p $VERIF_EVIDENCE_DIR $VERIF_REPLAY_DIR
for P in "$@"; do
  echo "--- $P with $(basename $(dirname $PATCH))"
  harness/check "$P" ${SEED_TIER:-quick} | grep -E "VIOLATION|KNOWN|INFRA|obligations" 
  echo "rc=$?"
done
