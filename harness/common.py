"""Shared plumbing of the verification harness: paths, Lean build/audit, driver, evidence, verdicts."""
from __future__ import annotations

import fcntl
import hashlib
import json
import os
import random
import re
import subprocess
import sys
import time
from dataclasses import dataclass, field
from pathlib import Path
from typing import Any, Callable, Iterable, Sequence

VERIF = Path(__file__).resolve().parent.parent
LEAN = VERIF / "lean"
REPO = Path(os.environ.get("VERIF_REPO", "/repo"))
SRC = REPO / "src"
DRIVER = LEAN / ".lake" / "build" / "bin" / "driver"
EVIDENCE = Path(os.environ.get("VERIF_EVIDENCE_DIR", VERIF / "evidence"))
REPLAYS = Path(os.environ.get("VERIF_REPLAY_DIR", VERIF / "replays"))
CORPUS = VERIF / "corpus"
ALLOWED_AXIOMS = {"propext", "Classical.choice", "Quot.sound"}

if str(SRC) not in sys.path:
    sys.path.insert(0, str(SRC))


class Infra(Exception):
    """Harness/infrastructure failure (exit status 2, never a violation)."""


# ----------------------------------------------------------------------------- escaping (mirrors Driver/Util.lean)

def esc(s: str) -> str:
    if s == "":
        return "~"
    out = []
    for c in s:
        o = ord(c)
        if c in " ,%;|~-" or o < 33 or o > 126:
            if o < 256:
                out.append("%%%02x" % o)
            else:
                out.append(c)
        else:
            out.append(c)
    return "".join(out)


def show_nat_list(l: Iterable[int]) -> str:
    l = list(l)
    return ",".join(str(i) for i in l) if l else "-"


def show_str_list(l: Iterable[str]) -> str:
    l = list(l)
    return ",".join(esc(x) for x in l) if l else "-"


def b(x: Any) -> str:
    return "1" if x else "0"


# ----------------------------------------------------------------------------- Lean build / audit

_build_done: dict[str, Any] = {}


def lean_build() -> tuple[bool, str]:
    """`lake build` under a file lock (several checks may run concurrently). Returns (ok, log)."""
    if "r" in _build_done:
        return _build_done["r"]
    lock = LEAN / ".build.lock"
    with open(lock, "w") as lf:
        fcntl.flock(lf, fcntl.LOCK_EX)
        t = time.time()
        p = subprocess.run(["lake", "build"], cwd=LEAN, capture_output=True, text=True)
        fcntl.flock(lf, fcntl.LOCK_UN)
    ok = p.returncode == 0 and DRIVER.exists()
    _build_done["r"] = (ok, (p.stdout + p.stderr)[-6000:])
    _build_done["t"] = time.time() - t
    return _build_done["r"]


def props_index() -> dict[str, Any]:
    return json.loads((LEAN / "props_index.json").read_text())


FORBIDDEN = re.compile(r"\bsorry\b|\badmit\b|^axiom\s|native_decide|bv_decide|implemented_by|\bunsafe\s|maxHeartbeats\s+0|\bpartial\s+def\b")


def _strip_comments(src: str) -> str:
    src = re.sub(r"/-.*?-/", lambda m: "\n" * m.group(0).count("\n"), src, flags=re.S)
    src = re.sub(r"--.*", "", src)
    return src


def grep_forbidden() -> list[str]:
    hits = []
    for root in ("XdistModel", "XdistProofs"):
        for p in sorted((LEAN / root).rglob("*.lean")):
            if "Driver" in p.parts:
                continue  # the driver's IO loop is `partial`; it carries no theorem
            txt = _strip_comments(p.read_text())
            for ln, line in enumerate(txt.split("\n"), 1):
                if FORBIDDEN.search(line):
                    hits.append(f"{p.relative_to(LEAN)}:{ln}: {line.strip()}")
    return hits


def audit(prop: str) -> dict[str, Any]:
    """`#print axioms` for every theorem indexed for `prop`."""
    idx = props_index().get(prop)
    if not idx:
        raise Infra(f"no theorem index for {prop}")
    thms = [t["name"] for t in idx["theorems"]]
    mods = sorted(set(t.get("module", idx.get("module", f"XdistProofs.Props.{prop}")) for t in idx["theorems"]))
    src = "".join(f"import {m}\n" for m in mods) + "".join(f"#print axioms {t}\n" for t in thms)
    tmp = LEAN / f".audit_{prop}_{os.getpid()}.lean"
    tmp.write_text(src)
    try:
        p = subprocess.run(["lake", "env", "lean", str(tmp.name)], cwd=LEAN, capture_output=True, text=True)
    finally:
        tmp.unlink(missing_ok=True)
    out = p.stdout + p.stderr
    res: dict[str, Any] = {"theorems": {}, "ok": p.returncode == 0, "raw": out[-3000:]}
    # "'Foo.bar' depends on axioms: [propext, Quot.sound]"  or "'Foo.bar' does not depend on any axioms"
    for m in re.finditer(r"'([^']+)' depends on axioms: \[([^\]]*)\]", out, flags=re.S):
        axs = [a.strip() for a in m.group(2).replace("\n", " ").split(",") if a.strip()]
        res["theorems"][m.group(1)] = axs
    for m in re.finditer(r"'([^']+)' does not depend on any axioms", out):
        res["theorems"][m.group(1)] = []
    bad = {}
    for t in thms:
        if t not in res["theorems"]:
            bad[t] = "not checked (missing or failed to elaborate)"
        else:
            extra = [a for a in res["theorems"][t] if a not in ALLOWED_AXIOMS]
            if extra:
                bad[t] = "axioms outside the trusted base: " + ", ".join(extra)
    res["bad"] = bad
    res["obligations"] = len(thms)
    res["discharged"] = len(thms) - len(bad)
    return res


# ----------------------------------------------------------------------------- driver

def run_driver(component: str, lines: Sequence[str]) -> list[str]:
    if not DRIVER.exists():
        raise Infra("driver not built")
    data = "\n".join(lines) + "\n"
    p = subprocess.run([str(DRIVER), component], input=data, capture_output=True, text=True)
    if p.returncode != 0:
        raise Infra(f"driver {component} failed: {p.stderr[-500:]}")
    out = p.stdout.split("\n")
    if out and out[-1] == "":
        out.pop()
    if len(out) != len(lines):
        raise Infra(f"driver {component}: {len(lines)} lines in, {len(out)} out")
    return out


# ----------------------------------------------------------------------------- results

@dataclass
class Disagreement:
    component: str
    ops: list[str]                 # the minimal op file (the replay)
    model: list[str]
    impl: list[str]
    at: int                        # index of the first differing line
    note: str = ""


@dataclass
class Violation:
    prop: str
    component: str
    what: str                      # which predicate failed, in words
    signature: str                 # stable identifier used by known_findings.json
    ops: list[str]
    detail: dict[str, Any] = field(default_factory=dict)


@dataclass
class CompResult:
    component: str
    evaluations: int = 0
    distinct: set = field(default_factory=set)           # hashes of distinct non-trivial cases
    rule: str = ""
    samples: list = field(default_factory=list)
    histogram: dict[str, int] = field(default_factory=dict)
    disagreements: list[Disagreement] = field(default_factory=list)
    violations: list[Violation] = field(default_factory=list)
    traces_validated: int = 0
    exhaustive: bool = False
    notes: list[str] = field(default_factory=list)

    def hit(self, key: str, n: int = 1) -> None:
        self.histogram[key] = self.histogram.get(key, 0) + n


def h(obj: Any) -> str:
    return hashlib.sha1(repr(obj).encode()).hexdigest()[:16]


def seed_of(default: int) -> int:
    v = os.environ.get("VERIF_SEED")
    try:
        return int(v) if v not in (None, "") else default
    except ValueError:
        return default


def known_findings() -> dict[str, Any]:
    p = VERIF / "known_findings.json"
    if p.exists():
        return json.loads(p.read_text())
    return {"findings": [], "fixed": []}
