"""Which theorems and which correspondence components decide which property."""
from __future__ import annotations

import json
import subprocess
from pathlib import Path
from typing import Any

import common
from common import LEAN, CompResult

TRUSTED_BASE = [
    "Lean 4.33.0 kernel; axioms allowed in indexed theorems: propext, Classical.choice, Quot.sound (audited by #print axioms on every run)",
    "no sorry/admit/axiom/native_decide/bv_decide/implemented_by/unsafe in XdistModel or XdistProofs (grep on every run)",
    "the Lean compiler and the driver's line parser (correspondence only, not proofs)",
    "the Python correspondence harness: generators, canonicalisation, fake gateway/channel objects",
    "modelled, not verified: execnet (per-channel FIFO, end marker last, OSError on a closed peer), pytest core, CPython containers",
]


def budget(tier: str, quick: int, thorough: int) -> int:
    if tier == "search":      # failing-input search after something broke: a few times the quick budget, fresh seeds
        return quick * 3
    return thorough if tier == "thorough" else quick


def sched(modes: list[str], quick: int = 250, thorough: int = 4000, **kw: Any):
    def run(tier: str, seed: int, prop: str) -> list[CompResult]:
        import t1_sched

        return [t1_sched.run(m, budget(tier, quick, thorough), seed, **kw) for m in modes]

    return run


def flat(*fs):
    """components may return one CompResult or a list"""
    out = []
    for f in fs:
        def g(tier, seed, prop, f=f):
            r = f(tier, seed, prop)
            return r if isinstance(r, list) else [r]
        out.append(g)
    return out


def worker(quick: int = 600, thorough: int = 12000):
    def run(tier: str, seed: int, prop: str) -> CompResult:
        import t1_worker

        return t1_worker.run(budget(tier, quick, thorough), seed)

    return run


def options():
    def run(tier: str, seed: int, prop: str) -> CompResult:
        import t1_options

        return t1_options.run(tier, seed)

    return run


def looponfail():
    def run(tier: str, seed: int, prop: str) -> list[CompResult]:
        import t1_looponfail

        return [t1_looponfail.statrecorder(tier, seed), t1_looponfail.failures(tier, seed)]

    return run


def system(profiles: list[str], quick: int = 300, thorough: int = 6000, modes: list[str] | None = None):
    def run(tier: str, seed: int, prop: str) -> CompResult:
        import t2_system

        return t2_system.run(profiles, budget(tier, quick, thorough), seed, modes)

    return run


def e2e(what: str):
    def run(tier: str, seed: int, prop: str) -> CompResult:
        import t3_runs

        return t3_runs.e2e(tier, seed, what)

    return run


def worker_model():
    def run(tier: str, seed: int, prop: str) -> CompResult:
        import t3_runs

        return t3_runs.worker_model(tier, seed)

    return run


def receiver():
    def run(tier: str, seed: int, prop: str) -> CompResult:
        import t1_receiver

        return t1_receiver.run(tier, seed)

    return run


def splitscope():
    def run(tier: str, seed: int, prop: str) -> CompResult:
        import t1_splitscope

        return t1_splitscope.run(tier, seed)

    return run


def warnings_t1():
    def run(tier: str, seed: int, prop: str) -> CompResult:
        import t1_warnings

        return t1_warnings.run(tier, seed)

    return run


def remote_t1():
    def run(tier: str, seed: int, prop: str) -> CompResult:
        import t1_remote

        return t1_remote.run(tier, seed)

    return run


def restart_default():
    def run(tier: str, seed: int, prop: str) -> CompResult:
        import t1_options

        return t1_options.restart_default(tier, seed)

    return run


LB = ["load", "worksteal", "loadscope", "loadfile", "loadgroup"]

PROPS: dict[str, dict[str, Any]] = {
    "C01": {
        "components": [sched(LB, crash=0.0), system(["plain"], 400, 8000), worker(quick=400, thorough=8000)],
        "assumptions": ["whole-system composition (worker + channels) is argued in DESIGN §5 C01 from the worker theorems and FIFO delivery"],
    },
    "C02": {
        "components": [system(["plain", "crash", "each", "budget", "requeue", "stop", "lifecycle", "mismatch"], 640, 12000),
                       sched(["load", "loadscope"], quick=120, thorough=2000, crash=0.1), worker(quick=300, thorough=6000)],
        "assumptions": ["a stand-off is a simulated state in which the controller waits for an event and no worker step, command delivery or receiver step is enabled",
                        "real-time fairness (a test that never returns), the 2 s queue timeout and OS scheduling are outside the model: the simulation's random scheduler gives every enabled step a positive probability and a run must end within a step budget",
                        "whole-execution absence of stand-offs is validated by the simulation, not proved; the theorems cover the two mechanisms (two queued tests or shutdown; tests_finished => everybody shut down)"],
    },
    "C06": {
        "components": [splitscope(), sched(["loadscope", "loadfile", "loadgroup"], quick=200, thorough=3000, crash=0.06),
                       system(["plain", "crash"], 300, 6000, modes=["loadscope", "loadfile", "loadgroup"])],
        "assumptions": ["well-formedness of ids: paths and last segments without ':', group names without '@' and ']' (each excluded point is a known finding with a proved witness)",
                        "that a unit is dispatched whole to one worker and run contiguously is validated by the scheduler correspondence and the simulation monitor, not proved"],
    },
    "C08": {
        "components": [sched(["each"], quick=500, thorough=8000, crash=0.12), system(["each"], 400, 8000), e2e("crash-each")],
        "assumptions": ["heterogeneous environments are simulated by distinct --tx specs with their own collections"],
    },
    "C09": {
        "components": [sched(["load", "worksteal", "loadscope", "loadfile", "loadgroup"], quick=200, thorough=3000, crash=0.08), system(["mismatch"], 400, 8000)],
        "assumptions": ["difflib's text of the difference is not modelled; the monitors check that the report names both workers and is a failure",
                        "with --dist each every environment has its own collection; only a replacement is compared (with the worker it replaces)"],
    },
    "C03": {
        "components": [sched(LB, crash=0.12), system(["crash"], 400, 8000), e2e("crash")],
        "assumptions": ["'head of the book = the test in hand' relies on the book/queue correspondence (C05, C07) and FIFO channels"],
    },
    "C05": {
        "components": [worker()],
        "assumptions": ["the only state shared by the two worker threads is the locked queue and the channel (checked dynamically: pre-emption at every outermost lock release)",
                        "pytest's runtest protocol is a stub that records (item, nextitem)"],
    },
    "C07": {
        "components": [worker(), sched(["worksteal"], crash=0.03), system(["plain", "crash", "stealshut", "crash", "stealshut"], 300, 6000, modes=["worksteal"])],
        "assumptions": ["queue duplicate-freeness is an invariant of reachable system states (controller never has an index outstanding twice, C16)"],
    },
    "C16": {
        "components": [sched(["load", "worksteal", "loadscope", "loadfile", "loadgroup", "each"], crash=0.08),
                       system(["plain", "crash", "stop", "each", "budget", "earlystop"], 480, 9000), receiver()],
        "assumptions": ["theorems cover load and worksteal; the loadscope family and each are covered by the correspondence + wire monitors only",
                        "load: the first schedule() does not check shutting_down (stated as hypothesis, witness proved)"],
    },
    "C10": {
        "components": [system(["budget", "lifecycle", "crash"], 450, 9000), restart_default()],
        "assumptions": ["the exit status of the whole run is pytest's (wrap_session); the check looks at the summary line DSession records and at the published crash reports",
                        "the theorems are about the DSession model for an arbitrary scheduler; T2 replays every simulated run's controller events through that model"],
    },
    "C11": {
        "components": [system(["stop", "collecterr", "stop", "earlystop"], 480, 9000), worker_model()],
        "assumptions": ["pytest's own per-worker --maxfail counting and the mapping of Interrupted to exit status 2 (wrap_session) are pytest's; the simulated workers follow them, and four real runs per check compare the modelled worker with real workers (e2e.worker-model)",
                        "a receiver thread flipping _down in the middle of a handler of the main loop is not exhibited by the simulation"],
    },
    "C12": {
        "components": [system(["plain", "crash", "budget"], 300, 6000), e2e("identity")],
        "assumptions": ["os.environ, fixtures and tmp_path_factory inside workers are observed in real runs (T3), not modelled",
                        "execnet.Group.allocate_id is exercised (the real Group object allocates the ids in T2), not verified"],
    },
    "C13": {
        "components": [options()],
        "assumptions": ["argparse / pytest's own option parsing (argv, addopts, PYTEST_ADDOPTS -> config.option) is exercised, not modelled",
                        "the CPU count is an environment parameter of the model (measured with os.sched_getaffinity)",
                        "int() of non-ASCII digit strings is outside the model"],
    },
    "C14": {
        "components": [warnings_t1(), e2e("warnings")],
        "assumptions": ["what the controller can do with a class (import it, call its constructor) is an environment parameter of the model, determined by probing",
                        "execnet's dumps/loads and the warnings module are exercised, not modelled; builtins.Warning is importable"],
    },
    "C17": {
        "components": [system(["lifecycle", "budget", "crash", "lifecycle", "earlystop"], 500, 9000),
                       system(["crash", "lifecycle"], 240, 4000, modes=["worksteal"]), receiver()],
        "assumptions": ["deaths are injected at: before workerready, during collection, right after collectionfinish, inside a test, between tests, instead of workerfinished; "
                        "an undecodable message is an unknown event name / a report that cannot be rebuilt / a non-tuple object",
                        "partial writes inside one execnet message and exceptions of the receiver thread itself are outside the model",
                        "the Lean theorems cover the receiver and worker_errordown for any scheduler; absence of stand-offs and the exactly-once accounting after lifecycle crashes are examined by the simulation monitors (not yet a theorem)"],
    },
    "C04": {
        "components": [system(["plain", "collecterr", "crash"], 300, 6000), receiver(), e2e("reports"), worker_model()],
        "assumptions": ["pytest's report (de)serialisation is exercised on real reports (T2 with constructed TestReport objects, T3 with real test outcomes), not modelled",
                        "with --dist loadgroup the reported id carries the documented '@group' suffix; ids are compared modulo that suffix"],
    },
    "C19": {
        "components": [remote_t1()],
        "assumptions": ["pathlib normalisation, exists() and resolve() are environment parameters of the model; the harness works on a real scratch tree",
                        "fnmatch bracket corner cases ([]...], [^...], backslashes, reversed ranges) are outside the model; patterns are generated inside the modelled fragment",
                        "no ssh/socket gateway exists in this sandbox: remote specs are only constructed, never connected"],
    },
    "C18": {
        "components": [looponfail()],
        "assumptions": ["os.walk / Path.stat / pathlib suffix semantics are exercised on a real scratch tree, not modelled; no symlinks",
                        "the race 'file vanishes between the walk and stat()' (OSError branch) is outside the model",
                        "mtimes are whole seconds in the harness (st_mtime is compared as a float by the code)"],
    },
    "C15": {
        "components": [sched(["load", "worksteal"], crash=0.15), system(["requeue"], 400, 8000)],
        "assumptions": ["the crash hook is a plugin: its calls to mark_test_pending are the `markPending` ops of the sequences"],
    },
}


def _components(prop: str):
    return PROPS[prop]["components"]


# check.py calls each component and expects a CompResult; normalise lists here
for _p, _spec in PROPS.items():
    comps = _spec["components"]

    def _mk(f):
        def run(tier, seed, prop):
            r = f(tier, seed, prop)
            if isinstance(r, list):
                merged = CompResult(component="+".join(x.component for x in r))
                merged.rule = " || ".join(sorted(set(x.rule for x in r if x.rule)))
                for x in r:
                    merged.evaluations += x.evaluations
                    merged.distinct |= {(x.component, d) for d in x.distinct}
                    merged.samples += x.samples[:1]
                    for k, v in x.histogram.items():
                        merged.histogram[f"{x.component}/{k}"] = v
                    merged.disagreements += x.disagreements
                    merged.violations += x.violations
                    merged.traces_validated += x.traces_validated
                    merged.notes += x.notes
                return merged
            return r
        return run

    _spec["components"] = [_mk(f) for f in comps]


def search(prop: str, tier: str, seed: int, broken: list[dict]) -> list[CompResult]:
    """Failing-input search after a proof obligation or a correspondence broke: rerun the property's
    components with a larger budget and other seeds; their monitors look for a concrete violation."""
    out = []
    for i in range(4):
        for comp in PROPS[prop]["components"]:
            out.append(comp("search", seed + 7919 * (i + 1), prop))
            if any(v.prop == prop for v in out[-1].violations):
                return out
    return out


def run_leanchecker(prop: str) -> dict[str, Any]:
    idx = common.props_index()[prop]
    mods = sorted(set(t.get("module", idx.get("module")) for t in idx["theorems"]))
    p = subprocess.run(["lake", "env", "leanchecker", *mods], cwd=LEAN, capture_output=True, text=True)
    return {"modules": mods, "ok": p.returncode == 0, "out": (p.stdout + p.stderr)[-2000:]}


def replay(path: Path) -> int:
    data = json.loads(Path(path).read_text())
    print(json.dumps({k: data[k] for k in data if k != "broken"}, indent=1)[:4000])
    ops = data.get("ops")
    comp = data.get("component", "")
    if ops and comp.startswith("worker."):
        import t1_worker

        model = common.run_driver("worker", ops)
        impl = t1_worker.replay_real(ops)
        for o, m, i in zip(ops, model, impl):
            flag = " " if m == i else "!"
            print(f"{flag} {o}\n    model: {m}\n    impl : {i}")
    if ops and comp.startswith("system"):
        import t2_system

        s = t2_system.replay(ops)
        print("outcome:", s.outcome)
        print("notes:", *s.notes, sep="\n  ")
        print("controller events:", s.ctl_events)
        print("wire:", *s.wirelog, sep="\n  ")
        print("crash reports:", s.crashitems, "executions:", s.executions)
        for w in s.workers:
            print(f"  {w.id}: pc={w.pc} ran={w.ran} completed={w.completed} died={w.death_hold}")
    if ops and comp.startswith("sched."):
        import t1_sched

        model = common.run_driver("sched", ops)
        impl = t1_sched.replay_real(ops)
        for o, m, i in zip(ops, model, impl):
            flag = " " if m == i else "!"
            print(f"{flag} {o}\n    model: {m}\n    impl : {i}")
    return 0
