"""T1 `pure.warnings` (C14): real warnings through the real `serialize_warning_message`, `execnet.dumps/loads`, and the real
`WorkerController.process_from_remote` (its `warning_recorded` branch with the fall-back), vs. the Lean model.

The controller's capabilities for a class (importable? what does the constructor do with the transported args?) are
environment parameters of the model; the harness determines them by probing with the same Python operations."""
from __future__ import annotations

import importlib
import os
import random
import sys
import textwrap
import warnings
from pathlib import Path
from typing import Any

import execnet

from common import CompResult, Disagreement, Violation, b, esc, h, run_driver

MODSRC = '''
import warnings
FAIL = {"on": False}
class PlainSub(UserWarning):
    pass
class TwoArgs(UserWarning):
    def __init__(self, a, b):
        super().__init__(a)          # args = (a,): the controller cannot call TwoArgs(a)
        self.b = b
class KwOnly(DeprecationWarning):
    def __init__(self, msg, *, level=1):
        super().__init__(msg)
class Picky(RuntimeWarning):
    def __init__(self, msg):
        if FAIL["on"]:
            raise ValueError("not on the controller")
        super().__init__(msg)
class StrOverride(UserWarning):
    def __str__(self):
        return "custom text of " + str(self.args[0])
def local_class():
    class Local(UserWarning):
        pass
    return Local
class Outer:
    class Nested(UserWarning):
        pass
'''


def encodable(x: str) -> bool:
    try:
        x.encode("utf-8")
        return True
    except UnicodeEncodeError:
        return False


def run(tier: str, seed: int) -> CompResult:
    import sim as S
    from xdist.remote import serialize_warning_message
    from xdist.workermanage import WorkerController

    res = CompResult(component="pure.warnings")
    res.rule = ("warnings of built-in categories, user subclasses with custom constructors, classes in a module the controller cannot import, local and nested "
                "classes, string and instance payloads, (un)serialisable arguments and details; distinct by (class, payload kind, capability profile)")
    rng = random.Random(f"{seed}-warnings")
    scratch = Path(os.environ.get("VERIF_SCRATCH", "/tmp")) / "wmods"
    scratch.mkdir(parents=True, exist_ok=True)
    for name in ("verif_wmod_a", "verif_wmod_gone"):
        (scratch / f"{name}.py").write_text(textwrap.dedent(MODSRC))
    sys.path.insert(0, str(scratch))
    for name in ("verif_wmod_a", "verif_wmod_gone"):
        sys.modules.pop(name, None)
    ma = importlib.import_module("verif_wmod_a")
    mg = importlib.import_module("verif_wmod_gone")
    config = S.get_config(S.SimCfg(mode="load", numnodes=2, ids=[]))
    n = {"quick": 300, "search": 800}.get(tier, 4000)
    lines, impl = [], []
    try:
        for i in range(n):
            src = rng.choice(["builtin", "a", "a", "gone", "local", "nested"])
            if src == "builtin":
                cls: Any = rng.choice([UserWarning, DeprecationWarning, RuntimeWarning, ResourceWarning, Warning, FutureWarning])
            elif src in ("a", "gone"):
                mod = ma if src == "a" else mg
                cls = getattr(mod, rng.choice(["PlainSub", "TwoArgs", "KwOnly", "Picky", "StrOverride"]))
            elif src == "local":
                cls = ma.local_class()
            else:
                cls = ma.Outer.Nested
            text = rng.choice(["boom", "a b", "x: y", "ünï", "", "boom", "a b", "bad \udcff text"])   # the last: not encodable as UTF-8
            as_instance = rng.random() < 0.7
            arg: Any = text
            if as_instance:
                r0 = rng.random()
                if r0 < 0.12:
                    arg = object()                   # cannot be dumped by execnet
                elif r0 < 0.22:
                    arg = [text, {"k": object()}]    # unserialisable object nested inside plain containers
                ma.FAIL["on"] = mg.FAIL["on"] = False
                msg: Any = cls(arg, "second") if cls.__name__ == "TwoArgs" else cls(arg)
            else:
                msg = text
            category = cls if rng.random() < 0.85 else rng.choice([UserWarning, None])
            source = object() if rng.random() < 0.2 else None
            # file names come from os.fsdecode: a name that is not valid UTF-8 carries lone surrogates; so may the source line
            fname = f"t_{i}.py" if rng.random() < 0.9 else f"t_\udcff{i}.py"
            srcline = None if rng.random() < 0.8 else rng.choice(["x = 1", "s = '\udcfe'"])
            wm = warnings.WarningMessage(msg, category, fname, 10 + i % 7, line=srcline, source=source)
            data = serialize_warning_message(wm)
            try:
                data = execnet.loads(execnet.dumps(data))
            except execnet.DumpError as e:
                res.violations.append(Violation("C14", "pure.warnings", f"the serialised form of a {cls.__name__} warning with args {getattr(msg, 'args', msg)!r} cannot be "
                                                f"sent (channel.send raises in the worker): {e}", "warning-data-not-sendable", [f"class {cls.__qualname__}"], {}))
                continue
            # the controller's world
            gone = src == "gone"
            if gone:
                sys.modules.pop("verif_wmod_gone", None)
                os.rename(scratch / "verif_wmod_gone.py", scratch / "verif_wmod_gone.hidden")
                importlib.invalidate_caches()
            fail_ctor = cls.__name__ == "Picky" and rng.random() < 0.6
            ma.FAIL["on"] = fail_ctor
            try:
                def probe_import(m: str | None, c: str | None) -> bool:
                    if not m:
                        return True
                    try:
                        getattr(importlib.import_module(m), c)  # type: ignore[arg-type]
                        return True
                    except Exception:  # noqa: BLE001
                        return False

                imp_msg = probe_import(data["message_module"], data["message_class_name"])
                imp_cat = probe_import(data["category_module"], data["category_class_name"])
                rebuild = "ok"
                if data["message_module"] and imp_msg and data["message_args"] is not None:
                    try:
                        getattr(importlib.import_module(data["message_module"]), data["message_class_name"])(*data["message_args"])
                    except TypeError:
                        rebuild = "type"
                    except Exception:  # noqa: BLE001
                        rebuild = "other"
                posted: list = []
                node = WorkerController.__new__(WorkerController)
                node.config = config
                node.putevent = posted.append
                node._down = False
                node._shutdown_sent = False
                node.log = lambda *a, **k: None
                node.channel = type("C", (), {"send": lambda self, o: None})()
                node.gateway = type("G", (), {"id": "gw0", "spec": None})()
                import contextlib
                import io

                with contextlib.redirect_stderr(io.StringIO()), contextlib.redirect_stdout(io.StringIO()):
                    node.process_from_remote(("warning_recorded", {"warning_message_data": data, "when": "runtest",
                                                                     "nodeid": f"t_{i}.py::test", "location": (f"t_{i}.py", 3, "test")}))
            finally:
                ma.FAIL["on"] = False
                if gone:
                    os.rename(scratch / "verif_wmod_gone.hidden", scratch / "verif_wmod_gone.py")
                    importlib.invalidate_caches()
                    mg = importlib.import_module("verif_wmod_gone")
            kind = "inst" if data["message_module"] else "str"
            line = (f"warn {kind} {esc(data['message_module'] or '-')} {esc(data['message_class_name'] or '-')} {esc(data['message_str'])} "
                    f"{b(data['message_args'] is not None)} {esc(data['category_module']) if data['category_module'] else '-'} "
                    f"{esc(data['category_class_name']) if data['category_class_name'] else '-'} {b(imp_msg)} {rebuild} {b(imp_cat)}")
            orig_text = str(msg)
            names = [p[0] for p in posted]
            if names != ["warning_recorded"]:
                out = "errordown" if "errordown" in names else f"posted:{names}"
                res.violations.append(Violation("C14", "pure.warnings", f"a {cls.__module__}.{cls.__qualname__} warning made the receiver post {names} (worker treated as crashed)",
                                                "warning-kills-worker", [line], {}))
            else:
                kw = posted[0][1]
                w2 = kw["warning_message"]
                m2 = w2.message
                if isinstance(m2, str):
                    ms = f"str:{esc(m2)}"
                elif type(m2) is Warning and data["message_module"] and str(m2) == f"{data['message_module']}.{data['message_class_name']}: {data['message_str']}":
                    ms = f"generic:{esc(str(m2))}"
                elif type(m2).__name__ == data["message_class_name"]:
                    ms = f"rebuilt:{esc(type(m2).__module__)}.{esc(type(m2).__name__)}"
                else:
                    ms = f"other:{type(m2).__name__}"
                cat = "-" if w2.category is None else f"{esc(w2.category.__module__)}.{esc(w2.category.__name__)}"
                out = f"ok {ms} cat={cat}"
                # ---- C14 monitors (independent of the model)
                shown = m2 if isinstance(m2, str) else str(m2)
                # a text that cannot be encoded (lone surrogate) can only arrive escaped
                orig_esc = orig_text.encode("utf-8", "backslashreplace").decode("utf-8")
                carries = shown in (orig_text, orig_esc) or (cls.__name__ in shown and (orig_text in shown or orig_esc in shown))
                if not carries:
                    res.violations.append(Violation("C14", "pure.warnings", f"warning text {orig_text!r} of {cls.__name__} arrived as {shown!r}",
                                                    "warning-text-lost", [line], {}))
                # (a file name that cannot be encoded can only arrive escaped: its repr)
                fname_ok = w2.filename == wm.filename or (not encodable(wm.filename) and w2.filename == repr(wm.filename))
                if not fname_ok or w2.lineno != wm.lineno or kw["nodeid"] != f"t_{i}.py::test":
                    res.violations.append(Violation("C14", "pure.warnings", f"file/line/test id changed: {w2.filename}:{w2.lineno} {kw['nodeid']}",
                                                    "warning-location-changed", [line], {}))
                if category is not None and imp_cat and (rebuild != "other") and imp_msg and w2.category is not category and (w2.category is None or w2.category.__name__ != category.__name__):
                    res.violations.append(Violation("C14", "pure.warnings", f"category {category.__name__} arrived as {w2.category}",
                                                    "warning-category-changed", [line], {}))
            lines.append(line)
            impl.append(out)
            res.hit(f"class:{src}")
            res.hit(f"rebuild:{rebuild}")
            res.hit(f"imp:{b(imp_msg)}{b(imp_cat)}")
            res.distinct.add(h((cls.__qualname__, kind, imp_msg, rebuild, imp_cat, data['message_args'] is None)))
    finally:
        sys.path.remove(str(scratch))
        for name in ("verif_wmod_a", "verif_wmod_gone"):
            sys.modules.pop(name, None)
    model = run_driver("pure", lines)
    res.evaluations = len(lines)
    for l, m, i in zip(lines, model, impl):
        if m != i:
            if len(res.disagreements) < 6:
                res.disagreements.append(Disagreement("pure.warnings", [l], [m], [i], 0))
        else:
            res.traces_validated += 1
    res.samples = [{"line": lines[0], "impl": impl[0]}]
    return res
