"""T2: deterministic whole-system simulation on the REAL controller stack.

Real code that runs here, unmodified, in one thread: `DSession` (its real `pytest_sessionstart`, `pytest_runtestloop`,
`loop_once`, every `worker_*` handler, `triggershutdown`, `handle_crashitem`, `_clone_node`), the real scheduler class
chosen by the real `pytest_xdist_make_scheduler`, the real `NodeManager` (`setup_nodes`, `setup_node`, spec/id
allocation through the real `execnet.Group.allocate_id`), the real `WorkerController` (`setup`, `send*`, `shutdown`,
`process_from_remote` with the real report de-serialisation).  Faked: the gateway (`Group.makegateway`) and its channel
(two FIFO lists per worker), and the worker process, which is a step machine written after `remote.py`
(`WorkerInteractor`/`TestQueue`; that step machine is what T1 `worker.queue` ties to the real worker threads).

The controller's event queue is replaced by a queue whose `get()` *is the scheduler of the simulation*: whenever the real
main loop asks for the next event, the environment (workers' main threads, command delivery, the receiver threads'
`process_from_remote`, crashes) makes randomly chosen steps until the simulation decides to hand the next queued event
to the loop.  A state in which the loop waits and no environment step is enabled is a stand-off (C02).

Not exhibited: a receiver thread flipping `_down` *during* a handler of the main loop (it only runs between two
`loop_once` calls here); real time.
"""
from __future__ import annotations

import collections
import random
from dataclasses import dataclass, field
from typing import Any, Callable

import pytest
from _pytest.config import _prepareconfig

from common import esc, show_nat_list, show_str_list

import execnet

SHUT = "SHUTDOWN"


class StandOff(Exception):
    """the controller waits for an event and nothing in the system can move"""


class StepBudget(Exception):
    """the run did not end within the step budget (fair random scheduling)"""


@dataclass
class Behav:
    """what a test does when executed (per attempt: the list is indexed by the attempt number, last entry repeats)"""
    kind: str = "pass"      # pass | fail | crash | skip | stop | exit | xfail | setuperr | teardownerr
    slow: bool = False


@dataclass
class SimCfg:
    mode: str = "load"
    numnodes: int = 2
    ids: list[str] = field(default_factory=list)
    via_n: bool = True                        # workers given by -n (restart budget defaults to 4n) or by --tx only (unset)
    restart: int | None = None                # --max-worker-restart, None = not given
    maxfail: int = 0
    msc: int | None = None
    behav: dict[int, list[Behav]] = field(default_factory=dict)     # index -> behaviour per attempt
    node_ids: dict[int, list[str]] = field(default_factory=dict)    # worker number -> what it collects (default: ids)
    collect_errors: dict[int, list[str]] = field(default_factory=dict)  # worker number -> longrepr texts of failed collect reports
    collect_skips: dict[int, list[str]] = field(default_factory=dict)   # worker number -> reasons of skipped collect reports (module-level skip)
    requeue: dict[str, int] = field(default_factory=dict)           # crash hook: nodeid -> how many times it re-queues
    boot_crash: dict[int, str] = field(default_factory=dict)        # worker number -> lifecycle point at which it dies
    #   'boot' (before workerready) | 'collect' (after ready, before collectionfinish) | 'collected' (right after collectionfinish)
    #   | 'finish' (instead of workerfinished) | 'garbage' (sends an undecodable message after collectionfinish)
    #   | 'interrupt' (not a death: the session is interrupted after collection, exit status 2)
    oserror_window: bool = False              # sending to a dead, not yet noticed worker raises OSError (execnet may do either)
    worker_maxfail: bool = True               # workers count their own failures against --maxfail (pytest does)
    tx: list[str] = field(default_factory=list)   # explicit --tx specs (one per worker) instead of numnodes*popen
    spec_ids: dict[str, list[str]] = field(default_factory=dict)   # what a worker of a given spec collects (each mode: per environment)
    max_steps: int = 60000
    p_crash: float = 0.0                      # probability per environment step of killing a random live worker
    max_crashes: int = 0


class FakeChannel:
    def __init__(self, sim: "Sim", w: "SimWorker") -> None:
        self.sim, self.w = sim, w
        self.callback: Any = None
        self.endmarker: Any = None

    def send(self, obj: Any) -> None:
        w = self.w
        if w.boot_msg is not None:
            # execnet serialises at the moment of the send: what the peer gets is the value the object had then, whatever the
            # sender does to it afterwards (each.py sends its own `pending` list and pops from it later)
            obj = execnet.loads(execnet.dumps(obj))
        if not w.alive and (w.end_seen or self.sim.cfg.oserror_window):
            # execnet: once the end marker was seen the channel is closed and every send raises; before that a write into the
            # pipe of a dead peer may or may not raise (`oserror_window`).  Either way the controller has booked the command
            # for this worker (`sendcommand` swallows the error), exactly as if it had been lost in the pipe.
            if w.boot_msg is not None and w.death_hold is not None:
                w.death_hold["inflight"].append(obj)
            if w.boot_msg is not None:
                self.sim.lost_sends.append((w.id, obj[0], obj[1] if len(obj) > 1 else {}))   # attempted, swallowed by sendcommand
            raise OSError("cannot send (already closed?)")
        if w.boot_msg is None:
            w.boot_msg = obj            # (workerinput, args, option_dict, change_sys_path)
            return
        name = obj[0]
        self.sim.wire(w, obj)
        if w.alive:
            w.c2w.append(obj)
        elif w.death_hold is not None:
            w.death_hold["inflight"].append(obj)     # written into the pipe of a dead, not yet noticed worker

    def setcallback(self, cb: Any, endmarker: Any = None) -> None:
        self.callback, self.endmarker = cb, endmarker

    def _getremoteerror(self) -> Any:
        # how the channel ended, as execnet reports it: nothing / a lost connection / an exception raised by the worker's entry
        # code.  Whatever it is, the end of the channel is the death of the worker (a function of the configuration, not of the
        # random stream, so that recorded schedules replay)
        kind = (self.w.number * 7 + len(self.sim.cfg.ids) + self.sim.cfg.numnodes) % 4
        return [None, EOFError("connection lost"), RuntimeError("remote entry code raised"), None][kind]

    def isclosed(self) -> bool:
        # execnet closes a channel when its receiver thread has seen the end of the connection - not when the peer dies: between
        # the death and the end marker the channel still looks open (and a send may raise, `oserror_window`)
        return bool(self.w.end_seen)

    def close(self) -> None:
        pass


class FakeGateway:
    def __init__(self, sim: "Sim", spec: Any) -> None:
        self.sim = sim
        self.spec = spec
        self.id = spec.id
        self.worker: SimWorker | None = None

    def _rinfo(self) -> Any:
        return None

    def remote_exec(self, module: Any) -> FakeChannel:
        assert self.worker is not None
        self.worker.remote_module = module
        return self.worker.channel

    def exit(self) -> None:
        pass


class SimWorker:
    """step machine after remote.py; see module docstring"""

    def __init__(self, sim: "Sim", gw: FakeGateway, number: int) -> None:
        self.sim, self.gw, self.number = sim, gw, number
        self.id = gw.id
        self.channel = FakeChannel(sim, self)
        self.boot_msg: Any = None
        self.remote_module: Any = None
        self.c2w: collections.deque = collections.deque()
        self.w2c: collections.deque = collections.deque()
        self.alive = True
        self.end_queued = False
        self.end_seen = False
        self.pc = "boot"
        self.queue: collections.deque = collections.deque()
        self.cur: int | None = None
        self.next: Any = None
        self.cb_set = False
        self.ran: list[tuple[int, Any]] = []        # (index, announced next) per protocol call
        self.completed: list[int] = []
        self.produced: list[tuple[str, Any]] = []   # reports this worker produced, in order (C04)
        self.local_fail = 0
        self.shouldfail: Any = False
        self.shouldstop: Any = False
        self.exitstatus = 0
        cfg = sim.cfg
        env = getattr(gw.spec, "env", None)
        self.ids = list(cfg.node_ids.get(number, cfg.spec_ids.get(str(sorted(env.items())) if env else "", cfg.ids)))
        self.node: Any = None
        self.received: list[Any] = []
        self.stolen_replies: list[list[int]] = []
        self.death_hold: dict[str, Any] | None = None
        self.sys_steps: list[str] = []      # the steps of the Lean system model this worker has just taken (drained by Sim.do)

    # ---- helpers
    def emit(self, name: str, **kw: Any) -> None:
        self.w2c.append((name, kw))

    def die(self, why: str) -> None:
        if not self.alive:
            return
        self.alive = False
        self.sys_steps.append(f"crash {self.id[2:]} {'1' if self.sim.cfg.oserror_window else '0'}")
        self.death_hold = {"cur": self.cur if self.pc in ("run0", "run1", "run2") else None,
                           "next": self.next if self.pc in ("wait1", "run0", "run1", "run2") and self.next is not SHUT else None,
                           "queue": [x for x in self.queue if x is not SHUT], "pc": self.pc, "why": why,
                           "inflight": [c for c in self.c2w]}
        self.c2w.clear()
        self.w2c.append("END")
        self.end_queued = True
        if self.sim.cfg.oserror_window:
            self.sim._flag_lines.append(f"flag-broken {self.id[2:]}")
        self.sim.log(f"crash {self.id} ({why}) at pc={self.pc} cur={self.cur} next={self.next} q={list(self.queue)}")

    def holding(self) -> list[int]:
        """tests this live worker has taken or queued (not yet completed), in the order it will run them"""
        out = []
        if self.pc in ("run0", "run1", "run2") and self.cur is not None:
            out.append(self.cur)
        if self.pc in ("wait1", "run0", "run1", "run2") and self.next is not None and self.next is not SHUT:
            out.append(self.next)
        out += [x for x in self.queue if x is not SHUT]
        return out

    # ---- enabledness
    def main_enabled(self) -> bool:
        if not self.alive or self.pc == "done":
            return False
        if self.pc in ("loop0", "wait1"):
            return len(self.queue) > 0
        return True

    def deliver_enabled(self) -> bool:
        return self.alive and self.cb_set and len(self.c2w) > 0 and self.pc != "done"

    # ---- receiver thread of the worker: handle_command
    def deliver(self) -> None:
        name, kw = self.c2w.popleft()
        self.received.append((name, kw))
        if name == "runtests":
            for i in kw["indices"]:
                self.queue.append(i)
        elif name == "runtests_all":
            for i in range(len(self.ids)):
                self.queue.append(i)
        elif name == "shutdown":
            self.queue.append(SHUT)
        elif name == "steal":
            req = set(kw["indices"])
            stolen = [x for x in self.queue if x in req]
            if len(stolen) == len(req):
                self.queue = collections.deque(x for x in self.queue if x not in req)
            else:
                stolen = []
            self.stolen_replies.append(list(stolen))
            self.emit("unscheduled", indices=stolen)

    # ---- main thread of the worker
    def main(self) -> None:
        sim, cfg = self.sim, self.sim.cfg
        pc = self.pc
        point = cfg.boot_crash.get(self.number)
        if pc == "boot":
            if point == "boot":
                return self.die("startup")
            self.emit("workerready", workerinfo={"version": "x", "executable": "py"})
            self.pc = "collect"
            self.sys_steps.append(f"main {self.id[2:]}")
        elif pc == "collect":
            if point == "collect":
                return self.die("collection")
            self.emit("collectionstart")
            errs = cfg.collect_errors.get(self.number, [])
            skips = cfg.collect_skips.get(self.number, [])
            for text in skips:
                # module-level skip (pytest.importorskip / pytest.skip(allow_module_level=True)): the worker goes on
                rep = pytest.CollectReport(nodeid=text.split("|")[0], outcome="skipped", longrepr=(text.split("|")[0], 1, "Skipped: " + text), result=[])
                data = sim.config.hook.pytest_report_to_serializable(config=sim.config, report=rep)
                self.emit("collectreport", data=data)
                self.produced.append(("collect", str(rep.longrepr)))
            for text in errs:
                rep = pytest.CollectReport(nodeid=text.split("|")[0], outcome="failed", longrepr=text, result=[])
                data = sim.config.hook.pytest_report_to_serializable(config=sim.config, report=rep)
                self.emit("collectreport", data=data)
                self.produced.append(("collect", text))
                # Session.pytest_collectreport counts a collection error against --maxfail
                self.local_fail += 1
                if cfg.worker_maxfail and cfg.maxfail and self.local_fail >= cfg.maxfail and not self.shouldfail:
                    self.shouldfail = f"stopping after {self.local_fail} failures"
            self.emit("collectionfinish", topdir="/top", ids=list(self.ids))
            if point == "interrupt":
                # the worker's session is interrupted before it enters the test loop (Ctrl-C, pytest.exit() in a conftest):
                # exit status 2.  Collection errors alone do NOT do this in an xdist worker: its own pytest_runtestloop
                # takes precedence over the one of _pytest.main that raises "Interrupted: N errors during collection"
                # (a real `pytest -n2` run on a suite with an import error: "2 passed, 1 error", workers exit with 1).
                self.exitstatus = 2
                self.pc = "finish"
            elif point == "garbage":
                self.emit("no_such_event", x=1)
                self.pc = "loop0"
                self.cb_set = True
            else:
                self.pc = "loop0"
                self.cb_set = True          # pytest_runtestloop registers handle_command
            optf = lambda v: esc(str(v)) if v else "-"  # noqa: E731
            self.sys_steps.append(f"main {self.id[2:]} collect {'1' if point == 'garbage' else '0'} {'1' if point == 'interrupt' else '0'} {optf(self.shouldfail)}"
                                  + "".join(f" {esc(str((t.split('|')[0], 1, 'Skipped: ' + t)))} 0" for t in skips)
                                  + "".join(f" {esc(t)} 1" for t in errs))
            if point == "collected":
                return self.die("after collection")
        elif pc == "loop0":
            x = self.queue.popleft()
            self.next = x
            self.pc = "finish" if x is SHUT else "wait1"
            self.sys_steps.append(f"main {self.id[2:]}")
        elif pc == "wait1":
            self.cur = self.next
            self.next = self.queue.popleft()
            self.ran.append((self.cur, None if self.next is SHUT else self.next))
            self.pc = "run0"
            self.sys_steps.append(f"main {self.id[2:]}")
        elif pc == "run0":
            attempt = sim.attempts.get(self.cur, 0)
            sim.attempts[self.cur] = attempt + 1
            sim.executions.append((self.cur, self.id))
            b = sim.behav(self.cur, attempt)
            nodeid = self.ids[self.cur] if self.cur < len(self.ids) else f"?{self.cur}"
            self.emit("logstart", nodeid=nodeid, location=("f.py", 1, nodeid))
            self.sys_steps.append(f"main {self.id[2:]}")
            if b.kind == "crash":
                self.pc = "run1"
                return self.die("inside the test")
            self.pc = "run1"
        elif pc == "run1":
            attempt = sim.attempts.get(self.cur, 1) - 1
            b = sim.behav(self.cur, attempt)
            nodeid = self.ids[self.cur] if self.cur < len(self.ids) else f"?{self.cur}"
            for when, outcome, longrepr in phases(b.kind):
                rep = pytest.TestReport(nodeid=nodeid, location=("f.py", 1, nodeid), keywords={}, outcome=outcome,
                                        longrepr=longrepr, when=when, sections=[("Captured stdout call", f"out-{nodeid}")],
                                        duration=0.25 if b.slow else 0.0, user_properties=[("k", nodeid)])
                if b.kind == "xfail" and when == "call":
                    rep.wasxfail = "expected"
                data = sim.config.hook.pytest_report_to_serializable(config=sim.config, report=rep)
                data["item_index"] = self.cur
                data["worker_id"] = self.id
                data["testrun_uid"] = self.boot_msg[0]["testrunuid"] if self.boot_msg else "?"
                self.emit("testreport", data=data)
                self.produced.append(("test", (nodeid, when, outcome)))
                if outcome == "failed":
                    self.local_fail += 1
                    if cfg.worker_maxfail and cfg.maxfail and self.local_fail >= cfg.maxfail and not self.shouldfail:
                        self.shouldfail = f"stopping after {self.local_fail} failures"
            if b.kind == "stop":
                self.shouldstop = "plugin asked to stop"
            if b.kind == "exit":
                self.exitstatus = 2       # pytest.exit() / KeyboardInterrupt inside the test
            self.emit("logfinish", nodeid=nodeid, location=("f.py", 1, nodeid))
            self.pc = "run2"
            opt = lambda v: esc(str(v)) if v else "-"  # noqa: E731
            fs = "".join("1" if o == "failed" else "0" for _, o, _ in phases(b.kind)) or "-"
            self.sys_steps.append(f"main {self.id[2:]} reports {fs} {opt(self.shouldfail)} {opt(self.shouldstop)} {'1' if self.exitstatus == 2 else '0'}")
        elif pc == "run2":
            b = sim.behav(self.cur, sim.attempts.get(self.cur, 1) - 1)
            self.sys_steps.append(f"main {self.id[2:]} complete {'1' if b.slow else '0'}")
            if self.exitstatus == 2:
                # the exception left run_one_test before the completion event
                self.pc = "finish"
                return
            self.emit("runtest_protocol_complete", item_index=self.cur, duration=0.25 if b.slow else 0.0)
            self.completed.append(self.cur)
            self.cur = None
            if self.shouldfail or self.shouldstop or self.next is SHUT:
                self.pc = "finish"
            else:
                self.pc = "wait1"
        elif pc == "finish":
            if point == "finish":
                return self.die("session finish")
            self.emit("workerfinished", workeroutput={"exitstatus": self.exitstatus, "shouldfail": self.shouldfail,
                                                       "shouldstop": self.shouldstop})
            self.pc = "done"
            self.sys_steps.append(f"main {self.id[2:]}")
            self.alive_before_end = True
            self.w2c.append("END")
            self.end_queued = True


def phases(kind: str) -> list[tuple[str, str, Any]]:
    if kind == "fail":
        return [("setup", "passed", None), ("call", "failed", "assert 0"), ("teardown", "passed", None)]
    if kind == "skip":
        return [("setup", "skipped", ("f.py", 1, "Skipped: why")), ("teardown", "passed", None)]
    if kind == "xfail":
        return [("setup", "passed", None), ("call", "skipped", "xfailed"), ("teardown", "passed", None)]
    if kind == "setuperr":
        return [("setup", "failed", "setup boom"), ("teardown", "passed", None)]
    if kind == "teardownerr":
        return [("setup", "passed", None), ("call", "passed", None), ("teardown", "failed", "teardown boom")]
    return [("setup", "passed", None), ("call", "passed", None), ("teardown", "passed", None)]


class SimQueue:
    """stands in for `DSession.queue`; `get()` runs the environment"""

    def __init__(self, sim: "Sim") -> None:
        self.sim = sim
        self.items: collections.deque = collections.deque()

    def put(self, item: Any) -> None:
        self.items.append(item)

    def get(self, timeout: float | None = None) -> Any:
        return self.sim.next_event()


class Recorder:
    """hook recorder registered on the controller's plugin manager"""

    def __init__(self, sim: "Sim") -> None:
        self.sim = sim

    @pytest.hookimpl
    def pytest_runtest_logreport(self, report: Any) -> None:
        node = getattr(report, "node", None)
        self.sim.published.append(("test", getattr(node, "gateway", None) and node.gateway.id, report.nodeid, report.when,
                                   report.outcome, str(report.longrepr) if report.longrepr else "", report))
        num = node.gateway.id[2:] if node is not None else "?"
        if report.when == "???":
            self.sim.obs_pub.append(f"crash:{num}:{esc(report.nodeid)}:{'1' if self.sim._crash_requeued else '0'}")
        else:
            self.sim.obs_pub.append(f"rep:{num}:{'1' if report.failed else '0'}")

    @pytest.hookimpl
    def pytest_collectreport(self, report: Any) -> None:
        text = str(report.longrepr)
        self.sim.published.append(("collect", None, report.nodeid, None, report.outcome, text, report))
        if "Different tests were collected between" in text:
            self.sim.wirelog.append((report.nodeid, "collectreport", {"text": text, "outcome": report.outcome}))
        else:
            self.sim.obs_pub.append(f"collect:{esc(text)}")

    @pytest.hookimpl
    def pytest_testnodedown(self, node: Any, error: Any) -> None:
        self.sim.nodedown.append((node.gateway.id, None if error is None else str(error)[:40]))
        self.sim.obs_pub.append(f"down:{node.gateway.id[2:]}:{'0' if error is None else '1'}")

    @pytest.hookimpl
    def pytest_testnodeready(self, node: Any) -> None:
        self.sim.nodeready.append(node.gateway.id)

    @pytest.hookimpl
    def pytest_handlecrashitem(self, crashitem: str, report: Any, sched: Any) -> None:
        node = getattr(report, "node", None)       # the harness must not fall over where a consumer of the report would
        self.sim.crashitems.append((crashitem, node.gateway.id if node is not None else None))
        left = self.sim.requeue_left.get(crashitem, 0)
        self.sim._crash_requeued = left > 0
        if left > 0:
            self.sim.requeue_left[crashitem] = left - 1
            self.sim.requeued.append(crashitem)
            report.outcome = "rerun"           # the plugin modifies the report (C15: this object must be published)
            sched.mark_test_pending(crashitem)

    @pytest.hookimpl
    def pytest_internalerror(self, excrepr: Any, excinfo: Any) -> None:
        self.sim.internal_errors.append(str(excinfo.value)[:200])

    @pytest.hookimpl
    def pytest_warning_recorded(self, warning_message: Any, when: Any, nodeid: Any, location: Any) -> None:
        self.sim.warnings.append((str(warning_message.message), nodeid))


class FakeSession:
    testscollected = 0
    testsfailed = 0


_configs: dict[tuple, Any] = {}


def get_config(cfg: SimCfg) -> Any:
    key = (cfg.mode, cfg.numnodes, cfg.via_n, cfg.restart, cfg.maxfail, cfg.msc, tuple(cfg.tx))
    if key not in _configs:
        args = ["-p", "no:cacheprovider", "-p", "no:terminal", "-s", "--dist", cfg.mode]
        if cfg.tx:
            for t in cfg.tx:
                args += ["--tx", t]
        else:
            args += ["-n", str(cfg.numnodes)] if cfg.via_n else ["--tx", f"{cfg.numnodes}*popen"]
        if cfg.restart is not None:
            args += [f"--max-worker-restart={cfg.restart}"]
        if cfg.maxfail:
            args += [f"--maxfail={cfg.maxfail}"]
        if cfg.msc is not None:
            args += [f"--maxschedchunk={cfg.msc}"]
        args += ["--testrunuid", "uid-" + cfg.mode]
        config = _prepareconfig(args, None)
        import xdist.plugin

        xdist.plugin.pytest_cmdline_main(config)
        _configs[key] = config
    return _configs[key]


class Sim:
    def __init__(self, cfg: SimCfg, rng: random.Random, schedule: list[str] | None = None) -> None:
        self.cfg, self.rng = cfg, rng
        self.config = get_config(cfg)
        self.workers: list[SimWorker] = []
        self.by_id: dict[str, SimWorker] = {}
        self.trace: list[str] = []            # labels taken (the replay)
        self.notes: list[str] = []
        self.q_breaks: list[tuple] = []     # load mode: loop boundaries at which a registered live worker holds < 2 tests while the pool is non-empty
        self.ready_ids: list[str] = []
        self.steal_breaks: list[tuple] = []  # worksteal: a processed steal answer whose tests are still in the victim's book
        self.lost_sends: list[tuple] = []    # (worker id, command, payload): sends that raised OSError (dead peer), in order
        self.replay = list(schedule) if schedule is not None else None
        self.wirelog: list[tuple[str, str, Any]] = []     # (worker id, command, payload) in send order
        self.published: list[tuple] = []
        self.obs_pub: list[str] = []
        self.nodedown: list[tuple] = []
        self.nodeready: list[str] = []
        self.crashitems: list[tuple[str, str]] = []
        self.requeued: list[str] = []
        self.requeue_left = dict(cfg.requeue)
        self.internal_errors: list[str] = []
        self.warnings: list[tuple] = []
        self.attempts: dict[int, int] = {}
        self.executions: list[tuple[int, str]] = []
        self.crashes = 0
        self.steps = 0
        self.ctl_events: list[tuple[str, str]] = []       # (callname, node id) in processing order
        self.outcome: tuple[str, str] | None = None
        self.stop_seen_at: int | None = None              # index into wirelog when shouldstop was first observed set
        self.wire_at_event: list[int] = []
        self.dsession: Any = None
        self.ctl_trace: list[dict[str, Any]] = []         # per loop_once: event, commands, publications (for the Lean tie)
        self._flag_lines: list[str] = []
        self.sys_lines: list[str] = []      # input of the Lean `sys` driver: every step of the simulation
        self.sys_obs: list[str] = []
        self._sys_pre: list[str] = []
        # relative speed of the workers' main threads (imbalance makes work stealing and top-ups happen)
        self.speed: dict[int, float] = {}
        if rng.random() < 0.6:
            self.speed = {k: rng.choice([0.15, 0.4, 1.0, 1.0, 3.0]) for k in range(cfg.numnodes + 8)}
        self._crash_requeued = False
        self._last_requeue_mark = 0
        self._open: dict[str, Any] | None = None
        self.spec_keys: dict[str, int] = {}
        self.ctl_lines: list[str] = []      # input of the Lean `ctl` driver
        self.ctl_obs: list[str] = []        # what the real controller did, in the driver's observation format

    # ---- plumbing
    def log(self, s: str) -> None:
        self.notes.append(s)

    def behav(self, idx: int, attempt: int) -> Behav:
        l = self.cfg.behav.get(idx)
        if not l:
            return Behav()
        return l[min(attempt, len(l) - 1)]

    def wire(self, w: SimWorker, obj: Any) -> None:
        name, kw = obj
        self.wirelog.append((w.id, name, dict(kw)))

    def makegateway(self, spec: Any) -> FakeGateway:
        gw = FakeGateway(self, spec)
        w = SimWorker(self, gw, len(self.workers))
        gw.worker = w
        self.workers.append(w)
        self.by_id[gw.id] = w
        key = str(spec)
        self.spec_keys.setdefault(key, len(self.spec_keys))
        self._flag_lines.append(f"spec {gw.id[2:]} {self.spec_keys[key]}")
        self._sys_pre.append(f"spec {gw.id[2:]} {self.spec_keys[key]}")
        self._sys_pre.append(f"ids {gw.id[2:]} {show_str_list(w.ids)}")
        if self._open is not None:
            self.obs_pub.append(f"spawn:{gw.id[2:]}")
        return gw

    # ---- the environment
    def enabled(self) -> list[tuple[str, SimWorker | None]]:
        out: list[tuple[str, SimWorker | None]] = []
        for w in self.workers:
            if w.main_enabled():
                out.append(("main", w))
            if w.deliver_enabled():
                out.append(("deliver", w))
            if w.w2c:
                out.append(("recv", w))
        return out

    def next_event(self) -> Any:
        """called by the real loop_once: run the environment until an event is handed to the controller"""
        q = self.dsession.queue
        cfg, rng = self.cfg, self.rng
        self.finalize_event(None)
        while True:
            self.steps += 1
            if self.steps > cfg.max_steps:
                raise StepBudget(f"no end after {cfg.max_steps} steps")
            if self.replay is not None:
                if not self.replay:
                    raise StepBudget("replay exhausted")
                label = self.replay.pop(0)
                kind, _, wid = label.partition(" ")
                if kind == "ctl":
                    if not q.items:
                        raise StepBudget("replay: ctl step without a queued event")
                    self.trace.append("ctl")
                    return self._hand_over(q)
                w = self.by_id[wid]
                self.do(kind, w)
                continue
            en = self.enabled()
            choices: list[tuple[str, SimWorker | None]] = list(en)
            if q.items:
                choices += [("ctl", None)] * max(1, len(en) // 2 + 1)
            if not choices:
                raise StandOff("controller waits, no worker can move, nothing in flight")
            if cfg.p_crash and self.crashes < cfg.max_crashes and rng.random() < cfg.p_crash:
                live = [w for w in self.workers if w.alive and w.pc != "done"]
                if live:
                    w = rng.choice(live)
                    self.do("crash", w)
                    continue
            if self.speed:
                weights = [1.0 if w is None else (self.speed.get(w.number, 1.0) if k == "main" else 1.0) for k, w in choices]
                kind, w = rng.choices(choices, weights=weights)[0]
            else:
                kind, w = rng.choice(choices)
            if kind == "ctl":
                self.trace.append("ctl")
                return self._hand_over(q)
            assert w is not None
            self.do(kind, w)

    def worker_obs(self, w: SimWorker) -> str:
        shq = lambda x: "S" if x is SHUT else str(x)  # noqa: E731
        running = w.pc in ("run0", "run1", "run2")
        cur = str(w.cur) if running and w.cur is not None else "-"
        nx = shq(w.next) if (running or w.pc == "wait1") and w.next is not None else "-"
        q = ",".join(shq(x) for x in w.queue) or "-"
        return (f"w pc={w.pc} cur={cur} next={nx} q={q} in={len(w.c2w)} out={len(w.w2c)} alive={'1' if w.alive else '0'} "
                f"cq={len(self.dsession.queue.items)}")

    def sys_record(self, lines: list[str], w: SimWorker) -> None:
        for k, l in enumerate(lines):
            self.sys_lines += self._sys_pre
            self.sys_obs += ["ok"] * len(self._sys_pre)
            self._sys_pre = []
            self.sys_lines.append(l)
            # intermediate steps of one simulation step are not observed individually
            self.sys_obs.append(self.worker_obs(w) if k == len(lines) - 1 else "*")

    def do(self, kind: str, w: SimWorker) -> None:
        self.trace.append(f"{kind} {w.id}")
        w.sys_steps = []
        if kind == "main":
            w.main()
            self.sys_record(w.sys_steps, w)
        elif kind == "deliver":
            w.deliver()
            self.sys_record([f"deliver {w.id[2:]}"], w)
        elif kind == "crash":
            self.crashes += 1
            w.die("injected")
            self.sys_record(w.sys_steps, w)
        elif kind == "recv":
            msg = w.w2c.popleft()
            node = w.node
            before = node._down
            sent_before = node._shutdown_sent
            if msg == "END":
                w.end_seen = True
                from xdist.workermanage import Marker

                node.process_from_remote(Marker.END)
            else:
                node.process_from_remote(msg)
            if node._down and not before:
                self._flag_lines.append(f"flag-down {w.id[2:]}")
            if node._shutdown_sent and not sent_before:
                self._flag_lines.append(f"flag-sent {w.id[2:]}")
            if msg == "END" and not w.alive:
                self._flag_lines.append(f"flag-broken {w.id[2:]}")
            self.sys_record([f"recv {w.id[2:]}"], w)
        else:
            raise ValueError(kind)

    def _hand_over(self, q: SimQueue) -> Any:
        item = q.items.popleft()
        callname, kwargs = item
        node = kwargs.get("node")
        self.ctl_events.append((callname, node.gateway.id if node is not None else "-"))
        self.ctl_lines += self._flag_lines
        self.ctl_obs += ["ok"] * len(self._flag_lines)
        self._flag_lines = []
        self._crash_requeued = False
        self._open = {"event": callname, "kwargs": kwargs, "wire_from": len(self.wirelog), "pub_from": len(self.obs_pub),
                      "lost_from": len(self.lost_sends)}
        return item

    def event_line(self, callname: str, kw: dict[str, Any]) -> str:
        node = kw.get("node")
        n = node.gateway.id[2:] if node is not None else "?"
        if callname == "workerready":
            return f"ready {n}"
        if callname == "workerfinished":
            wo = node.workeroutput
            opt = lambda v: esc(str(v)) if v else "-"  # noqa: E731
            return f"fin {n} {wo['exitstatus']} {opt(wo['shouldfail'])} {opt(wo['shouldstop'])}"
        if callname == "internal_error":
            return f"ierr {n}"
        if callname == "errordown":
            return f"errdown {n} {'1' if self._crash_requeued else '0'}"
        if callname == "collectionfinish":
            return f"coll {n} {show_str_list(kw['ids'])}"
        if callname == "testreport":
            return f"rep {n} {'1' if kw['rep'].failed else '0'}"
        if callname == "runtest_protocol_complete":
            return f"done {n} {kw['item_index']} {'1' if kw['duration'] >= 0.1 else '0'}"
        if callname == "unscheduled":
            return f"unsched {n} {show_nat_list(kw['indices'])}"
        if callname == "collectreport":
            return f"crep {n} {esc(str(kw['rep'].longrepr))} {'1' if kw['rep'].failed else '0'}"
        return "other"

    def finalize_event(self, exc: BaseException | None) -> None:
        """closes the record of the loop iteration that has just ended (or raised)"""
        o = self._open
        if o is None and exc is not None and "no active workers" in str(exc):
            # raised by loop_once before it takes an event (the previous iteration was closed when the emptiness of
            # `_active_nodes` was tested)
            self.ctl_lines.append("other")
            self.ctl_obs.append("RuntimeError")
            self.sys_lines += self._sys_pre + ["ctl 0 0"]
            self.sys_obs += ["ok"] * len(self._sys_pre) + ["RuntimeError"]
            self._sys_pre = []
            return
        if o is None:
            if not self.ctl_lines and self.dsession is not None and self.dsession.sched is not None:
                ds = self.dsession
                mr = ds._max_worker_restart
                self.ctl_lines.append(f"init {self.cfg.mode} {len(ds.nodemanager.specs)} {self.cfg.msc} {ds.maxfail or 0} {mr}")
                self.ctl_obs.append(self.render_obs(0, 0))
                self.sys_lines += self._sys_pre + [self.ctl_lines[-1]]
                self.sys_obs += ["ok"] * len(self._sys_pre) + [self.ctl_obs[-1]]
                self._sys_pre = []
                self.ctl_lines += self._flag_lines
                self.ctl_obs += ["ok"] * len(self._flag_lines)
                self._flag_lines = []
            return
        self._open = None
        self.ctl_lines.append(self.event_line(o["event"], o["kwargs"]))
        if o["event"] == "workerready":
            self.ready_ids.append(o["kwargs"]["node"].gateway.id)
        if exc is None and self.cfg.mode == "load" and self.dsession is not None and self.dsession.sched is not None:
            # the invariant of Props/C02Ctl (C02_controller_load), read off the real scheduler at the loop boundary
            sc = self.dsession.sched
            for node, book in sc.node2pending.items():
                if node in sc.node2collection and not node.shutting_down and len(book) < 2 and sc.pending:
                    self.q_breaks.append((len(self.ctl_lines), node.gateway.id, list(book), len(sc.pending)))
        if (exc is None and o["event"] == "unscheduled" and o["kwargs"].get("indices") and self.dsession is not None
                and hasattr(self.dsession.sched, "steal_requested_from_node")):
            # C07 (controller side): an answered steal request is accounted for in the very iteration that handles the answer --
            # the withdrawn tests left the victim's book (unless this iteration handed them to it again)
            v = o["kwargs"]["node"]
            book = list(self.dsession.sched.node2pending.get(v, []))
            resent = [i for wid, name, kw in self.wirelog[o["wire_from"]:] if wid == v.gateway.id and name == "runtests" for i in kw["indices"]]
            # ... also when the victim is dead and not yet noticed: the send raised OSError, was swallowed, and the tests are booked
            # for it all the same (remove_node recovers them) -- not a wrong book
            resent += [i for wid, name, kw in self.lost_sends[o.get("lost_from", 0):] if wid == v.gateway.id and name == "runtests" for i in kw.get("indices", [])]
            left = [i for i in o["kwargs"]["indices"] if i in book and i not in resent]
            if left:
                self.steal_breaks.append((len(self.ctl_lines), v.gateway.id, list(o["kwargs"]["indices"]), left))
        if exc is not None:
            self.ctl_obs.append(type(exc).__name__)
        else:
            self.ctl_obs.append(self.render_obs(o["wire_from"], o["pub_from"]))
        # the same iteration as a step of the system model (the ids/spec lines of workers started in it go first)
        knode = o["kwargs"].get("node")
        self.sys_lines += self._sys_pre + [f"ctl {knode.gateway.id[2:] if knode is not None else 0} {'1' if self._crash_requeued else '0'}"]
        self.sys_obs += ["ok"] * len(self._sys_pre) + [self.ctl_obs[-1]]
        self._sys_pre = []

    def render_obs(self, wire_from: int, pub_from: int) -> str:
        import t1_sched

        ds = self.dsession
        outs = []
        for wid, name, kw in self.wirelog[wire_from:]:
            k = wid[2:]
            if name == "runtests":
                outs.append(f"run:{k}:{show_nat_list(kw['indices'])}")
            elif name == "runtests_all":
                outs.append(f"runall:{k}")
            elif name == "steal":
                outs.append(f"steal:{k}:{show_nat_list(kw['indices'])}")
            elif name == "shutdown":
                outs.append(f"shutdown:{k}")
            elif name == "collectreport":
                import re

                m = re.search(r"between (gw\d+) and (gw\d+)", kw["text"])
                first = m.group(1)[2:] if m else "?"
                ok = m is not None and m.group(2) == wid and kw["outcome"] == "failed"
                outs.append(f"collectreport:{k}:{first}" + ("" if ok else ":MALFORMED"))
        pubs = self.obs_pub[pub_from:]
        ss = ds.shouldstop
        if not ss:
            stop = "-"
        elif str(ss).startswith("stopping after "):
            stop = f"maxfail:{str(ss).split()[2]}"
        elif "received keyboard-interrupt" in str(ss):
            stop = f"kbd:{str(ss).split()[1][2:].rstrip('>')}"
        else:
            stop = f"worker:{esc(str(ss))}"
        sr = ds._summary_report
        if sr is None:
            summ = "-"
        elif sr.startswith("maximum crashed workers reached: "):
            summ = "maximum:" + sr.rsplit(" ", 1)[1]
        elif sr.startswith("worker gw") and sr.endswith("crashed and worker restarting disabled"):
            summ = "disabled:" + sr.split()[1][2:]
        else:
            summ = "?" + esc(sr)
        rs = t1_sched.RealSched.__new__(t1_sched.RealSched)
        rs.sched, rs.mode = ds.sched, self.cfg.mode
        active = sorted(int(n.gateway.id[2:]) for n in ds._active_nodes)
        b = lambda x: "1" if x else "0"  # noqa: E731
        return (f"ok | {';'.join(outs) or '-'} | {';'.join(pubs) or '-'} | sd={b(ds.shuttingdown)} stop={stop} "
                f"active={show_nat_list(active)} fin={b(ds.session_finished)} cf={ds.countfailures} fn={ds._failed_nodes_count} "
                f"sum={summ} | {rs.obs()}")

    # ---- running
    def run(self) -> None:
        from xdist import dsession as D

        config = self.config
        rec = Recorder(self)
        config.pluginmanager.register(rec, "verif-sim-recorder")
        orig_make = execnet.Group.makegateway
        sim = self

        def fake_makegateway(group: Any, spec: Any) -> Any:
            return sim.makegateway(spec)

        execnet.Group.makegateway = fake_makegateway  # type: ignore[method-assign]
        ds = D.DSession(config)
        self.dsession = ds
        config.pluginmanager.register(ds, "dsession")     # as pytest_configure does (its make_scheduler hook is needed)
        ds.queue = SimQueue(self)  # type: ignore[assignment]

        class ObservedSet(set):  # type: ignore[type-arg]
            """`_active_nodes`: when the loop finds it empty, the iteration that has just ended is recorded first"""

            def __len__(inner) -> int:  # noqa: N805
                n = set.__len__(inner)
                if n == 0 and sim._open is not None:
                    sim.finalize_event(None)
                return n

        ds._active_nodes = ObservedSet()
        orig_setup_node = D.NodeManager.setup_node

        def setup_node(nm: Any, spec: Any, putevent: Any) -> Any:
            node = orig_setup_node(nm, spec, putevent)
            w = self.by_id[node.gateway.id]
            w.node = node
            node._verif_id = w.number if False else int(node.gateway.id[2:])
            return node

        D.NodeManager.setup_node = setup_node  # type: ignore[method-assign]
        import contextlib
        import io

        self.stderr = io.StringIO()
        try:
          with contextlib.redirect_stderr(self.stderr), contextlib.redirect_stdout(self.stderr):
            try:
                ds.pytest_sessionstart(FakeSession())  # type: ignore[arg-type]
                r = ds.pytest_runtestloop()
                self.finalize_event(None)
                self.outcome = ("finished", str(r))
            except D.Interrupted as e:
                self.finalize_event(None)
                self.outcome = ("interrupted", str(e))
            except StandOff as e:
                self.outcome = ("standoff", str(e))
            except StepBudget as e:
                self.outcome = ("nobudget", str(e))
            except RuntimeError as e:
                self.finalize_event(e)
                if "no active workers" in str(e):
                    self.outcome = ("noworkers", str(e))
                else:
                    self.outcome = ("error", f"{type(e).__name__}: {e}")
            except Exception as e:  # noqa: BLE001
                self.finalize_event(e)
                import traceback

                tb = traceback.extract_tb(e.__traceback__)
                where = next((f"{f.name}:{f.lineno}" for f in reversed(tb) if "/xdist/" in f.filename), "?")
                self.outcome = ("error", f"{type(e).__name__}: {str(e)[:120]} @ {where}")
        finally:
            execnet.Group.makegateway = orig_make  # type: ignore[method-assign]
            D.NodeManager.setup_node = orig_setup_node  # type: ignore[method-assign]
            config.pluginmanager.unregister(rec)
            config.pluginmanager.unregister(ds)
            from xdist.workermanage import WorkerController

            for p in list(config.pluginmanager.get_plugins()):
                if isinstance(p, WorkerController.RemoteHook):
                    config.pluginmanager.unregister(p)
            try:
                ds.pytest_sessionfinish()
            except Exception:  # noqa: BLE001
                pass
