#!/usr/bin/env python3
"""Prints the brief given to an independent sub-agent that seeds a property-breaking change (DESIGN §11.3).
Only the property's own text goes in; nothing about /verif's machinery."""
import json, sys
from pathlib import Path
pid, wt = sys.argv[1], sys.argv[2]
props = {json.loads(l)["id"]: json.loads(l) for l in (Path(__file__).resolve().parent.parent / "properties.jsonl").read_text().splitlines() if l.strip()}
p = props[pid]
print(f"""You are working on a scratch git worktree of the pytest-xdist plugin at {wt} (a pytest plugin that distributes tests across worker processes via execnet). Work ONLY inside {wt}; never touch /repo or /verif and do not read /verif. There is no network.

How to run things: use /venv/bin/python and always set PYTHONPATH={wt}/src so that THIS copy of xdist is imported (check with: cd {wt} && PYTHONPATH={wt}/src /venv/bin/python -c "import xdist; print(xdist.__file__)"). The existing tests live in {wt}/testing; run them with: cd {wt} && PYTHONPATH={wt}/src /venv/bin/python -m pytest -q -p no:cacheprovider --timeout=900 testing/... (the whole suite takes 10-15 minutes; on the unchanged tree test_handlecrashitem_one and test_remote_usage_prog always fail and test_workqueue_ordered_by_size is flaky - ignore those three).

Here is a semantic property of pytest-xdist that currently holds:

PROPERTY {pid}: {p['title']}
{p['statement']}
It is meant to hold {p['quantifier']['text']}.
(Relevant source files: {', '.join(p['anchors']['files'])}.)

YOUR TASK: write TWO different, independent changes to the source under {wt}/src/xdist (each a small realistic slip that a maintainer could make in a refactor or 'clean-up' - different code sites for the two) such that each change on its own
  1. still imports/compiles,
  2. still passes the existing test suite in {wt}/testing (apart from the three tests named above) - you must actually run at least the test files related to the code you touched, and preferably the whole suite, with the change applied,
  3. BREAKS the property above, and
  4. needs something specific to manifest: a particular interleaving or message order, a crash or fault at a particular point, a multi-step sequence of operations, an unusual input, or two cooperating code sites that each look fine alone. It must NOT be something that any ordinary run would expose at once.
For each change also write a demonstration (a pytest test file or a small standalone python program, driving either the real classes in-process or a real `pytest -n` run on a generated suite) that FAILS with the change applied and PASSES on the unchanged source. Verify both directions yourself (use `git stash` / `git checkout -- src` to switch).

DELIVERABLES (create these, then restore the source with `git checkout -- src` so the worktree is clean apart from the MUTATION dirs):
  {wt}/MUTATION1/patch.diff   - output of `git diff -- src` for change 1 (must apply with `git apply` on the unchanged tree)
  {wt}/MUTATION1/demo.py      - the demonstration (state in meta.json exactly how to run it; exit status non-zero = property broken)
  {wt}/MUTATION1/meta.json    - {{"property": "{pid}", "summary": "...what the change does...", "needs_to_manifest": "...", "how_to_run_demo": "...", "tests_run": "...which existing tests you ran with the change and their result..."}}
  and the same under {wt}/MUTATION2/.
Finish with a short report: for each mutation one paragraph on what it changes, why the suite does not notice, and what is needed to trigger it.""")
