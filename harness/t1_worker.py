"""T1 component differential check for the worker side: the real `WorkerInteractor` + `TestQueue` run their real
`pytest_runtestloop` in a thread; the harness thread plays the receiver thread (calls `handle_command`).

Hand-off points (where the other thread is allowed to run): `Event.wait` of the queue (blocked `get`), the
protocol call, and -- the atomicity audit -- every *outermost release* of the queue lock by the receiver thread:
there the main thread is allowed to run until it blocks again.  The model's `steal`/`put` are single atomic steps,
so a critical section that is narrower in the code than in the model shows up as a disagreement.
"""
from __future__ import annotations

import random
import threading
from typing import Any

from common import CompResult, Disagreement, Violation, h, run_driver, show_nat_list

RUNNING, WAITING, INPROTO, DONE, LOCKWAIT, PAUSED = "running", "waiting", "inproto", "done", "lockwait", "paused"


class Ctl:
    """state of the main (worker loop) thread as seen by the harness"""

    def __init__(self) -> None:
        self.cv = threading.Condition()
        self.state = RUNNING
        self.release_proto = False
        self.stop_flag = False
        self.main_ident: int | None = None
        self.preempt = True
        self.inject: tuple[int, bool] | None = None   # release the protocol at the k-th pre-emption point
        self.points = 0
        # pre-emption of the MAIN thread: it stops at its k-th synchronisation point (lock enter/exit, event set/clear/wait)
        # after being armed and lets the receiver thread run
        self.main_pause_at: int | None = None
        self.main_points = 0
        self.resume_main = False
        self.paused_at: str | None = None
        self.early_resume = False       # the pre-empted main thread goes on as soon as the receiver leaves a critical section

    def main_point(self, where: str) -> None:
        """called by the main thread at each of its synchronisation points"""
        if self.main_pause_at is None or threading.get_ident() != self.main_ident:
            return
        self.main_points += 1
        if self.main_points != self.main_pause_at:
            return
        self.main_pause_at = None
        with self.cv:
            self.paused_at = where
            self.resume_main = False
            self.state = PAUSED
            self.cv.notify_all()
            self.cv.wait_for(lambda: self.resume_main)
            self.state = RUNNING
            self.cv.notify_all()

    def resume(self) -> None:
        with self.cv:
            if self.state == PAUSED:
                self.resume_main = True
                self.cv.notify_all()
                self.cv.wait_for(lambda: self.state != PAUSED)

    def release(self, stop: bool) -> bool:
        with self.cv:
            if self.state != INPROTO:
                return False
            self.stop_flag = stop
            self.release_proto = True
            self.state = RUNNING
            self.cv.notify_all()
            return True

    def set(self, st: str) -> None:
        with self.cv:
            self.state = st
            self.cv.notify_all()

    def settle(self, timeout: float = 5.0) -> str:
        with self.cv:
            ok = self.cv.wait_for(lambda: self.state != RUNNING, timeout)
            if not ok:
                raise RuntimeError("main thread did not settle")
            return self.state


class FakeEvent:
    def __init__(self, ctl: Ctl) -> None:
        self.ctl = ctl
        self.flag = False
        self.inner = threading.Event()

    def set(self) -> None:
        self.ctl.main_point("event.set")
        self.flag = True
        # a waiter is about to run: mark it so before it can be observed
        with self.ctl.cv:
            if self.ctl.state == WAITING:
                self.ctl.state = RUNNING
        self.inner.set()

    def clear(self) -> None:
        self.ctl.main_point("event.clear")
        self.flag = False
        self.inner.clear()

    def wait(self) -> None:
        self.ctl.main_point("event.wait")
        if self.flag:
            return
        self.ctl.set(WAITING)
        self.inner.wait()


class FakeRLock:
    """re-entrant lock; the receiver thread's outermost release is a pre-emption point"""

    def __init__(self, ctl: Ctl) -> None:
        self.ctl = ctl
        self.lock = threading.RLock()
        self.depth: dict[int, int] = {}
        self.owner: int | None = None

    def __enter__(self) -> "FakeRLock":
        me = threading.get_ident()
        if me == self.ctl.main_ident:
            self.ctl.main_point("lock.enter")
        elif self.owner == self.ctl.main_ident and self.ctl.state == PAUSED:
            # the paused main thread holds the queue lock: the receiver has to wait for it, so the main thread goes on
            self.ctl.resume()
        if me == self.ctl.main_ident and not self.lock.acquire(blocking=False):
            # the receiver thread is inside its critical section: the main thread waits for the lock
            self.ctl.set(LOCKWAIT)
            self.lock.acquire()
        elif me != self.ctl.main_ident:
            self.lock.acquire()
        self.depth[me] = self.depth.get(me, 0) + 1
        self.owner = me
        if (self.depth[me] == 1 and self.ctl.preempt and me != self.ctl.main_ident and self.ctl.main_ident is not None
                and self.ctl.inject is not None and self.ctl.inject[0] == 0):
            # pre-emption point *inside* the receiver's critical section: the main thread is let go and runs until it
            # blocks -- on this very lock if it wants the queue
            stop = self.ctl.inject[1]
            self.ctl.inject = None
            if self.ctl.release(stop):
                self.ctl.settle()
        return self

    def __exit__(self, *a: Any) -> None:
        me = threading.get_ident()
        self.depth[me] -= 1
        outer = self.depth[me] == 0
        if outer and me != self.ctl.main_ident:
            with self.ctl.cv:
                if self.ctl.state == LOCKWAIT:
                    self.ctl.state = RUNNING      # the waiting main thread is about to get the lock
        if outer:
            self.owner = None
        self.lock.release()
        if outer and me == self.ctl.main_ident:
            self.ctl.main_point("lock.exit")
        if outer and me != self.ctl.main_ident and self.ctl.state == PAUSED and self.ctl.early_resume:
            # the receiver has completed a critical section while the main thread was pre-empted: now the main thread goes on
            self.ctl.resume()
        if outer and self.ctl.preempt and me != self.ctl.main_ident and self.ctl.main_ident is not None:
            # let the main thread run until it blocks again
            self.ctl.settle()
            self.ctl.points += 1
            if self.ctl.inject is not None and self.ctl.points == self.ctl.inject[0]:
                stop = self.ctl.inject[1]
                self.ctl.inject = None
                if self.ctl.release(stop):
                    self.ctl.settle()

    acquire = __enter__

    def release(self) -> None:
        self.__exit__()


class FakeExecModel:
    def __init__(self, ctl: Ctl) -> None:
        self.ctl = ctl

    def RLock(self) -> FakeRLock:
        return FakeRLock(self.ctl)

    def Event(self) -> FakeEvent:
        return FakeEvent(self.ctl)


class FakeGateway:
    def __init__(self, ctl: Ctl) -> None:
        self.execmodel = FakeExecModel(ctl)


class FakeChannel:
    def __init__(self, ctl: Ctl) -> None:
        self.gateway = FakeGateway(ctl)
        self.sent: list = []
        self.callback = None

    def send(self, obj: Any) -> None:
        self.sent.append(obj)

    def setcallback(self, cb: Any, endmarker: Any = None) -> None:
        self.callback = cb


class FakeItem:
    def __init__(self, i: int) -> None:
        self.index = i
        self.nodeid = f"t.py::test_{i}"


class FakeSession:
    def __init__(self, n: int) -> None:
        self.items = [FakeItem(i) for i in range(n)]
        self.shouldfail = False
        self.shouldstop = False


class FakeHook:
    def __init__(self, rw: "RealWorker") -> None:
        self.rw = rw

    def pytest_runtest_protocol(self, item: FakeItem, nextitem: FakeItem | None) -> None:
        rw = self.rw
        rw.ran.append((item.index, None if nextitem is None else nextitem.index))
        ctl = rw.ctl
        with ctl.cv:
            ctl.state = INPROTO
            ctl.cv.notify_all()
            ctl.cv.wait_for(lambda: ctl.release_proto)
            ctl.release_proto = False
            ctl.state = RUNNING
            if ctl.stop_flag:
                rw.session.shouldstop = "stop requested"


class FakeOption:
    debug = False


class FakePM:
    def register(self, *a: Any, **k: Any) -> None:
        pass


class FakeConfig:
    def __init__(self, rw: "RealWorker") -> None:
        self.workerinput = {"workerid": "gw0", "testrunuid": "u"}
        self.option = FakeOption()
        self.pluginmanager = FakePM()
        self.hook = FakeHook(rw)

    def getvalue(self, name: str) -> Any:
        return None


class RealWorker:
    NITEMS = 64

    def __init__(self, preempt: bool = True) -> None:
        from xdist import remote

        self.remote = remote
        self.ctl = Ctl()
        self.ctl.preempt = preempt
        self.ran: list = []
        self.session = FakeSession(self.NITEMS)
        self.channel = FakeChannel(self.ctl)
        self.inter = remote.WorkerInteractor(FakeConfig(self), self.channel)
        self.inter.session = self.session
        self.thread = threading.Thread(target=self._main, daemon=True)
        self.error: BaseException | None = None

    def _main(self) -> None:
        self.ctl.main_ident = threading.get_ident()
        try:
            self.inter.pytest_runtestloop(self.session)
        except BaseException as e:  # noqa: BLE001
            self.error = e
        self.ctl.set(DONE)

    def start(self) -> str:
        self.thread.start()
        self.ctl.settle()
        return self.obs()

    # ---- observation (format of Driver/Worker.lean)
    def obs(self) -> str:
        M = self.remote.Marker.SHUTDOWN
        it = self.inter
        st = self.ctl.state
        q = ",".join("S" if x is M else str(x) for x in list(it.torun._items)) or "-"
        nx = it.nextitem_index
        if st == DONE:
            pc = "done"
        elif st == INPROTO:
            pc = "running"
        elif st == WAITING:
            pc = "wait0" if nx is None else "wait1"
        else:
            pc = "?" + st
        nxs = "None" if nx is None else ("S" if nx is M else str(nx))
        cur = str(it.item_index) if st == INPROTO else "-"
        ran = ";".join(f"{i}>{'None' if a is None else a}" for i, a in self.ran) or "-"
        sent = []
        for name, kw in self.channel.sent:
            if name == "runtest_protocol_complete":
                sent.append(f"complete:{kw['item_index']}")
            elif name == "unscheduled":
                sent.append(f"unscheduled:{show_nat_list(kw['indices'])}")
            else:
                sent.append(f"?{name}")
        err = f" ERR={type(self.error).__name__}" if self.error else ""
        return f"pc={pc} q={q} cur={cur} next={nxs} ran={ran} sent={';'.join(sent) or '-'}{err}"

    def apply(self, line: str) -> str:
        ws = line.split()
        op = ws[0]
        if op == "init":
            return self.start()
        self.ctl.points = 0
        self.ctl.inject = (int(ws[2][1:]), ws[3] == "1") if len(ws) == 4 and ws[2].startswith("@") else None
        if op == "put":
            idx = [] if ws[1] == "-" else [int(x) for x in ws[1].split(",")]
            self.inter.handle_command(("runtests", {"indices": idx}))
        elif op == "shutdown":
            self.inter.handle_command(("shutdown", {}))
        elif op == "steal":
            idx = [] if ws[1] == "-" else [int(x) for x in ws[1].split(",")]
            self.inter.handle_command(("steal", {"indices": idx}))
        elif op == "pmain":
            # `pmain b k cmd arg`: the protocol returns and the main thread is pre-empted at its k-th synchronisation point;
            # the receiver then executes `cmd`; the main thread goes on when the receiver needs the lock it holds, when the
            # receiver has left its first critical section, or at the end of the command
            with self.ctl.cv:
                if self.ctl.state != INPROTO:
                    return "disabled"
                self.ctl.main_points = 0
                self.ctl.early_resume = ws[2].endswith("e")
                self.ctl.main_pause_at = int(ws[2].rstrip("e"))
                self.ctl.stop_flag = ws[1] == "1"
                self.ctl.release_proto = True
                self.ctl.state = RUNNING
                self.ctl.cv.notify_all()
            self.ctl.settle()
            self.ctl.main_pause_at = None
            idx = [] if ws[4] == "-" else [int(x) for x in ws[4].split(",")]
            if ws[3] == "put":
                self.inter.handle_command(("runtests", {"indices": idx}))
            elif ws[3] == "steal":
                self.inter.handle_command(("steal", {"indices": idx}))
            else:
                self.inter.handle_command(("shutdown", {}))
            self.ctl.resume()
        elif op == "main":
            with self.ctl.cv:
                if self.ctl.state != INPROTO:
                    return "disabled"
                self.ctl.stop_flag = ws[1] == "1"
                self.ctl.release_proto = True
                self.ctl.state = RUNNING
                self.ctl.cv.notify_all()
        else:
            return "bad-op"
        self.ctl.settle()
        if self.ctl.inject is not None:
            # fewer pre-emption points than asked for: release after the command
            stop = self.ctl.inject[1]
            self.ctl.inject = None
            if self.ctl.release(stop):
                self.ctl.settle()
        return self.obs()

    def close(self) -> None:
        """drive the thread to its end so that it does not leak"""
        for _ in range(200):
            st = self.ctl.state
            if st == DONE:
                break
            if st == INPROTO:
                with self.ctl.cv:
                    self.ctl.stop_flag = True
                    self.ctl.release_proto = True
                    self.ctl.state = RUNNING
                    self.ctl.cv.notify_all()
            elif st == WAITING:
                self.ctl.preempt = False
                self.inter.handle_command(self.remote.Marker.SHUTDOWN)
            try:
                self.ctl.settle(2.0)
            except RuntimeError:
                break
        self.thread.join(1.0)


def replay_real(ops: list[str]) -> list[str]:
    rw = RealWorker()
    out = []
    try:
        for o in ops:
            out.append(rw.apply(o))
    finally:
        rw.close()
    return out


def gen(rng: random.Random, res: CompResult) -> tuple[list[str], list[str]]:
    rw = RealWorker()
    ops: list[str] = []
    impl: list[str] = []

    def do(line: str) -> str:
        out = rw.apply(line)
        ops.append(line)
        impl.append(out)
        res.hit("op:" + line.split()[0])
        return out

    try:
        do("init")
        nxt = 0
        shut = False
        for _ in range(rng.randrange(4, 30)):
            r = rng.random()
            queued = [x for x in list(rw.inter.torun._items) if isinstance(x, int)]
            if r < 0.30 and nxt < RealWorker.NITEMS - 6:
                k = rng.choice([1, 1, 2, 2, 3, 5])
                if rng.random() < 0.06 and nxt > 0:
                    idx = [rng.randrange(nxt)]  # re-sent index (after a steal the controller may hand it out again)
                else:
                    idx = list(range(nxt, nxt + k))
                    nxt += k
                inj = f" @{rng.randrange(1, len(idx) + 1)} 0" if rng.random() < 0.3 else ""
                do(f"put {show_nat_list(idx)}{inj}")
            elif r < 0.55:
                kind = rng.random()
                if kind < 0.5 and queued:
                    k = rng.randrange(1, len(queued) + 1)
                    req = queued[-k:] if rng.random() < 0.6 else rng.sample(queued, k)
                    res.hit("steal:subset")
                elif kind < 0.7 and queued:
                    req = queued[:]          # includes the queue head
                    res.hit("steal:whole-queue")
                elif kind < 0.85:
                    req = (queued[-2:] if queued else []) + [rng.randrange(RealWorker.NITEMS)]
                    res.hit("steal:superset-or-run")
                else:
                    req = [rng.randrange(max(1, nxt)) for _ in range(rng.randrange(0, 4))]
                    if req and rng.random() < 0.5:
                        req.append(req[0])   # duplicate in the request
                    res.hit("steal:random")
                inj = f" @{rng.choice([0, 0, 1, 1, 2])} 0" if rng.random() < 0.6 else ""
                do(f"steal {show_nat_list(req)}{inj}")
            elif r < 0.62:
                do("shutdown")
                shut = True
            elif r < 0.74 and rw.ctl.state == INPROTO:
                # the protocol returns and the main thread is pre-empted inside its next `get()` while a command arrives
                k = f"{rng.randrange(1, 6)}{'e' if rng.random() < 0.4 else ''}"
                c = rng.random()
                if c < 0.5 and nxt < RealWorker.NITEMS - 6:
                    n = rng.choice([1, 1, 2, 3])
                    do(f"pmain 0 {k} put {show_nat_list(range(nxt, nxt + n))}")
                    nxt += n
                elif c < 0.75:
                    do(f"pmain 0 {k} shutdown -")
                    shut = True
                else:
                    req = queued[-rng.randrange(1, len(queued) + 1):] if queued else [rng.randrange(max(1, nxt))]
                    do(f"pmain 0 {k} steal {show_nat_list(req)}")
                res.hit(f"pmain:{rw.ctl.paused_at}")
                rw.ctl.paused_at = None
            else:
                out = do(f"main {1 if rng.random() < 0.05 else 0}")
                if out == "disabled":
                    res.hit("main:disabled")
            if rw.ctl.state == DONE and rng.random() < 0.7:
                break
        if not shut and rng.random() < 0.8:
            do("shutdown")
            for _ in range(6):
                if rw.ctl.state != INPROTO:
                    break
                do("main 0")
    finally:
        rw.close()
    return ops, impl


def monitors(ops: list[str], impl: list[str], res: CompResult) -> None:
    """property predicates on the implementation's trace (the failing-input search)"""
    obs_lines = [l for l in impl if l.startswith("pc=")]
    if not obs_lines:
        return
    for l, o in zip(impl, ops):
        if l.startswith("pc=wait") and " q=-" not in l:
            for p in ("C02", "C05"):
                res.violations.append(Violation(p, "worker.queue", f"after `{o}` the worker's main thread is blocked waiting for the queue although it holds "
                                                f"{l.split(' q=')[1].split()[0]} (lost wake-up): it never runs them and never finishes", "lost-wakeup", ops, {"obs": l}))
            return
    last = obs_lines[-1]
    # the shutdown signal was handed to the worker, yet its main thread sits waiting on an empty queue: the marker is gone, the
    # worker never leaves its loop (and never runs the test it still holds as "next")
    shut_given = any(o == "shutdown" or (o.startswith("pmain ") and o.split()[3] == "shutdown") for o in ops)
    if shut_given and last.startswith("pc=wait") and " q=- " in last and "ERR=" not in last:
        held = last.split(" next=")[1].split()[0]
        for p in ("C07", "C05", "C02"):
            res.violations.append(Violation(p, "worker.queue", "the worker was sent the shutdown signal but its main thread waits on an empty queue: the "
                                            f"shutdown marker was lost from the queue (next={held}); the worker never finishes"
                                            + ("" if held in ("None", "S") else f" and test {held} is never run"),
                                            "shutdown-marker-lost", ops, {"last": last}))
        return
    if "ERR=" in last:
        res.violations.append(Violation("C05", "worker.queue", "the worker loop raised", "worker-loop-exception", ops, {"last": last}))
        return
    fields = dict(f.split("=", 1) for f in last.split(" ") if "=" in f)
    ran = [] if fields["ran"] == "-" else [tuple(x.split(">")) for x in fields["ran"].split(";")]
    sent = [] if fields["sent"] == "-" else fields["sent"].split(";")
    stolen: list[int] = []
    for ev in sent:
        if ev.startswith("unscheduled:") and ev != "unscheduled:-":
            stolen += [int(x) for x in ev.split(":")[1].split(",")]
    received: list[int] = []
    for o in ops:
        if o.startswith("put ") and o.split()[1] != "-":
            received += [int(x) for x in o.split()[1].split(",")]
        if o.startswith("pmain ") and o.split()[3] == "put" and o.split()[4] != "-":
            received += [int(x) for x in o.split()[4].split(",")]
    ran_idx = [int(i) for i, _ in ran]
    # C05b: consecutive announcements
    for (i, a), (j, _) in zip(ran, ran[1:]):
        if a != j:
            res.violations.append(Violation("C05", "worker.queue", f"test {i} announced next item {a} but {j} ran next",
                                            "nextitem-mismatch", ops, {"ran": ran}))
            return
    # C05a / C07: ran is a subsequence of received; started + stolen never exceed received (multiset)
    it = iter(received)
    if not all(any(x == y for y in it) for x in ran_idx):
        res.violations.append(Violation("C05", "worker.queue", "tests were not run in assignment order",
                                        "order-not-subsequence", ops, {"ran": ran_idx, "received": received}))
        return
    from collections import Counter

    over = (Counter(ran_idx) + Counter(stolen)) - Counter(received)
    if over:
        what = (f"index(es) {sorted(over)} reported as withdrawn and also started (or withdrawn twice): the controller hands them to "
                "another worker, they run twice")
        for p in ("C07", "C05", "C01"):
            res.violations.append(Violation(p, "worker.queue", what, "stolen-and-started", ops,
                                            {"ran": ran_idx, "stolen": stolen, "received": received}))


def nontrivial(ops: list[str]) -> bool:
    return sum(o.startswith("put") for o in ops) >= 1 and any(o.startswith("steal") for o in ops) and sum(o.startswith("main") for o in ops) >= 2


def first_diff(a: list[str], c: list[str]) -> int | None:
    for i, (x, y) in enumerate(zip(a, c)):
        if x != y:
            return i
    return None


def shrink(ops: list[str]) -> list[str]:
    def bad(c: list[str]) -> bool:
        if not c or c[0] != "init":
            return False
        return first_diff(run_driver("worker", c), replay_real(c)) is not None

    cur = list(ops)
    d = first_diff(run_driver("worker", cur), replay_real(cur))
    if d is None:
        return cur
    cur = cur[: d + 1]
    changed = True
    while changed:
        changed = False
        i = 1
        while i < len(cur):
            c = cur[:i] + cur[i + 1 :]
            if bad(c):
                cur, changed = c, True
            else:
                i += 1
    return cur


def run(n_seq: int, seed: int) -> CompResult:
    res = CompResult(component="worker.queue")
    res.rule = ("random receiver-command streams (runs, steals: subsets/whole queue/supersets/already-run/duplicates, shutdown at any "
                "position, commands behind it) interleaved with main-thread progress on the real WorkerInteractor; pre-emption at every "
                "outermost release of the queue lock; non-trivial = at least one put, one steal and two protocol completions; distinct by op list")
    rng = random.Random(f"{seed}-worker")
    seqs = []
    from common import CORPUS

    cdir = CORPUS / "worker.queue"
    if cdir.is_dir():
        for p in sorted(cdir.glob("*.ops")):
            ops = [l for l in p.read_text().split("\n") if l.strip()]
            seqs.append((ops, replay_real(ops)))
            res.hit("corpus")
    for _ in range(n_seq):
        seqs.append(gen(rng, res))
    model = run_driver("worker", [l for ops, _ in seqs for l in ops])
    pos = 0
    for ops, impl in seqs:
        m = model[pos : pos + len(ops)]
        pos += len(ops)
        res.evaluations += 1
        if nontrivial(ops):
            res.distinct.add(h(ops))
        monitors(ops, impl, res)
        d = first_diff(m, impl)
        if d is not None:
            small = shrink(ops)
            sm, si = run_driver("worker", small), replay_real(small)
            res.disagreements.append(Disagreement("worker.queue", small, sm, si, first_diff(sm, si) or 0))
            monitors(small, si, res)
        else:
            res.traces_validated += 1
        if len(res.samples) < 2 and nontrivial(ops):
            res.samples.append({"ops": ops, "impl_last": impl[-1]})
    return res
