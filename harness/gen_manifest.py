#!/usr/bin/env python3
"""Regenerates /verif/MANIFEST.json from the table below (keeps the file consistent with registry.py)."""
import json
from pathlib import Path

VERIF = Path(__file__).resolve().parent.parent

LEVEL_NOTE = ("trusted: Lean 4.33 kernel with propext/Classical.choice/Quot.sound only (audited each run by #print axioms), "
              "the Python correspondence harness and the compiled driver; execnet, pytest core and CPython containers are modelled, not verified")

CLAIMS = {
    "C01": ("Lean theorems: WHOLE SYSTEM, ALL SIX MODES: nothing is lost, duplicated or reordered between the controller and a live worker started with the session - received blocks ++ inbox payloads = exactly the payloads the log addressed to it (C01_sys_nothing_lost_to_a_live_worker); for load and worksteal the controller's ledger (pool + books + completed + crashed = all indices + re-queued, "
            "as multisets) is invariant along every sequence of scheduler calls, hence exactly-once and 'not finished before all are completed'; "
            "whole system (load, runs without worker loss): in every reachable state of the composed transition system (controller, receiver threads, workers' two threads, channels; any interleaving) "
            "the indices of the agreed collection are - each exactly once - in the pool or in one worker's account (started by its main thread, announced, queued, on their way), hence no test is started twice or on two "
            "workers; and in every reachable state in which the session is finished, no worker was lost and no stop reason was set, the tests started by the workers' main threads are exactly the indices of the collection, each once, "
            "with nothing left in the pool, a queue or on the wire - the run does not end before (C01_sys_load_ledger, _started_at_most_once, _end_accounts, _exactly_once_at_end); "
            "the scheduler models (all five load-balancing classes) are tied to the real classes by a per-run differential check. Partial: worksteal and the loadscope family at whole-system level, and the "
            "publication of the reports, are validated by the simulation monitors, not proved",
            "contract refinement + multiset ledger invariant; whole-system ledger invariant preserved by every step kind + induction over reachability (Lean 4) ; differential correspondence of the scheduler models; step-by-step replay of simulated runs by the Lean system model with the invariants (incl. the ledger) evaluated after every step"),
    "C03": ("Lean theorems: remove_node returns the head of the dead node's book as the crash item and the tail to the pool (load, worksteal); loadscope family: the crash item is the first not completed test of the dead worker's assigned work, the 'unable to identify crashitem' branch is unreachable (C03_loadscope_crash_item); "
            "with any number of crashes every index is outstanding, completed or crash-reported exactly once. WHOLE SYSTEM, ALL SIX MODES (C03_sys_one_crash_report_per_worker_all_modes): after any execution at most one crash report "
            "per worker, under the dead worker's own id, published only by the handler of its death notice. Whole system, --dist load (controller + workers + channels, every "
            "interleaving, any number of earlier crashes/replacements/re-queues): the book of a live worker is completions in flight ++ the test it executes ++ what it holds, and when "
            "the controller handles the death notice of a worker that died inside test i the crash report it publishes is about test i of the agreed collection "
            "(C03_sys_load_crash_item; a seventh invariant layer about dead workers with a ghost history component); and, for every execution without an undecodable message, the ledger "
            "pool + books + handled completions + crash items = collection + re-queued in every reachable state, and at the end of a session (no stop reason, budget not exceeded) the tests "
            "completed by the workers ++ crash items = collection ++ re-queued items, pool empty, nobody registered: every other test ran exactly once and the run did not end before "
            "(C03_sys_load_ledger_with_crashes, C03_sys_load_accounting_at_end; non-vacuity replayed by the kernel from a simulated crash schedule); ghost-free: completions by the workers ++ "
            "PUBLISHED crash reports = collection ++ re-queued tests, as test ids (C03_sys_load_every_test_completed_or_reported, via loopOnce_ghost: an iteration publishes exactly the crash reports of the items remove_node charged)",
            "contract refinement + ledger invariant with crash ghost; whole-system invariant by induction over the steps of the composed transition system (Lean 4) ; differential correspondence incl. crash/replacement sequences; the system model replays every simulated step"),
    "C05": ("Lean theorems over the two-thread worker model, for every interleaving of receiver steps (put/steal/shutdown, also behind the marker) with "
            "main-thread steps: executed/held/queued tests form a subsequence of the received stream whose missing elements are exactly the replied ones; "
            "next-item announcements form a chain ending in the held entry; a steal never touches started or announced tests; WHOLE SYSTEM, every scheduler: the queue state of every worker "
            "process in every reachable state of the composed system is reached by steps of that worker machine (C05_sys_workers_refine), so all of the above holds of every worker in every execution "
            "(C05_sys_order_and_nextitem), and what a worker has started is what it has completed plus the test in progress (C01_sys_started_is_completed_plus_running)",
            "invariant by induction over arbitrary step lists (Lean 4) ; differential correspondence on the real WorkerInteractor threads with pre-emption at lock releases"),
    "C07": ("Lean theorems: the atomic steal removes all requested tests or none (duplicate-free queue), replies exactly what it removed (unconditionally), "
            "the rest still runs in order (lifted to every worker of the whole system, any scheduler, by C05_sys_workers_refine); whole system: every steal request a worker has taken is answered - #unscheduled replies sent = #requests taken, and taken ++ waiting is a subsequence of the requests addressed to it (C07_sys_steals_taken_are_answered), and an outstanding request always names a worker the scheduler still knows (C07_sys_outstanding_request_names_known_worker); controller side: a steal act needs no outstanding request, asks for a book suffix leaving two, and the reply is "
            "processed as the contract's unsched act, which the ledger theorem accepts",
            "worker-model theorems + contract refinement (Lean 4) ; differential correspondence of worker threads and of the worksteal scheduler"),
    "C16": ("Lean theorems (load, worksteal): every scheduler call keeps the complete wire log free of anything behind a node's shutdown (hence one shutdown per node), "
            "keeps the ledger duplicate-free (no index outstanding on two nodes) and in range; run commands are pool prefixes, steal requests book suffixes; "
            "WorkerController.shutdown is modelled and proved idempotent; controller level (worksteal): along every sequence of controller events with legal steal answers the wire log has nothing behind "
            "a shutdown signal and at most one shutdown per worker; whole system (load, no undecodable message): in every reachable state no test follows the shutdown command in a live "
            "worker's inbox or the marker in its queue (C16_sys_load_nothing_behind_the_shutdown_marker; wire-delta facts per scheduler call and per loop iteration, Sched/LoadWd); "
            "WHOLE SYSTEM, hypothesis-free, over arbitrary executions of the composed system (all threads that write to the wire, incl. a receiver thread's own shutdown() after an undecodable message): "
            "at most one shutdown signal per worker in ALL SIX modes (C16_sys_one_shutdown_signal_all_modes), and nothing at all addressed to a worker after its shutdown signal in the modes each, worksteal, "
            "loadscope, loadfile, loadgroup (C16_sys_nothing_after_the_shutdown_signal: every send of these schedulers is guarded by shutting_down and sends change no flag), and AT THE WORKER in these modes: no test behind the shutdown marker in its queue, nothing after a shutdown command in its inbox, nothing arrives once the marker is queued (C16_sys_worker_queue_nothing_behind_shutdown); load's first schedule() sends "
            "without looking at the flags, there the controller-level theorem carries the hypothesis",
            "contract invariants NoAfter/SentSync/Nodup/Bounded preserved by every act + refinement, lifted to the DSession loop by induction over events (Lean 4) ; differential correspondence of all six schedulers with wire monitors"),
    "C15": ("Lean theorems: mark_test_pending inserts at the front of the pool; per index #completed + #crash-reported = 1 + #re-queued when the ledger is empty; "
            "unsupported modes raise NotImplementedError. Whole system (--dist load, every execution without an undecodable message): at the end of a session without stop reason and "
            "within the budget, tests completed by the workers ++ crash items = collection ++ re-queued items - a re-queued crashed test runs again exactly once and the run still ends "
            "with nothing outstanding (C03_sys_load_accounting_at_end)",
            "ledger invariant with re-queue ghost; whole-system invariant by induction over the composed transition system (Lean 4) ; differential correspondence with markPending ops; whole-system simulation with a re-queuing crash hook"),
    "C13": ("Lean theorems over every option record: -n0 is a plain run; -nK gives min(K, maxprocesses) popen workers in load mode unless a mode is named; "
            "distribution iff a mode and an environment; --pdb is rejected exactly when it meets distribution and turns -n auto/logical into 0; --collect-only never installs the "
            "distributed session; after the worker's setup_config nothing distributes, loops or debugs; 'N*spec' expands to N copies (int(str(N)) = N proved)",
            "case analysis over the option record, digit-string round trip by induction (Lean 4) ; differential correspondence on real pytest Config objects (argv, addopts, PYTEST_ADDOPTS) incl. worker-side setup"),
    "C18": ("Lean theorems for every root list (nested, duplicated), cache and file system: StatRecorder.check reports a change iff the watched-file map differs from the cache; "
            "the new cache is the watched-file map; hence a poll reports exactly the creations/deletions/mtime-or-size changes since the previous poll and polling twice reports nothing; "
            "the failure memory is the first-occurrence de-duplication of the run's failing ids, unchanged when collection failed",
            "fold invariant over the directory walk, finite-map extensionality (Lean 4) ; differential correspondence on a real scratch tree and the real RemoteControl.loop_once"),
    "C10": ("Lean theorems about the DSession model, for EVERY scheduler (arbitrary interface), every event sequence and every budget: the replacement workers started are exactly "
            "min(workers lost, budget) (negative budget = 0); zero disables replacement; the death that exceeds the budget records the documented summary, triggers shutdown of every "
            "scheduled worker and starts nothing, and so does every later death; the default budget function (explicit, 4 per -n worker, else none); WHOLE SYSTEM, every scheduler (C10_sys_restarts_bounded): after any execution of the "
            "composed system - any schedule of threads, crashes at any point - the worker processes ever started are numnodes + min(failedNodes, budget), with consecutive ids",
            "invariant by induction over the controller loop, generic in the scheduler (Lean 4) ; whole-system simulation on the real DSession/NodeManager/WorkerController stack whose controller trace is replayed by the Lean model; differential check of the default-budget function"),
    "C12": ("Lean theorems (any scheduler, any event sequence): replacement ids are gw k, gw k+1, ... in start order, so all worker ids of a run are pairwise distinct and never reused; "
            "WHOLE SYSTEM, every scheduler (C12_sys_identities_unique): after any execution of the composed system the active workers are pairwise distinct started processes and the process list has exactly numnodes + min(failedNodes, budget) positions; "
            "environment variables, fixtures, run uid and per-worker base temporary directories are validated on real runs (partial: not modelled)",
            "counter invariant by induction over the controller loop (Lean 4) ; whole-system simulation with the real execnet id allocator and real WorkerController.setup; end-to-end pytest runs recording environment, fixtures, basetemp"),
    "C11": ("Lean theorems about the DSession model for every scheduler that is quiet while all its nodes shut down (proved for the scheduler of each of the six modes): "
            "once a stop reason is set it stays set, every loop iteration ends with the shutdown in force and all scheduled workers told to shut down, and from then on - and in the "
            "iteration that sets it - nothing is dispatched, whatever events follow (ready, finished, crashed workers incl. replacement within the budget); the run is interrupted iff a "
            "reason was set; a reason is set only by --maxfail failed reports or a worker ending with fail-fast/stop/keyboard interrupt; WHOLE SYSTEM, all six modes (C11_sys_no_dispatch_after_stop): "
            "a stop reason is set only by a step of the controller handling a workerfinished with exit status 2/shouldfail/shouldstop or a failed report reaching --maxfail (C11_sys_only_reasons_to_stop); "
            "continue any execution of the composed system after the stop decision in any way - receiver threads flipping flags and writing shutdown signals between controller iterations, crashes, replacements - "
            "and the dispatching commands ever written to the wires never change again",
            "invariant (ShutInv) + frame lemmas by case analysis over all handlers, induction over the event list, per-scheduler quietness lemmas (Lean 4) ; whole-system simulation on the real stack with the stop decision observed at the moment DSession.shouldstop is assigned"),
    "C17": ("Lean theorems: the receiver (process_from_remote model, any message stream) passes on exactly the events before the first terminating message and then one notice, "
            "nothing of a written-off worker afterwards, an undecodable message marks the worker down at once; worker_errordown (any scheduler): a death the scheduler does not know is "
            "swallowed, counted and replaced per budget; it can raise only if remove_node raises something other than KeyError, the crash hook raises, or the node is not active. "
            "Whole system, --dist load (every worker collects the same non-empty list, no undecodable message): in every reachable state the iteration of the controller loop that handles "
            "the oldest event of any worker - ready, collection, completion, report, log event, death notice, and workerfinished with exit status 2 / a stop request / an unknown node - "
            "returns: no AssertionError, KeyError, ValueError, IndexError, ZeroDivisionError, TypeError; and so does workerfinished of a registered worker that finished normally "
            "(assert not crashitem: its book is empty, by 'nothing behind the shutdown marker' at whole-system level) - C17_sys_load_controller_never_raises: whichever event the "
            "controller takes, the iteration returns; "
            "no stand-off at any stage incl. start-up deaths is C02_sys_load_no_standoff_any_phase; exactly-once after crashes is C03_sys_load_accounting_at_end. "
            "ALL SIX MODES, whole system, hypothesis-free (C17_sys_death_handled_once_all_modes): a death notice taken from the queue is about the worker that posted it, that worker is still counted active "
            "(_active_nodes.remove never raises KeyError) and nothing follows it; no death is handled twice. "
            "Partial: 'never raises' in full for load only, equal collections (else F4), no undecodable message (else F7b); the other modes are validated by the whole-system simulation, not proved",
            "receiver model theorems by induction over the message stream, handler case analysis; whole-system invariant layers + totality of the scheduler functions under them (Lean 4) ; differential correspondence of the real process_from_remote; whole-system simulation with deaths at every lifecycle point and undecodable messages"),
    "C04": ("Lean theorems: per worker the receiver posts the worker's events exactly once in the order sent; a test report is published tagged with its worker and counted once; "
            "for any sequence of collection reports from any workers the published ones are the distinct texts in first-occurrence order, each counted once; WHOLE SYSTEM, every scheduler "
            "(C04_sys_reports_once_in_order_all_modes): between any two states of any execution, for every worker not written off, the sequence (its reports published ++ queued ++ on the channel) only grows at its end - "
            "no report is lost, duplicated, overtaken or invented on its way; (C04_sys_collection_errors_published_once): after any execution of the composed system - reports interleaved with tests, crashes, replacements reporting the same error again - the published collection reports are pairwise distinct. Partial: field fidelity of "
            "reports and the tally equality with a single-process run are validated on real runs",
            "induction over message / report sequences (Lean 4) ; differential correspondence of the receiver and of DSession; end-to-end runs compared with -n0 (tallies, ids, fields, exit status, per-worker order)"),
    "C02": ("Lean theorems for the two mechanisms: every check_schedule decision of the load scheduler for a live node leaves it with at least two queued tests, the shutdown signal or an "
            "empty unassigned list (all maxschedchunk values incl. 0/negative, slow/fast); whenever any scheduler reports tests_finished at the end of a loop iteration every scheduled "
            "worker has been told to shut down; controller level (load): after every iteration of the DSession loop, for every sequence of controller events (ready, collections matching or not, early or late, "
            "completions, crashes with/without re-queue, replacements, stops) every registered worker is shutting down, holds >= 2 queued tests or the pool is empty, hence the loop never waits with a starved "
            "registered worker unless collection is in progress or some worker holds >= 2 tests; whole system (load): a system invariant (controller, every worker's two threads, both channels, the event queue, "
            "scheduler books = what each worker really holds) holds in every reachable state of the composed transition system (any interleaving, crash points, budgets, maxfail, collections), and in every reachable "
            "state with the session not finished - also during start-up and collection - some non-crash step is enabled (C02_sys_load_no_standoff_any_phase, via a second invariant layer about the early phase); with equal non-empty collections and "
            "no undecodable message that step SUCCEEDS - no internal error of the controller and never 'Unexpectedly no active workers available' (C02_sys_load_progress, with "
            "C17_sys_load_controller_never_raises and the invariants J: tests left and no shutdown => an active worker not told to shut down, K: nobody active => shutdown in force). "
            "TERMINATION (load): with a restart budget every step of every thread and every crash strictly decreases a lexicographic measure in N^5, hence no infinite execution exists and every way of running the system "
            "ends with the session finished (C02_sys_load_terminates, C02_sys_load_reaches_its_end). Partial: the other five modes and an unlimited budget are validated by the whole-system simulation on the real classes, not proved",
            "arithmetic case analysis of check_schedule, state invariant by induction over scheduler calls lifted to the DSession loop, whole-system invariant preserved by every step kind + induction over reachability (Lean 4) ; step-by-step replay of every simulated run by the Lean system model with the invariant evaluated after every step ; whole-system simulation with stand-off detection, differential correspondence of schedulers and of the worker threads (lock pre-emption)"),
    "C08": ("Lean theorems about the each scheduler (repaired): schedule() sends runtests_all + shutdown to every new node with its whole collection as book, skips started and still-collecting "
            "nodes; the crash item is the head of the dead node's book and the rest is parked; tests_finished is false while a rest is parked; a replacement of the same spec and collection "
            "takes over exactly that rest (and is sent exactly it); a late node with nothing to take over, or with a different collection, is shut down; a node already down is handed nothing. "
            "Over every history of scheduler calls (workers dying after they reported, replacements joining, flags changing arbitrarily; at most numnodes registered nodes as hypothesis): "
            "the collection is complete only when every registered node has reported its own, and the schedule() that follows books the whole collection for every registered node and tells "
            "each that is not down to run all of it (C08_each_every_environment_gets_everything). WHOLE SYSTEM (any thread schedule, crashes, replacements, stop requests): under --dist each no worker is ever sent tests twice - at most one runtests_all or one runtests with the left-over it takes over (C08_sys_each_sent_tests_at_most_once), and a worker has received nothing or exactly that one block (C08_sys_each_receives_one_block)",
            "definitional unfolding lemmas with side conditions; invariant by induction over scheduler-call histories + pigeonhole (Lean 4) ; differential correspondence of EachScheduling; whole-system simulation incl. heterogeneous environments"),
    "C09": ("Lean theorems (load, worksteal, loadscope family): no disagreement report iff all registered collections equal the first; otherwise schedule() publishes exactly one failed report "
            "per disagreeing worker naming the first worker, dispatches nothing and leaves the scheduler unchanged; loadscope family: a disagreeing late joiner is never registered and an "
            "unregistered node is never assigned work; WHOLE SYSTEM, loadscope family: every runtests ever written went to a worker whose reported collection is exactly the agreed one (C09_sys_scope_tests_only_to_agreeing_workers). The late-joiner clause is FALSE for load/worksteal on the current code: negation proved on a witness (known finding F4)",
            "list lemmas + unfolding of schedule() (Lean 4), negation witness by decide ; differential correspondence with permuted/missing/extra/duplicated/empty collections; whole-system simulation with disagreeing initial and replacement workers"),
    "C06": ("Lean theorems: loadfile key of 'path::anything' is the path; loadscope key of 'prefix::name' is the prefix (class else module); loadgroup key of 'id@group' is the group, "
            "an ungrouped id is its own key (also with '@' inside a parametrisation id) - under decidable well-formedness hypotheses (no ':' in path / last segment, no '@' or ']' in "
            "group names); each excluded point has a proved witness (known finding F10). SCHEDULING (any key function, any collection): the work units of schedule() are exactly the classes of the key - "
            "every test is in the unit of its key, a unit holds only tests of its key, units with the same key coincide, and inside a unit the tests are in collection order "
            "(C06_same_group_same_unit, C06_unit_in_collection_order); _assign_work_unit moves the head unit to ONE worker whole and its single runtests carries exactly the unit's not yet "
            "completed tests in order (C06_assign_sends_whole_unit); homogeneity of units is an invariant of every scheduler call incl. re-queueing after a crash (step_hom) and of every "
            "execution of the whole system in the three modes (C06_sys_units_hold_one_group); a group key is in ONE place at a time - queued, or in exactly one worker's assigned work - through every "
            "scheduler call and every execution of the whole system (step_di, C06_sys_group_in_one_place); after a crash exactly the dead worker's units with work left go back to the queue, as units, the crash item marked done (C06_after_crash_requeue); ON THE WIRE, whole system: every runtests command ever written carries, read in the agreed collection, tests of one single group (step_wi, C06_sys_every_runtests_one_group); AT THE WORKER, whole system: what a worker has received is a concatenation of whole runtests payloads of the log, each of one group, and what it runs is in order a subsequence of that "
            "(C06_sys_worker_runs_whole_groups = WI + C05_sys_received_is_whole_commands + C05_sys_order_and_nextitem). Not modelled: test-id strings as pytest renders them beyond the generated descriptors (correspondence)",
            "string lemmas by induction (split/rsplit/rfind); association-list invariants by induction over scheduler calls lifted over every step of the composed system (Lean 4) ; differential correspondence of the three _split_scope functions and of the '@group' tagging; scheduler correspondence; whole-system simulation with group monitors"),
    "C14": ("Lean theorems for every warning and every capability profile of the controller (which classes it can import, what their constructors do): receiving never raises; an "
            "importable class whose constructor accepts the arguments is rebuilt with the same category; otherwise a generic warning carrying '<module>.<class>: <text>' (category kept "
            "when importable, Warning otherwise); the remaining details arrive unchanged or as their repr",
            "case analysis over the transported data and the capability profile (Lean 4) ; differential correspondence through the real serialize / execnet dumps-loads / process_from_remote with built-in, custom-constructor, unimportable, local and nested classes; end-to-end runs compared with -n0"),
    "C19": ("Lean theorems: make_reltoroot passes non-existing arguments through, rewrites an existing path to '<root name>/<relative path>' + selector for the first containing root "
            "(component-wise prefix), maps the root itself to '<name>/.', and rejects exactly the existing paths under no root; the filter excludes exactly the entries whose name or full "
            "path matches a pattern, with '*.pyc/*.pyo/*~' = suffix and '.*' = leading dot proved for the fnmatch model; purely local specs give no roots and send no files",
            "list-prefix lemmas, induction over the matcher (Lean 4) ; differential correspondence on a real scratch tree (make_reltoroot, HostRSync.filter vs fnmatch, NodeManager roots/ignores over two sessions)"),
}

NOT_YET = {}

def main() -> None:
    props = [json.loads(l) for l in (VERIF / "properties.jsonl").read_text().splitlines() if l.strip()]
    checks = []
    na = []
    for p in props:
        pid = p["id"]
        if pid in CLAIMS:
            text, tech = CLAIMS[pid]
            checks.append({
                "property_id": pid,
                "quick_cmd": f"harness/check {pid} quick",
                "thorough_cmd": f"harness/check {pid} thorough",
                "evidence_file": f"evidence/{pid}.json",
                "replay_cmd_template": "harness/check --replay {path}",
                "engine": "lean",
                "level_claimed": {"category": "proof", "text": text, "design_ref": f"DESIGN.md §5 {pid}"},
                "level_note": LEVEL_NOTE,
                "technique": "Lean 4 machine-checked proof: " + tech,
            })
        else:
            na.append({"property_id": pid, "reason": NOT_YET.get(pid, "not claimed yet: model/theorems for this property are still being built (see DESIGN.md §5); no check is registered so nothing is asserted")})
    claimed = [c["property_id"] for c in checks]
    m = {
        "version": 1,
        "setup_cmd": "cd lean && lake build",
        "hooks": {
            "guard": "PYTEST_XDIST_VERIF",
            "enable": "no hooks are compiled into /repo: the harness injects fake gateway/channel objects and a recorder plugin from /verif at run time",
            "baseline_off_cmd": "cd /repo && /venv/bin/python -m pytest -ra -q -p no:cacheprovider --timeout=900 --continue-on-collection-errors",
            "source_commits": [],
            "add_only": True,
        },
        "engines": [
            {"name": "lean", "path": "lean", "serves_properties": claimed,
             "kind_free_text": "Lean 4 model (XdistModel, core only) + theorems (XdistProofs) + compiled line-protocol driver"},
            {"name": "harness", "path": "harness", "serves_properties": claimed,
             "kind_free_text": "Python correspondence harness: runs the real xdist classes and the Lean driver on the same op sequences; property monitors; failing-input search"},
        ],
        "checks": checks,
        "not_applicable": na,
        "notes": "every check: lake build + #print axioms audit of the theorems indexed in lean/props_index.json + forbidden-construct grep + correspondence; exit 2 = infrastructure problem",
    }
    (VERIF / "MANIFEST.json").write_text(json.dumps(m, indent=1) + "\n")


if __name__ == "__main__":
    main()
