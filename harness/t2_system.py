"""T2 component: whole-system runs on the real controller stack (sim.py) with the property monitors of
C01 C02 C03 C04 C08 C09 C10 C11 C12 C15 C16 C17 evaluated on the implementation's behaviour.

Each run is (configuration, schedule); the schedule (list of labels) together with the configuration is the replay.
"""
from __future__ import annotations

import dataclasses
import json
import random
from collections import Counter
from typing import Any

import sim as S
from common import CompResult, Violation, h

LB = ["load", "worksteal", "loadscope", "loadfile", "loadgroup"]
ALL = LB + ["each"]


# ----------------------------------------------------------------------------- configuration generators

def gen_ids(rng: random.Random, mode: str, n: int | None = None) -> list[str]:
    n = rng.choice([0, 1, 1, 2, 3, 4, 5, 6, 8, 10, 13, 17, 24]) if n is None else n
    nf = rng.choice([1, 2, 3, 4])
    ids = []
    for i in range(n):
        f = f"t/f{(i * nf) // max(n, 1)}.py" if rng.random() < 0.8 else f"t/f{rng.randrange(nf)}.py"
        cls = rng.choice(["", "", "::A", "::B"])
        nid = f"{f}{cls}::test_{i}"
        if mode == "loadgroup" and rng.random() < 0.4:
            nid += "@" + rng.choice(["g1", "g2"])
        ids.append(nid)
    return ids


def base_cfg(rng: random.Random, modes: list[str]) -> S.SimCfg:
    mode = rng.choice(modes)
    k = rng.choice([1, 1, 2, 2, 2, 3, 3, 4])
    cfg = S.SimCfg(mode=mode, numnodes=k, ids=gen_ids(rng, mode, rng.choice([8, 13, 17, 24, 30]) if mode == "worksteal" and rng.random() < 0.6 else None))
    cfg.msc = rng.choice([None, None, None, 1, 2, 5, 0, -1]) if mode == "load" else None
    cfg.via_n = rng.random() < 0.8
    for i in range(len(cfg.ids)):
        if rng.random() < 0.25:
            cfg.behav[i] = [S.Behav("pass", slow=True)]
    return cfg


def profile_plain(rng: random.Random, modes: list[str] = LB) -> S.SimCfg:
    cfg = base_cfg(rng, modes)
    for i in range(len(cfg.ids)):
        r = rng.random()
        if r < 0.12:
            cfg.behav[i] = [S.Behav(rng.choice(["fail", "skip", "xfail", "setuperr", "teardownerr"]), slow=rng.random() < 0.3)]
    return cfg


def profile_crash(rng: random.Random, modes: list[str] = LB, requeue: bool = False) -> S.SimCfg:
    cfg = base_cfg(rng, modes)
    n = len(cfg.ids)
    cfg.via_n = True
    cfg.restart = rng.choice([None, None, 3, 6, 10])
    budget = 4 * cfg.numnodes if cfg.restart is None else cfg.restart
    crashers = [i for i in range(n) if rng.random() < 0.15][: max(0, budget - 1)]
    for i in crashers:
        attempts = [S.Behav("crash")]
        if requeue:
            times = rng.choice([1, 1, 2])
            cfg.requeue[cfg.ids[i]] = times
            # the re-run may crash again or pass
            attempts = [S.Behav("crash")] + [S.Behav("crash") if rng.random() < 0.3 else S.Behav("pass") for _ in range(times)]
        cfg.behav[i] = attempts
    left = max(0, budget - sum(len([b for b in cfg.behav[i] if b.kind == "crash"]) for i in crashers))
    if rng.random() < 0.6 and left > 0:
        cfg.p_crash = rng.choice([0.002, 0.005, 0.01, 0.03])
        cfg.max_crashes = rng.randrange(1, min(left, 3) + 1)
    # a write into the pipe of a dead, not yet noticed worker may raise OSError (execnet does either)
    cfg.oserror_window = rng.random() < 0.35
    return cfg


def profile_requeue(rng: random.Random) -> S.SimCfg:
    """crashes whose test the plugin re-queues (downgrading the crash report to "rerun"), some of them under --maxfail: a
    crash report that is not a failure any more must not count as one"""
    cfg = profile_crash(rng, ["load", "worksteal"], True)
    cfg.maxfail = rng.choice([0, 0, 1, 1, 2])
    return cfg


def profile_each(rng: random.Random) -> S.SimCfg:
    cfg = base_cfg(rng, ["each"])
    if rng.random() < 0.4:
        # heterogeneous environments: one spec per worker, some environments collect differently
        envs = ["a", "b", "c", "a"][: cfg.numnodes]
        cfg.tx = [f"popen//env:VENV={e}" for e in envs]
        cfg.via_n = False
        cfg.restart = rng.choice([2, 4])
        for e in set(envs):
            if rng.random() < 0.6 and cfg.ids:
                cfg.spec_ids[str([("VENV", e)])] = cfg.ids[: rng.randrange(1, len(cfg.ids) + 1)] + ([f"t/only_{e}.py::test_x"] if rng.random() < 0.5 else [])
    if rng.random() < 0.5:
        cfg.via_n = True
        n = len(cfg.ids)
        cfg.via_n = not cfg.tx
        if n and rng.random() < 0.7:
            cfg.behav[rng.randrange(n)] = [S.Behav("crash"), S.Behav("pass")]      # a single crash
        elif rng.random() < 0.5:
            cfg.p_crash, cfg.max_crashes = 0.01, 1
    elif rng.random() < 0.6:
        # an environment loses its worker before any test was handed out (while it starts, collects, or right after it reported
        # its collection -- possibly before the others have reported theirs): the replacement is then one of the initial nodes
        cfg.boot_crash[rng.randrange(cfg.numnodes)] = rng.choice(["collected", "collected", "collect", "boot"])
        if cfg.restart == 0:
            cfg.restart = rng.choice([None, 2, 4]) if not cfg.tx else rng.choice([2, 4])
    return cfg


def profile_budget(rng: random.Random) -> S.SimCfg:
    cfg = base_cfg(rng, ALL)
    cfg.via_n = True
    cfg.restart = rng.choice([None, 0, 0, 1, 1, 2, 3, 5])
    n = len(cfg.ids)
    p = rng.choice([1.0, 1.0, 0.5, 0.3])
    for i in range(n):
        if rng.random() < p:
            cfg.behav[i] = [S.Behav("crash")]
    if rng.random() < 0.3:
        cfg.p_crash, cfg.max_crashes = 0.02, rng.randrange(1, 6)
    return cfg


def profile_stealshut(rng: random.Random) -> S.SimCfg:
    """worksteal: the restart budget is used up by a death at a random moment -- also while a steal request is unanswered --,
    so that the shutdown begins with a withdrawal in flight"""
    cfg = base_cfg(rng, ["worksteal"])
    cfg.mode = "worksteal"
    cfg.via_n = True
    cfg.numnodes = rng.choice([2, 3, 3, 4])
    cfg.ids = gen_ids(rng, "worksteal", rng.choice([13, 17, 24, 30]))
    cfg.behav = {i: [S.Behav("pass", slow=True)] for i in range(len(cfg.ids)) if rng.random() < 0.3}
    cfg.restart = rng.choice([0, 0, 1])
    cfg.p_crash = rng.choice([0.01, 0.02, 0.04])
    cfg.max_crashes = cfg.restart + 1 + (1 if rng.random() < 0.3 else 0)
    cfg.oserror_window = rng.random() < 0.3
    return cfg


def profile_stop(rng: random.Random) -> S.SimCfg:
    cfg = base_cfg(rng, ALL)
    n = len(cfg.ids)
    cfg.via_n = True
    cfg.maxfail = rng.choice([0, 1, 1, 2, 3])
    for i in range(n):
        r = rng.random()
        if r < 0.2:
            cfg.behav[i] = [S.Behav(rng.choice(["fail", "fail", "setuperr", "teardownerr"]))]
        elif r < 0.26:
            cfg.behav[i] = [S.Behav(rng.choice(["stop", "exit"]))]
        elif r < 0.32:
            cfg.behav[i] = [S.Behav("crash")]
    if rng.random() < 0.3:
        cfg.p_crash, cfg.max_crashes = 0.01, 2
    cfg.worker_maxfail = rng.random() < 0.85
    return cfg


def profile_mismatch(rng: random.Random) -> S.SimCfg:
    cfg = base_cfg(rng, ALL)
    if len(cfg.ids) < 2:
        cfg.ids = gen_ids(rng, cfg.mode, rng.randrange(2, 8))
    cfg.via_n = True
    kind = rng.random()

    def variant(c: list[str]) -> list[str]:
        c = list(c)
        k = rng.randrange(5)
        if k == 0:
            i, j = rng.sample(range(len(c)), 2)
            c[i], c[j] = c[j], c[i]
        elif k == 1:
            del c[rng.randrange(len(c))]
        elif k == 2:
            c.insert(rng.randrange(len(c) + 1), "t/extra.py::test_x")
        elif k == 3:
            c.append(c[0])
        else:
            c = []
        return c

    if kind < 0.5:
        for w in range(cfg.numnodes):
            if rng.random() < 0.5:
                cfg.node_ids[w] = variant(cfg.ids)
        if rng.random() < 0.4:
            # one of the initial workers dies right after reporting its collection (or while collecting): what it reported
            # still takes part in the agreement
            cfg.boot_crash[rng.randrange(cfg.numnodes)] = rng.choice(["collected", "collected", "collect"])
            cfg.restart = rng.choice([None, 2, 4])
    else:
        # the initial workers agree; a replacement (late joiner) disagrees
        if cfg.ids:
            cfg.behav[rng.randrange(len(cfg.ids))] = [S.Behav("crash")]
        for w in range(cfg.numnodes, cfg.numnodes + 3):
            if rng.random() < 0.7:
                cfg.node_ids[w] = variant(cfg.ids)
    return cfg


def profile_lifecycle(rng: random.Random) -> S.SimCfg:
    cfg = base_cfg(rng, ALL)
    cfg.via_n = True
    cfg.restart = rng.choice([None, None, 0, 1, 2, 4])
    n = len(cfg.ids)
    for w in range(cfg.numnodes + 4):
        if rng.random() < (0.35 if w < cfg.numnodes else 0.2):
            cfg.boot_crash[w] = rng.choice(["boot", "collect", "collected", "finish", "finish", "garbage", "interrupt"])
    for i in range(n):
        if rng.random() < 0.08:
            cfg.behav[i] = [S.Behav("crash")]
    if rng.random() < 0.3:
        cfg.p_crash, cfg.max_crashes = 0.01, 2
    return cfg


def profile_earlystop(rng: random.Random) -> S.SimCfg:
    """a worker reports its collection and dies while the budget is exhausted / zero and other workers are still collecting"""
    cfg = base_cfg(rng, ALL)
    cfg.via_n = True
    cfg.numnodes = max(cfg.numnodes, 2)
    cfg.restart = rng.choice([0, 0, 1])
    if len(cfg.ids) < 2:
        cfg.ids = gen_ids(rng, cfg.mode, rng.randrange(2, 9))
    cfg.boot_crash[rng.randrange(cfg.numnodes)] = "collected"
    if cfg.restart == 1:
        cfg.boot_crash[cfg.numnodes] = rng.choice(["boot", "collected", "collect"])
    return cfg


def profile_collecterr(rng: random.Random) -> S.SimCfg:
    cfg = base_cfg(rng, ALL)
    texts = ["t/bad.py|ImportError while importing test module", "t/bad2.py|assert 0 at module level"]
    chosen = [t for t in texts if rng.random() < 0.7] or texts[:1]
    every = rng.random() < 0.7
    for w in range(cfg.numnodes + 2):
        if every or rng.random() < 0.5:
            cfg.collect_errors[w] = list(chosen)
    cfg.maxfail = rng.choice([0, 0, 1, 2])
    for w in range(cfg.numnodes + 2):
        if rng.random() < 0.25:
            cfg.boot_crash[w] = "interrupt"     # this worker's session is interrupted right after collection (exit status 2)
    if rng.random() < 0.5:
        # modules that skip themselves at import time: every worker reports the skip, the run goes on
        sk = rng.sample(["t/opt.py|needs numpy", "t/win.py|windows only"], rng.randrange(1, 3))
        for w in range(cfg.numnodes + 2):
            cfg.collect_skips[w] = list(sk)
        if rng.random() < 0.6:
            cfg.collect_errors = {}
    return cfg


PROFILES = {
    "plain": profile_plain, "crash": profile_crash, "requeue": lambda r: profile_requeue(r),
    "each": profile_each, "budget": profile_budget, "stop": profile_stop, "mismatch": profile_mismatch,
    "lifecycle": profile_lifecycle, "collecterr": profile_collecterr, "earlystop": profile_earlystop, "stealshut": profile_stealshut,
}


# ----------------------------------------------------------------------------- monitors

CRASH_MSG = "crashed while running"


class Facts:
    def __init__(self, s: S.Sim) -> None:
        self.s = s
        cfg = s.cfg
        self.n = len(cfg.ids)
        self.lb = cfg.mode != "each"
        self.started = Counter(i for i, _ in s.executions)
        self.completed = Counter(i for w in s.workers for i in w.completed)
        self.crashrep = [p for p in s.published if p[0] == "test" and p[3] == "???"]
        self.dead = [w for w in s.workers if w.death_hold is not None]
        self.equal_collections = all(w.ids == cfg.ids for w in s.workers)
        first = next((nid for ev, nid in s.ctl_events if ev == "collectionfinish"), None)
        self.first = s.by_id[first] if first else None
        # "initial" workers as the scheduler sees them: the first `numnodes` workers whose collection reaches the controller
        # (a replacement of a worker that died while collecting is one of them; an original worker that reports after them is a
        # late joiner)
        order: list[str] = []
        for ev, nid in s.ctl_events:
            if ev == "collectionfinish" and nid not in order:
                order.append(nid)
        self.sched_initial = [s.by_id[x] for x in order[: cfg.numnodes]]
        self.sched_late = [s.by_id[x] for x in order[cfg.numnodes:]]
        self.ref = self.first.ids if self.first else cfg.ids
        self.stop_conditions = (
            any(w.shouldfail or w.shouldstop or w.exitstatus == 2 for w in s.workers if w.pc == "done")
            or (cfg.maxfail and s.dsession.countfailures >= cfg.maxfail))


def each_replacement_differs(s: S.Sim, w: S.SimWorker) -> bool:
    """--dist each: a replacement is compared with the dead worker of the same environment"""
    return any(d.death_hold is not None and d.number < w.number and str(d.gw.spec).split("//id=")[0] == str(w.gw.spec).split("//id=")[0]
               and d.ids != w.ids for d in s.workers)


def check_run(s: S.Sim, profile: str, res: CompResult, ops: list[str]) -> None:
    cfg = s.cfg
    f = Facts(s)
    kind, text = s.outcome or ("none", "")
    comp = "system." + cfg.mode

    def fire(props: list[str], sig: str, what: str, detail: dict | None = None) -> None:
        for p in props:
            res.violations.append(Violation(p, comp, what, sig, ops, detail or {}))

    crashy = bool(f.dead)
    n = f.n
    # ---- C16: the command streams -- facts about what was put on the wire hold however the run ended (stand-off, internal error)
    check_wire(s, f, fire)
    if s.steal_breaks:
        at, wid, idx, left = s.steal_breaks[0]
        fire(["C07"], "withdrawn-tests-still-booked", f"controller event #{at}: worker {wid} answered a steal request with {idx}; after the iteration that handled "
             f"the answer {left} are still in its book (and were not handed to it again): the tests are in nobody's queue, the book is wrong",
             {"breaks": s.steal_breaks[:5]})
    # ---- C02 / C17: the run ends, and not with an internal error
    if kind == "standoff":
        props = ["C02"] + (["C17"] if profile == "lifecycle" else []) + (["C15"] if cfg.requeue else [])
        waiting = [(w.id, w.pc, list(w.queue), w.next) for w in s.workers if w.alive and w.pc != "done"]
        odd = [w.id for w in s.workers if (w not in f.sched_initial if f.lb else w.number >= cfg.numnodes) and
               (w.ids != f.ref if f.lb else each_replacement_differs(s, w)) and (f.lb and w.alive and w.pc != "done" or not f.lb)]
        if odd:
            fire(["C09", "C02"], f"standoff-with-disagreeing-replacement:{cfg.mode}",
                 f"stand-off: replacement {odd} collected differently and is never given tests nor shut down; the remaining tests wait forever: {waiting}")
            return
        told = {d[0] for d in s.nodedown}
        unreported = [w.id for w in s.workers if w.death_hold is not None and w.end_seen and w.id not in told]
        if unreported:
            # the receiver thread has seen the end of the channel of a dead worker, yet the controller was never told: the death is
            # neither charged to the budget nor followed by a replacement, and the run waits for that worker for ever
            fire(["C10", "C17", "C02"], "death-not-reported", f"stand-off: worker(s) {unreported} died, the end of their channel was processed, but no "
                 f"'errordown' reached the controller (channel ended with {[type(s.by_id[x].gw.channel_error()).__name__ if hasattr(s.by_id[x].gw, 'channel_error') else '?' for x in unreported]})")
            return
        fire(props, f"standoff:{cfg.mode}:{'crash' if crashy else 'nocrash'}",
             f"stand-off: the controller waits for events, live workers wait: {waiting}", {"waiting": waiting})
        return
    if kind == "nobudget":
        unbounded = cfg.restart is None and not cfg.via_n
        if not unbounded:
            fire(["C02", "C10"] if crashy else ["C02"], f"no-end:{cfg.mode}", f"the run did not end within {cfg.max_steps} steps ({len(s.workers)} workers started)")
        return
    if kind == "noworkers":
        odd = [w.id for w in s.workers if (w not in f.sched_initial if f.lb else w.number >= cfg.numnodes) and
               (w.ids != f.ref if f.lb else each_replacement_differs(s, w))]
        if odd:
            fire(["C09"], f"no-workers-left-after-disagreeing-replacement:{cfg.mode}",
                 f"replacement {odd} collected differently, was shut down / unusable, and no worker is left: RuntimeError 'no active workers'")
            return
    if kind in ("error", "noworkers"):
        props = ["C17"]
        if not crashy and not cfg.boot_crash:
            props.append("C01" if f.equal_collections else "C09")
        if cfg.requeue:
            props.append("C15")
        if profile == "mismatch":
            props.append("C09")
        if profile == "each":
            props.append("C08")
        if profile in ("stop",):
            props.append("C11")
        if profile == "budget":
            props.append("C10")
        where = text.split("@")[-1].strip() if "@" in text else text[:40]
        fire(sorted(set(props)), f"internal-error:{text.split(':')[0]}@{where}", f"the controller loop raised {text}", {"notes": s.notes[-5:]})
        return

    if s.q_breaks:
        at, wid, book, npend = s.q_breaks[0]
        fire(["C02"], "starved-worker:load", f"after controller event #{at} worker {wid} (collection registered, not told to shut down) holds {book} "
             f"while {npend} tests are still unassigned: it cannot start its last test and nothing obliges the controller to send more", {"breaks": s.q_breaks[:5]})
    if len(set(s.ready_ids)) != len(s.ready_ids):
        fire(["C02"], "worker-id-reused", f"a worker id reported ready twice: {s.ready_ids} (hypothesis of C02_controller_load)")
    untagged = [p for p in s.published if p[0] == "test" and p[1] is None]
    if untagged:
        p0 = untagged[0]
        fire(["C12", "C03" if p0[3] == "???" else "C04"], "report-without-worker",
             f"the report for {p0[2]} ({'crash report' if p0[3] == '???' else p0[3]}) reached the reporting hooks without the identity of its worker "
             "(no `node`): consumers cannot tell which worker it concerns")
    written_off_alive = [w.id for w in s.workers if cfg.boot_crash.get(w.number) == "garbage" and w.pc not in ("boot", "collect")]
    if written_off_alive:
        # One root cause, one signature: after an undecodable message the worker is written off (its tests are re-dispatched, a
        # crash report is published) but the process lives on and keeps running what it has queued.
        dup = sorted(i for i, c in f.started.items() if c > 1)
        if dup and f.lb:
            fire(["C17"], "decode-failure-worker-keeps-running", f"{written_off_alive} written off after an undecodable message kept running; tests {dup} ran twice")
        return
    stopped = kind == "interrupted"
    over_budget = s.dsession._summary_report is not None
    # ---- C16: wire discipline (all modes)
    # ---- C12 identities
    ids_ = [w.id for w in s.workers]
    if len(set(ids_)) != len(ids_) or any(not (i.startswith("gw") and i[2:].isdigit()) for i in ids_):
        fire(["C12"], "worker-id-reused", f"worker ids {ids_}")
    for w in s.workers:
        wi = w.boot_msg[0] if w.boot_msg else {}
        if wi.get("workerid") != w.id or wi.get("workercount") != cfg.numnodes or wi.get("testrunuid") != s.workers[0].boot_msg[0].get("testrunuid"):
            fire(["C12"], "workerinput-wrong", f"worker {w.id} was started with {wi}")
    # ---- C04 per-worker report stream
    check_reports(s, f, fire)
    # ---- C10 budget
    budget = (4 * cfg.numnodes if cfg.via_n else None) if cfg.restart is None else cfg.restart
    spawned = len(s.workers) - cfg.numnodes
    deaths = len([d for d in s.nodedown if d[1] is not None])
    if budget is not None:
        bp = ["C10", "C17"] if cfg.boot_crash else ["C10"]
        if spawned > budget:
            fire(bp, "restarts-exceed-budget", f"{spawned} replacement workers with --max-worker-restart={budget}")
        if deaths > budget:
            want = f"worker {'%s'} crashed and worker restarting disabled" if budget == 0 else f"maximum crashed workers reached: {budget}"
            rep = s.dsession._summary_report or ""
            ok = rep == want or (budget == 0 and rep.startswith("worker gw") and rep.endswith("crashed and worker restarting disabled"))
            if not ok:
                fire(bp, "no-budget-summary", f"{deaths} workers died with budget {budget}, summary line is {rep!r}")
        elif s.dsession._summary_report is not None:
            fire(["C10"], "stopped-within-budget", f"{deaths} deaths within budget {budget} but the run was stopped: {s.dsession._summary_report!r}")
        if deaths <= budget and spawned != deaths and not stopped:
            fire(["C10", "C17"], "dead-worker-not-replaced", f"{deaths} workers died (budget {budget}) but {spawned} replacements were started")
    # ---- C11 stop conditions
    check_stop(s, f, fire, kind, text)
    if stopped or over_budget:
        # C03-style accounting for what was executed: nothing twice
        twice = sorted(i for i, c in f.completed.items() if c > 1 + s.requeued.count(cfg.ids[i] if i < n else ""))
        if f.lb and twice and f.equal_collections:
            fire(["C03" if crashy else "C01"], "completed-twice", f"tests {twice} were completed more than once")
        return
    # ---- from here on: the run finished normally
    if not f.equal_collections:
        check_mismatch(s, f, fire)
        return
    if cfg.collect_errors:
        return
    if f.lb:
        requeues = Counter(cfg.ids.index(t) for t in s.requeued if t in cfg.ids)
        crashed = Counter()
        for p in f.crashrep:
            if p[2] in cfg.ids:
                crashed[cfg.ids.index(p[2])] += 1
        bad = {}
        for i in range(n):
            if f.completed[i] + crashed[i] != 1 + requeues[i]:
                bad[i] = (f.completed[i], crashed[i], requeues[i])
        if bad:
            props = ["C15"] if cfg.requeue else (["C03"] if crashy else ["C01"])
            lost = sorted(i for i, (c, k, r) in bad.items() if c + k < 1 + r)
            dup = sorted(i for i, (c, k, r) in bad.items() if c + k > 1 + r)
            fire(props, "lost-tests" if lost else "duplicated-tests",
                 f"run finished but tests lost {lost} / run or reported twice {dup} (completed, crash-reported, re-queued: {bad})")
        over = sorted(i for i in range(n) if f.started[i] > 1 + requeues[i])
        if over:
            fire(["C15"] if cfg.requeue else (["C03"] if crashy else ["C01"]), "executed-twice", f"tests {over} were started more than once: {dict(f.started)}")
        if not crashy and not cfg.requeue:
            for i in range(n):
                reps = [p for p in s.published if p[0] == "test" and p[2] == cfg.ids[i] and p[3] != "???"]
                if not reps:
                    fire(["C01", "C04"], "no-report-for-test", f"test {i} has no published report although the run finished")
                    break
        check_crash_reports(s, f, fire)
        check_groups(s, f, fire)
    else:
        check_each(s, f, fire)


def check_wire(s: S.Sim, f: Facts, fire: Any) -> None:
    cfg = s.cfg
    per: dict[str, list[tuple[str, Any]]] = {}
    for wid, name, kw in s.wirelog:
        per.setdefault(wid, []).append((name, kw))
    for wid, cmds in per.items():
        w = s.by_id[wid]
        names = [c[0] for c in cmds]
        if names.count("shutdown") > 1:
            fire(["C16"], "shutdown-twice", f"{wid} was sent {names.count('shutdown')} shutdown signals")
        if "shutdown" in names and names.index("shutdown") != len(names) - 1:
            after = names[names.index("shutdown") + 1:]
            if any(a != "shutdown" for a in after):
                fire(["C16"], "command-after-shutdown", f"{wid} was sent {after} after its shutdown signal")
        sent: list[int] = []
        for name, kw in cmds:
            if name == "runtests":
                bad = [i for i in kw["indices"] if not (0 <= i < len(w.ids))]
                if bad:
                    fire(["C16", "C09"], "run-index-out-of-range", f"{wid} (collected {len(w.ids)} tests) was asked to run indices {bad}")
                sent += list(kw["indices"])
            if name == "steal":
                unknown = [i for i in kw["indices"] if i not in sent]
                if unknown:
                    fire(["C16", "C07"], "steal-never-assigned", f"{wid} was asked to give back {unknown}, which it was never given")
    for msg in s.double_assign:
        fire(["C16", "C01" if not f.dead else "C03"], "index-outstanding-on-two-workers", msg)


def check_reports(s: S.Sim, f: Facts, fire: Any) -> None:
    """C04: per worker, the published test reports are exactly what it produced, once, in order, tagged"""
    for w in s.workers:
        prod = [x[1] for x in w.produced if x[0] == "test"]
        pub = [(p[2], p[3], p[4]) for p in s.published if p[0] == "test" and p[1] == w.id and p[3] != "???"]
        complete = w.end_seen and w.node is not None and not any(k == "garbage" for k in [s.cfg.boot_crash.get(w.number)])
        if pub != prod[: len(pub)]:
            fire(["C04"], "reports-out-of-order-or-altered", f"worker {w.id} produced {prod[:6]}..., published {pub[:6]}...")
        elif complete and len(pub) != len(prod) and s.outcome and s.outcome[0] in ("finished",):
            fire(["C04"], "reports-lost", f"worker {w.id} produced {len(prod)} reports, {len(pub)} were published")
    for p in s.published:
        if p[0] == "test" and p[3] != "???":
            rep = p[6]
            if getattr(rep, "user_properties", None) != [("k", rep.nodeid)] or rep.sections != [("Captured stdout call", f"out-{rep.nodeid}")]:
                fire(["C04"], "report-fields-altered", f"report {p[2]}:{p[3]} arrived with sections {rep.sections} properties {getattr(rep, 'user_properties', None)}")
                break
    # a collection error every worker hits is reported once
    texts = [p[5] for p in s.published if p[0] == "collect" and "Different tests were collected" not in p[5]]
    dup = [t for t, c in Counter(texts).items() if c > 1]
    if dup:
        fire(["C04"], "collect-error-repeated", f"collection error reported {Counter(texts)[dup[0]]} times: {dup[0][:60]}")
    produced = {t for w in s.workers for k, t in w.produced if k == "collect"}
    if produced and s.ctl_seen_collect and not set(texts) >= {t for t in produced if t in s.ctl_seen_collect}:
        fire(["C04"], "collect-error-not-reported", f"collection errors {sorted(produced)} produced, published {sorted(set(texts))}")


def check_stop(s: S.Sim, f: Facts, fire: Any, kind: str, text: str) -> None:
    cfg = s.cfg
    if kind == "interrupted" and text.startswith("stopping after") and cfg.maxfail:
        # --maxfail counts failed reports *of tests*; a crash report is published through the crash hook (which may have turned it
        # into a non-failure) and is not one of them
        # ... and failed collection reports count as well (DSession.worker_collectreport -> _handlefailures; in the worker
        # Session.pytest_collectreport), each text once (the controller de-duplicates what every worker reports)
        failed = [p for p in s.published if p[0] == "test" and p[3] != "???" and p[4] == "failed"]
        failed += [p for p in s.published if p[0] == "collect" and p[4] == "failed" and "Different tests were collected" not in (p[5] or "")]
        if len(failed) < cfg.maxfail:
            props = ["C11"] + (["C15"] if cfg.requeue and s.requeued else [])
            fire(props, "maxfail-stop-without-failures", f"run stopped with {text!r} (--maxfail={cfg.maxfail}) after {len(failed)} failed test report(s); "
                 f"crash reports published: {[(p[2], p[4]) for p in s.published if p[0] == 'test' and p[3] == '???'][:3]}"
                 + (f"; the re-queued {s.requeued[:2]} were never run again" if s.requeued else ""))
    if s.stop_wire_at is not None:
        later = [(wid, name, kw) for wid, name, kw in s.wirelog[s.stop_wire_at:] if name != "shutdown"]
        if later:
            fire(["C11"], "dispatch-after-stop", f"after the stop decision ({s.stop_reason!r}) the controller still sent {later[:3]}")
        # (a replacement started for a worker that crashed after the decision is not a dispatch: it is shut down when it reports ready)
        if kind != "interrupted":
            fire(["C11"], "stop-not-interrupted", f"a stop condition was met ({s.stop_reason!r}) but the run ended as {kind}")
        elif text not in [str(r) for r in s.stop_reasons]:
            fire(["C11"], "wrong-stop-reason", f"run interrupted with {text!r}, the stop reasons were {s.stop_reasons!r}")
        for w in s.workers:
            if w.node is not None and w.node in getattr(s.dsession.sched, "nodes", []) and not w.node.shutting_down:
                fire(["C11"], "worker-not-shut-down", f"{w.id} is still scheduled and was not told to shut down")
    else:
        if kind == "interrupted":
            fire(["C11"], "interrupted-without-cause", f"run interrupted ({text!r}) although no stop condition was met")
        if f.stop_conditions and kind == "finished" and s.dsession._summary_report is None:
            fire(["C11"], "stop-condition-ignored", "a worker ended with a stop request / maxfail was reached but the run reported success")


def check_crash_reports(s: S.Sim, f: Facts, fire: Any) -> None:
    """C03: one crash report per death of a worker holding tests, naming that worker and the right test"""
    cfg = s.cfg
    if not f.dead:
        if f.crashrep:
            fire(["C03"], "crash-report-without-crash", f"crash reports {[(p[1], p[2]) for p in f.crashrep]} but no worker died")
        return
    reps = [(p[1], p[2]) for p in f.crashrep]
    for w in f.dead:
        hold = w.death_hold
        assert hold is not None
        expected = []
        if hold["cur"] is not None:
            expected.append(hold["cur"])
        if hold["next"] is not None:
            expected.append(hold["next"])
        expected += hold["queue"]
        for c in hold["inflight"]:
            if c[0] == "runtests":
                expected += list(c[1]["indices"])
        mine = [t for wid, t in reps if wid == w.id]
        # tests whose completion event was still on its way are finished for the controller
        if not expected:
            if mine and not w.completed_unacked_possible:
                fire(["C03"], "crash-report-for-idle-worker", f"{w.id} died holding nothing, yet {mine} reported as crashed")
            continue
        want = cfg.ids[expected[0]] if expected[0] < len(cfg.ids) else None
        if len(mine) > 1:
            fire(["C03"], "several-crash-reports", f"{w.id} died once, crash reports {mine}")
        elif not mine:
            fire(["C03"], "no-crash-report", f"{w.id} died holding {expected}, no test reported as crashed")
        elif mine[0] != want:
            fire(["C03"], "wrong-crash-item", f"{w.id} died on {want!r} (holding {expected}), reported {mine[0]!r}")
    for wid, t in reps:
        if wid not in [w.id for w in f.dead]:
            fire(["C03"], "crash-report-names-live-worker", f"crash report for {t} names {wid}, which did not die")
    for p in f.crashrep:
        if CRASH_MSG not in p[5] or repr(p[1]) not in p[5]:
            fire(["C03"], "crash-message-wrong", f"crash report text {p[5]!r}")
    if cfg.requeue:
        for p in f.crashrep:
            was_requeued = p[2] in s.requeued
            if was_requeued and p[4] != "rerun" and s.requeued.count(p[2]) >= [q[2] for q in f.crashrep].count(p[2]):
                fire(["C15"], "hook-modification-lost", f"the crash hook changed the report of {p[2]} but the published one has outcome {p[4]}")


def check_groups(s: S.Sim, f: Facts, fire: Any) -> None:
    """C06 (scheduling half): the tests of one group run on one worker, consecutively, in collection order; after a crash
    the unfinished remainder of a group again goes to one single worker as one block"""
    cfg = s.cfg
    if cfg.mode not in ("loadscope", "loadfile", "loadgroup"):
        return

    def key(nid: str) -> str:
        if cfg.mode == "loadfile":
            return nid.split("::", 1)[0]
        if cfg.mode == "loadgroup":
            return nid.split("@")[-1] if "@" in nid else nid
        return nid.rsplit("::", 1)[0]

    groups: dict[str, list[int]] = {}
    for i, nid in enumerate(cfg.ids):
        groups.setdefault(key(nid), []).append(i)
    dead = {w.id for w in f.dead}
    for g, members in groups.items():
        owners = {w.id for w in s.workers for i, _ in w.ran if i in members}
        live_owners = owners - dead
        if (not f.dead and len(owners) > 1) or len(live_owners) > 1:
            fire(["C06"], "group-split-across-workers", f"group {g!r} ({members}) ran on {sorted(owners)} (dead: {sorted(dead)})")
            return
        for w in s.workers:
            seq = [i for i, _ in w.ran]
            mine = [i for i in seq if i in members]
            pos = [seq.index(i) for i in mine]
            if pos and (pos != list(range(pos[0], pos[0] + len(pos))) or mine != sorted(mine)):
                fire(["C06"], "group-not-contiguous-in-order", f"group {g!r} ({members}) ran at positions {pos} of {w.id}: {seq}")
                return


def check_each(s: S.Sim, f: Facts, fire: Any) -> None:
    cfg = s.cfg
    n = f.n
    initial = s.workers[: cfg.numnodes]
    # every environment runs every test: with equal collections and a run that ended normally, each test was started -- or, for
    # a worker that died before it got that far, reported as crashed -- once per environment, whoever died whenever
    started = Counter(i for w in s.workers for i, _ in w.ran)
    for p in f.crashrep:
        d = s.by_id.get(p[1])
        if p[2] in cfg.ids and d is not None and cfg.ids.index(p[2]) not in [i for i, _ in d.ran]:
            started[cfg.ids.index(p[2])] += 1
    short = {i: started[i] for i in range(n) if started[i] < cfg.numnodes}
    if short:
        fire(["C08"], "each-environment-skipped-tests",
             f"{cfg.numnodes} environments, run finished normally, but tests were started (or reported as crashed) fewer times: {short}; "
             f"per worker: { {w.id: [i for i, _ in w.ran] for w in s.workers} }")
    if not f.dead:
        for w in initial:
            seq = [i for i, _ in w.ran]
            if seq != list(range(len(w.ids))) or w.completed != seq:
                fire(["C08"], "each-worker-did-not-run-all", f"{w.id} ran {seq}, its collection has {len(w.ids)} tests")
                return
        return
    # lineages: a replacement takes over from the dead worker with the same spec, in spawn order
    deaths = [w for w in s.workers if w.death_hold is not None]
    if len(deaths) != 1 or deaths[0].number >= cfg.numnodes:
        return
    d = deaths[0]
    hold = d.death_hold
    assert hold is not None
    expected = ([hold["cur"]] if hold["cur"] is not None else []) + ([hold["next"]] if hold["next"] is not None else []) + hold["queue"]
    for c in hold["inflight"]:
        if c[0] == "runtests":
            expected += list(c[1]["indices"])
        if c[0] == "runtests_all":
            expected += list(range(len(d.ids)))
    if len(s.workers) <= cfg.numnodes:
        return
    r = s.workers[cfg.numnodes]
    got = [i for i, _ in r.ran]
    reps = [p for p in f.crashrep if p[1] == d.id]
    if not d.received and not hold["inflight"]:
        return                      # it died before anything was dispatched to it: the replacement is an ordinary node
    if not expected:
        if got:
            fire(["C08"], "each-replacement-ran-extra", f"{d.id} died holding nothing, its replacement ran {got}")
        return
    if [p[2] for p in reps] != [cfg.ids[expected[0]]]:
        fire(["C08", "C03"], "each-wrong-crash-report", f"{d.id} died on test {expected[0]} (holding {expected}); crash reports {[p[2] for p in reps]}")
    if got != expected[1:]:
        fire(["C08"], "each-replacement-wrong-tests", f"{d.id} died holding {expected}; its replacement {r.id} ran {got}, expected {expected[1:]}")
    for w in initial:
        if w is not d and [i for i, _ in w.ran] != list(range(len(w.ids))):
            fire(["C08"], "each-worker-did-not-run-all", f"{w.id} ran {[i for i, _ in w.ran]}")


def check_mismatch(s: S.Sim, f: Facts, fire: Any) -> None:
    """C09 (load-balancing modes; with --dist each every environment legitimately has its own collection, and a replacement
    is compared with the worker it replaces)"""
    cfg = s.cfg
    initial = f.sched_initial
    ref = f.ref
    if not f.lb:
        return
    init_equal = all(w.ids == ref for w in initial)
    for wid, name, kw in s.wirelog:
        w = s.by_id[wid]
        if name in ("runtests", "runtests_all") and w.ids != ref:
            late = w not in initial
            fire(["C09"], f"dispatch-to-disagreeing-{'late' if late else 'initial'}-worker:{cfg.mode}",
                 f"{wid} collected {w.ids[:4]}... (reference {ref[:4]}...) and was sent {name} {kw}")
            break
    if not init_equal:
        if s.executions:
            fire(["C09"], "tests-run-despite-disagreement", f"initial workers disagree, yet tests ran: {s.executions[:5]}")
        reported = [p for p in s.published if p[0] == "collect" and "Different tests were collected" in p[5]]
        disagree = [w for w in initial if w.ids != ref]
        names = sorted(p[2] for p in reported)
        if s.outcome and s.outcome[0] == "finished" and names != sorted(w.id for w in disagree):
            fire(["C09"], "disagreement-not-reported", f"workers {[w.id for w in disagree]} disagree with {f.first.id if f.first else None}; collection errors published for {names}")
        for p in reported:
            if (f.first and f.first.id not in p[5]) or p[2] not in p[5] or p[4] != "failed":
                fire(["C09"], "disagreement-report-unnamed", f"report for {p[2]} does not name both workers / is not a failure: {p[5][:80]!r}")


# ----------------------------------------------------------------------------- instrumented run

def run_one(cfg: S.SimCfg, rng: random.Random, schedule: list[str] | None = None) -> S.Sim:
    s = S.Sim(cfg, rng, schedule)
    s.double_assign = []            # type: ignore[attr-defined]
    s.stop_wire_at = None           # type: ignore[attr-defined]
    s.stop_reason = None            # type: ignore[attr-defined]
    s.stop_reasons = []             # type: ignore[attr-defined]
    s.spawn_after_stop = []         # type: ignore[attr-defined]
    s.ctl_seen_collect = set()      # type: ignore[attr-defined]
    for_wire = s.wire
    lb = cfg.mode != "each"

    def wire(w: S.SimWorker, obj: Any) -> None:
        name, kw = obj
        if name == "runtests" and lb:
            # C16: not at the same time outstanding on another live worker (what that worker really holds + what is on its way)
            for v in s.workers:
                if v is w or not v.alive or v.pc == "done":
                    continue
                held = set(v.holding())
                for c in v.c2w:
                    if c[0] == "runtests":
                        held |= set(c[1]["indices"])
                # tests the worker has just given back (answer still travelling) are not held
                both = [i for i in kw["indices"] if i in held]
                if both:
                    s.double_assign.append(f"{w.id} is sent {kw['indices']} while {v.id} still holds {sorted(both)}")  # type: ignore[attr-defined]
        for_wire(w, obj)

    s.wire = wire  # type: ignore[method-assign]
    orig_makegw = s.makegateway

    def makegateway(spec: Any) -> Any:
        if s.stop_wire_at is not None:  # type: ignore[attr-defined]
            s.spawn_after_stop.append(spec.id)  # type: ignore[attr-defined]
        return orig_makegw(spec)

    s.makegateway = makegateway  # type: ignore[method-assign]
    s.observe_stop = True  # type: ignore[attr-defined]
    run_with_stop_probe(s)
    for w in s.workers:
        w.completed_unacked_possible = False  # type: ignore[attr-defined]
    return s


def run_with_stop_probe(s: S.Sim) -> None:
    """runs the simulation with `DSession.shouldstop` observed: the first time it is set, the length of the wire log is
    remembered (everything sent later must be a shutdown signal)"""
    from xdist import dsession as D

    orig_init = D.DSession.__init__

    class Probe(D.DSession):
        @property  # type: ignore[override]
        def shouldstop(self) -> Any:
            return self.__dict__.get("_ss", False)

        @shouldstop.setter
        def shouldstop(self, v: Any) -> None:
            self.__dict__["_ss"] = v
            if v:
                s.stop_reasons.append(v)  # type: ignore[attr-defined]
            if v and s.stop_wire_at is None:  # type: ignore[attr-defined]
                s.stop_wire_at = len(s.wirelog)  # type: ignore[attr-defined]
                s.stop_reason = v  # type: ignore[attr-defined]

    orig_cls = D.DSession
    D.DSession = Probe  # type: ignore[misc]
    try:
        s.run()
    finally:
        D.DSession = orig_cls  # type: ignore[misc]
    # which collect reports reached the controller's handler at all
    for c in s.ctl_trace:
        pass
    for w in s.workers:
        if w.end_seen or w.pc == "done" or True:
            for k, t in w.produced:
                if k == "collect":
                    # the report reached the controller iff the receiver processed it (FIFO before END)
                    if not any(m[0] == "collectreport" for m in w.w2c if m != "END"):
                        s.ctl_seen_collect.add(t)  # type: ignore[attr-defined]


def cfg_to_json(cfg: S.SimCfg) -> dict[str, Any]:
    d = dataclasses.asdict(cfg)
    d["behav"] = {str(k): [dataclasses.asdict(b) for b in v] for k, v in cfg.behav.items()}
    d["node_ids"] = {str(k): v for k, v in cfg.node_ids.items()}
    d["collect_errors"] = {str(k): v for k, v in cfg.collect_errors.items()}
    d["collect_skips"] = {str(k): v for k, v in cfg.collect_skips.items()}
    d["boot_crash"] = {str(k): v for k, v in cfg.boot_crash.items()}
    return d


def cfg_from_json(d: dict[str, Any]) -> S.SimCfg:
    d = dict(d)
    d["behav"] = {int(k): [S.Behav(**b) for b in v] for k, v in d["behav"].items()}
    d["node_ids"] = {int(k): v for k, v in d["node_ids"].items()}
    d["collect_errors"] = {int(k): v for k, v in d["collect_errors"].items()}
    d["collect_skips"] = {int(k): v for k, v in d.get("collect_skips", {}).items()}
    d["boot_crash"] = {int(k): v for k, v in d["boot_crash"].items()}
    return S.SimCfg(**d)


def compare_ctl(res: CompResult, runs: list[tuple[list[str], list[str], list[str]]]) -> None:
    """T1 `ctl.dsession`: the Lean `DSession` model replays the events the real controller processed (in the order it
    processed them, with the flag flips of the receiver threads in between) and must produce the same commands,
    publications, flags and scheduler state after every loop iteration."""
    from common import Disagreement, run_driver

    lines = [l for ls, _, _ in runs for l in ls]
    if not lines:
        return
    model = run_driver("ctl", lines)
    pos = 0
    for ls, obs, ops in runs:
        m = model[pos: pos + len(ls)]
        pos += len(ls)
        bad = next((i for i in range(len(ls)) if i < len(obs) and m[i] != obs[i]), None)
        if bad is None:
            res.hit("ctl-trace-agrees")
            continue
        res.hit("ctl-trace-disagrees")
        if len([d for d in res.disagreements if d.component == "ctl.dsession"]) < 6:
            res.disagreements.append(Disagreement("ctl.dsession", ls[: bad + 1], m[: bad + 1], obs[: bad + 1], bad,
                                                  note="system replay: " + ops[0][:300]))


def compare_sys(res: CompResult, runs: list[tuple[list[str], list[str], list[str]]]) -> None:
    """T2 tie of the whole-system model (`Sys/System.lean`): the Lean model replays every step the simulation took — worker
    main-thread steps, command deliveries, receiver steps, crashes, controller iterations — and must show the same worker
    state (program point, current/next test, queue, channel fill levels) after every worker step and the same controller
    observation after every iteration.  This ties the simulation's worker machine to the Lean worker model that T1 validates
    against the real `remote.py` threads."""
    from common import Disagreement, run_driver

    # load-mode runs: the executable system invariant of `Sys/Inv.lean` is evaluated after every step (`inv?`)
    STEP = ("main", "deliver", "recv", "crash", "ctl", "init")
    exp_runs = []
    for ls, obs, ops in runs:
        load = any(l.startswith("init load ") for l in ls[:40])
        l2, o2 = [], []
        for l, o in zip(ls, obs):
            l2.append(l)
            o2.append(o)
            if load and l.split()[0] in STEP:
                l2.append("inv?")
                o2.append("inv=1")
        exp_runs.append((l2, o2, ops))
    lines = [l for ls, _, _ in exp_runs for l in ls]
    if not lines:
        return
    model = run_driver("sys", lines)
    pos = 0
    for ls, obs, ops in exp_runs:
        m = model[pos: pos + len(ls)]
        pos += len(ls)
        bad = next((i for i in range(len(ls)) if i < len(obs) and obs[i] != "*" and m[i] != obs[i]
                    and not (ls[i] == "inv?" and m[i] == "inv=-")), None)
        if bad is None:
            res.hit("sys-trace-agrees")
            if any(l == "inv?" for l in ls):
                res.hit("sys-invariant-holds-at-every-step")
            continue
        comp = "sys.inv" if ls[bad] == "inv?" else "sys.system"
        res.hit("sys-invariant-fails" if comp == "sys.inv" else "sys-trace-disagrees")
        if len([d for d in res.disagreements if d.component == comp]) < 6:
            res.disagreements.append(Disagreement(comp, ls[: bad + 1], m[: bad + 1], obs[: bad + 1], bad,
                                                  note=("the system invariant (Sys/Inv.lean) fails; " if comp == "sys.inv" else "") + "system replay: " + ops[0][:300]))


def run(profiles: list[str], n_runs: int, seed: int, modes: list[str] | None = None) -> CompResult:
    res = CompResult(component="system[" + ",".join(profiles) + "]")
    res.rule = ("whole-system runs of the real DSession/scheduler/WorkerController stack under random fair schedules; a run is non-trivial if "
                ">=2 workers executed tests and >=1 controller event overtook an older event of another worker; distinct by hash of (configuration, schedule)")
    rng = random.Random(f"{seed}-system-{'-'.join(profiles)}")
    ctl_runs: list[tuple[list[str], list[str], list[str]]] = []
    sys_runs: list[tuple[list[str], list[str], list[str]]] = []
    for k in range(n_runs):
        profile = profiles[k % len(profiles)]
        cfg = PROFILES[profile](rng)
        if modes and cfg.mode not in modes:
            cfg.mode = rng.choice(modes)
        sub = random.Random(rng.randrange(1 << 60))
        try:
            s = run_one(cfg, sub)
        except Exception as e:  # noqa: BLE001  -- harness trouble, not a verdict
            res.notes.append(f"harness exception {type(e).__name__}: {e}")
            res.hit("harness-exception")
            continue
        res.evaluations += 1
        res.hit(f"profile:{profile}")
        res.hit(f"mode:{cfg.mode}")
        res.hit(f"outcome:{(s.outcome or ('none',))[0]}")
        if any(w.death_hold for w in s.workers):
            res.hit("with-crash")
        if s.requeued:
            res.hit("with-requeue")
        if any(n == "steal" for _, n, _ in s.wirelog):
            res.hit("with-steal")
        ops = [json.dumps({"cfg": cfg_to_json(cfg), "profile": profile}), *s.trace]
        check_run(s, profile, res, ops)
        ctl_runs.append((s.ctl_lines, s.ctl_obs, ops))
        sys_runs.append((s.sys_lines, s.sys_obs, ops))
        busy = len({wid for _, wid in s.executions})
        if busy >= 2:
            res.distinct.add(h((cfg_to_json(cfg), s.trace)))
        res.traces_validated += 1
        if len(res.samples) < 2 and busy >= 2:
            res.samples.append({"cfg": cfg_to_json(cfg), "schedule_head": s.trace[:30], "outcome": s.outcome})
    compare_ctl(res, ctl_runs)
    compare_sys(res, sys_runs)
    return res


def replay(ops: list[str]) -> S.Sim:
    head = json.loads(ops[0])
    cfg = cfg_from_json(head["cfg"])
    return run_one(cfg, random.Random(0), list(ops[1:]))
