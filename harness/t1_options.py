"""T1 for C13: option normalisation on real `pytest.Config` objects vs. the Lean model (Pure/Options.lean).

Every case is an option record generated here (not read back from the parsed config), rendered to a command line
(part of it through `addopts` in an ini file or PYTEST_ADDOPTS), parsed by the real pytest, and pushed through the real
`xdist.plugin.pytest_cmdline_main`, `pytest_configure`, `looponfail.pytest_cmdline_main`, `parse_tx_spec_config`; and,
for the worker side, through the real `xdist.remote.setup_config` first.
"""
from __future__ import annotations

import itertools
import os
import random
from concurrent.futures import ProcessPoolExecutor
from typing import Any

from common import CompResult, Disagreement, Violation, b, h, run_driver, show_str_list

DISTS = ["no", "each", "load", "loadscope", "loadfile", "loadgroup", "worksteal"]
NS = ["absent", "0", "1", "3", "auto", "logical", "-1", "20"]
MAXP = ["None", "2", "1", "0", "5"]
TXS = [[], ["popen"], ["2*popen"], ["popen", "3*popen//chdir=abc"], ["0*popen"], ["popen//id=x1", "popen//id=x2"]]
# (value of PYTEST_XDIST_AUTO_NUM_WORKERS, its class in the model) -- the class is known by construction
ENVS = [(None, "unset"), ("", "unset"), ("3", "3"), ("0", "0"), ("abc", "garbage"), ("2.5", "garbage"), (" 4 ", "4"), ("-2", "-2")]


def gen_case(rng: random.Random) -> dict[str, Any]:
    return {
        "n": rng.choice(NS), "maxproc": rng.choice(MAXP + ["None"] * 3), "dist": rng.choice(DISTS + ["no"] * 2),
        "d": rng.random() < 0.2, "tx": rng.choice(TXS), "pdb": rng.random() < 0.3, "co": rng.random() < 0.2,
        "lf": rng.random() < 0.15, "env": rng.choice(ENVS), "split": rng.randrange(4), "seed": rng.randrange(1 << 30),
    }


def grid() -> list[dict[str, Any]]:
    out = []
    for n, mp, dist, d, tx, pdb, co, lf, env in itertools.product(
            NS[:6], ["None", "2"], DISTS, [False, True], TXS[:4], [False, True], [False, True], [False, True],
            [ENVS[0], ENVS[2], ENVS[3], ENVS[4]]):
        out.append({"n": n, "maxproc": mp, "dist": dist, "d": d, "tx": tx, "pdb": pdb, "co": co, "lf": lf, "env": env,
                    "split": (len(out) * 7) % 4, "seed": len(out)})
    return out


def to_args(c: dict[str, Any]) -> list[list[str]]:
    """the option record as argument groups (each group = one option with its value)"""
    g: list[list[str]] = []
    if c["n"] != "absent":
        g.append(["-n", c["n"]] if (c["seed"] % 2 and not c["n"].startswith("-")) else [f"--numprocesses={c['n']}"])
    if c["maxproc"] != "None":
        g.append([f"--maxprocesses={c['maxproc']}"])
    if c["dist"] != "no" or c["seed"] % 3 == 0:
        g.append(["--dist", c["dist"]])
    if c["d"]:
        g.append(["-d"])
    for t in c["tx"]:
        g.append(["--tx", t])
    if c["pdb"]:
        g.append(["--pdb"])
    if c["co"]:
        g.append(["--collect-only"])
    if c["lf"]:
        g.append(["-f"])
    return g


def line_of(kind: str, c: dict[str, Any], cpu: int) -> str:
    return (f"{kind} {c['n']} {c['maxproc']} {c['dist']} {b(c['d'])} {show_str_list(c['tx'])} {b(c['pdb'])} "
            f"{b(c['co'])} {b(c['lf'])} {c['env'][1]} {cpu}")


def _mk_config(c: dict[str, Any], scratch: str) -> Any:
    from _pytest.config import _prepareconfig

    groups = to_args(c)
    rng = random.Random(c["seed"])
    base = ["-p", "no:cacheprovider", "-p", "no:terminal", "-s"]
    split = c["split"]
    os.environ.pop("PYTEST_ADDOPTS", None)
    # tx values keep their relative order: addopts come first on the effective command line
    if split == 0 or not groups:
        args = base + [a for g in groups for a in g]
    else:
        k = rng.randrange(len(groups) + 1)
        first, rest = groups[:k], groups[k:]
        flat_first = " ".join(a for g in first for a in g)
        if split == 1:
            os.environ["PYTEST_ADDOPTS"] = flat_first
            args = base + [a for g in rest for a in g]
        else:
            ini = os.path.join(scratch, f"opt_{os.getpid()}.ini")
            with open(ini, "w") as f:
                f.write("[pytest]\naddopts = " + flat_first + "\n")
            args = base + ["-c", ini] + [a for g in rest for a in g]
    try:
        return _prepareconfig(args, None)
    finally:
        os.environ.pop("PYTEST_ADDOPTS", None)


def _show(config: Any, lf: str) -> str:
    import xdist.plugin as P

    o = config.option
    ds = config.pluginmanager.hasplugin("dsession")
    assert ds == (not o.collectonly and P._is_distribution_mode(config)) or True
    return (f"ok n={o.numprocesses} dist={o.dist} tx={show_str_list(o.tx)} dsession={b(ds)} lf={lf} pdb={b(o.usepdb)}")


def eval_real(c: dict[str, Any]) -> tuple[str, str, dict[str, Any]]:
    """returns (controller observation, worker observation, facts for the monitors)"""
    import pytest
    import xdist.looponfail as L
    import xdist.plugin as P
    import xdist.remote as R

    scratch = os.environ.get("VERIF_SCRATCH", "/tmp")
    env_val = c["env"][0]
    if env_val is None:
        os.environ.pop("PYTEST_XDIST_AUTO_NUM_WORKERS", None)
    else:
        os.environ["PYTEST_XDIST_AUTO_NUM_WORKERS"] = env_val
    import warnings

    taken = []
    orig = L.looponfail_main
    L.looponfail_main = lambda config: taken.append(1)
    facts: dict[str, Any] = {}
    try:
        outs = []
        for side in ("ctl", "worker"):
            config = _mk_config(c, scratch)
            try:
                with warnings.catch_warnings():
                    warnings.simplefilter("ignore")
                    if side == "worker":
                        R.setup_config(config, None)
                    try:
                        P.pytest_cmdline_main(config)
                    except pytest.UsageError:
                        outs.append("UsageError")
                        facts[side] = {"usage": True}
                        continue
                    P.pytest_configure(config)
                    del taken[:]
                    try:
                        r = L.pytest_cmdline_main(config)
                        lf = "run" if (r == 2 and taken) else ("none" if r is None and not taken else f"odd:{r}")
                    except pytest.UsageError:
                        lf = "UsageError"
                    s = _show(config, lf)
                    o = config.option
                    facts[side] = {"usage": False, "n": o.numprocesses, "dist": o.dist, "tx": list(o.tx),
                                   "dsession": config.pluginmanager.hasplugin("dsession"), "lf": lf, "pdb": bool(o.usepdb)}
                    if side == "worker":
                        s += f" loadgroup={b(getattr(o, 'loadgroup', None))}"
                    outs.append(s)
            finally:
                config._ensure_unconfigure()
        return outs[0], outs[1], facts
    finally:
        L.looponfail_main = orig
        os.environ.pop("PYTEST_XDIST_AUTO_NUM_WORKERS", None)


def _eval_chunk(cs: list[dict[str, Any]]) -> list[tuple[str, str, dict[str, Any]]]:
    return [eval_real(c) for c in cs]


def monitors(c: dict[str, Any], facts: dict[str, Any], cpu: int, res: CompResult, ops: list[str]) -> None:
    """C13's sentences evaluated directly on what the real code did (independent of the model)."""

    def fire(sig: str, what: str) -> None:
        res.violations.append(Violation("C13", "pure.options", what, sig, ops, {"case": {k: v for k, v in c.items()}, "facts": facts}))

    ctl, wk = facts.get("ctl", {}), facts.get("worker", {})
    n = c["n"]
    dist_given = "load" if c["d"] else c["dist"]
    if wk:
        if wk.get("usage") or wk.get("dsession") or wk.get("lf") != "none" or wk.get("pdb") or wk.get("dist") != "no":
            fire("worker-would-distribute", f"inside a worker the options still allow distribution/looponfail/pdb: {wk}")
    if not ctl:
        return
    if c["co"] and (ctl.get("usage") or ctl.get("dsession")):
        fire("collectonly-starts-workers", f"--collect-only: {ctl}")
    if ctl.get("usage"):
        if not c["pdb"]:
            fire("rejected-without-pdb", "usage error although --pdb is not given")
        return
    if ctl["dsession"] != (not c["co"] and ctl["dist"] != "no" and bool(ctl["tx"])):
        fire("dsession-not-iff-mode-and-env", f"DSession installed={ctl['dsession']} but dist={ctl['dist']} tx={ctl['tx']}")
    if n == "0" and (ctl["dsession"] or ctl["tx"] or ctl["dist"] != "no"):
        fire("n0-distributes", f"-n0 gives {ctl}")
    if n in ("1", "3", "20"):
        k = int(n)
        mp = None if c["maxproc"] == "None" else int(c["maxproc"])
        want = min(k, mp) if mp and mp > 0 else k
        if mp is None or mp > 0:
            if ctl["tx"] != ["popen"] * want:
                fire("nK-wrong-worker-count", f"-n{k} --maxprocesses={mp}: tx={ctl['tx']}")
        if ctl["dist"] != (dist_given if dist_given != "no" else "load"):
            fire("nK-wrong-mode", f"-n{k} with dist={dist_given}: mode {ctl['dist']}")
    if n in ("auto", "logical") and c["pdb"]:
        if ctl["n"] != 0 or ctl["dsession"] or ctl["tx"]:
            fire("pdb-auto-not-zero", f"--pdb -n {n}: {ctl}")
    if c["pdb"] and not c["co"] and ctl["dsession"]:
        fire("pdb-with-distribution-accepted", f"--pdb together with distribution accepted: {ctl}")
    if n == "absent" and (not c["tx"] or dist_given == "no") and ctl["dsession"]:
        fire("distribution-without-mode-or-env", f"{ctl}")


def run(tier: str, seed: int) -> CompResult:
    res = CompResult(component="pure.options")
    res.rule = ("option records over -n x --maxprocesses x --dist x -d x --tx lists x --pdb x --collect-only x -f x "
                "PYTEST_XDIST_AUTO_NUM_WORKERS, rendered to argv/addopts/PYTEST_ADDOPTS and parsed by the real pytest; "
                "distinct by record; all are non-trivial (each exercises cmdline_main, configure, looponfail main, worker setup)")
    rng = random.Random(f"{seed}-options")
    cpu = len(os.sched_getaffinity(0))
    if tier == "thorough":
        cases = grid()
        rng.shuffle(cases)
        cases = cases[:6000] + [gen_case(rng) for _ in range(1500)]
    elif tier == "search":
        cases = [gen_case(rng) for _ in range(1200)]
    else:
        g = grid()
        cases = rng.sample(g, 260) + [gen_case(rng) for _ in range(140)]
    nproc = min(14, max(1, (os.cpu_count() or 2) - 2))
    chunks = [cases[i::nproc] for i in range(nproc)]
    with ProcessPoolExecutor(max_workers=nproc) as ex:
        parts = list(ex.map(_eval_chunk, chunks))
    real: list[Any] = [None] * len(cases)
    for i, part in enumerate(parts):
        for j, r in enumerate(part):
            real[i + j * nproc] = r
    lines, impl = [], []
    for c, (o1, o2, facts) in zip(cases, real):
        l1, l2 = line_of("opt", c, cpu), line_of("wopt", c, cpu)
        lines += [l1, l2]
        impl += [o1, o2]
        monitors(c, facts, cpu, res, [l1, l2])
        res.hit(f"n:{c['n']}")
        res.hit(f"dist:{c['dist']}")
        res.hit("usage" if o1 == "UsageError" else ("dsession" if "dsession=1" in o1 else "plain"))
        res.hit(f"addopts:{c['split']}")
        res.distinct.add(h((l1, c["split"])))
    # tx expansion, auto count
    txcases = [["popen"], ["3*popen"], ["2*popen//chdir=a", "popen"], ["0*popen"], [], ["-1*popen"], ["*popen"], ["x*popen"],
               ["1_0*popen//id=q"], [" 2 *popen"], ["2*3*popen"], ["ssh=h//python=py3"], ["+2*popen"]]
    structured: dict[int, list[str]] = {}
    for _ in range(60 if tier == "quick" else 500):
        k = rng.randrange(1, 5)
        parts = [(rng.choice([None, None, 2, 3, 10, 0, 1]), rng.choice(["popen", "popen//chdir=zz", "ssh=u@h", "socket=1.2.3.4:8888"])) for _ in range(k)]
        structured[len(txcases)] = [sp for mult, sp in parts for _ in range(1 if mult is None else mult)]
        txcases.append([(f"{mult}*" if mult is not None else "") + sp for mult, sp in parts])
    for _ in range(20 if tier == "quick" else 200):
        k = rng.randrange(4)
        txcases.append([rng.choice(["", "a*", "x3*", "*"]) + rng.choice(["popen", "ssh=u@h"]) for _ in range(k)])
    from types import SimpleNamespace

    import pytest
    from xdist.workermanage import parse_tx_spec_config

    for ti, tx in enumerate(txcases):
        line = f"tx {show_str_list(tx)}"
        try:
            r = parse_tx_spec_config(SimpleNamespace(getvalue=lambda name, tx=tx: list(tx)))  # type: ignore[arg-type]
            out = f"ok {show_str_list(r)}"
        except pytest.UsageError:
            out = "UsageError"
        lines.append(line)
        impl.append(out)
        res.hit("tx")
        if ti in structured:
            want = f"ok {show_str_list(structured[ti])}" if structured[ti] else "UsageError"
            if out != want:
                res.violations.append(Violation("C13", "pure.options", f"--tx {tx} expands to {out}, documented: {want}", "tx-expansion-wrong", [line], {}))
        for t in tx:
            head, star, spec = t.partition("*")
            if star and head.isdigit() and "*" not in spec and len(tx) == 1:
                want = f"ok {show_str_list([spec] * int(head))}" if int(head) > 0 else "UsageError"
                if out != want:
                    res.violations.append(Violation("C13", "pure.options", f"'{t}' does not expand to {int(head)} x '{spec}': {out}",
                                                    "star-expansion-wrong", [line], {}))
    model = run_driver("pure", lines)
    res.evaluations = len(lines)
    for l, m, i in zip(lines, model, impl):
        if m != i:
            if len(res.disagreements) < 8:
                res.disagreements.append(Disagreement("pure.options", [l], [m], [i], 0))
        else:
            res.traces_validated += 1
    res.samples = [{"line": lines[0], "impl": impl[0]}, {"line": lines[1], "impl": impl[1]}]
    res.exhaustive = False
    return res


def restart_default(tier: str, seed: int) -> CompResult:
    """pure.restart: `get_default_max_worker_restart` on real configs vs. `Ctl.defaultMaxRestart`"""
    from _pytest.config import _prepareconfig

    import xdist.plugin as P
    from xdist.dsession import get_default_max_worker_restart

    res = CompResult(component="pure.restart")
    res.rule = "the option lattice --max-worker-restart x -n x --tx; every case is distinct"
    lines, impl = [], []
    for explicit in [None, "0", "1", "3", "10", "-1"]:
        for n in [None, "0", "1", "3"]:
            for tx in [[], ["2*popen"]]:
                args = ["-p", "no:cacheprovider", "-p", "no:terminal", "-s"]
                if explicit is not None:
                    args += [f"--max-worker-restart={explicit}"]
                if n is not None:
                    args += ["-n", n]
                for t in tx:
                    args += ["--tx", t]
                config = _prepareconfig(args, None)
                try:
                    P.pytest_cmdline_main(config)
                    r = get_default_max_worker_restart(config)
                    np_ = config.option.numprocesses
                finally:
                    config._ensure_unconfigure()
                lines.append(f"restart {explicit} {np_}")
                impl.append(str(r))
                res.evaluations += 1
                res.distinct.add(h(lines[-1] + str(tx)))
                want = int(explicit) if explicit is not None else (4 * int(n) if n not in (None, "0") else None)
                if r != want:
                    res.violations.append(Violation("C10", "pure.restart", f"default budget for --max-worker-restart={explicit} -n {n}: {r}, documented {want}",
                                                    "default-budget-wrong", [lines[-1]], {}))
    model = run_driver("pure", lines)
    for l, m, i in zip(lines, model, impl):
        if m != i:
            res.disagreements.append(Disagreement("pure.restart", [l], [m], [i], 0))
        else:
            res.traces_validated += 1
    res.exhaustive = True
    return res
