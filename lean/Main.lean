import XdistModel.Driver.Sched
import XdistModel.Driver.Worker
import XdistModel.Driver.Pure
import XdistModel.Driver.Ctl
import XdistModel.Driver.Sys
import XdistProofs.Sys.DriverInv
open Xdist.Driver

def main (args : List String) : IO UInt32 := do
  let stdin ← IO.getStdin
  let stdout ← IO.getStdout
  match args with
  | ["sched"] => loop stdin stdout ({} : Sched.St) Sched.handle; return 0
  | ["ctl"] => loop stdin stdout ({} : Ctl.St) Ctl.handle; return 0
  | ["pure"] => loop stdin stdout ({} : Pure.St) Pure.handle; return 0
  | ["sys"] => loop stdin stdout ({} : Sys.St) Sys.handleInv; return 0
  | ["worker"] => loop stdin stdout ({} : Xdist.Worker.State) Worker.handle; return 0
  | _ => IO.eprintln "usage: driver <component>"; return 2
