import XdistModel.Driver.Sched
open Xdist.Driver

def main (args : List String) : IO UInt32 := do
  let stdin ← IO.getStdin
  let stdout ← IO.getStdout
  match args with
  | ["sched"] => loop stdin stdout ({} : Sched.St) Sched.handle; return 0
  | _ => IO.eprintln "usage: driver <component>"; return 2
