import XdistModel.Py.Basic
import XdistModel.Sched.Node
import XdistModel.Sched.Load
import XdistModel.Sched.WorkSteal
import XdistModel.Sched.LoadScope
import XdistModel.Sched.Each
import XdistModel.Worker.Interactor
