import XdistModel
import XdistProofs.Lemmas.AList
import XdistProofs.Lemmas.Except
import XdistProofs.Contract.Spec
import XdistProofs.Contract.Invariants
import XdistProofs.Contract.Wire
import XdistProofs.Contract.LoadRefines
import XdistProofs.Props.C01
