import XdistModel.Py.Basic
/-
  Model of `WorkerController.process_from_remote` (workermanage.py:395-478): what the receiver thread of one worker posts
  onto the controller's queue for each object received from that worker, and how it flips `_down` / `_shutdown_sent`.
  Event payloads are abstract (`α`); whether a message decodes is part of the input.
-/
namespace Xdist.Receiver

/-- what arrives from the worker's channel, in FIFO order, the end marker last -/
inductive Msg (α : Type) where
  | event (name : String) (payload : α)     -- a well-formed event the controller understands
  | ignored                                  -- `collectionstart`: logged only
  | workerfinished (payload : α)
  | garbage                                  -- unknown event name / report that cannot be de-serialised: raises in the `try`
  | endMarker                                -- the channel closed
  deriving Repr, DecidableEq

/-- what is put on the controller's queue -/
inductive Post (α : Type) where
  | event (name : String) (payload : α)
  | workerfinished (payload : α)
  | errordown
  deriving Repr, DecidableEq

structure State where
  down : Bool := false             -- `_down`
  shutdownSent : Bool := false     -- `_shutdown_sent`
  deriving Repr, DecidableEq

/-- one call of `process_from_remote`: new flags, what is posted, and whether the shutdown command is written -/
def step {α : Type} (st : State) : Msg α → State × List (Post α) × Bool
  | .endMarker =>
    if st.down then (st, [], false) else ({ st with down := true }, [.errordown], false)
  | m =>
    if st.down then (st, [], false)              -- written off (or finished): nothing it still sends concerns the controller
    else match m with
      | .event name p => (st, [.event name p], false)
      | .ignored => (st, [], false)
      | .workerfinished p => ({ st with down := true }, [.workerfinished p], false)
      | .garbage =>
        -- except-branch: notify_exception, self.shutdown(), errordown, _down = True
        ({ down := true, shutdownSent := true }, [.errordown], !st.shutdownSent)
      | .endMarker => (st, [], false)

def run {α : Type} (st : State) : List (Msg α) → State × List (Post α)
  | [] => (st, [])
  | m :: rest =>
    let r := step st m
    let r' := run r.1 rest
    (r'.1, r.2.1 ++ r'.2)

end Xdist.Receiver
