import XdistModel.Sched.Node
/-
  Model of `DSession` (dsession.py): one definition per `worker_*` handler, `loop_once`,
  `triggershutdown`, `handle_crashitem`, `_clone_node`, and the body of the `pytest_runtestloop` loop.
  Generic in the scheduler (`SchedI`): the handlers only use the scheduler's public interface.
-/
namespace Xdist.Ctl
open Xdist

/-- what `DSession` uses of a scheduler -/
structure SchedI (σ τ : Type) where
  step : σ → Env → SOp τ → Except PyErr (σ × Env × Option τ)
  nodes : σ → List Nat
  testsFinished : σ → Bool
  collectionIsCompleted : σ → Bool

/-- why the run is being stopped (`DSession.shouldstop`, a truthy string in the code) -/
inductive Stop where
  | maxfail (count : Nat)              -- "stopping after N failures"
  | worker (reason : String)           -- a worker's `shouldfail` / `shouldstop`
  | keyboard (n : Nat)                 -- "<node> received keyboard-interrupt"
  deriving DecidableEq, Repr, Inhabited

/-- what the controller publishes / starts, in order (write-only history) -/
inductive Pub (τ : Type) where
  | crash (n : Nat) (t : τ) (requeued : Bool)   -- handle_crashitem: failed report "worker gwN crashed while running t"
  | report (n : Nat) (failed : Bool)            -- pytest_runtest_logreport of a worker's report
  | collect (key : String)                      -- pytest_collectreport of a worker's failed/skipped collect report
  | nodedown (n : Nat) (crashed : Bool)         -- pytest_testnodedown
  | spawn (n : Nat)                             -- _clone_node started worker gw<n>
  | internalError (n : Nat)                     -- pytest_internalerror for a worker's internal error
  deriving DecidableEq, Repr, Inhabited

inductive Summary where
  | disabled (n : Nat)      -- "worker gwN crashed and worker restarting disabled"
  | maximum (b : Int)       -- "maximum crashed workers reached: b"
  deriving DecidableEq, Repr, Inhabited

structure State (σ τ : Type) where
  sched : σ
  env : Env := {}
  shuttingdown : Bool := false
  shouldstop : Option Stop := none
  countfailures : Nat := 0
  maxfail : Nat := 0
  failedNodes : Nat := 0
  maxRestart : Option Int := none
  active : List Nat := []
  nextId : Nat := 0
  summary : Option Summary := none
  seenCollect : List String := []
  pubs : List (Pub τ) := []

/-- events as `loop_once` takes them from the queue -/
inductive Event (τ : Type) where
  | workerready (n : Nat)
  | workerfinished (n : Nat) (exitstatus : Nat) (shouldfail shouldstop : Option String)
  | internalError (n : Nat)
  | errordown (n : Nat) (requeue : Bool)       -- `requeue`: the crash hook calls `sched.mark_test_pending(crashitem)`
  | collectionfinish (n : Nat) (ids : List τ)
  | testreport (n : Nat) (failed : Bool)
  | complete (n : Nat) (i : Nat) (slow : Bool)
  | unscheduled (n : Nat) (is : List Nat)
  | collectreport (n : Nat) (key : String) (failed : Bool)
  | other                                      -- logstart / logfinish / warning_recorded / logwarning: passed on
  deriving Repr

variable {σ τ : Type}

def init (I : SchedI σ τ) (s0 : σ) (numnodes maxfail : Nat) (maxRestart : Option Int) : State σ τ :=
  { sched := s0, maxfail := maxfail, maxRestart := maxRestart, active := List.range numnodes, nextId := numnodes }

/-- `session_finished` (dsession.py:70) -/
def sessionFinished (st : State σ τ) : Bool := st.shuttingdown && st.active.isEmpty

/-- dsession.py:427-433 -/
def triggerShutdown (I : SchedI σ τ) (st : State σ τ) : State σ τ :=
  if st.shuttingdown then st
  else { st with shuttingdown := true, env := st.env.shutdownAll (I.nodes st.sched) }

/-- one scheduler call; commands go to `env.outs` -/
def callSched (I : SchedI σ τ) (st : State σ τ) (op : SOp τ) : Except PyErr (State σ τ × Option τ) :=
  (I.step st.sched st.env op).map fun r => ({ st with sched := r.1, env := r.2.1 }, r.2.2)

/-- `_handlefailures` (dsession.py:417-425) -/
def handleFailures (st : State σ τ) (failed : Bool) : State σ τ :=
  if failed then
    let c := st.countfailures + 1
    let st1 := { st with countfailures := c }
    if st.maxfail ≠ 0 ∧ c ≥ st.maxfail ∧ st.shouldstop.isNone then { st1 with shouldstop := some (.maxfail c) } else st1
  else st

/-- `set.remove`: KeyError when absent -/
def removeActive (st : State σ τ) (n : Nat) : Except PyErr (State σ τ) :=
  if n ∈ st.active then .ok { st with active := st.active.erase n } else .error .keyError

/-- `handle_crashitem` (dsession.py:435-456): hook first (it may re-queue), then the report is published -/
def handleCrashItem (I : SchedI σ τ) (st : State σ τ) (n : Nat) (t : τ) (requeue : Bool) : Except PyErr (State σ τ) :=
  (if requeue then (callSched I st (.markPending t)).map (·.1) else .ok st).map
    fun st1 => { st1 with pubs := st1.pubs ++ [.crash n t requeue] }

/-- `_clone_node` (dsession.py:386-400) -/
def cloneNode (st : State σ τ) : State σ τ :=
  { st with active := st.active ++ [st.nextId], nextId := st.nextId + 1, pubs := st.pubs ++ [.spawn st.nextId] }

/-- the restart decision of `worker_errordown` (dsession.py:250-269) -/
def restartOrStop (I : SchedI σ τ) (st1 : State σ τ) (n : Nat) : State σ τ :=
  let failed := st1.failedNodes + 1
  let st2 := { st1 with failedNodes := failed }
  match st2.maxRestart with
  | some b =>
    if (failed : Int) > b then
      triggerShutdown I { st2 with summary := some (if b = 0 then .disabled n else .maximum b) }
    else cloneNode { st2 with shuttingdown := false }
  | none => cloneNode { st2 with shuttingdown := false }

/-- `worker_errordown` (dsession.py:241-270) -/
def errordown (I : SchedI σ τ) (st : State σ τ) (n : Nat) (requeue : Bool) : Except PyErr (State σ τ) :=
  let st0 := { st with pubs := st.pubs ++ [.nodedown n true] }
  match callSched I st0 (.removeNode n) with
  | .error .keyError => removeActive (restartOrStop I st0 n) n                 -- `except KeyError: pass`
  | .error e => .error e
  | .ok (st', none) => removeActive (restartOrStop I st' n) n
  | .ok (st', some t) => (handleCrashItem I st' n t requeue).bind fun st1 => removeActive (restartOrStop I st1 n) n

/-- `worker_workerfinished` (dsession.py:192-221) -/
def workerfinished (I : SchedI σ τ) (st : State σ τ) (n exitstatus : Nat) (sf ss : Option String) :
    Except PyErr (State σ τ) :=
  if exitstatus = 2 then
    -- keyboard-interrupt: stop, shut down, then treat the node as lost
    let st1 := triggerShutdown I { st with shouldstop := some (.keyboard n), pubs := st.pubs ++ [.nodedown n false] }
    errordown I st1 n false
  else
    let st0 := { st with pubs := st.pubs ++ [.nodedown n false] }
    match (match sf with | some r => some r | none => ss) with
    | some r =>
      removeActive (if st0.shouldstop.isNone then { st0 with shouldstop := some (.worker r) } else st0) n
    | none =>
      if n ∈ I.nodes st0.sched then
        match callSched I st0 (.removeNode n) with
        | .error e => .error e
        | .ok (st', some _) => .error .assertion        -- `assert not crashitem`
        | .ok (st', none) => removeActive st' n
      else removeActive st0 n

/-- `worker_collectionfinish` (dsession.py:277-310) -/
def collectionfinish (I : SchedI σ τ) (st : State σ τ) (n : Nat) (ids : List τ) : Except PyErr (State σ τ) :=
  if st.shuttingdown then .ok st
  else if n ∉ I.nodes st.sched then .ok st
  else (callSched I st (.addNodeCollection n ids)).bind fun r =>
    if I.collectionIsCompleted r.1.sched then (callSched I r.1 .schedule).map (·.1) else .ok r.1

/-- the handler selected by `loop_once` -/
def handle (I : SchedI σ τ) (st : State σ τ) : Event τ → Except PyErr (State σ τ)
  | .workerready n =>
    if st.shuttingdown then .ok { st with env := st.env.shutdown n }
    else (callSched I st (.addNode n)).map (·.1)
  | .workerfinished n x sf ss => workerfinished I st n x sf ss
  | .internalError n => (removeActive st n).map fun s => { s with pubs := s.pubs ++ [.internalError n] }
  | .errordown n rq => errordown I st n rq
  | .collectionfinish n ids => collectionfinish I st n ids
  | .testreport n failed => .ok (handleFailures { st with pubs := st.pubs ++ [.report n failed] } failed)
  | .complete n i slow => (callSched I st (.markComplete n i slow)).map (·.1)
  | .unscheduled n is => (callSched I st (.removePending n is)).map (·.1)
  | .collectreport _ key failed =>
    if key ∈ st.seenCollect then .ok st
    else .ok (handleFailures { st with seenCollect := st.seenCollect ++ [key], pubs := st.pubs ++ [.collect key] } failed)
  | .other => .ok st

/-- what follows the handler inside `loop_once` (`tests_finished`) and in the run loop (`if self.shouldstop`) -/
def afterHandler (I : SchedI σ τ) (st1 : State σ τ) : State σ τ :=
  let st2 := if I.testsFinished st1.sched then triggerShutdown I st1 else st1
  if st2.shouldstop.isSome then triggerShutdown I st2 else st2

/-- `loop_once` (dsession.py:146-166) followed by the `if self.shouldstop` of the run loop (137-140) -/
def loopOnce (I : SchedI σ τ) (st : State σ τ) (ev : Event τ) : Except PyErr (State σ τ) :=
  if st.active.isEmpty then .error .runtime       -- "Unexpectedly no active workers available"
  else (handle I st ev).map (afterHandler I)

/-- the run loop: events are processed while the session is not finished -/
def runLoop (I : SchedI σ τ) (st : State σ τ) : List (Event τ) → Except PyErr (State σ τ)
  | [] => .ok st
  | ev :: rest =>
    if sessionFinished st then .ok st
    else
      match loopOnce I st ev with
      | .error e => .error e
      | .ok st' => runLoop I st' rest

/-- how `pytest_runtestloop` ends once `session_finished` holds -/
inductive Outcome where
  | finished | interrupted (why : Stop)
  deriving DecidableEq, Repr

def outcome (st : State σ τ) : Outcome :=
  match st.shouldstop with
  | some r => .interrupted r
  | none => .finished

/-- `get_default_max_worker_restart` (dsession.py:558-571): explicit value, else 4 per `-n` worker, else none -/
def defaultMaxRestart (explicit : Option Int) (numprocesses : Option Int) : Option Int :=
  match explicit with
  | some b => some b
  | none =>
    match numprocesses with
    | some k => if k ≠ 0 then some (k * 4) else none
    | none => none

end Xdist.Ctl
