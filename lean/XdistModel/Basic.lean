def hello := "world"
