import XdistModel.Py.Basic
/-
  The part of `WorkerController` the schedulers and `DSession` see
  (workermanage.py:314-323, 366-386): two flags, and four commands.
  `broken` is an environment parameter: the peer process is dead but the receiver
  thread has not yet delivered the end marker, so `channel.send` raises `OSError`.
-/
namespace Xdist

structure NodeFlags where
  down : Bool := false      -- `_down`
  sent : Bool := false      -- `_shutdown_sent`
  broken : Bool := false
  deriving DecidableEq, Repr, Inhabited

abbrev Flags := AList Nat NodeFlags

namespace Flags
def get (f : Flags) (n : Nat) : NodeFlags :=
  match AList.lookup f n with
  | some x => x
  | none => {}            -- a `WorkerController` is created with both flags false

/-- `node.shutting_down` (workermanage.py:321-323) -/
def shuttingDown (f : Flags) (n : Nat) : Bool := (f.get n).down || (f.get n).sent
end Flags

/-- What a scheduler / the session emits towards the workers and the reporting hooks. -/
inductive SOut where
  | run (n : Nat) (is : List Nat)          -- send_runtest_some
  | runAll (n : Nat)                       -- send_runtest_all
  | steal (n : Nat) (is : List Nat)        -- send_steal
  | shutdown (n : Nat)                     -- the "shutdown" command actually put on the wire
  | collectReport (n first : Nat)          -- failed CollectReport(nodeid=gw<n>): differs from gw<first>
  deriving DecidableEq, Repr, Inhabited

structure Env where
  flags : Flags := []
  outs : List SOut := []
  deriving Repr, Inhabited

namespace Env

def emit (e : Env) (o : SOut) : Env := { e with outs := e.outs ++ [o] }

/-- `sendcommand` (workermanage.py:383-392, repaired): when the peer is gone the `OSError` of `channel.send` is swallowed —
    nothing reaches the wire, the caller goes on as if the command had been sent (the end marker reports the node down
    and `remove_node` recovers what was meant for it). -/
def send (e : Env) (n : Nat) (o : SOut) : Except PyErr Env :=
  if (e.flags.get n).broken then .ok e else .ok (e.emit o)

def sendRun (e : Env) (n : Nat) (is : List Nat) : Except PyErr Env := e.send n (.run n is)
def sendRunAll (e : Env) (n : Nat) : Except PyErr Env := e.send n (.runAll n)
def sendSteal (e : Env) (n : Nat) (is : List Nat) : Except PyErr Env := e.send n (.steal n is)

/-- `WorkerController.shutdown()` (workermanage.py:375-381, with the repair that it is idempotent):
    `OSError` from the send is swallowed, `_shutdown_sent` is set either way. -/
def shutdown (e : Env) (n : Nat) : Env :=
  let fl := e.flags.get n
  if fl.down || fl.sent then e
  else
    { flags := AList.set e.flags n { fl with sent := true },
      outs := if fl.broken then e.outs else e.outs ++ [.shutdown n] }

def shutdownAll (e : Env) : List Nat → Env
  | [] => e
  | n :: t => shutdownAll (e.shutdown n) t

end Env

/-- Scheduler operations as `DSession` invokes them. -/
inductive SOp (τ : Type) where
  | addNode (n : Nat)
  | addNodeCollection (n : Nat) (c : List τ)
  | schedule
  | markComplete (n : Nat) (i : Nat) (slow : Bool)
  | markPending (t : τ)
  | removePending (n : Nat) (is : List Nat)
  | removeNode (n : Nat)
  deriving Repr

end Xdist
