import XdistModel.Sched.Load
import XdistModel.Sched.WorkSteal
import XdistModel.Sched.LoadScope
import XdistModel.Sched.Each
import XdistModel.Pure.SplitScope
import XdistModel.Ctl.DSession
/-
  The six scheduler models behind one type, as `pytest_xdist_make_scheduler` (dsession.py:107-127) selects them,
  and the interface `DSession` uses.
-/
namespace Xdist.Sched
open Xdist

inductive Any where
  | nosched
  | load (s : Load.State String)
  | ws (s : WorkSteal.State String)
  | scope (mode : String) (s : LoadScope.State String String)
  | each (s : Each.State String)

def splitOf (mode : String) : String → String :=
  if mode = "loadfile" then SplitScope.fileKeyS
  else if mode = "loadgroup" then SplitScope.groupKeyS
  else SplitScope.scopeKeyS

def Any.nodes : Any → List Nat
  | .nosched => [] | .load s => Load.nodes s | .ws s => WorkSteal.nodes s
  | .scope _ s => LoadScope.nodes s | .each s => Each.nodes s

def Any.tf : Any → Bool
  | .nosched => false | .load s => Load.testsFinished s | .ws s => WorkSteal.testsFinished s
  | .scope _ s => LoadScope.testsFinished s | .each s => Each.testsFinished s

def Any.hp : Any → Bool
  | .nosched => false | .load s => Load.hasPending s | .ws s => WorkSteal.hasPending s
  | .scope _ s => LoadScope.hasPending s | .each s => Each.hasPending s

def Any.cic : Any → Bool
  | .nosched => false | .load s => Load.collectionIsCompleted s | .ws s => WorkSteal.collectionIsCompleted s
  | .scope _ s => LoadScope.collectionIsCompleted s | .each s => Each.collectionIsCompleted s

def Any.step (specs : AList Nat Nat) (a : Any) (e : Env) (op : SOp String) :
    Except PyErr (Any × Env × Option String) :=
  match a with
  | .nosched => .error .runtime
  | .load s => (Load.step s e op).map (fun r => (.load r.1, r.2.1, r.2.2))
  | .ws s => (WorkSteal.step s e op).map (fun r => (.ws r.1, r.2.1, r.2.2))
  | .scope m s => (LoadScope.step (splitOf m) s e op).map (fun r => (.scope m r.1, r.2.1, r.2.2))
  | .each s =>
    let spec := fun n => match AList.lookup specs n with | some k => k | none => 0
    (Each.step spec s e op).map (fun r => (.each r.1, r.2.1, r.2.2))


/-- `pytest_xdist_make_scheduler`: the scheduler for `--dist <mode>` -/
def make (mode : String) (numnodes : Nat) (msc : Option Int) : Any :=
  if mode = "load" then .load (Load.init numnodes msc)
  else if mode = "worksteal" then .ws (WorkSteal.init numnodes)
  else if mode = "each" then .each (Each.init numnodes)
  else .scope mode (LoadScope.init numnodes)

/-- the interface `DSession` sees (`specs`: node ↦ execution environment, for `--dist each`) -/
def iface (specs : AList Nat Nat) : Ctl.SchedI Any String :=
  { step := fun a e op => Any.step specs a e op
    nodes := Any.nodes
    testsFinished := Any.tf
    collectionIsCompleted := Any.cic }

end Xdist.Sched
