import XdistModel.Sched.Node
/-
  Model of `xdist/scheduler/each.py` (`EachScheduling`).  `spec n` is the execution
  environment of node `n` (compared with `==` in `add_node_collection`).
-/
namespace Xdist.Each
open Xdist

structure State (τ : Type) where
  numnodes : Nat
  node2collection : AList Nat (List τ) := []
  node2pending : AList Nat (List Nat) := []
  started : List Nat := []
  removed2pending : AList Nat (List Nat) := []
  completed : Bool := false
  deriving Repr

variable {τ : Type} [DecidableEq τ]

def init (numnodes : Nat) : State τ := { numnodes := numnodes }

def nodes (s : State τ) : List Nat := s.node2pending.keys
def collectionIsCompleted (s : State τ) : Bool := s.completed

def testsFinished (s : State τ) : Bool :=
  s.completed && s.removed2pending.isEmpty && s.node2pending.all (fun p => p.2.length < 2)

def hasPending (s : State τ) : Bool := s.node2pending.any (fun p => !p.2.isEmpty)

def addNode (s : State τ) (n : Nat) : Except PyErr (State τ) :=
  if s.node2pending.contains n then .error .assertion
  else .ok { s with node2pending := s.node2pending.set n [] }

/-- a late node that takes over nothing: it is marked started and shut down (each.py, end of `add_node_collection`) -/
def nothingToTakeOver (s : State τ) (e : Env) (n : Nat) : State τ × Env :=
  ({ s with started := s.started ++ [n] }, e.shutdown n)

/-- the loop over `_removed2pending` in `add_node_collection` -/
def takeOver (spec : Nat → Nat) (s : State τ) (e : Env) (n : Nat) (c : List τ) :
    AList Nat (List Nat) → Except PyErr (State τ × Env)
  | [] => .ok (nothingToTakeOver s e n)
  | (dead, pend) :: rest =>
    if spec dead = spec n then do
      let deadCol ← s.node2collection.get dead
      if c ≠ deadCol then .ok (nothingToTakeOver s e n)     -- logged; `break`
      else .ok ({ s with removed2pending := s.removed2pending.erase dead,
                         node2pending := s.node2pending.set n pend,
                         node2collection := s.node2collection.set n deadCol }, e)
    else takeOver spec s e n c rest

def addNodeCollection (spec : Nat → Nat) (s : State τ) (e : Env) (n : Nat) (c : List τ) : Except PyErr (State τ × Env) :=
  if !s.node2pending.contains n then .error .assertion
  else if !s.completed then
    let n2c := s.node2collection.set n c
    .ok ({ s with node2collection := n2c, node2pending := s.node2pending.set n [],
                  completed := decide (n2c.length ≥ s.numnodes) }, e)
  else takeOver spec s e n c s.removed2pending

def markComplete (s : State τ) (n i : Nat) : Except PyErr (State τ) := do
  let book ← s.node2pending.get n
  let book' ← PyList.remove book i
  .ok { s with node2pending := s.node2pending.set n book' }

def removeNode (s : State τ) (n : Nat) : Except PyErr (State τ × Option τ) :=
  (s.node2pending.pop n).bind fun p =>
    -- the collection of a node that goes before the collection is complete does not count towards completeness
    let s1 := { s with node2pending := p.2,
                       node2collection := if s.completed then s.node2collection else s.node2collection.erase n }
    match p.1 with
    | [] => .ok (s1, none)
    | i :: rest =>
      (s1.node2collection.get n).bind fun col =>
        match col[i]? with
        | none => .error .indexError
        | some item =>
          .ok (if rest.isEmpty then s1 else { s1 with removed2pending := s1.removed2pending.set n rest }, some item)

def scheduleLoop (s : State τ) (e : Env) : List Nat → Except PyErr (State τ × Env)
  | [] => .ok (s, e)
  | n :: t =>
    if s.started.contains n then scheduleLoop s e t
    else if !s.node2collection.contains n then scheduleLoop s e t     -- a late node that is still collecting
    else do
      let book ← s.node2pending.get n
      let (s1, e1) ←
        if book.isEmpty then do
          let col ← s.node2collection.get n
          let e1 ← if e.flags.shuttingDown n then pure e else e.sendRunAll n      -- a node that is already down is sent nothing
          pure ({ s with node2pending := s.node2pending.set n (List.range col.length) }, e1.shutdown n)
        else do
          let e1 ← if e.flags.shuttingDown n then pure e else e.sendRun n book
          pure (s, e1)
      scheduleLoop { s1 with started := s1.started ++ [n] } e1 t

def schedule (s : State τ) (e : Env) : Except PyErr (State τ × Env) :=
  if !s.completed then .error .assertion else scheduleLoop s e (nodes s)

def step (spec : Nat → Nat) (s : State τ) (e : Env) : SOp τ → Except PyErr (State τ × Env × Option τ)
  | .addNode n => (addNode s n).map (fun s' => (s', e, none))
  | .addNodeCollection n c => (addNodeCollection spec s e n c).map (fun r => (r.1, r.2, none))
  | .schedule => (schedule s e).map (fun r => (r.1, r.2, none))
  | .markComplete n i _ => (markComplete s n i).map (fun s' => (s', e, none))
  | .markPending _ => .error .notImplemented
  | .removePending _ _ => .error .notImplemented
  | .removeNode n => (removeNode s n).map (fun r => (r.1, e, r.2))

end Xdist.Each
