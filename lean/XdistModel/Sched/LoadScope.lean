import XdistModel.Sched.Node
/-
  Model of `xdist/scheduler/loadscope.py` (`LoadScopeScheduling`); `LoadFileScheduling`
  and `LoadGroupScheduling` differ only in `_split_scope`, which is the parameter `split`.
  The model follows the repaired `remove_node` / `_reschedule`.
-/
namespace Xdist.LoadScope
open Xdist

/-- a work unit: nodeid ↦ completed, in insertion order -/
abbrev WUnit (τ : Type) := AList τ Bool
/-- scope ↦ unit, in insertion order -/
abbrev Workload (κ τ : Type) := AList κ (WUnit τ)

structure State (κ τ : Type) where
  numnodes : Nat
  collection : Option (List τ) := none
  workqueue : Workload κ τ := []
  assigned : AList Nat (Workload κ τ) := []
  registered : AList Nat (List τ) := []
  deriving Repr

variable {κ τ : Type} [DecidableEq κ] [DecidableEq τ]

def init (numnodes : Nat) : State κ τ := { numnodes := numnodes }

def nodes (s : State κ τ) : List Nat := s.assigned.keys

def collectionIsCompleted (s : State κ τ) : Bool := s.registered.length ≥ s.numnodes

def unitPending (u : WUnit τ) : Nat := (u.filter (fun p => !p.2)).length

/-- `_pending_of` -/
def pendingOf (w : Workload κ τ) : Nat := (w.map (fun p => unitPending p.2)).sum

def testsFinished (s : State κ τ) : Bool :=
  collectionIsCompleted s && s.workqueue.isEmpty && s.assigned.all (fun p => pendingOf p.2 < 2)

def hasPending (s : State κ τ) : Bool :=
  !s.workqueue.isEmpty || s.assigned.any (fun p => pendingOf p.2 > 0)

def addNode (s : State κ τ) (n : Nat) : Except PyErr (State κ τ) :=
  if s.assigned.contains n then .error .assertion
  else .ok { s with assigned := s.assigned.set n [] }

def addNodeCollection (s : State κ τ) (n : Nat) (c : List τ) : Except PyErr (State κ τ) :=
  if !s.assigned.contains n then .error .assertion
  else if collectionIsCompleted s then
    match s.collection with
    | none => .error .assertion
    | some col =>
      if col.isEmpty then .error .assertion
      else if c ≠ col then .ok s
      else .ok { s with registered := s.registered.set n c }
  else .ok { s with registered := s.registered.set n c }

def indexAll (col : List τ) : List τ → Except PyErr (List Nat)
  | [] => .ok []
  | t :: r => do
    let i ← PyList.index col t
    let is ← indexAll col r
    .ok (i :: is)

/-- `_assign_work_unit` -/
def assignWorkUnit (s : State κ τ) (e : Env) (n : Nat) : Except PyErr (State κ τ × Env) :=
  match s.workqueue with
  | [] => .error .assertion
  | (scope, wu) :: rest =>
    let cur : Workload κ τ := match AList.lookup s.assigned n with | some w => w | none => []
    let s1 := { s with workqueue := rest, assigned := s.assigned.set n (AList.set cur scope wu) }
    do
      let col ← s1.registered.get n
      let is ← indexAll col ((wu.filter (fun p => !p.2)).map Prod.fst)
      let e' ← e.sendRun n is
      .ok (s1, e')

/-- the top-up loop added by the repair; `fuel` bounds it by the queue length -/
def topUp (s : State κ τ) (e : Env) (n : Nat) : Nat → Except PyErr (State κ τ × Env)
  | 0 => .ok (s, e)
  | fuel + 1 =>
    if s.workqueue.isEmpty then .ok (s, e)
    else do
      let w ← s.assigned.get n
      if pendingOf w < 2 then do
        let (s', e') ← assignWorkUnit s e n
        topUp s' e' n fuel
      else .ok (s, e)

/-- `_reschedule` -/
def reschedule (s : State κ τ) (e : Env) (n : Nat) : Except PyErr (State κ τ × Env) :=
  if e.flags.shuttingDown n then .ok (s, e)
  else if !s.registered.contains n then .ok (s, e)     -- still collecting (loadscope.py:329-331)
  else if s.workqueue.isEmpty then .ok (s, e.shutdown n)
  else do
    let w ← s.assigned.get n
    if pendingOf w > 2 then .ok (s, e)
    else do
      let (s', e') ← assignWorkUnit s e n
      topUp s' e' n s'.workqueue.length

def rescheduleAll (s : State κ τ) (e : Env) : List Nat → Except PyErr (State κ τ × Env)
  | [] => .ok (s, e)
  | n :: t => do
    let (s', e') ← reschedule s e n
    rescheduleAll s' e' t

/-- the initial workload of `schedule()`: one unit for every node whose collection is registered
    (a replacement that is still collecting is skipped, and so is a node that is already down) -/
def assignAll (s : State κ τ) (e : Env) : List Nat → Except PyErr (State κ τ × Env)
  | [] => .ok (s, e)
  | n :: t =>
    if !s.registered.contains n || e.flags.shuttingDown n then assignAll s e t      -- still collecting, or already down
    else do
      let (s', e') ← assignWorkUnit s e n
      assignAll s' e' t

/-- first test of the workload that is not completed, with its scope -/
def firstPending : Workload κ τ → Option (κ × τ)
  | [] => none
  | (scope, wu) :: rest =>
    match wu.find? (fun p => !p.2) with
    | some (t, _) => some (scope, t)
    | none => firstPending rest

/-- `remove_node` (repaired: the crashed test is marked done, only units with work left are re-queued) -/
def removeNode (s : State κ τ) (e : Env) (n : Nat) : Except PyErr (State κ τ × Env × Option τ) := do
  let (workload, asg) ← s.assigned.pop n
  let s1 := { s with assigned := asg }
  if pendingOf workload = 0 then .ok (s1, e, none)
  else
    match firstPending workload with
    | none => .error .runtime
    | some (scope, item) =>
      let workload' : Workload κ τ :=
        workload.map (fun p => if p.1 = scope then (p.1, AList.set p.2 item true) else p)
      let back := workload'.filter (fun p => !(p.2.all (fun q => q.2)))
      let s2 := { s1 with workqueue := AList.update s1.workqueue back }
      do
        let (s3, e3) ← rescheduleAll s2 e s2.assigned.keys
        .ok (s3, e3, some item)

/-- `mark_test_complete` -/
def markComplete (split : τ → κ) (s : State κ τ) (e : Env) (n i : Nat) : Except PyErr (State κ τ × Env) :=
  (s.registered.get n).bind fun col =>
    match col[i]? with
    | none => .error .indexError
    | some t =>
      (s.assigned.get n).bind fun w =>
        (w.get (split t)).bind fun wu =>
          reschedule { s with assigned := s.assigned.set n (AList.set w (split t) (AList.set wu t true)) } e n

def collectionDiffs (first : Nat) (col : List τ) (rest : AList Nat (List τ)) : List SOut :=
  (rest.filter (fun p => p.2 ≠ col)).map (fun p => SOut.collectReport p.1 first)

/-- the units of the collection, in first-occurrence order of the scopes -/
def buildUnits (split : τ → κ) : Workload κ τ → List τ → Workload κ τ
  | acc, [] => acc
  | acc, t :: r =>
    let scope := split t
    let wu : WUnit τ := match AList.lookup acc scope with | some u => u | none => []
    buildUnits split (AList.set acc scope (AList.set wu t false)) r

/-- stable insertion into a list sorted by descending unit size -/
def insertBySize (x : κ × WUnit τ) : Workload κ τ → Workload κ τ
  | [] => [x]
  | y :: r => if y.2.length ≤ x.2.length then x :: y :: r else y :: insertBySize x r

/-- `sorted(items, key=lambda item: -len(item[1]))` (stable) -/
def sortBySize : Workload κ τ → Workload κ τ
  | [] => []
  | x :: r => insertBySize x (sortBySize r)

/-- `assigned_work.popitem()` repeated `k` times, shutting each popped node down -/
def dropExtra (s : State κ τ) (e : Env) : Nat → Except PyErr (State κ τ × Env)
  | 0 => .ok (s, e)
  | k + 1 =>
    match s.assigned.getLast? with
    | none => .error .keyError
    | some (n, _) => dropExtra { s with assigned := s.assigned.dropLast } (e.shutdown n) k

/-- `schedule` -/
def schedule (split : τ → κ) (s : State κ τ) (e : Env) : Except PyErr (State κ τ × Env) :=
  if !collectionIsCompleted s then .error .assertion
  else match s.collection with
  | some _ => rescheduleAll s e (nodes s)
  | none =>
    match s.registered with
    | [] => .error .indexError
    | (first, col) :: rest =>
      let diffs := collectionDiffs first col rest
      let e1 := { e with outs := e.outs ++ diffs }
      if !diffs.isEmpty then .ok (s, e1)
      else
        let s1 := { s with collection := some col }
        if col.isEmpty then .ok (s1, e1)
        else
          let units := sortBySize (buildUnits split [] col)
          let s2 := { s1 with workqueue := AList.update s1.workqueue units }
          do
            let (s3, e3) ← dropExtra s2 e1 ((nodes s2).length - s2.workqueue.length)
            let (s4, e4) ← assignAll s3 e3 (nodes s3)
            let (s5, e5) ← rescheduleAll s4 e4 (nodes s4)
            if s5.workqueue.isEmpty then .ok (s5, e5.shutdownAll (nodes s5))
            else .ok (s5, e5)

def step (split : τ → κ) (s : State κ τ) (e : Env) : SOp τ → Except PyErr (State κ τ × Env × Option τ)
  | .addNode n => (addNode s n).map (fun s' => (s', e, none))
  | .addNodeCollection n c => (addNodeCollection s n c).map (fun s' => (s', e, none))
  | .schedule => (schedule split s e).map (fun r => (r.1, r.2, none))
  | .markComplete n i _ => (markComplete split s e n i).map (fun r => (r.1, r.2, none))
  | .markPending _ => .error .notImplemented
  | .removePending _ _ => .error .notImplemented
  | .removeNode n => removeNode s e n

end Xdist.LoadScope
