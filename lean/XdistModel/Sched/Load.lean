import XdistModel.Sched.Node
/-
  Model of `xdist/scheduler/load.py` (`LoadScheduling`), one definition per method,
  same control flow and same order of side effects.
-/
namespace Xdist.Load
open Xdist

structure State (τ : Type) where
  numnodes : Nat
  maxschedchunk : Option Int
  node2collection : AList Nat (List τ) := []
  node2pending : AList Nat (List Nat) := []
  pending : List Nat := []
  collection : Option (List τ) := none
  deriving Repr

variable {τ : Type} [DecidableEq τ]

def init (numnodes : Nat) (msc : Option Int) : State τ := { numnodes := numnodes, maxschedchunk := msc }

def nodes (s : State τ) : List Nat := s.node2pending.keys

def collectionIsCompleted (s : State τ) : Bool := s.node2collection.length ≥ s.numnodes

def testsFinished (s : State τ) : Bool :=
  collectionIsCompleted s && s.pending.isEmpty && s.node2pending.all (fun p => p.2.length < 2)

def hasPending (s : State τ) : Bool :=
  !s.pending.isEmpty || s.node2pending.any (fun p => !p.2.isEmpty)

/-- load.py:115-125 -/
def addNode (s : State τ) (n : Nat) : Except PyErr (State τ) :=
  if s.node2pending.contains n then .error .assertion
  else .ok { s with node2pending := s.node2pending.set n [] }

/-- load.py:127-148 -/
def addNodeCollection (s : State τ) (n : Nat) (c : List τ) : Except PyErr (State τ) :=
  if !s.node2pending.contains n then .error .assertion
  else if collectionIsCompleted s then
    match s.collection with
    | none => .error .assertion
    | some col =>
      if col.isEmpty then .error .assertion          -- `assert self.collection`: `[]` is falsy
      else if c ≠ col then .ok s                     -- logged only; the node stays registered
      else .ok { s with node2collection := s.node2collection.set n c }
  else .ok { s with node2collection := s.node2collection.set n c }

/-- load.py:302-307 -/
def sendTests (s : State τ) (e : Env) (n : Nat) (num : Int) : Except PyErr (State τ × Env) :=
  let tests := PyList.sliceTo s.pending num
  if tests.isEmpty then .ok (s, e)
  else do
    let book ← s.node2pending.get n
    let e' ← e.sendRun n tests
    .ok ({ s with pending := PyList.sliceFrom s.pending num,
                  node2pending := s.node2pending.set n (book ++ tests) }, e')

/-- load.py:179-211 -/
def checkSchedule (s : State τ) (e : Env) (n : Nat) (slow : Bool) : Except PyErr (State τ × Env) :=
  if e.flags.shuttingDown n then .ok (s, e)
  else if !s.pending.isEmpty then
    let numNodes := s.node2pending.length
    if numNodes = 0 then .error .zeroDivision
    else
      let mn := max 2 (s.pending.length / numNodes / 4)
      let mx := max 2 (s.pending.length / numNodes / 2)
      do
        let book ← s.node2pending.get n
        if book.length < mn then
          if slow && book.length ≥ 2 then .ok (s, e)
          else
            let numSend : Int := (mx : Int) - (book.length : Int)
            match s.maxschedchunk with
            | none => .error .typeError
            | some msc =>
              let msc' : Int := max ((2 : Int) - (book.length : Int)) msc
              sendTests s e n (min numSend msc')
        else .ok (s, e)
  else .ok (s, e.shutdown n)

def checkAll (s : State τ) (e : Env) : List Nat → Except PyErr (State τ × Env)
  | [] => .ok (s, e)
  | n :: t => do
    let (s', e') ← checkSchedule s e n false
    checkAll s' e' t

/-- load.py:150-161 -/
def markComplete (s : State τ) (e : Env) (n i : Nat) (slow : Bool) : Except PyErr (State τ × Env) := do
  let book ← s.node2pending.get n
  let book' ← PyList.remove book i
  checkSchedule { s with node2pending := s.node2pending.set n book' } e n slow

/-- load.py:163-170 -/
def markPending (s : State τ) (e : Env) (t : τ) : Except PyErr (State τ × Env) :=
  match s.collection with
  | none => .error .assertion
  | some col => do
    let idx ← PyList.index col t
    let s' := { s with pending := idx :: s.pending }
    checkAll s' e s'.node2pending.keys

/-- load.py:213-236 -/
def removeNode (s : State τ) (e : Env) (n : Nat) : Except PyErr (State τ × Env × Option τ) := do
  let (book, n2p) ← s.node2pending.pop n
  let s1 := { s with node2pending := n2p }
  match book with
  | [] => .ok (s1, e, none)
  | i :: rest =>
    match s1.collection with
    | none => .error .assertion
    | some col =>
      match col[i]? with
      | none => .error .indexError
      | some item => do
        let s2 := { s1 with pending := s1.pending ++ rest }
        let (s3, e3) ← checkAll s2 e s2.node2pending.keys
        .ok (s3, e3, some item)

/-- the failed CollectReports of `_check_nodes_have_same_collection` (load.py:309-335) -/
def collectionDiffs (first : Nat) (col : List τ) (rest : AList Nat (List τ)) : List SOut :=
  (rest.filter (fun p => p.2 ≠ col)).map (fun p => SOut.collectReport p.1 first)

def sendEach (s : State τ) (e : Env) (num : Int) : List Nat → Except PyErr (State τ × Env)
  | [] => .ok (s, e)
  | n :: t => do
    let (s', e') ← sendTests s e n num
    sendEach s' e' num t

/-- round robin of load.py:279-281: `k` tests still to hand out, next target position `i` -/
def roundRobin (ns : List Nat) (s : State τ) (e : Env) : Nat → Nat → Except PyErr (State τ × Env)
  | 0, _ => .ok (s, e)
  | k + 1, i =>
    match ns[i % ns.length]? with
    | none => .error .stopIteration
    | some n => do
      let (s', e') ← sendTests s e n 1
      roundRobin ns s' e' k (i + 1)

/-- the initial distribution of load.py:271-295 -/
def initialDistribute (s2 : State τ) (e1 : Env) (n : Nat) (msc : Int) : Except PyErr (State τ × Env) :=
  let ns := nodes s2
  if s2.pending.length < 2 * ns.length then
    roundRobin ns s2 e1 s2.pending.length 0
  else
    if s2.node2pending.length = 0 then .error .zeroDivision
    else
      let itemsPerNode := n / s2.node2pending.length
      let chunk : Int := max (min ((itemsPerNode / 4 : Nat) : Int) msc) 2
      sendEach s2 e1 chunk ns

/-- ... followed by the closing shutdown of load.py:297-300 -/
def initialSend (s2 : State τ) (e1 : Env) (n : Nat) (msc : Int) : Except PyErr (State τ × Env) :=
  (initialDistribute s2 e1 n msc).bind fun r =>
    if r.1.pending.isEmpty then .ok (r.1, r.2.shutdownAll (nodes r.1))
    else .ok (r.1, r.2)

/-- first call of `schedule()` once the registered collections are `(first, col) :: rest` -/
def scheduleFirst (s : State τ) (e : Env) (first : Nat) (col : List τ) (rest : AList Nat (List τ)) :
    Except PyErr (State τ × Env) :=
  let diffs := collectionDiffs first col rest
  let e1 := { e with outs := e.outs ++ diffs }
  if !diffs.isEmpty then .ok (s, e1)
  else
    let s1 := { s with collection := some col, pending := List.range col.length }
    if col.isEmpty then .ok (s1, e1)
    else
      let msc : Int := match s1.maxschedchunk with | some m => m | none => (col.length : Int)
      initialSend { s1 with maxschedchunk := some msc } e1 col.length msc

/-- load.py:238-300 -/
def schedule (s : State τ) (e : Env) : Except PyErr (State τ × Env) :=
  if !collectionIsCompleted s then .error .assertion
  else match s.collection with
  | some _ => checkAll s e (nodes s)
  | none =>
    match s.node2collection with
    | [] => .error .indexError
    | (first, col) :: rest => scheduleFirst s e first col rest

/-- One scheduler call; the third component is `remove_node`'s return value. -/
def step (s : State τ) (e : Env) : SOp τ → Except PyErr (State τ × Env × Option τ)
  | .addNode n => (addNode s n).map (fun s' => (s', e, none))
  | .addNodeCollection n c => (addNodeCollection s n c).map (fun s' => (s', e, none))
  | .schedule => (schedule s e).map (fun r => (r.1, r.2, none))
  | .markComplete n i slow => (markComplete s e n i slow).map (fun r => (r.1, r.2, none))
  | .markPending t => (markPending s e t).map (fun r => (r.1, r.2, none))
  | .removePending _ _ => .error .notImplemented
  | .removeNode n => removeNode s e n

end Xdist.Load
