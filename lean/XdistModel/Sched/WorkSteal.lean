import XdistModel.Sched.Node
/-
  Model of `xdist/scheduler/worksteal.py` (`WorkStealingScheduling`).
-/
namespace Xdist.WorkSteal
open Xdist

structure State (τ : Type) where
  numnodes : Nat
  node2collection : AList Nat (List τ) := []
  node2pending : AList Nat (List Nat) := []
  pending : List Nat := []
  collection : Option (List τ) := none
  stealReq : Option Nat := none
  deriving Repr

variable {τ : Type} [DecidableEq τ]

def minPending : Nat := 2

def init (numnodes : Nat) : State τ := { numnodes := numnodes }

def nodes (s : State τ) : List Nat := s.node2pending.keys

def collectionIsCompleted (s : State τ) : Bool := s.node2collection.length ≥ s.numnodes

def testsFinished (s : State τ) : Bool :=
  collectionIsCompleted s && s.pending.isEmpty && s.stealReq.isNone &&
    s.node2pending.all (fun p => p.2.length < minPending)

def hasPending (s : State τ) : Bool :=
  !s.pending.isEmpty || s.node2pending.any (fun p => !p.2.isEmpty)

def addNode (s : State τ) (n : Nat) : Except PyErr (State τ) :=
  if s.node2pending.contains n then .error .assertion
  else .ok { s with node2pending := s.node2pending.set n [] }

def addNodeCollection (s : State τ) (n : Nat) (c : List τ) : Except PyErr (State τ) :=
  if !s.node2pending.contains n then .error .assertion
  else if collectionIsCompleted s then
    match s.collection with
    | none => .error .assertion
    | some col =>
      if col.isEmpty then .error .assertion
      else if c ≠ col then .ok s
      else .ok { s with node2collection := s.node2collection.set n c }
  else .ok { s with node2collection := s.node2collection.set n c }

/-- worksteal.py `_send_tests`; `num` is a natural here (`len // k`). -/
def sendTests (s : State τ) (e : Env) (n : Nat) (num : Nat) : Except PyErr (State τ × Env) :=
  let tests := s.pending.take num
  if tests.isEmpty then .ok (s, e)
  else do
    let book ← s.node2pending.get n
    let e' ← e.sendRun n tests
    .ok ({ s with pending := s.pending.drop num,
                  node2pending := s.node2pending.set n (book ++ tests) }, e')

/-- nodes not shutting down, with their books, in dict order (`nodes_up`) -/
def nodesUp (s : State τ) (e : Env) : AList Nat (List Nat) :=
  s.node2pending.filter (fun p => !e.flags.shuttingDown p.1)

def idleOf (up : AList Nat (List Nat)) : List Nat :=
  (up.filter (fun p => p.2.length < minPending)).map Prod.fst

/-- the distribution loop `for i, node in enumerate(idle_nodes)` -/
def distribute (s : State τ) (e : Env) : List Nat → Except PyErr (State τ × Env)
  | [] => .ok (s, e)
  | n :: t => do
    let numSend := s.pending.length / (t.length + 1)
    let (s', e') ← sendTests s e n numSend
    distribute s' e' t

/-- first maximal element by book length (`max(nodes_up, key=len, default=None)`) -/
def maxBy : AList Nat (List Nat) → Option (Nat × List Nat)
  | [] => none
  | p :: t =>
    match maxBy t with
    | none => some p
    | some q => if q.2.length > p.2.length then some q else some p

/-- worksteal.py `check_schedule` (with the repair: nothing is done before the collection is agreed) -/
def checkSchedule (s : State τ) (e : Env) : Except PyErr (State τ × Env) :=
  if s.collection.isNone then .ok (s, e)
  else
    let idle0 := idleOf (nodesUp s e)
    if idle0.isEmpty then .ok (s, e)
    else do
      let (s1, e1) ←
        if !s.pending.isEmpty then distribute s e idle0 else .ok (s, e)
      -- `nodes_up` holds references to the live lists: recompute from the new books,
      -- restricted to the nodes that were up when the call started
      let up1 := s1.node2pending.filter (fun p => !e.flags.shuttingDown p.1)
      let idle1 := if !s.pending.isEmpty then idleOf up1 else idle0
      if !s.pending.isEmpty && idle1.isEmpty then .ok (s1, e1)
      else if s1.stealReq.isSome then .ok (s1, e1)
      else
        let numSteal : Nat :=
          match maxBy up1 with
          | none => 0
          | some (_, book) => min (book.length / 2) (book.length - minPending)
        if numSteal = 0 then .ok (s1, e1.shutdownAll idle1)
        else
          match maxBy up1 with
          | none => .error .assertion
          | some (victim, book) => do
            let e2 ← e1.sendSteal victim (book.drop (book.length - numSteal))
            .ok ({ s1 with stealReq := some victim }, e2)

def markComplete (s : State τ) (e : Env) (n i : Nat) : Except PyErr (State τ × Env) := do
  let book ← s.node2pending.get n
  let book' ← PyList.remove book i
  checkSchedule { s with node2pending := s.node2pending.set n book' } e

def markPending (s : State τ) (e : Env) (t : τ) : Except PyErr (State τ × Env) :=
  match s.collection with
  | none => .error .assertion
  | some col => do
    let idx ← PyList.index col t
    checkSchedule { s with pending := idx :: s.pending } e

/-- worksteal.py `remove_pending_tests_from_node` -/
def removePending (s : State τ) (e : Env) (n : Nat) (is : List Nat) : Except PyErr (State τ × Env) :=
  if s.stealReq ≠ some n then .error .assertion
  else do
    let book ← s.node2pending.get n
    let s' := { s with stealReq := none,
                       node2pending := s.node2pending.set n (book.filter (fun i => !is.contains i)),
                       pending := s.pending ++ is }
    checkSchedule s' e

def removeNode (s : State τ) (e : Env) (n : Nat) : Except PyErr (State τ × Env × Option τ) := do
  let (book, n2p) ← s.node2pending.pop n
  let s1 := { s with node2pending := n2p }
  let (crash, rest) ← match book with
    | [] => (pure (none, []) : Except PyErr (Option τ × List Nat))
    | i :: rest =>
      match s1.collection with
      | none => .error .assertion
      | some col =>
        match col[i]? with
        | none => .error .indexError
        | some item => pure (some item, rest)
  let s2 := { s1 with pending := s1.pending ++ rest,
                      stealReq := if s1.stealReq = some n then none else s1.stealReq }
  let (s3, e3) ← checkSchedule s2 e
  .ok (s3, e3, crash)

def collectionDiffs (first : Nat) (col : List τ) (rest : AList Nat (List τ)) : List SOut :=
  (rest.filter (fun p => p.2 ≠ col)).map (fun p => SOut.collectReport p.1 first)

def schedule (s : State τ) (e : Env) : Except PyErr (State τ × Env) :=
  if !collectionIsCompleted s then .error .assertion
  else match s.collection with
  | some _ => checkSchedule s e
  | none =>
    match s.node2collection with
    | [] => .error .indexError
    | (first, col) :: rest =>
      let diffs := collectionDiffs first col rest
      let e1 := { e with outs := e.outs ++ diffs }
      if !diffs.isEmpty then .ok (s, e1)
      else
        let s1 := { s with collection := some col, pending := List.range col.length }
        if col.isEmpty then .ok (s1, e1) else checkSchedule s1 e1

def step (s : State τ) (e : Env) : SOp τ → Except PyErr (State τ × Env × Option τ)
  | .addNode n => (addNode s n).map (fun s' => (s', e, none))
  | .addNodeCollection n c => (addNodeCollection s n c).map (fun s' => (s', e, none))
  | .schedule => (schedule s e).map (fun r => (r.1, r.2, none))
  | .markComplete n i _ => (markComplete s e n i).map (fun r => (r.1, r.2, none))
  | .markPending t => (markPending s e t).map (fun r => (r.1, r.2, none))
  | .removePending n is => (removePending s e n is).map (fun r => (r.1, r.2, none))
  | .removeNode n => removeNode s e n

end Xdist.WorkSteal
