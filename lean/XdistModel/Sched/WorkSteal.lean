import XdistModel.Sched.Node
/-
  Model of `xdist/scheduler/worksteal.py` (`WorkStealingScheduling`).
-/
namespace Xdist.WorkSteal
open Xdist

structure State (τ : Type) where
  numnodes : Nat
  node2collection : AList Nat (List τ) := []
  node2pending : AList Nat (List Nat) := []
  pending : List Nat := []
  collection : Option (List τ) := none
  stealReq : Option Nat := none
  deriving Repr

variable {τ : Type} [DecidableEq τ]

def minPending : Nat := 2

def init (numnodes : Nat) : State τ := { numnodes := numnodes }

def nodes (s : State τ) : List Nat := s.node2pending.keys

def collectionIsCompleted (s : State τ) : Bool := s.node2collection.length ≥ s.numnodes

def testsFinished (s : State τ) : Bool :=
  collectionIsCompleted s && s.pending.isEmpty && s.stealReq.isNone &&
    s.node2pending.all (fun p => p.2.length < minPending)

def hasPending (s : State τ) : Bool :=
  !s.pending.isEmpty || s.node2pending.any (fun p => !p.2.isEmpty)

def addNode (s : State τ) (n : Nat) : Except PyErr (State τ) :=
  if s.node2pending.contains n then .error .assertion
  else .ok { s with node2pending := s.node2pending.set n [] }

def addNodeCollection (s : State τ) (n : Nat) (c : List τ) : Except PyErr (State τ) :=
  if !s.node2pending.contains n then .error .assertion
  else if collectionIsCompleted s then
    match s.collection with
    | none => .error .assertion
    | some col =>
      if col.isEmpty then .error .assertion
      else if c ≠ col then .ok s
      else .ok { s with node2collection := s.node2collection.set n c }
  else .ok { s with node2collection := s.node2collection.set n c }

/-- worksteal.py `_send_tests`; `num` is a natural here (`len // k`). -/
def sendTests (s : State τ) (e : Env) (n : Nat) (num : Nat) : Except PyErr (State τ × Env) :=
  let tests := s.pending.take num
  if tests.isEmpty then .ok (s, e)
  else do
    let book ← s.node2pending.get n
    let e' ← e.sendRun n tests
    .ok ({ s with pending := s.pending.drop num,
                  node2pending := s.node2pending.set n (book ++ tests) }, e')

/-- nodes not shutting down, with their books, in dict order (`nodes_up`) -/
def nodesUp (s : State τ) (e : Env) : AList Nat (List Nat) :=
  s.node2pending.filter (fun p => !e.flags.shuttingDown p.1)

def idleOf (up : AList Nat (List Nat)) : List Nat :=
  (up.filter (fun p => p.2.length < minPending)).map Prod.fst

/-- the distribution loop `for i, node in enumerate(idle_nodes)` -/
def distribute (s : State τ) (e : Env) : List Nat → Except PyErr (State τ × Env)
  | [] => .ok (s, e)
  | n :: t => do
    let numSend := s.pending.length / (t.length + 1)
    let (s', e') ← sendTests s e n numSend
    distribute s' e' t

/-- first maximal element by book length (`max(nodes_up, key=len, default=None)`) -/
def maxBy : AList Nat (List Nat) → Option (Nat × List Nat)
  | [] => none
  | p :: t =>
    match maxBy t with
    | none => some p
    | some q => if q.2.length > p.2.length then some q else some p

/-- the tail of `check_schedule`: ask the longest queue for half of it, or shut the idle nodes down -/
def stealOrShutdown (s1 : State τ) (e1 : Env) (up1 : AList Nat (List Nat)) (idle1 : List Nat) :
    Except PyErr (State τ × Env) :=
  if s1.stealReq.isSome then .ok (s1, e1)
  else
    match maxBy up1 with
    | none => .ok (s1, e1.shutdownAll idle1)
    | some (victim, book) =>
      let numSteal : Nat := min (book.length / 2) (book.length - minPending)
      if numSteal = 0 then .ok (s1, e1.shutdownAll idle1)
      else
        (e1.sendSteal victim (book.drop (book.length - numSteal))).bind fun e2 =>
          .ok ({ s1 with stealReq := some victim }, e2)

/-- worksteal.py `check_schedule` (with the repair: nothing is done before the collection is agreed) -/
def checkSchedule (s : State τ) (e : Env) : Except PyErr (State τ × Env) :=
  if s.collection.isNone then .ok (s, e)
  else
    let idle0 := idleOf (nodesUp s e)
    if idle0.isEmpty then .ok (s, e)
    else if s.pending.isEmpty then stealOrShutdown s e (nodesUp s e) idle0
    else
      (distribute s e idle0).bind fun r =>
        -- `nodes_up` holds references to the live lists: recompute from the new books,
        -- restricted to the nodes that were up when the call started (flags do not change meanwhile)
        let up1 := nodesUp r.1 e
        let idle1 := idleOf up1
        if idle1.isEmpty then .ok (r.1, r.2) else stealOrShutdown r.1 r.2 up1 idle1

def markComplete (s : State τ) (e : Env) (n i : Nat) : Except PyErr (State τ × Env) := do
  let book ← s.node2pending.get n
  let book' ← PyList.remove book i
  checkSchedule { s with node2pending := s.node2pending.set n book' } e

def markPending (s : State τ) (e : Env) (t : τ) : Except PyErr (State τ × Env) :=
  match s.collection with
  | none => .error .assertion
  | some col => do
    let idx ← PyList.index col t
    checkSchedule { s with pending := idx :: s.pending } e

/-- worksteal.py `remove_pending_tests_from_node` -/
def removePending (s : State τ) (e : Env) (n : Nat) (is : List Nat) : Except PyErr (State τ × Env) :=
  if s.stealReq ≠ some n then .error .assertion
  else do
    let book ← s.node2pending.get n
    let s' := { s with stealReq := none,
                       node2pending := s.node2pending.set n (book.filter (fun i => !is.contains i)),
                       pending := s.pending ++ is }
    checkSchedule s' e

/-- the crashed test (head of the dead node's book) and the tests to give back -/
def crashOf (collection : Option (List τ)) : List Nat → Except PyErr (Option τ × List Nat)
  | [] => .ok (none, [])
  | i :: rest =>
    match collection with
    | none => .error .assertion
    | some col =>
      match col[i]? with
      | none => .error .indexError
      | some item => .ok (some item, rest)

def removeNode (s : State τ) (e : Env) (n : Nat) : Except PyErr (State τ × Env × Option τ) :=
  (s.node2pending.pop n).bind fun p =>
    let s1 := { s with node2pending := p.2 }
    (crashOf s1.collection p.1).bind fun cr =>
      let s2 := { s1 with pending := s1.pending ++ cr.2,
                          stealReq := if s1.stealReq = some n then none else s1.stealReq }
      (checkSchedule s2 e).bind fun r => .ok (r.1, r.2, cr.1)

def collectionDiffs (first : Nat) (col : List τ) (rest : AList Nat (List τ)) : List SOut :=
  (rest.filter (fun p => p.2 ≠ col)).map (fun p => SOut.collectReport p.1 first)

def schedule (s : State τ) (e : Env) : Except PyErr (State τ × Env) :=
  if !collectionIsCompleted s then .error .assertion
  else match s.collection with
  | some _ => checkSchedule s e
  | none =>
    match s.node2collection with
    | [] => .error .indexError
    | (first, col) :: rest =>
      let diffs := collectionDiffs first col rest
      let e1 := { e with outs := e.outs ++ diffs }
      if !diffs.isEmpty then .ok (s, e1)
      else
        let s1 := { s with collection := some col, pending := List.range col.length }
        if col.isEmpty then .ok (s1, e1) else checkSchedule s1 e1

def step (s : State τ) (e : Env) : SOp τ → Except PyErr (State τ × Env × Option τ)
  | .addNode n => (addNode s n).map (fun s' => (s', e, none))
  | .addNodeCollection n c => (addNodeCollection s n c).map (fun s' => (s', e, none))
  | .schedule => (schedule s e).map (fun r => (r.1, r.2, none))
  | .markComplete n i _ => (markComplete s e n i).map (fun r => (r.1, r.2, none))
  | .markPending t => (markPending s e t).map (fun r => (r.1, r.2, none))
  | .removePending n is => (removePending s e n is).map (fun r => (r.1, r.2, none))
  | .removeNode n => removeNode s e n

end Xdist.WorkSteal
