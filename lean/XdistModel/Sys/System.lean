import XdistModel.Ctl.DSession
import XdistModel.Ctl.Receiver
import XdistModel.Worker.Interactor
/-
  The whole distributed session as one transition system: the controller (`Ctl.State`, one `loop_once` per step), one
  receiver thread per worker (`Receiver.step`, i.e. `WorkerController.process_from_remote`), the workers (life cycle of
  `remote.py`: start-up, collection, `pytest_runtestloop` driven by the validated `Worker.State` machine, session finish)
  and the two FIFO channels per worker.  Every step is one atomic action of one thread; which step happens next is the
  environment's choice (the schedule), as are crashes and what a test does.
-/
namespace Xdist.Sys
open Xdist
open Xdist.Ctl (SchedI)

/-- controller → worker -/
inductive Cmd where
  | run (is : List Nat)
  | runAll
  | steal (is : List Nat)
  | shutdown
  deriving DecidableEq, Repr, Inhabited

inductive Phase where
  | boot        -- before `workerready`
  | collect     -- before `collectionfinish`
  | loop        -- inside `pytest_runtestloop`: `Worker.State` governs
  | finish      -- left the loop, before `workerfinished`
  | done
  deriving DecidableEq, Repr, Inhabited

/-- worker → controller, as the receiver thread gets it -/
inductive WMsg (τ : Type) where
  | ev (e : Ctl.Event τ)                          -- a well-formed event
  | ignored                                        -- `collectionstart`
  | fin (x : Nat) (sf ss : Option String)          -- `workerfinished` with its `workeroutput`
  | garbage                                        -- cannot be decoded
  | endMarker                                      -- channel closed
  deriving Repr

structure Wk (τ : Type) where
  ids : List τ                      -- what this worker collects
  phase : Phase := .boot
  alive : Bool := true
  w : Worker.State := {}
  sub : Nat := 0                    -- progress inside one protocol call (0: before logstart, 1: before the reports, 2: before the completion)
  cbSet : Bool := false             -- `channel.setcallback(handle_command)` done (`pytest_runtestloop` entered)
  inbox : List Cmd := []
  outbox : List (WMsg τ) := []          -- sent by the worker, not yet seen by its receiver thread
  posted : List (Ctl.Event τ) := []     -- put on the controller's queue by the receiver thread, not yet handled
  exitstatus : Nat := 0
  sf : Option String := none        -- `session.shouldfail`
  ss : Option String := none        -- `session.shouldstop`
  deriving Repr

/-- The controller's event queue is kept per worker (`posted`): the queue is FIFO, so events of one worker are handled in
    the order its receiver thread posted them; between workers the model allows any order, which covers every order the
    single queue can produce (the receiver threads race for it). -/
structure State (σ τ : Type) where
  ctl : Ctl.State σ τ
  wk : List (Wk τ)                  -- position = worker number (gw<k>)

/-- what the environment decides in a main-thread step -/
inductive MainP where
  | none
  | collect (errs : List (String × Bool)) (garbage : Bool) (interrupt : Bool) (sf : Option String)
      -- failed/skipped collect reports; an undecodable message afterwards; the worker's session is interrupted
      -- (Ctrl-C, `pytest.exit()`) before it enters the test loop; `session.shouldfail` afterwards (collection errors count
      -- against `--maxfail`)
  | reports (fs : List Bool) (sf ss : Option String) (exit : Bool)  -- the test's reports; the session's stop flags afterwards; pytest.exit
  | complete (slow : Bool)
  deriving Repr

inductive Step where
  | main (k : Nat) (p : MainP)
  | deliver (k : Nat)
  | recv (k : Nat)
  | crash (k : Nat) (broken : Bool)
  | ctl (k : Nat) (requeue : Bool)        -- the controller handles the oldest posted event of worker `k`
  deriving Repr

inductive Err where
  | notEnabled
  | py (e : PyErr)
  deriving Repr, DecidableEq

variable {σ τ : Type}

def setWk (st : State σ τ) (k : Nat) (w : Wk τ) : State σ τ := { st with wk := st.wk.set k w }

def init (I : SchedI σ τ) (s0 : σ) (numnodes maxfail : Nat) (maxRestart : Option Int) (idsOf : Nat → List τ) : State σ τ :=
  { ctl := Ctl.init I s0 numnodes maxfail maxRestart, wk := (List.range numnodes).map fun k => { ids := idsOf k } }

/-- one step of the worker's main thread -/
def mainStep (k : Nat) (w : Wk τ) (p : MainP) : Option (Wk τ) :=
  if !w.alive then none else
  match w.phase with
  | .boot => some { w with outbox := w.outbox ++ [.ev (.workerready k)], phase := .collect }
  | .collect =>
    match p with
    | .collect errs garbage interrupt sf =>
      let msgs : List (WMsg τ) := [.ignored] ++ errs.map (fun e => .ev (.collectreport k e.1 e.2)) ++ [.ev (.collectionfinish k w.ids)]
      if interrupt then
        -- the worker's session ends with exit status 2 before `pytest_runtestloop`
        some { w with outbox := w.outbox ++ msgs, exitstatus := 2, phase := .finish, sf := sf }
      else
        -- collection errors do not keep an xdist worker from running tests: its own `pytest_runtestloop` takes precedence
        -- over the one of `_pytest.main` that raises "Interrupted: N errors during collection"
        some { w with outbox := w.outbox ++ msgs ++ (if garbage then [.garbage] else []), phase := .loop, cbSet := true, sf := sf }
    | _ => none
  | .loop =>
    match w.w.pc with
    | .init =>
      (Worker.get0 w.w).map fun w' => { w with w := w', phase := if w'.pc = .done then .finish else .loop }
    | .haveItem => (Worker.get1 w.w).map fun w' => { w with w := w', sub := 0 }
    | .running =>
      match w.sub, p with
      | 0, _ => some { w with outbox := w.outbox ++ [.ev .other], sub := 1 }
      | 1, .reports fs sf ss exit =>
        some { w with outbox := w.outbox ++ fs.map (fun f => .ev (.testreport k f)) ++ [.ev .other],
                      sf := sf, ss := ss, exitstatus := if exit then 2 else w.exitstatus, sub := 2 }
      | 2, .complete slow =>
        if w.exitstatus = 2 then some { w with phase := .finish }       -- the exception left `run_one_test` before the completion event
        else
          match w.w.cur, Worker.finish w.w (w.sf.isSome || w.ss.isSome) with
          | some i, some w' =>
            some { w with w := w', outbox := w.outbox ++ [.ev (.complete k i slow)],
                          phase := if w'.pc = .done then .finish else .loop }
          | _, _ => none
      | _, _ => none
    | .done => none
  | .finish =>
    some { w with outbox := w.outbox ++ [.fin w.exitstatus w.sf w.ss, .endMarker], phase := .done }
  | .done => none

/-- the worker's receiver thread: `handle_command` -/
def deliverStep (k : Nat) (w : Wk τ) : Option (Wk τ) :=
  if !w.alive || !w.cbSet || w.phase = .done then none else
  match w.inbox with
  | [] => none
  | c :: rest =>
    let w0 := { w with inbox := rest }
    match c with
    | .run is => some { w0 with w := Worker.putMany w.w is }
    | .runAll => some { w0 with w := Worker.putMany w.w (List.range w.ids.length) }
    | .shutdown => some { w0 with w := Worker.putShutdown w.w }
    | .steal is =>
      let w' := Worker.steal w.w is
      let reply := match w'.sent.getLast? with | some (.unscheduled l) => l | _ => []
      some { w0 with w := w', outbox := w.outbox ++ [.ev (.unscheduled k reply)] }

def toRecv (k : Nat) : WMsg τ → Receiver.Msg (Ctl.Event τ)
  | .ev e => .event "" e
  | .ignored => .ignored
  | .fin x sf ss => .workerfinished (.workerfinished k x sf ss)
  | .garbage => .garbage
  | .endMarker => .endMarker

def ofPost (k : Nat) : Receiver.Post (Ctl.Event τ) → Ctl.Event τ
  | .event _ e => e
  | .workerfinished e => e
  | .errordown => .errordown k false       -- the re-queue decision is the crash hook's, taken when the event is handled

/-- the command a worker gets for a scheduler output addressed to it -/
def cmdOf : SOut → Option (Nat × Cmd)
  | .run n is => some (n, .run is)
  | .runAll n => some (n, .runAll)
  | .steal n is => some (n, .steal is)
  | .shutdown n => some (n, .shutdown)
  | .collectReport _ _ => none

/-- what was written on the wire reaches the inbox of a live worker; a dead worker's pipe swallows it -/
def route (wk : List (Wk τ)) : List SOut → List (Wk τ)
  | [] => wk
  | o :: rest =>
    match cmdOf o with
    | none => route wk rest
    | some (n, c) =>
      match wk[n]? with
      | some w => route (if w.alive then wk.set n { w with inbox := w.inbox ++ [c] } else wk) rest
      | none => route wk rest

/-- once the end marker of a dead worker was seen its channel is closed: every further send raises `OSError` -/
def brokenAfter (m : WMsg τ) (broken alive : Bool) : Bool :=
  match m with
  | .endMarker => broken || !alive
  | _ => broken

/-- one step of the receiver thread of worker `k`: `process_from_remote` on the next message -/
def recvStep (st : State σ τ) (k : Nat) : Option (State σ τ) :=
  match st.wk[k]? with
  | none => none
  | some w =>
    match w.outbox with
    | [] => none
    | m :: rest =>
      let fl := st.ctl.env.flags.get k
      let r := Receiver.step { down := fl.down, shutdownSent := fl.sent } (toRecv k m)
      -- once the end marker of a dead worker was seen the channel is closed: every further send raises `OSError`
      let fl' : NodeFlags := { down := r.1.down, sent := r.1.shutdownSent, broken := brokenAfter m fl.broken w.alive }
      let outs' := if r.2.2 && !fl.broken then st.ctl.env.outs ++ [SOut.shutdown k] else st.ctl.env.outs
      let env' : Env := { flags := AList.set st.ctl.env.flags k fl', outs := outs' }
      let wk1 := st.wk.set k { w with outbox := rest, posted := w.posted ++ r.2.1.map (ofPost k) }
      let wk2 := if r.2.2 && !fl.broken then route wk1 [SOut.shutdown k] else wk1
      some { st with ctl := { st.ctl with env := env' }, wk := wk2 }

def crashStep (st : State σ τ) (k : Nat) (broken : Bool) : Option (State σ τ) :=
  match st.wk[k]? with
  | none => none
  | some w =>
    if !w.alive || w.phase = .done then none
    else
      let st1 := setWk st k { w with alive := false, inbox := [], outbox := w.outbox ++ [.endMarker] }
      if broken then
        let fl := st.ctl.env.flags.get k
        some { st1 with ctl := { st1.ctl with env := { st1.ctl.env with flags := AList.set st1.ctl.env.flags k { fl with broken := true } } } }
      else some st1

/-- workers started by `_clone_node` during the controller step -/
def spawn (idsOf : Nat → List τ) (wk : List (Wk τ)) (upTo : Nat) : List (Wk τ) :=
  wk ++ ((List.range (upTo - wk.length)).map fun j => ({ ids := idsOf (wk.length + j) } : Wk τ))

/-- one iteration of the controller loop on the oldest posted event of worker `k` -/
def ctlStep (I : SchedI σ τ) (idsOf : Nat → List τ) (st : State σ τ) (k : Nat) (requeue : Bool) : Except Err (State σ τ) :=
  if Ctl.sessionFinished st.ctl then .error .notEnabled
  else if st.ctl.active.isEmpty then .error (.py .runtime)
  else match st.wk[k]? with
  | none => .error .notEnabled
  | some w =>
    match w.posted with
    | [] => .error .notEnabled
    | ev :: rest =>
      let ev' := match ev with | .errordown n _ => Ctl.Event.errordown n requeue | e => e
      match Ctl.loopOnce I st.ctl ev' with
      | .error e => .error (.py e)
      | .ok c' =>
        let newOuts := c'.env.outs.drop st.ctl.env.outs.length
        .ok { ctl := c', wk := route (spawn idsOf (st.wk.set k { w with posted := rest }) c'.nextId) newOuts }

def step (I : SchedI σ τ) (idsOf : Nat → List τ) (st : State σ τ) : Step → Except Err (State σ τ)
  | .main k p =>
    match st.wk[k]? with
    | none => .error .notEnabled
    | some w => match mainStep k w p with
      | none => .error .notEnabled
      | some w' => .ok (setWk st k w')
  | .deliver k =>
    match st.wk[k]? with
    | none => .error .notEnabled
    | some w => match deliverStep k w with
      | none => .error .notEnabled
      | some w' => .ok (setWk st k w')
  | .recv k => match recvStep st k with | none => .error .notEnabled | some s => .ok s
  | .crash k b => match crashStep st k b with | none => .error .notEnabled | some s => .ok s
  | .ctl k rq => ctlStep I idsOf st k rq

def run (I : SchedI σ τ) (idsOf : Nat → List τ) (st : State σ τ) : List Step → Except Err (State σ τ)
  | [] => .ok st
  | a :: rest => match step I idsOf st a with
    | .error e => .error e
    | .ok st' => run I idsOf st' rest

end Xdist.Sys
