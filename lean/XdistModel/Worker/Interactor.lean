import XdistModel.Py.Basic
/-
  Model of the worker side of remote.py: `TestQueue` (74-109) and the parts of `WorkerInteractor`
  that touch it: `handle_command` (155-174), `steal` (176-198), `pytest_runtestloop` (200-209),
  `run_one_test` (211-234).  Two threads: the receiver thread executes `put`/`steal`, the main
  thread executes `get0`/`get1`/`finish`.  Every step is one critical section of the queue lock
  (or touches no shared state); a `get` on an empty queue is *not enabled* (the thread blocks).
-/
namespace Xdist.Worker
open Xdist

inductive QItem where
  | test (i : Nat)
  | shutdown
  deriving DecidableEq, Repr, Inhabited

inductive WEvent where
  | complete (i : Nat)                 -- runtest_protocol_complete(item_index=i)
  | unscheduled (is : List Nat)        -- unscheduled(indices=is)
  deriving DecidableEq, Repr, Inhabited

inductive PC where
  | init        -- before `self.nextitem_index = self.torun.get()` (remote.py:204)
  | haveItem    -- loop head with `nextitem_index` an int: about to enter `run_one_test`
  | running     -- inside `pytest_runtest_protocol(item, nextitem)` (remote.py:227)
  | done        -- left the loop
  deriving DecidableEq, Repr, Inhabited

structure State where
  torun : List QItem := []
  pc : PC := .init
  cur : Option Nat := none                 -- `item_index`
  next : Option QItem := none              -- `nextitem_index` (None before the first get)
  ran : List (Nat × Option Nat) := []      -- protocol calls so far: (item, announced nextitem)
  sent : List WEvent := []
  -- ghost history, never read by the steps
  received : List Nat := []                -- test indices put on the queue, in order
  stolen : List Nat := []                  -- indices given back in `unscheduled` replies
  deriving Repr, Inhabited

def tests : List QItem → List Nat
  | [] => []
  | .test i :: r => i :: tests r
  | .shutdown :: r => tests r

/-- the test the worker holds as `nextitem_index`, if any -/
def hand (s : State) : List Nat :=
  match s.pc, s.next with
  | .done, _ => []
  | _, some (.test j) => [j]
  | _, _ => []

/-- receiver thread: `runtests` puts the indices one by one -/
def put (s : State) (i : Nat) : State :=
  { s with torun := s.torun ++ [.test i], received := s.received ++ [i] }

def putMany (s : State) : List Nat → State
  | [] => s
  | i :: r => putMany (put s i) r

/-- receiver thread: the `shutdown` command, or the channel's end marker -/
def putShutdown (s : State) : State := { s with torun := s.torun ++ [.shutdown] }

/-- `item not in requested_set` on queue entries: the shutdown marker is never in a set of ints -/
def keepQ (p : Nat → Bool) : QItem → Bool
  | .test i => p i
  | .shutdown => true

/-- receiver thread: `steal(indices)` (remote.py:176-198), one critical section plus the reply -/
def steal (s : State) (req : List Nat) : State :=
  let reqSet := PyList.uniq req
  let stolen := (tests s.torun).filter (fun i => reqSet.contains i)
  if stolen.length = reqSet.length then
    { s with torun := s.torun.filter (keepQ (fun i => !reqSet.contains i)),
             sent := s.sent ++ [.unscheduled stolen], stolen := s.stolen ++ stolen }
  else
    { s with sent := s.sent ++ [.unscheduled []] }

def announce : QItem → Option Nat
  | .test j => some j
  | .shutdown => none

/-- main thread: the first `torun.get()` (remote.py:204) -/
def get0 (s : State) : Option State :=
  if s.pc ≠ .init then none
  else match s.torun with
  | [] => none
  | q :: r =>
    some { s with torun := r, next := some q,
                  pc := match q with | .shutdown => .done | .test _ => .haveItem }

/-- main thread: `run_one_test` up to the protocol call (remote.py:212-227) -/
def get1 (s : State) : Option State :=
  if s.pc ≠ .haveItem then none
  else match s.next, s.torun with
  | some (.test i), q :: r =>
    some { s with torun := r, cur := some i, next := some q, pc := .running,
                  ran := s.ran ++ [(i, announce q)] }
  | _, _ => none

/-- main thread: the protocol returns, `runtest_protocol_complete` is sent, loop condition (remote.py:228-234, 205-208);
    `stop` = the worker's own session asked to stop (`shouldfail`/`shouldstop`) -/
def finish (s : State) (stop : Bool) : Option State :=
  if s.pc ≠ .running then none
  else match s.cur with
  | none => none
  | some i =>
    some { s with sent := s.sent ++ [.complete i],
                  pc := if stop then .done else
                        match s.next with
                        | some (.test _) => .haveItem
                        | _ => .done }

inductive Step where
  | put (i : Nat)
  | putShutdown
  | steal (req : List Nat)
  | get0
  | get1
  | finish (stop : Bool)
  deriving Repr, DecidableEq

def step (s : State) : Step → Option State
  | .put i => some (put s i)
  | .putShutdown => some (putShutdown s)
  | .steal req => some (steal s req)
  | .get0 => get0 s
  | .get1 => get1 s
  | .finish b => finish s b

def run (s : State) : List Step → Option State
  | [] => some s
  | a :: r => match step s a with
    | none => none
    | some s' => run s' r

end Xdist.Worker
