import XdistModel.Py.Basic
/-
  Remote execution helpers: `make_reltoroot` (workermanage.py:262-288), the rsync file filter `HostRSync.filter`
  (workermanage.py:227-240) with `fnmatch` patterns, `NodeManager._getrsyncdirs` / `_getrsyncoptions` / the local
  short-cut of `rsync` (workermanage.py:125-196).

  Paths are lists of components; `Path(...)` normalisation, `exists()` and `resolve()` are environment parameters.
  fnmatch: `*`, `?`, `[seq]`, `[!seq]` with single characters and `a-c` ranges; the corner cases of bracket
  expressions (`[]...]`, `[^...]`, backslashes, reversed ranges) are outside the model.
-/
namespace Xdist.Remote
open Xdist

/-! ### fnmatch -/

inductive Tok where
  | star                                   -- `*`: any string (also across `/`: the pattern is matched with `(?s:…)\Z`)
  | any                                    -- `?`
  | lit (c : Char)
  | set (neg : Bool) (ranges : List (Char × Char))
  deriving DecidableEq, Repr

/-- the items of a bracket expression: `a-c` is a range, anything else a single character -/
def parseSet : List Char → List (Char × Char)
  | a :: '-' :: b :: r => (a, b) :: parseSet r
  | a :: r => (a, a) :: parseSet r
  | [] => []

/-- the position of the closing `]` (the first `]`), if any -/
def closing : List Char → Option (List Char × List Char)
  | [] => none
  | ']' :: r => some ([], r)
  | c :: r => (closing r).map fun p => (c :: p.1, p.2)

/-- `fnmatch.translate` as a token list; `fuel` bounds the recursion by the pattern length -/
def parseF : Nat → List Char → List Tok
  | 0, _ => []
  | _, [] => []
  | fuel + 1, '*' :: r => .star :: parseF fuel r
  | fuel + 1, '?' :: r => .any :: parseF fuel r
  | fuel + 1, '[' :: r =>
    let neg := match r with | '!' :: _ => true | _ => false
    match closing (match r with | '!' :: r' => r' | _ => r) with
    | none => .lit '[' :: parseF fuel r          -- no closing bracket: a literal `[`
    | some (body, rest) => .set neg (parseSet body) :: parseF fuel rest
  | fuel + 1, c :: r => .lit c :: parseF fuel r

def parse (pat : List Char) : List Tok := parseF pat.length pat

def inSet (ranges : List (Char × Char)) (c : Char) : Bool := ranges.any fun p => p.1 ≤ c && c ≤ p.2

/-- `*`: the continuation `k` is tried on every suffix, longest first -/
def matchStar (k : List Char → Bool) : List Char → Bool
  | [] => k []
  | x :: r => k (x :: r) || matchStar k r

/-- does the token list match the whole string -/
def matchToks : List Tok → List Char → Bool
  | [], s => s.isEmpty
  | .star :: ts, s => matchStar (matchToks ts) s
  | .any :: ts, s => match s with | [] => false | _ :: r => matchToks ts r
  | .lit c :: ts, s => match s with | [] => false | x :: r => x == c && matchToks ts r
  | .set neg rs :: ts, s => match s with | [] => false | x :: r => (inSet rs x != neg) && matchToks ts r

/-- `re.compile(fnmatch.translate(pat)).match(s)` -/
def glob (pat s : List Char) : Bool := matchToks (parse pat) s

def DEFAULT_IGNORES : List (List Char) := [".*".toList, "*.pyc".toList, "*.pyo".toList, "*~".toList]

/-- `HostRSync.filter`: `name` = the base name, `full` = the path as a string -/
def filter (ignores : List (List Char)) (name full : List Char) : Bool :=
  !(ignores.any fun pat => glob pat name || glob pat full)

/-- `_getrsyncoptions`: built-ins, then `--rsyncignore`, then the ini values -/
def ignoresOf (cmdline ini : List (List Char)) : List (List Char) := DEFAULT_IGNORES ++ cmdline ++ ini

/-! ### which specs synchronise files -/

structure Spec where
  popen : Bool
  chdir : Bool
  deriving DecidableEq, Repr

/-- `_getrsyncdirs`: no roots at all when every spec is a local popen without chdir; otherwise the candidates,
    first occurrence only -/
def rsyncDirs (specs : List Spec) (candidates : List (List String)) : List (List String) :=
  if specs.all (fun s => s.popen && !s.chdir) then [] else PyList.uniq candidates

/-- `rsync()`: a local popen worker without chdir gets only a `sys.path` entry, no file is sent -/
def rsyncSendsFiles (s : Spec) : Bool := !(s.popen && !s.chdir)

/-! ### `make_reltoroot` -/

abbrev Path := List String

/-- `fspath.relative_to(root)`: the remainder when `root` is a prefix (component-wise) -/
def relativeTo : Path → Path → Option Path
  | [], p => some p
  | _ :: _, [] => none
  | r :: rs, c :: cs => if r = c then relativeTo rs cs else none

/-- `str(x)` of a relative path -/
def showRel (p : Path) : String := if p.isEmpty then "." else "/".intercalate p

/-- the loop over the roots: the first root containing the path wins -/
def firstRoot (roots : List Path) (p : Path) : Option (Path × Path) :=
  match roots with
  | [] => none
  | r :: rest =>
    match relativeTo r p with
    | some rel => some (r, rel)
    | none => firstRoot rest p

/-- `root.name` -/
def rootName (r : Path) : String := match r.getLast? with | some n => n | none => ""

/-- `make_reltoroot` for one argument `path::selector…`: `pathStr` is the text before the first `::`, `p` its
    components (`Path(parts[0])`), `rest` everything from the first `::` on (possibly empty) -/
def rewriteArg (exists_ : Bool) (roots : List Path) (pathStr : String) (p : Path) (rest : String) : Except PyErr String :=
  if !exists_ then .ok (pathStr ++ rest)
  else
    match firstRoot roots p with
    | none => .error PyErr.valueError
    | some (r, rel) => .ok (rootName r ++ "/" ++ showRel rel ++ rest)

end Xdist.Remote
