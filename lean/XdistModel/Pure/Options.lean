import XdistModel.Py.Str
/-
  Option normalisation: `pytest_cmdline_main` (plugin.py:278-308), `_is_distribution_mode` (273-275),
  the install decision of `pytest_configure` (242-254), the auto worker count (plugin.py:15-53),
  `parse_tx_spec_config` (workermanage.py:26-41), the worker side `setup_config` (remote.py:390-398)
  and loop-on-fail's `pytest_cmdline_main` (looponfail.py:40-48).
-/
namespace Xdist.Options
open Xdist

inductive Dist where
  | no | each | load | loadscope | loadfile | loadgroup | worksteal
  deriving DecidableEq, Repr, Inhabited

/-- the value of `-n` after `parse_numprocesses` -/
inductive NumProc where
  | absent | num (k : Int) | auto | logical
  deriving DecidableEq, Repr, Inhabited

/-- `config.option` as parsed from the command line / addopts -/
structure Raw where
  n : NumProc := .absent
  maxproc : Option Int := none
  dist : Dist := .no
  distload : Bool := false
  tx : List String := []
  usepdb : Bool := false
  collectonly : Bool := false
  looponfail : Bool := false
  deriving DecidableEq, Repr, Inhabited

/-- `config.option` after `pytest_cmdline_main` -/
structure Norm where
  n : Option Int
  dist : Dist
  tx : List String
  usepdb : Bool
  collectonly : Bool
  looponfail : Bool
  deriving DecidableEq, Repr, Inhabited

/-- the environment variable `PYTEST_XDIST_AUTO_NUM_WORKERS` as the default hook sees it -/
inductive AutoEnv where
  | unset            -- not set, or empty (both falsy)
  | int (k : Int)
  | garbage          -- `int()` raises: a warning, then the CPU count
  deriving DecidableEq, Repr, Inhabited

/-- plugin.py:15-53 with the CPU count as a parameter (`≥ 1` by construction of the code: `n if n else 1`) -/
def autoNum (env : AutoEnv) (cpu : Nat) : Int :=
  match env with
  | .int k => k
  | _ => if cpu = 0 then 1 else (cpu : Int)

def isDistribution (dist : Dist) (tx : List String) : Bool := dist != .no && !tx.isEmpty

/-- `min(numprocesses, maxprocesses)` when `--maxprocesses` is given and truthy (plugin.py:296-298) -/
def capped (k : Int) (maxproc : Option Int) : Int :=
  match maxproc with
  | some m => if m ≠ 0 then min k m else k
  | none => k

/-- the assignments of plugin.py:279-303: resulting `(numprocesses, dist, tx)`;
    `auto` is what the `pytest_xdist_auto_num_workers` hook returns -/
def resolve (auto : Int) (r : Raw) : Option Int × Dist × List String :=
  let dist1 := if r.distload then Dist.load else r.dist
  let (n1, dist2) : Option Int × Dist :=
    match r.n with
    | .auto | .logical => if r.usepdb then (some 0, Dist.no) else (some auto, dist1)
    | .num k => (some k, dist1)
    | .absent => (none, dist1)
  let (dist3, tx3) : Dist × List String :=
    match n1 with
    | some k =>
      if k ≠ 0 then
        (if dist2 = .no then Dist.load else dist2, Str.repeatInt "popen" (capped k r.maxproc))
      else (dist2, r.tx)
    | none => (dist2, r.tx)
  if n1 = some 0 then (n1, Dist.no, []) else (n1, dist3, tx3)

/-- plugin.py:278-308 -/
def cmdlineMain (auto : Int) (r : Raw) : Except PyErr Norm :=
  let (n, dist, tx) := resolve auto r
  if !r.collectonly && isDistribution dist tx && r.usepdb then .error .usage
  else .ok { n := n, dist := dist, tx := tx, usepdb := r.usepdb, collectonly := r.collectonly,
             looponfail := r.looponfail }

/-- `pytest_configure` registers a `DSession` (plugin.py:242-254) -/
def installsDSession (c : Norm) : Bool := !c.collectonly && isDistribution c.dist c.tx

/-- loop-on-fail's `pytest_cmdline_main`: `none` = not taken over, `some (.error usage)` = rejected -/
def looponfailMain (c : Norm) : Option (Except PyErr Unit) :=
  if c.looponfail then (if c.usepdb then some (.error .usage) else some (.ok ())) else none

/-- remote.py:390-398: what a worker does to the options it re-parsed from the controller's arguments -/
def workerSetup (r : Raw) : Raw :=
  { r with looponfail := false, usepdb := false, dist := .no, distload := false, n := .absent, maxproc := none }

/-- `config.option.loadgroup` as set by `setup_config` -/
def workerLoadgroup (r : Raw) : Bool := r.dist == .loadgroup

/-! ### `parse_tx_spec_config` -/

/-- one `--tx` value: `N*spec` gives `N` copies of `spec`; otherwise the value itself
    (workermanage.py:29-36, including that `int(xspec[:-1])` is tried when there is no `*`) -/
def expandOne (x : List Char) : List (List Char) :=
  let i := Str.find '*' x
  match Str.pyInt (PyList.sliceTo x i) with
  | none => [x]
  | some num => Str.repeatInt (x.drop (i + 1).toNat) num

def expand (tx : List (List Char)) : Except PyErr (List (List Char)) :=
  let l := tx.flatMap expandOne
  if l.isEmpty then .error .usage else .ok l

end Xdist.Options
