/-
  `_split_scope` of the three grouping schedulers (loadscope.py:306, loadfile.py:60,
  loadgroup.py:55-59), on character lists.
-/
namespace Xdist.SplitScope

/-- `s.split(sep, 1)`: (before, after) of the first occurrence of `sep`, `none` when absent. -/
def splitFirst (sep : List Char) : List Char → Option (List Char × List Char)
  | [] => none
  | c :: r =>
    if sep.isPrefixOf (c :: r) then some ([], (c :: r).drop sep.length)
    else (splitFirst sep r).map (fun p => (c :: p.1, p.2))

/-- `s.rsplit(sep, 1)`: (before, after) of the last occurrence of `sep`. -/
def splitLast (sep : List Char) (s : List Char) : Option (List Char × List Char) :=
  (splitFirst sep.reverse s.reverse).map (fun p => (p.2.reverse, p.1.reverse))

def sep2 : List Char := [':', ':']

/-- loadfile: `nodeid.split("::", 1)[0]` -/
def fileKey (s : List Char) : List Char :=
  match splitFirst sep2 s with
  | some (a, _) => a
  | none => s

/-- loadscope: `nodeid.rsplit("::", 1)[0]` -/
def scopeKey (s : List Char) : List Char :=
  match splitLast sep2 s with
  | some (a, _) => a
  | none => s

/-- `s.rfind(c)` as an index counted from 0, `-1` when absent -/
def rfindAux (c : Char) : List Char → Nat → Int → Int
  | [], _, acc => acc
  | x :: r, i, acc => rfindAux c r (i + 1) (if x = c then (i : Int) else acc)

def rfind (c : Char) (s : List Char) : Int := rfindAux c s 0 (-1)

/-- `s.split(c)[-1]`: what follows the last `c` (all of `s` when absent) -/
def afterLast (c : Char) (s : List Char) : List Char :=
  match splitLast [c] s with
  | some (_, b) => b
  | none => s

/-- loadgroup (loadgroup.py:55-59) -/
def groupKey (s : List Char) : List Char :=
  if rfind '@' s > rfind ']' s then afterLast '@' s else s

def fileKeyS (s : String) : String := String.ofList (fileKey s.toList)
def scopeKeyS (s : String) : String := String.ofList (scopeKey s.toList)
def groupKeyS (s : String) : String := String.ofList (groupKey s.toList)

end Xdist.SplitScope
