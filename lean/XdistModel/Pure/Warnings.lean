import XdistModel.Py.Basic
/-
  Warning transport: `serialize_warning_message` (remote.py:315-363) in the worker,
  `unserialize_warning_message` (workermanage.py:500-538) with the fall-back of `process_from_remote`
  (`_generic_warning_data`, workermanage.py:451-459, 481-497) on the controller.

  What the controller can do with a class is an environment parameter (`Caps`): whether `module.Class` can be
  imported there, and what calling the class with the transported arguments does.
-/
namespace Xdist.Warnings

/-- result of `cls(*args)` on the controller -/
inductive Rebuild where
  | ok | typeError | otherError
  deriving DecidableEq, Repr, Inhabited

structure Caps where
  importable : String → String → Bool
  rebuild : String → String → Rebuild

/-- `warning_message.message` in the worker -/
inductive Payload where
  | str (text : String)
  | inst (mod cls text : String) (argsDumpable : Bool)     -- a `Warning` instance; `text = str(instance)`
  deriving DecidableEq, Repr, Inhabited

/-- one of the remaining `_WARNING_DETAILS` (filename, lineno, file, line, source): its value if execnet can dump it,
    else only its `repr` -/
inductive Detail where
  | value (v : String)
  | undumpable (repr : String)
  deriving DecidableEq, Repr, Inhabited

/-- what travels for a detail -/
def Detail.wire : Detail → String
  | .value v => v
  | .undumpable r => r

structure Warning where
  payload : Payload
  category : Option (String × String)
  details : List (String × Detail)
  deriving DecidableEq, Repr, Inhabited

/-- the dict put on the wire -/
structure Data where
  messageStr : String
  messageClass : Option (String × String)     -- `message_module`, `message_class_name`
  hasArgs : Bool                              -- `message_args is not None`
  category : Option (String × String)
  details : List (String × String)
  deriving DecidableEq, Repr, Inhabited

def serialize (w : Warning) : Data :=
  { messageStr := match w.payload with | .str t => t | .inst _ _ t _ => t
    messageClass := match w.payload with | .str _ => none | .inst m c _ _ => some (m, c)
    hasArgs := match w.payload with | .str _ => false | .inst _ _ _ d => d
    category := w.category
    details := w.details.map fun p => (p.1, p.2.wire) }

/-- `warning_message.message` as rebuilt on the controller -/
inductive OutMsg where
  | str (text : String)
  | rebuilt (mod cls : String)          -- an instance of the original class, built from the original arguments
  | generic (text : String)             -- `Warning("<module>.<class>: <text>")`
  deriving DecidableEq, Repr, Inhabited

structure Out where
  message : OutMsg
  category : Option (String × String)
  details : List (String × String)
  deriving DecidableEq, Repr, Inhabited

def genericText (m c t : String) : String := m ++ "." ++ c ++ ": " ++ t

/-- the message part of `unserialize_warning_message` -/
def unserializeMsg (caps : Caps) (d : Data) : Except PyErr OutMsg :=
  match d.messageClass with
  | none => .ok (.str d.messageStr)
  | some (m, c) =>
    if !caps.importable m c then .error .importError
    else if d.hasArgs then
      match caps.rebuild m c with
      | .ok => .ok (.rebuilt m c)
      | .typeError => .ok (.generic (genericText m c d.messageStr))
      | .otherError => .error .runtime
    else .ok (.generic (genericText m c d.messageStr))

/-- `unserialize_warning_message`: may raise (ImportError / AttributeError / whatever the constructor raises) -/
def unserialize (caps : Caps) (d : Data) : Except PyErr Out :=
  (unserializeMsg caps d).bind fun message =>
    match d.category with
    | none => .ok { message := message, category := none, details := d.details }
    | some (m, c) =>
      if !caps.importable m c then .error .importError
      else .ok { message := message, category := some (m, c), details := d.details }

/-- `_generic_warning_data` -/
def genericData (d : Data) : Data :=
  { messageStr := match d.messageClass with | some (m, c) => genericText m c d.messageStr | none => d.messageStr
    messageClass := none
    hasArgs := match d.messageClass with | some _ => false | none => d.hasArgs
    category := some ("builtins", "Warning")
    details := d.details }

/-- the `warning_recorded` branch of `process_from_remote`: try, and on any exception fall back to the generic form -/
def receive (caps : Caps) (d : Data) : Except PyErr Out :=
  match unserialize caps d with
  | .ok o => .ok o
  | .error _ => unserialize caps (genericData d)

end Xdist.Warnings
