import XdistModel.Py.Basic
/-
  Loop-on-fail: the file watcher `StatRecorder.check` (looponfail.py:269-302, with `visit_path` of `_path.py`)
  and the failure memory of `RemoteControl.loop_once` (looponfail.py:131-143).

  File system model: the regular files of a tree, each with its path (list of components from `/`)
  and `(mtime, size)`; directories are implied by the files below them (an empty directory is
  invisible to the watcher: `fil` requires `is_file()`).  No symlinks; the file does not vanish
  between the directory walk and `stat()` (the `OSError` branch of the code is a race the model
  does not exhibit).
-/
namespace Xdist.Looponfail
open Xdist

abbrev Path := List String
abbrev Stat := Nat × Nat          -- (st_mtime, st_size)
abbrev FS := AList Path Stat
abbrev Cache := AList Path Stat

/-- `name.startswith(".")` -/
def hidden (name : String) : Bool := name.toList.head? == some '.'

/-- `Path(name).suffix == ".pyc"` for a non-hidden name -/
def isPyc (name : String) : Bool := (".pyc".toList).isSuffixOf name.toList

/-- the part of `p` below `root` (`none` when `p` is not strictly below it) -/
def below : Path → Path → Option Path
  | [], [] => none
  | [], rest => some rest
  | _ :: _, [] => none
  | r :: rs, c :: cs => if r = c then below rs cs else none

/-- `p` is yielded by `visit_path(root, filter=fil, recurse=rec)`: a file strictly below `root`, not hidden,
    not `.pyc`, every directory between `root` and the file not hidden (`root` itself is not filtered) -/
def watched (root p : Path) : Bool :=
  match below root p with
  | none => false
  | some rel =>
    match rel.reverse with
    | [] => false
    | name :: dirsRev => !hidden name && !isPyc name && dirsRev.all (fun d => !hidden d)

/-- the walk of one root, in file-system order -/
def visit (fs : FS) (root : Path) : List (Path × Stat) := fs.filter (fun e => watched root e.1)

structure Loop where
  changed : Bool
  old : Cache
  new : Cache
  deriving Repr

/-- the comparison of looponfail.py:283-297: `true` = this file counts as a change -/
def differs (old : Option Stat) (cur : Stat) : Bool :=
  match old with
  | some o => o.1 != cur.1 || o.2 != cur.2                  -- mtime or size differ
  | none => true                                            -- new file

/-- one iteration of the inner loop of `check` (looponfail.py:273-298) -/
def stepLoop (st : Loop) (e : Path × Stat) : Loop :=
  if AList.contains st.new e.1 then st                      -- already visited through another root
  else
    { changed := st.changed || differs (AList.lookup st.old e.1) e.2, old := AList.erase st.old e.1, new := st.new ++ [e] }

/-- `StatRecorder.check`: (changed, new cache) -/
def check (cache : Cache) (roots : List Path) (fs : FS) : Bool × Cache :=
  let st := (roots.flatMap (visit fs)).foldl stepLoop { changed := false, old := cache, new := [] }
  (st.changed || !st.old.isEmpty, st.new)

/-- what the watcher should see: the watched files with their stat, as a finite map -/
def vis (roots : List Path) (fs : FS) (p : Path) : Option Stat :=
  if roots.any (fun r => watched r p) then AList.lookup fs p else none

/-- `RemoteControl.loop_once` (looponfail.py:131-143): the remembered failure set after a run that
    reported `trails` and `collectionFailed` -/
def loopOnce (failures : List String) (trails : List String) (collectionFailed : Bool) : List String :=
  if collectionFailed then failures else PyList.uniq trails

/-- `self.wasfailing = self.failures and len(self.failures)` as a truth value -/
def wasFailing (failures : List String) : Bool := !failures.isEmpty

end Xdist.Looponfail
