/-
  Python-observable container semantics used by the model.
  Core Lean only (no Mathlib): the driver executable links against this.
-/
namespace Xdist

/-- Python exceptions as values.  The model never defaults: every function that can raise
    in the code returns `Except PyErr _`. -/
inductive PyErr where
  | keyError | valueError | indexError | assertion | notImplemented
  | runtime | osError | typeError | importError | usage | zeroDivision | stopIteration
  deriving DecidableEq, Repr, Inhabited

def PyErr.name : PyErr → String
  | .keyError => "KeyError" | .valueError => "ValueError" | .indexError => "IndexError"
  | .assertion => "AssertionError" | .notImplemented => "NotImplementedError"
  | .runtime => "RuntimeError" | .osError => "OSError" | .typeError => "TypeError"
  | .importError => "ImportError" | .usage => "UsageError"
  | .zeroDivision => "ZeroDivisionError" | .stopIteration => "StopIteration"

/-- insertion-ordered dict -/
abbrev AList (κ : Type) (ν : Type) := List (κ × ν)

namespace AList
variable {κ ν : Type} [DecidableEq κ]

def lookup : AList κ ν → κ → Option ν
  | [], _ => none
  | (k, v) :: t, x => if k = x then some v else lookup t x

/-- `d[k] = v`: keeps the position of an existing key, appends a new one. -/
def set : AList κ ν → κ → ν → AList κ ν
  | [], x, v => [(x, v)]
  | (k, w) :: t, x, v => if k = x then (k, v) :: t else (k, w) :: set t x v

def erase : AList κ ν → κ → AList κ ν
  | [], _ => []
  | (k, w) :: t, x => if k = x then t else (k, w) :: erase t x

def contains (d : AList κ ν) (x : κ) : Bool := (lookup d x).isSome

def keys (d : AList κ ν) : List κ := d.map Prod.fst
def values (d : AList κ ν) : List ν := d.map Prod.snd

/-- `d[k]` -/
def get (d : AList κ ν) (x : κ) : Except PyErr ν :=
  match lookup d x with
  | some v => .ok v
  | none => .error .keyError

/-- `d.pop(k)` -/
def pop (d : AList κ ν) (x : κ) : Except PyErr (ν × AList κ ν) :=
  match lookup d x with
  | some v => .ok (v, erase d x)
  | none => .error .keyError

/-- `d.update(e)` -/
def update (d e : AList κ ν) : AList κ ν := e.foldl (fun acc kv => set acc kv.1 kv.2) d

end AList

namespace PyList
variable {α : Type} [DecidableEq α]

/-- `l.remove(x)`: first occurrence or ValueError -/
def remove (l : List α) (x : α) : Except PyErr (List α) :=
  if x ∈ l then .ok (l.erase x) else .error .valueError

/-- `l.index(x)` -/
def index : List α → α → Except PyErr Nat
  | [], _ => .error .valueError
  | a :: t, x => if a = x then .ok 0 else (index t x).map (· + 1)

/-- `l[:n]` for a Python int `n` (negative counts from the end). -/
def sliceTo (l : List α) (n : Int) : List α :=
  if n ≥ 0 then l.take n.toNat else l.take (l.length - (-n).toNat)

/-- `del l[:n]`, i.e. what remains: `l[n:]`. -/
def sliceFrom (l : List α) (n : Int) : List α :=
  if n ≥ 0 then l.drop n.toNat else l.drop (l.length - (-n).toNat)

/-- first-occurrence de-duplication (`if x not in acc: acc.append(x)`) -/
def uniqAux : List α → List α → List α
  | acc, [] => acc
  | acc, x :: t => if x ∈ acc then uniqAux acc t else uniqAux (acc ++ [x]) t

def uniq (l : List α) : List α := uniqAux [] l

end PyList

end Xdist
