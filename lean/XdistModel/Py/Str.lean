import XdistModel.Py.Basic
/-
  Python `str` operations on character lists, as far as the modelled functions use them:
  `find`, slicing with Python ints, `int(str)`, `*`-repetition with a Python int.
  ASCII only (the harness generates ASCII): `int()` also accepts other Unicode digits and spaces.
-/
namespace Xdist.Str

/-- `s.find(c)`: index of the first occurrence, `-1` when absent -/
def findAux (c : Char) : List Char → Nat → Int
  | [], _ => -1
  | x :: r, i => if x = c then (i : Int) else findAux c r (i + 1)

def find (c : Char) (s : List Char) : Int := findAux c s 0

/-- `[x] * n` for a Python int `n` -/
def repeatInt {α : Type} (x : α) (n : Int) : List α := List.replicate n.toNat x

def isSpace (c : Char) : Bool :=
  c = ' ' || c = '\t' || c = '\n' || c = '\r' || c = '\x0b' || c = '\x0c'

def strip (s : List Char) : List Char :=
  ((s.dropWhile isSpace).reverse.dropWhile isSpace).reverse

def digitVal (c : Char) : Option Nat :=
  if '0' ≤ c ∧ c ≤ '9' then some (c.toNat - '0'.toNat) else none

/-- digits with single underscores strictly between digits; `prev` = the previous character was a digit -/
def digitsAux : List Char → Nat → Bool → Option Nat
  | [], acc, prev => if prev then some acc else none
  | c :: r, acc, prev =>
    if c = '_' then (if prev ∧ !r.isEmpty then digitsUnd r acc else none)
    else match digitVal c with
      | some d => digitsAux r (acc * 10 + d) true
      | none => none
where
  /-- directly after an underscore: a digit must follow -/
  digitsUnd : List Char → Nat → Option Nat
  | [], _ => none
  | c :: r, acc =>
    match digitVal c with
    | some d => digitsAux r (acc * 10 + d) true
    | none => none

def pyNat (s : List Char) : Option Nat := digitsAux s 0 false

/-- `int(s)` for a `str` (base 10): `none` = ValueError -/
def pyInt (s : List Char) : Option Int :=
  match strip s with
  | '+' :: r => (pyNat r).map (fun n => (n : Int))
  | '-' :: r => (pyNat r).map (fun n => -(n : Int))
  | r => (pyNat r).map (fun n => (n : Int))

/-- decimal digits of a natural number (what `str(n)` prints) -/
def natDigits (n : Nat) : List Char := (Nat.toDigits 10 n)

end Xdist.Str
