import XdistModel.Driver.Sched
import XdistModel.Ctl.DSession
import XdistModel.Ctl.Receiver
/-
  Line protocol front end for the `DSession` model: one line per event taken from the controller queue
  (plus flag lines for what the receiver threads did in between), one observation line back.
-/
namespace Xdist.Driver.Ctl
open Xdist Xdist.Driver
abbrev Any := Xdist.Sched.Any

structure St where
  ctl : Option (Xdist.Ctl.State Any String) := none
  specs : AList Nat Nat := []
  dead : Bool := false
  recv : Xdist.Receiver.State := {}

def optStr (s : String) : Option String := if s = "-" then none else some (unesc s)

def parseEvent (ws : List String) : Option (Xdist.Ctl.Event String) :=
  match ws with
  | ["ready", n] => n.toNat?.map .workerready
  | ["fin", n, x, sf, ss] => do
    let n ← n.toNat?; let x ← x.toNat?
    pure (.workerfinished n x (optStr sf) (optStr ss))
  | ["ierr", n] => n.toNat?.map .internalError
  | ["errdown", n, rq] => do
    let n ← n.toNat?; let rq ← parseBool rq
    pure (.errordown n rq)
  | ["coll", n, ids] => n.toNat?.map (fun n => .collectionfinish n (parseStrList ids))
  | ["rep", n, f] => do
    let n ← n.toNat?; let f ← parseBool f
    pure (.testreport n f)
  | ["done", n, i, slow] => do
    let n ← n.toNat?; let i ← i.toNat?; let b ← parseBool slow
    pure (.complete n i b)
  | ["unsched", n, is] => do
    let n ← n.toNat?; let is ← parseNatList is
    pure (.unscheduled n is)
  | ["crep", n, key, f] => do
    let n ← n.toNat?; let f ← parseBool f
    pure (.collectreport n (unesc key) f)
  | ["other"] => some .other
  | _ => none

def showStop : Option Xdist.Ctl.Stop → String
  | none => "-"
  | some (.maxfail c) => s!"maxfail:{c}"
  | some (.worker r) => s!"worker:{esc r}"
  | some (.keyboard n) => s!"kbd:{n}"

def showPub : Xdist.Ctl.Pub String → String
  | .crash n t rq => s!"crash:{n}:{esc t}:{showBool rq}"
  | .report n f => s!"rep:{n}:{showBool f}"
  | .collect k => s!"collect:{esc k}"
  | .nodedown n c => s!"down:{n}:{showBool c}"
  | .spawn n => s!"spawn:{n}"
  | .internalError n => s!"ierr:{n}"

def showSummary : Option Xdist.Ctl.Summary → String
  | none => "-"
  | some (.disabled n) => s!"disabled:{n}"
  | some (.maximum b) => s!"maximum:{b}"

def insertNat (x : Nat) : List Nat → List Nat
  | [] => [x]
  | y :: t => if x ≤ y then x :: y :: t else y :: insertNat x t

def obsOf (c : Xdist.Ctl.State Any String) (pubsFrom : Nat) : String :=
  let pubs := (c.pubs.drop pubsFrom).map showPub
  let pubS := if pubs.isEmpty then "-" else ";".intercalate pubs
  let act := c.active.foldr insertNat []
  s!"ok | {Xdist.Driver.Sched.showOuts c.env.outs} | {pubS} | sd={showBool c.shuttingdown} stop={showStop c.shouldstop} active={showNatList act} fin={showBool (Xdist.Ctl.sessionFinished c)} cf={c.countfailures} fn={c.failedNodes} sum={showSummary c.summary} | {Xdist.Driver.Sched.obs ⟨c.sched, c.env, [], false⟩}"

def setFlag (c : Xdist.Ctl.State Any String) (n : Nat) (f : NodeFlags → NodeFlags) : Xdist.Ctl.State Any String :=
  { c with env := { c.env with flags := AList.set c.env.flags n (f (c.env.flags.get n)) } }

def showPost : Xdist.Receiver.Post Unit → String
  | .event n _ => s!"event:{n}"
  | .workerfinished _ => "workerfinished"
  | .errordown => "errordown"

def recvMsg (ws : List String) : Option (Xdist.Receiver.Msg Unit) :=
  match ws with
  | ["event", n] => some (.event n ())
  | ["ignored"] => some .ignored
  | ["finished"] => some (.workerfinished ())
  | ["garbage"] => some .garbage
  | ["end"] => some .endMarker
  | _ => none

def handle (st : St) (line : String) : St × String :=
  match words line with
  | ["recv-init"] => ({ st with recv := {} }, "ok")
  | "recv" :: rest =>
    match recvMsg rest with
    | none => (st, "bad-op")
    | some m =>
      let r := Xdist.Receiver.step st.recv m
      let posts := r.2.1.map showPost
      ({ st with recv := r.1 },
       s!"down={showBool r.1.down} sent={showBool r.1.shutdownSent} | {if posts.isEmpty then "-" else ";".intercalate posts} | wrote={showBool r.2.2}")
  | ["recv-shut"] =>
    -- the main thread calls `WorkerController.shutdown()` between two messages (workermanage.py:375-381, idempotent)
    let s := st.recv
    if s.down || s.shutdownSent then
      (st, s!"down={showBool s.down} sent={showBool s.shutdownSent} | - | wrote={showBool false}")
    else
      ({ st with recv := { s with shutdownSent := true } }, s!"down={showBool s.down} sent={showBool true} | - | wrote={showBool true}")
  | ["init", mode, nn, msc, maxfail, restart] =>
    match nn.toNat?, maxfail.toNat? with
    | some k, some mf =>
      let mscv : Option Int := if msc = "None" then none else msc.toInt?
      let rs : Option Int := if restart = "None" then none else restart.toInt?
      let c := Xdist.Ctl.init (Xdist.Sched.iface []) (Xdist.Sched.make mode k mscv) k mf rs
      ({ ctl := some c }, obsOf c 0)
    | _, _ => (st, "bad-op")
  | ws =>
    if st.dead then (st, "dead") else
    match st.ctl with
    | none => (st, "bad-op")
    | some c =>
      match ws with
      | ["flag-down", n] =>
        match n.toNat? with
        | some n => ({ st with ctl := some (setFlag c n (fun f => { f with down := true })) }, "ok")
        | none => (st, "bad-op")
      | ["flag-broken", n] =>
        match n.toNat? with
        | some n => ({ st with ctl := some (setFlag c n (fun f => { f with broken := true })) }, "ok")
        | none => (st, "bad-op")
      | ["flag-unbroken", n] =>
        match n.toNat? with
        | some n => ({ st with ctl := some (setFlag c n (fun f => { f with broken := false })) }, "ok")
        | none => (st, "bad-op")
      | ["flag-sent", n] =>
        match n.toNat? with
        | some n => ({ st with ctl := some (setFlag c n (fun f => { f with sent := true })) }, "ok")
        | none => (st, "bad-op")
      | ["spec", n, k] =>
        match n.toNat?, k.toNat? with
        | some n, some k => ({ st with specs := AList.set st.specs n k }, "ok")
        | _, _ => (st, "bad-op")
      | _ =>
        match parseEvent ws with
        | none => (st, "bad-op")
        | some ev =>
          let c0 := { c with env := { c.env with outs := [] } }
          match Xdist.Ctl.loopOnce (Xdist.Sched.iface st.specs) c0 ev with
          | .error err => ({ st with dead := true }, err.name)
          | .ok c' => ({ st with ctl := some c' }, obsOf c' c.pubs.length)

end Xdist.Driver.Ctl
