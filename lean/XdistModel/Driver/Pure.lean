import XdistModel.Driver.Util
import XdistModel.Pure.Options
import XdistModel.Pure.Looponfail
import XdistModel.Ctl.DSession
import XdistModel.Pure.SplitScope
import XdistModel.Pure.Warnings
import XdistModel.Pure.Remote
/-
  Line protocol front end for the pure / near-pure functions (one line in, one line out).
-/
namespace Xdist.Driver.Pure
open Xdist Xdist.Driver

structure St where
  cache : Looponfail.Cache := []

def parsePath (s : String) : Looponfail.Path := (s.splitOn "/").filter (fun c => !c.isEmpty)
def showPath (p : Looponfail.Path) : String := "/" ++ "/".intercalate p

def parseFsEntry (s : String) : Option (Looponfail.Path × Looponfail.Stat) :=
  match s.splitOn "|" with
  | [p, m, z] => do
    let m ← m.toNat?
    let z ← z.toNat?
    pure (parsePath p, (m, z))
  | _ => none

def insertSorted (x : String) : List String → List String
  | [] => [x]
  | y :: t => if x ≤ y then x :: y :: t else y :: insertSorted x t

def sortStrings (l : List String) : List String := l.foldr insertSorted []

def parseDist (s : String) : Option Options.Dist :=
  match s with
  | "no" => some .no | "each" => some .each | "load" => some .load | "loadscope" => some .loadscope
  | "loadfile" => some .loadfile | "loadgroup" => some .loadgroup | "worksteal" => some .worksteal
  | _ => none

def showDist : Options.Dist → String
  | .no => "no" | .each => "each" | .load => "load" | .loadscope => "loadscope"
  | .loadfile => "loadfile" | .loadgroup => "loadgroup" | .worksteal => "worksteal"

def parseNumProc (s : String) : Option Options.NumProc :=
  if s = "absent" then some .absent else if s = "auto" then some .auto
  else if s = "logical" then some .logical else s.toInt?.map .num

def parseOptInt (s : String) : Option (Option Int) :=
  if s = "None" then some none else s.toInt?.map some

def parseAutoEnv (s : String) : Option Options.AutoEnv :=
  if s = "unset" then some .unset else if s = "garbage" then some .garbage
  else s.toInt?.map .int

def showOptInt : Option Int → String
  | none => "None" | some k => toString k

/-- `opt|wopt <n> <maxproc> <dist> <d> <tx> <pdb> <collectonly> <looponfail> <autoenv> <cpu>` -/
def parseRaw (ws : List String) : Option (Options.Raw × Int) :=
  match ws with
  | [n, mp, dist, d, tx, pdb, co, lf, env, cpu] => do
    let n ← parseNumProc n
    let mp ← parseOptInt mp
    let dist ← parseDist dist
    let d ← parseBool d
    let pdb ← parseBool pdb
    let co ← parseBool co
    let lf ← parseBool lf
    let env ← parseAutoEnv env
    let cpu ← cpu.toNat?
    pure ({ n := n, maxproc := mp, dist := dist, distload := d, tx := parseStrList tx, usepdb := pdb,
            collectonly := co, looponfail := lf }, Options.autoNum env cpu)
  | _ => none

def showNorm (r : Except PyErr Options.Norm) : String :=
  match r with
  | .error e => e.name
  | .ok c =>
    let lf := match Options.looponfailMain c with
      | none => "none" | some (.ok _) => "run" | some (.error e) => e.name
    s!"ok n={showOptInt c.n} dist={showDist c.dist} tx={showStrList c.tx} dsession={showBool (Options.installsDSession c)} lf={lf} pdb={showBool c.usepdb}"

def handle (st : St) (line : String) : St × String :=
  match words line with
  | "opt" :: rest =>
    match parseRaw rest with
    | some (r, auto) => (st, showNorm (Options.cmdlineMain auto r))
    | none => (st, "bad-op")
  | "wopt" :: rest =>
    match parseRaw rest with
    | some (r, auto) =>
      (st, s!"{showNorm (Options.cmdlineMain auto (Options.workerSetup r))} loadgroup={showBool (Options.workerLoadgroup r)}")
    | none => (st, "bad-op")
  | ["auto", env, cpu] =>
    match parseAutoEnv env, cpu.toNat? with
    | some e, some c => (st, toString (Options.autoNum e c))
    | _, _ => (st, "bad-op")
  | ["sr-init"] => ({ st with cache := [] }, "ok")
  | ["sr-poll", roots, fs] =>
    match (parseStrList fs).mapM parseFsEntry with
    | none => (st, "bad-op")
    | some fs =>
      let r := Looponfail.check st.cache ((parseStrList roots).map parsePath) fs
      ({ st with cache := r.2 }, s!"{showBool r.1} {showStrList (sortStrings (r.2.map (fun e => showPath e.1)))}")
  | ["lf", fails, trails, cf] =>
    match parseBool cf with
    | none => (st, "bad-op")
    | some cf =>
      let r := Looponfail.loopOnce (parseStrList fails) (parseStrList trails) cf
      (st, s!"{showStrList r} {showBool (Looponfail.wasFailing (parseStrList fails))}")
  | ["restart", explicit, np] =>
    match parseOptInt explicit, parseOptInt np with
    | some ex, some n => (st, showOptInt (Xdist.Ctl.defaultMaxRestart ex n))
    | _, _ => (st, "bad-op")
  | ["split", mode, nid] =>
    let k := if mode = "loadfile" then SplitScope.fileKeyS (unesc nid)
      else if mode = "loadgroup" then SplitScope.groupKeyS (unesc nid)
      else SplitScope.scopeKeyS (unesc nid)
    (st, esc k)
  | ["tag", nid, g] => (st, esc (unesc nid ++ "@" ++ unesc g))
  | ["warn", kind, m, c, text, ad, catm, catc, impMsg, rebuild, impCat] =>
    -- kind: str | inst ; rebuild: ok | type | other ; catm "-" = no category
    match parseBool ad, parseBool impMsg, parseBool impCat with
    | some ad, some impMsg, some impCat =>
      let m := unesc m; let c := unesc c; let catm' := unesc catm; let catc' := unesc catc
      let rb : Warnings.Rebuild := if rebuild = "ok" then .ok else if rebuild = "type" then .typeError else .otherError
      let caps : Warnings.Caps :=
        { importable := fun a b => if a = "builtins" && b = "Warning" then true
                                    else if a = m && b = c && kind = "inst" then impMsg else if a = catm' && b = catc' then impCat else false
          rebuild := fun _ _ => rb }
      let w : Warnings.Warning :=
        { payload := if kind = "inst" then .inst m c (unesc text) ad else .str (unesc text)
          category := if catm = "-" then none else some (catm', catc')
          details := [] }
      match Warnings.receive caps (Warnings.serialize w) with
      | .error e => (st, e.name)
      | .ok o =>
        let msg := match o.message with
          | .str t => s!"str:{esc t}" | .rebuilt a b => s!"rebuilt:{esc a}.{esc b}" | .generic t => s!"generic:{esc t}"
        let cat := match o.category with | none => "-" | some (a, b) => s!"{esc a}.{esc b}"
        (st, s!"ok {msg} cat={cat}")
    | _, _, _ => (st, "bad-op")
  | ["reltoroot", ex, roots, pathStr, rest] =>
    match parseBool ex with
    | none => (st, "bad-op")
    | some ex =>
      let comps := fun (x : String) => (x.splitOn "/").filter (fun c => !c.isEmpty && c != ".")
      let ps := unesc pathStr
      match Remote.rewriteArg ex ((parseStrList roots).map comps) ps (comps ps) (unesc rest) with
      | .ok r => (st, s!"ok {esc r}")
      | .error e => (st, e.name)
  | ["rfilter", ignores, name, full] =>
    (st, showBool (Remote.filter ((parseStrList ignores).map String.toList) (unesc name).toList (unesc full).toList))
  | ["ignores", cmdline, ini] =>
    (st, showStrList ((Remote.ignoresOf ((parseStrList cmdline).map String.toList) ((parseStrList ini).map String.toList)).map String.ofList))
  | ["rsyncdirs", specs, cands] =>
    let sp := (parseStrList specs).map fun x => ({ popen := x.startsWith "p", chdir := x.endsWith "1" } : Remote.Spec)
    let cs := (parseStrList cands).map fun x => (x.splitOn "/").filter (fun c => !c.isEmpty)
    (st, showStrList ((Remote.rsyncDirs sp cs).map fun p => "/" ++ "/".intercalate p))
  | ["tx", l] =>
    match Options.expand ((parseStrList l).map String.toList) with
    | .ok r => (st, s!"ok {showStrList (r.map String.ofList)}")
    | .error e => (st, e.name)
  | _ => (st, "bad-op")

end Xdist.Driver.Pure
