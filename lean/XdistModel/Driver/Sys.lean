import XdistModel.Driver.Ctl
import XdistModel.Sys.System
/-
  Line protocol front end for the whole-system model: one line per step of the simulation
  (`main k …`, `deliver k`, `recv k`, `crash k b`, `ctl rq`), one observation line back.
-/
namespace Xdist.Driver.Sys
open Xdist Xdist.Driver
abbrev Any := Xdist.Sched.Any

structure St where
  sys : Option (Xdist.Sys.State Any String) := none
  specs : AList Nat Nat := []
  ids : AList Nat (List String) := []
  defIds : List String := []
  dead : Bool := false

def idsOf (st : St) (k : Nat) : List String :=
  match AList.lookup st.ids k with
  | some l => l
  | none => st.defIds

def showQ : Xdist.Worker.QItem → String
  | .test i => toString i
  | .shutdown => "S"

def pcName (w : Xdist.Sys.Wk String) : String :=
  match w.phase with
  | .boot => "boot" | .collect => "collect" | .finish => "finish" | .done => "done"
  | .loop =>
    match w.w.pc with
    | .init => "loop0" | .haveItem => "wait1" | .done => "finish"
    | .running => s!"run{w.sub}"

def wkObs (s : Xdist.Sys.State Any String) (k : Nat) : String :=
  match s.wk[k]? with
  | none => "no-such-worker"
  | some w =>
    let q := if w.w.torun.isEmpty then "-" else ",".intercalate (w.w.torun.map showQ)
    let running := w.phase = .loop ∧ w.w.pc = .running
    let cur := if running then (match w.w.cur with | some i => toString i | none => "-") else "-"
    let holdsNext := w.phase = .loop ∧ (w.w.pc = .running ∨ w.w.pc = .haveItem)
    let nx := if holdsNext then (match w.w.next with | some q => showQ q | none => "-") else "-"
    s!"w pc={pcName w} cur={cur} next={nx} q={q} in={w.inbox.length} out={w.outbox.length} alive={showBool w.alive} cq={(s.wk.map (fun x => x.posted.length)).foldl (· + ·) 0}"

def parseErrs : List String → Option (List (String × Bool))
  | [] => some []
  | k :: f :: rest => do
    let b ← parseBool f
    let r ← parseErrs rest
    pure ((unesc k, b) :: r)
  | _ => none

def parseFlags (s : String) : Option (List Bool) :=
  if s = "-" then some [] else s.toList.mapM (fun c => if c = '1' then some true else if c = '0' then some false else none)

def parseStep (ws : List String) : Option Xdist.Sys.Step :=
  match ws with
  | ["main", k] => k.toNat?.map (fun k => .main k .none)
  | "main" :: k :: "collect" :: g :: i :: sf :: errs => do
    let k ← k.toNat?; let g ← parseBool g; let i ← parseBool i; let es ← parseErrs errs
    pure (.main k (.collect es g i (Ctl.optStr sf)))
  | ["main", k, "reports", fs, sf, ss, ex] => do
    let k ← k.toNat?; let fs ← parseFlags fs; let ex ← parseBool ex
    pure (.main k (.reports fs (Ctl.optStr sf) (Ctl.optStr ss) ex))
  | ["main", k, "complete", slow] => do
    let k ← k.toNat?; let b ← parseBool slow
    pure (.main k (.complete b))
  | ["deliver", k] => k.toNat?.map .deliver
  | ["recv", k] => k.toNat?.map .recv
  | ["crash", k, b] => do
    let k ← k.toNat?; let b ← parseBool b
    pure (.crash k b)
  | ["ctl", k, rq] => do
    let k ← k.toNat?; let b ← parseBool rq
    pure (.ctl k b)
  | _ => none

def stepTarget : Xdist.Sys.Step → Option Nat
  | .main k _ => some k | .deliver k => some k | .recv k => some k | .crash k _ => some k | .ctl _ _ => none

def handle (st : St) (line : String) : St × String :=
  match words line with
  | ["ids", "*", l] => ({ st with defIds := parseStrList l }, "ok")
  | ["ids", k, l] =>
    match k.toNat? with
    | some k => ({ st with ids := AList.set st.ids k (parseStrList l) }, "ok")
    | none => (st, "bad-op")
  | ["spec", n, k] =>
    match n.toNat?, k.toNat? with
    | some n, some k => ({ st with specs := AList.set st.specs n k }, "ok")
    | _, _ => (st, "bad-op")
  | ["init", mode, nn, msc, maxfail, restart] =>
    match nn.toNat?, maxfail.toNat? with
    | some k, some mf =>
      let mscv : Option Int := if msc = "None" then none else msc.toInt?
      let rs : Option Int := if restart = "None" then none else restart.toInt?
      let s := Xdist.Sys.init (Xdist.Sched.iface []) (Xdist.Sched.make mode k mscv) k mf rs (idsOf st)
      ({ st with sys := some s, dead := false }, Ctl.obsOf s.ctl 0)
    | _, _ => (st, "bad-op")
  | ws =>
    if st.dead then (st, "dead") else
    match st.sys, parseStep ws with
    | some s, some a =>
      match Xdist.Sys.step (Xdist.Sched.iface st.specs) (idsOf st) s a with
      | .error .notEnabled => (st, "not-enabled")
      | .error (.py e) => ({ st with dead := true }, e.name)
      | .ok s' =>
        match stepTarget a with
        | some k => ({ st with sys := some s' }, wkObs s' k)
        | none =>
          let newOuts := s'.ctl.env.outs.drop s.ctl.env.outs.length
          let shown := { s'.ctl with env := { s'.ctl.env with outs := newOuts } }
          ({ st with sys := some s' }, Ctl.obsOf shown s.ctl.pubs.length)
    | _, _ => (st, "bad-op")

end Xdist.Driver.Sys
