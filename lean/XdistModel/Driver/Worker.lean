import XdistModel.Driver.Util
import XdistModel.Worker.Interactor
/-
  Line protocol front end for the worker model.  After every receiver op the main thread runs until it
  blocks again (`settle`): that is what the real thread does when the harness lets it go.
-/
namespace Xdist.Driver.Worker
open Xdist Xdist.Driver Xdist.Worker

def settle (s : State) : State :=
  let s1 := match get0 s with | some x => x | none => s
  match get1 s1 with | some x => x | none => s1

def showQ : QItem → String
  | .test i => toString i
  | .shutdown => "S"

def showPC : PC → String
  | .init => "wait0" | .haveItem => "wait1" | .running => "running" | .done => "done"

def showEv : WEvent → String
  | .complete i => s!"complete:{i}"
  | .unscheduled is => s!"unscheduled:{showNatList is}"

def showOptNat : Option Nat → String
  | some n => toString n | none => "None"

def obs (s : State) : String :=
  let q := if s.torun.isEmpty then "-" else ",".intercalate (s.torun.map showQ)
  let nx := match s.next with | some q => showQ q | none => "None"
  let cur := if s.pc = .running then showOptNat s.cur else "-"
  let ran := if s.ran.isEmpty then "-" else ";".intercalate (s.ran.map (fun p => s!"{p.1}>{showOptNat p.2}"))
  let sent := if s.sent.isEmpty then "-" else ";".intercalate (s.sent.map showEv)
  s!"pc={showPC s.pc} q={q} cur={cur} next={nx} ran={ran} sent={sent}"

def handle (s : State) (line : String) : State × String :=
  match words line with
  | ["init"] => let s' := settle ({} : State); (s', obs s')
  | ["put", is] =>
    match parseNatList is with
    | some l => let s' := settle (putMany s l); (s', obs s')
    | none => (s, "bad-op")
  | ["shutdown"] => let s' := settle (putShutdown s); (s', obs s')
  | ["steal", is] =>
    match parseNatList is with
    | some l => let s' := settle (steal s l); (s', obs s')
    | none => (s, "bad-op")
  | ["put", is, kk, b] =>
    -- `put i1..in @k b`: the main thread is released (protocol returns, stop=b) after the k-th put
    match parseNatList is, (kk.drop 1).toString.toNat?, parseBool b with
    | some l, some k, some stop =>
      let s1 := settle (putMany s (l.take k))
      let s2 := match finish s1 stop with | some x => settle x | none => s1
      let s' := settle (putMany s2 (l.drop k)); (s', obs s')
    | _, _, _ => (s, "bad-op")
  | ["steal", is, kk, b] =>
    -- `steal R @k b`: the steal is one critical section, so the release can only come after it
    match parseNatList is, parseBool b with
    | some l, some stop =>
      -- the reply is sent after the lock is released, i.e. after the pre-emption point
      let s0 := steal s l
      -- `@0`: the main thread is released while the receiver holds the lock; it can only wait for the lock, so the outcome
      -- is that of a release right after the critical section
      if kk = "@1" || kk = "@0" then
        let reply := s0.sent.drop s.sent.length
        let s1 := settle { s0 with sent := s.sent }
        let s2 := match finish s1 stop with | some x => settle x | none => s1
        let s' := { s2 with sent := s2.sent ++ reply }
        (s', obs s')
      else
        -- `steal` has a single critical section: a later pre-emption point does not exist, the release follows the command
        let s1 := settle s0
        let s' := match finish s1 stop with | some x => settle x | none => s1
        (s', obs s')
    | _, _ => (s, "bad-op")
  | ["pmain", b, k, cmd, arg] =>
    -- the protocol returns (stop=b) and the receiver executes `cmd` while the main thread is pre-empted somewhere inside its
    -- next `get()`: every step of the model is atomic, so the outcome is that of the two in sequence
    match parseBool b with
    | some stop =>
      match finish s stop with
      | none => (s, "disabled")
      | some s1 =>
        let s2 := settle s1
        match cmd, parseNatList arg with
        | "put", some l => let s' := settle (putMany s2 l); (s', obs s')
        | "steal", some l =>
          -- pre-empted before it takes the queue lock (its first synchronisation point): the steal comes first;
          -- anywhere later its `get` has already happened (the receiver cannot enter while the main thread holds the lock)
          let s' := if k = "1" || k = "1e" then settle (steal s1 l) else settle (steal s2 l)
          (s', obs s')
        | "shutdown", _ => let s' := settle (putShutdown s2); (s', obs s')
        | _, _ => (s, "bad-op")
    | none => (s, "bad-op")
  | ["main", b] =>
    match parseBool b with
    | none => (s, "bad-op")
    | some stop =>
      match finish s stop with
      | none => (s, "disabled")
      | some s1 => let s' := settle s1; (s', obs s')
  | _ => (s, "bad-op")

end Xdist.Driver.Worker
