import XdistModel.Driver.Util
import XdistModel.Sched.Iface
/-
  Line protocol front end for the six scheduler classes.
-/
namespace Xdist.Driver.Sched
open Xdist Xdist.Driver Xdist.Sched

structure St where
  sched : Any := .nosched
  env : Env := {}
  specs : AList Nat Nat := []
  dead : Bool := false          -- an exception escaped: the state is no longer specified

def showOut : SOut → String
  | .run n is => s!"run:{n}:{showNatList is}"
  | .runAll n => s!"runall:{n}"
  | .steal n is => s!"steal:{n}:{showNatList is}"
  | .shutdown n => s!"shutdown:{n}"
  | .collectReport n f => s!"collectreport:{n}:{f}"

def showOuts (l : List SOut) : String :=
  if l.isEmpty then "-" else ";".intercalate (l.map showOut)

def showBooks (d : AList Nat (List Nat)) : String :=
  if d.isEmpty then "-" else ";".intercalate (d.map (fun p => s!"{p.1}:{showNatList p.2}"))

def showUnit (u : LoadScope.WUnit String) : String :=
  ",".intercalate (u.map (fun p => s!"{esc p.1}={showBool p.2}"))

def showWorkload (w : LoadScope.Workload String String) : String :=
  if w.isEmpty then "-" else ";".intercalate (w.map (fun p => s!"{esc p.1}({showUnit p.2})"))

def viewOf : Any → String
  | .nosched => "-"
  | .load s => s!"P={showNatList s.pending} B={showBooks s.node2pending}"
  | .ws s =>
    let r := match s.stealReq with | some n => toString n | none => "-"
    s!"P={showNatList s.pending} B={showBooks s.node2pending} R={r}"
  | .scope _ s =>
    let a := if s.assigned.isEmpty then "-" else
      " ".intercalate (s.assigned.map (fun p => s!"{p.1}:[{showWorkload p.2}]"))
    s!"Q={showWorkload s.workqueue} A={a}"
  | .each s =>
    s!"B={showBooks s.node2pending} R={showBooks s.removed2pending} S={showNatList s.started}"

def parseOp (ws : List String) : Option (SOp String) :=
  match ws with
  | ["add", n] => n.toNat?.map SOp.addNode
  | ["coll", n, ids] => n.toNat?.map (fun n => SOp.addNodeCollection n (parseStrList ids))
  | ["sched"] => some SOp.schedule
  | ["done", n, i, slow] => do
    let n ← n.toNat?; let i ← i.toNat?; let b ← parseBool slow
    pure (SOp.markComplete n i b)
  | ["pend", t] => some (SOp.markPending (unesc t))
  | ["unsched", n, is] => do
    let n ← n.toNat?; let is ← parseNatList is
    pure (SOp.removePending n is)
  | ["rm", n] => n.toNat?.map SOp.removeNode
  | _ => none

def showFlags (e : Env) (ns : List Nat) : String :=
  if ns.isEmpty then "-" else
  ",".intercalate (ns.map (fun n => s!"{n}:{showBool (e.flags.shuttingDown n)}"))

def obs (st : St) : String :=
  s!"nodes={showNatList st.sched.nodes} sd={showFlags st.env st.sched.nodes} tf={showBool st.sched.tf} hp={showBool st.sched.hp} cic={showBool st.sched.cic} | {viewOf st.sched}"

def setFlag (st : St) (n : Nat) (f : NodeFlags → NodeFlags) : St :=
  { st with env := { st.env with flags := AList.set st.env.flags n (f (st.env.flags.get n)) } }

def handle (st : St) (line : String) : St × String :=
  let ws := words line
  match ws with
  | ["init", mode, nn, msc] =>
    match nn.toNat? with
    | none => (st, "bad-op")
    | some k =>
      let mscv : Option Int := if msc = "None" then none else msc.toInt?
      let sched : Any :=
        if mode = "load" then .load (Load.init k mscv)
        else if mode = "worksteal" then .ws (WorkSteal.init k)
        else if mode = "each" then .each (Each.init k)
        else .scope mode (LoadScope.init k)
      let st' : St := { sched := sched }
      (st', s!"ok | - | - | {obs st'}")
  | ["down", n] =>
    if st.dead then (st, "dead") else
    match n.toNat? with
    | some n => let st' := setFlag st n (fun f => { f with down := true }); (st', s!"ok | - | - | {obs st'}")
    | none => (st, "bad-op")
  | ["broken", n] =>
    if st.dead then (st, "dead") else
    match n.toNat? with
    | some n => let st' := setFlag st n (fun f => { f with broken := true }); (st', s!"ok | - | - | {obs st'}")
    | none => (st, "bad-op")
  | ["spec", n, k] =>
    if st.dead then (st, "dead") else
    match n.toNat?, k.toNat? with
    | some n, some k => let st' := { st with specs := AList.set st.specs n k }; (st', s!"ok | - | - | {obs st'}")
    | _, _ => (st, "bad-op")
  | ["shut", n] =>
    -- `node.shutdown()` for one node (the receiver thread writes a worker off after an undecodable message)
    if st.dead then (st, "dead") else
    match n.toNat? with
    | some n =>
      let e := ({ st.env with outs := [] } : Env).shutdown n
      let st' := { st with env := e }
      (st', s!"ok | {showOuts e.outs} | - | {obs st'}")
    | none => (st, "bad-op")
  | ["trig"] =>
    if st.dead then (st, "dead") else
    let e := ({ st.env with outs := [] } : Env).shutdownAll st.sched.nodes
    let st' := { st with env := e }
    (st', s!"ok | {showOuts e.outs} | - | {obs st'}")
  | _ =>
    if st.dead then (st, "dead") else
    match parseOp ws with
    | none => (st, "bad-op")
    | some op =>
      match st.sched.step st.specs { st.env with outs := [] } op with
      | .error err => ({ st with dead := true }, s!"{err.name}")
      | .ok (a, e, ret) =>
        let st' := { st with sched := a, env := e }
        let r := match op, ret with
          | .removeNode _, some t => s!"crash:{esc t}"
          | .removeNode _, none => "crash:None"
          | _, _ => "-"
        (st', s!"ok | {showOuts e.outs} | {r} | {obs st'}")

end Xdist.Driver.Sched
