import XdistModel.Py.Basic
/-
  Line-protocol helpers shared by all driver front ends.
  Strings travel percent-escaped (`%XX` for space, comma, percent, `;`, `|`, non-printables),
  lists comma-separated, `-` is the empty list, `~` the empty string.
-/
namespace Xdist.Driver

def hexVal (c : Char) : Option Nat :=
  if '0' ≤ c ∧ c ≤ '9' then some (c.toNat - '0'.toNat)
  else if 'a' ≤ c ∧ c ≤ 'f' then some (c.toNat - 'a'.toNat + 10)
  else if 'A' ≤ c ∧ c ≤ 'F' then some (c.toNat - 'A'.toNat + 10)
  else none

def unescAux : List Char → List Char
  | '%' :: a :: b :: r =>
    match hexVal a, hexVal b with
    | some x, some y => Char.ofNat (x * 16 + y) :: unescAux r
    | _, _ => '%' :: unescAux (a :: b :: r)
  | c :: r => c :: unescAux r
  | [] => []

def unesc (s : String) : String := if s = "~" then "" else String.ofList (unescAux s.toList)

def hexDigit (n : Nat) : Char := if n < 10 then Char.ofNat (48 + n) else Char.ofNat (87 + n)

def escChar (c : Char) : List Char :=
  if c = ' ' ∨ c = ',' ∨ c = '%' ∨ c = ';' ∨ c = '|' ∨ c = '~' ∨ c = '-' ∨ c.toNat < 33 ∨ c.toNat > 126 then
    if c.toNat < 256 then ['%', hexDigit (c.toNat / 16), hexDigit (c.toNat % 16)]
    else [c]
  else [c]

def esc (s : String) : String :=
  if s.isEmpty then "~" else String.ofList (s.toList.flatMap escChar)

def splitList (s : String) : List String :=
  if s = "-" then [] else s.splitOn ","

def parseNatList (s : String) : Option (List Nat) := (splitList s).mapM String.toNat?
def parseStrList (s : String) : List String := (splitList s).map unesc

def showNatList (l : List Nat) : String :=
  if l.isEmpty then "-" else ",".intercalate (l.map toString)
def showStrList (l : List String) : String :=
  if l.isEmpty then "-" else ",".intercalate (l.map esc)

def showBool (b : Bool) : String := if b then "1" else "0"
def parseBool (s : String) : Option Bool :=
  if s = "1" then some true else if s = "0" then some false else none

def words (line : String) : List String :=
  (line.splitOn " ").filter (fun w => !w.isEmpty)

def trimLine (line : String) : String :=
  let cs := line.toList
  let cs := cs.reverse.dropWhile (fun c => c = '\n' ∨ c = '\r')
  String.ofList cs.reverse

/-- run a stateful line processor over stdin -/
partial def loop {σ : Type} (h : IO.FS.Stream) (out : IO.FS.Stream) (st : σ)
    (f : σ → String → σ × String) : IO Unit := do
  let line ← h.getLine
  if line.isEmpty then
    out.flush
    return ()
  let (st', o) := f st (trimLine line)
  out.putStrLn o
  loop h out st' f

end Xdist.Driver
