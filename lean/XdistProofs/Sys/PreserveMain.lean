import XdistProofs.Sys.Preserve

namespace Xdist.Sys
open Xdist

variable {τ : Type} [DecidableEq τ]

theorem ne_boot_of_eq {w : Wk τ} {p : Phase} (h : w.phase = p) (hp : p ≠ .boot) : w.phase ≠ .boot := by rw [h]; exact hp

/-- **every step of a worker's main thread keeps the per-worker invariant** -/
theorem mainStep_inv {c : Ctl.State (Load.State τ) τ} {k : Nat} {w w' : Wk τ} {p : MainP} (h : WkInv c k w)
    (hm : mainStep k w p = some w') : WkInv c k w' := by
  unfold mainStep at hm
  have ha : w.alive = true := by
    cases hh : w.alive with
    | true => rfl
    | false => simp [hh] at hm
  have hna : (!w.alive) = false := by simp [ha]
  simp only [hna, Bool.false_eq_true, ↓reduceIte] at hm
  have L := h.local
  cases hph : w.phase with
  | boot =>
    simp only [hph, Option.some.injEq] at hm
    subst hm
    exact boot_inv h ha hph
  | collect =>
    simp only [hph] at hm
    have he := h.early (Or.inr hph)
    cases p with
    | collect errs garbage intr sf0 =>
      simp only at hm
      have hevs : ∀ e ∈ errs.map (fun (e : String × Bool) => Ctl.Event.collectreport (τ := τ) k e.1 e.2) ++ [Ctl.Event.collectionfinish k w.ids],
          Own k e = true ∧ isReady e = false ∧ complIdx e = none := by
        intro e he'
        rcases List.mem_append.1 he' with he' | he'
        · obtain ⟨x, _, rfl⟩ := List.mem_map.1 he'
          simp [Own, isReady, complIdx]
        · simp at he'; subst he'; simp [Own, isReady, complIdx]
      split at hm
      · -- collection errors: the worker's session ends
        simp only [Option.some.injEq] at hm
        subst hm
        refine wkInv_emit_nc _ _ (by simpa using evOf_collect_msgs k w.ids errs [] rfl) h rfl rfl rfl rfl hevs
          (ne_boot_of_eq hph (by simp)) (by simp) ?_ (fun hs => hs) ?_ rfl (Or.inl ⟨ha, by simp⟩) ?_
        · exact ⟨by simp, fun hh => L.running hh, L.have1, L.init0, by simp⟩
        · intro _; simp [collPending, flight, List.filterMap_append, evOf, isColl]
        · intro m hm
          simp only [List.mem_append, List.mem_cons, List.mem_map, List.mem_singleton, List.not_mem_nil, or_false, false_or] at hm
          rcases hm with (rfl | ⟨x, _, rfl⟩) | rfl <;> simp [plainMsg, isNotice]
      · simp only [Option.some.injEq] at hm
        subst hm
        refine wkInv_emit_nc _ _ (evOf_collect_msgs k w.ids errs (if garbage then [WMsg.garbage] else []) (by split <;> simp [evOf])) h
          rfl rfl rfl (by simp [List.append_assoc]) hevs
          (ne_boot_of_eq hph (by simp)) (by simp) ?_ (fun hs => hs) ?_ rfl (Or.inl ⟨ha, by simp⟩) ?_
        · refine ⟨fun _ => ⟨rfl, by rw [he.1]; simp⟩, fun hh => L.running hh, L.have1, L.init0, by simp⟩
        · intro _; simp [collPending, flight, List.filterMap_append, evOf, isColl]
        · intro m hm
          simp only [List.mem_append, List.mem_cons, List.mem_map, List.mem_singleton, List.not_mem_nil, or_false, false_or] at hm
          rcases hm with ((rfl | ⟨x, _, rfl⟩) | rfl) | hm
          · simp [plainMsg]
          · simp [plainMsg, isNotice]
          · simp [plainMsg, isNotice]
          · split at hm <;> simp at hm
            subst hm; simp [plainMsg]
    | none => simp at hm
    | reports fs sf ss ex => simp at hm
    | complete slow => simp at hm
  | finish =>
    simp only [hph, Option.some.injEq] at hm
    subst hm
    refine wkInv_emit [.fin w.exitstatus w.sf w.ss, .endMarker] h rfl rfl rfl rfl ?_ (ne_boot_of_eq hph (by simp)) (by simp) ?_
      (fun hs => hs) (collPending_emit k rfl rfl (ne_boot_of_eq hph (by simp)) (by rw [hph]; simp)) ?_ (Or.inr (by simp [isEnd]))
      (by intro m hm; simp at hm; rcases hm with rfl | rfl <;> simp [plainMsg])
    · intro e he'
      simp [evOf] at he'
      subst he'; simp [Own, isReady]
    · exact ⟨by simp, L.running, L.have1, L.init0, by simp⟩
    · simp [completes, complIdx, evOf, heldS]
  | done => simp [hph] at hm
  | loop =>
    simp only [hph] at hm
    have hcb := (L.loopCb hph).1
    have hnb : w.phase ≠ .boot := ne_boot_of_eq hph (by simp)
    have hnc : w.phase ≠ .collect := by rw [hph]; simp
    have hnil : ∀ e ∈ ([] : List (WMsg τ)).filterMap (evOf k), Own k e = true ∧ isReady e = false := by
      intro e he; simp at he
    cases hpc : w.w.pc with
    | done => exact absurd hpc (L.loopCb hph).2
    | init =>
      simp only [hpc] at hm
      obtain ⟨x, hx, rfl⟩ := Option.map_eq_some_iff.1 hm
      unfold Worker.get0 at hx
      simp only [hpc, ne_eq, not_true_eq_false, ↓reduceIte] at hx
      have hn0 := L.init0 hpc
      cases ht : w.w.torun with
      | nil => simp [ht] at hx
      | cons q r =>
        simp only [ht, Option.some.injEq] at hx
        subst hx
        cases q with
        | test i =>
          refine wkInv_emit [] h rfl rfl rfl (List.append_nil _).symm hnil hnb (by simp) ?_ ?_
            (collPending_emit k rfl (List.append_nil _).symm hnb hnc) ?_ (Or.inl ⟨ha, by simp⟩)
          · exact ⟨fun _ => ⟨hcb, by simp⟩, by simp, fun _ => ⟨i, rfl⟩, by simp, by simp⟩
          · intro hs
            rw [shutSeen_def] at hs ⊢
            simp only [ht, hn0] at hs
            simpa using hs
          · simp [completes, heldS, hpc, hn0, ht, tests_cons_test]
        | shutdown =>
          refine wkInv_emit [] h rfl rfl rfl (List.append_nil _).symm hnil hnb (by simp) ?_ ?_
            (collPending_emit k rfl (List.append_nil _).symm hnb hnc) ?_ (Or.inl ⟨ha, by simp⟩)
          · exact ⟨by simp, by simp, by simp, by simp, by simp⟩
          · intro _; rw [shutSeen_def]; simp
          · simp [completes, heldS, hpc, hn0, ht, tests_cons_shut]
    | haveItem =>
      simp only [hpc] at hm
      obtain ⟨x, hx, rfl⟩ := Option.map_eq_some_iff.1 hm
      unfold Worker.get1 at hx
      simp only [hpc, ne_eq, not_true_eq_false, ↓reduceIte] at hx
      obtain ⟨j, hj⟩ := L.have1 hpc
      cases ht : w.w.torun with
      | nil => simp [hj, ht] at hx
      | cons q r =>
        simp only [hj, ht, Option.some.injEq] at hx
        subst hx
        refine wkInv_emit [] h rfl rfl rfl (List.append_nil _).symm hnil hnb (by simp [hph]) ?_ ?_
          (collPending_emit k rfl (List.append_nil _).symm hnb hnc) ?_ (Or.inl ⟨ha, by simp [hph]⟩)
        · exact ⟨fun _ => ⟨hcb, by simp⟩, by simp, by simp, by simp, by simp [hph]⟩
        · intro hs
          rw [shutSeen_def] at hs ⊢
          simp only [ht, hj] at hs
          cases q with
          | test i => simpa using hs
          | shutdown => simp
        · cases q with
          | test i => simp [completes, heldS, hpc, hj, ht, tests_cons_test]
          | shutdown => simp [completes, heldS, hpc, hj, ht, tests_cons_shut]
    | running =>
      simp only [hpc] at hm
      obtain ⟨hsub, hcur⟩ := L.running hpc
      obtain ⟨i, hi⟩ := Option.isSome_iff_exists.1 hcur
      have hsubcases : w.sub = 0 ∨ w.sub = 1 ∨ w.sub = 2 := by omega
      rcases hsubcases with h0 | h0 | h0
      · simp only [h0, Option.some.injEq] at hm
        subst hm
        refine wkInv_emit_nc [.ev .other] [.other] (by simp [evOf]) h rfl rfl rfl rfl ?_ hnb (by simp [hph]) ?_ (fun hs => hs)
          (collPending_emit k rfl rfl hnb hnc) rfl (Or.inl ⟨ha, by simp [hph]⟩) (by intro m hm; simp at hm; subst hm; simp [plainMsg, isNotice])
        · intro e he'; simp at he'; subst he'; simp [Own, isReady, complIdx]
        · exact ⟨fun _ => L.loopCb hph, fun _ => ⟨by simp, hcur⟩, L.have1, L.init0, by simp [hph]⟩
      · cases p with
        | reports fs sf ss ex =>
          simp only [h0, Option.some.injEq] at hm
          subst hm
          refine wkInv_emit_nc (fs.map (fun f => WMsg.ev (Ctl.Event.testreport k f)) ++ [WMsg.ev Ctl.Event.other])
            (fs.map (fun f => Ctl.Event.testreport k f) ++ [Ctl.Event.other])
            (by rw [List.filterMap_append, filterMap_evOf_map_ev]; simp [evOf]) h rfl rfl rfl (List.append_assoc _ _ _) ?_ hnb (by simp [hph]) ?_
            (fun hs => hs) (collPending_emit k rfl (List.append_assoc _ _ _) hnb hnc) rfl (Or.inl ⟨ha, by simp [hph]⟩)
            (by
              intro m hm
              simp only [List.mem_append, List.mem_map, List.mem_singleton] at hm
              rcases hm with ⟨x, _, rfl⟩ | rfl <;> simp [plainMsg, isNotice])
          · intro e he'
            rcases List.mem_append.1 he' with he' | he'
            · obtain ⟨x, _, rfl⟩ := List.mem_map.1 he'
              simp [Own, isReady, complIdx]
            · simp at he'; subst he'; simp [Own, isReady, complIdx]
          · exact ⟨fun _ => L.loopCb hph, fun _ => ⟨by simp, hcur⟩, L.have1, L.init0, by simp [hph]⟩
        | none => simp [h0] at hm
        | collect a b => simp [h0] at hm
        | complete slow => simp [h0] at hm
      · cases p with
        | complete slow =>
          simp only [h0] at hm
          by_cases hx : w.exitstatus = 2
          · simp only [hx, ↓reduceIte, Option.some.injEq] at hm
            subst hm
            refine wkInv_emit [] h rfl rfl rfl (List.append_nil _).symm hnil hnb (by simp) ?_ (fun hs => hs)
              (collPending_emit k rfl (List.append_nil _).symm hnb hnc) ?_ (Or.inl ⟨ha, by simp⟩)
            · exact ⟨by simp, fun _ => ⟨Nat.le_refl 2, hcur⟩, L.have1, L.init0, by simp⟩
            · simp [completes, heldS]
          · simp only [hx, ↓reduceIte, hi] at hm
            unfold Worker.finish at hm
            simp only [hpc, ne_eq, not_true_eq_false, ↓reduceIte, hi, Option.some.injEq] at hm
            subst hm
            have hown1 : ∀ e ∈ [WMsg.ev (Ctl.Event.complete (τ := τ) k i slow)].filterMap (evOf k), Own k e = true ∧ isReady e = false := by
              intro e he'; simp [evOf] at he'; subst he'; simp [Own, isReady]
            -- the program point after the completion, case by case
            by_cases hstop : (w.sf.isSome || w.ss.isSome) = true
            · simp only [hstop, ↓reduceIte]
              refine wkInv_emit [.ev (.complete k i slow)] h rfl rfl rfl rfl hown1 hnb (by simp) ?_ (fun hs => by simpa [shutSeen_def] using hs)
                (collPending_emit k rfl rfl hnb hnc) ?_ (Or.inl ⟨ha, by simp⟩)
              · exact ⟨by simp, by simp, by simp, by simp, by simp⟩
              · simp [completes, complIdx, evOf, heldS, hpc, hi]
            · simp only [hstop, Bool.false_eq_true, ↓reduceIte]
              cases hnx : w.w.next with
              | none =>
                refine wkInv_emit [.ev (.complete k i slow)] h rfl rfl rfl rfl hown1 hnb (by simp) ?_ (fun hs => by simpa [shutSeen_def, hnx] using hs)
                  (collPending_emit k rfl rfl hnb hnc) ?_ (Or.inl ⟨ha, by simp⟩)
                · exact ⟨by simp, by simp, by simp, by simp, by simp⟩
                · simp [completes, complIdx, evOf, heldS, hpc, hi, hnx]
              | some q =>
                cases q with
                | test j =>
                  refine wkInv_emit [.ev (.complete k i slow)] h rfl rfl rfl rfl hown1 hnb (by simp) ?_ (fun hs => by simpa [shutSeen_def, hnx] using hs)
                    (collPending_emit k rfl rfl hnb hnc) ?_ (Or.inl ⟨ha, by simp⟩)
                  · exact ⟨fun _ => ⟨hcb, by simp⟩, by simp, fun _ => ⟨j, by simp [hnx]⟩, by simp, by simp⟩
                  · simp [completes, complIdx, evOf, heldS, hpc, hi, hnx]
                | shutdown =>
                  refine wkInv_emit [.ev (.complete k i slow)] h rfl rfl rfl rfl hown1 hnb (by simp) ?_ (fun _ => by simp [shutSeen_def, hnx])
                    (collPending_emit k rfl rfl hnb hnc) ?_ (Or.inl ⟨ha, by simp⟩)
                  · exact ⟨by simp, by simp, by simp, by simp, by simp⟩
                  · simp [completes, complIdx, evOf, heldS, hpc, hi, hnx]
        | none => simp [h0] at hm
        | collect a b => simp [h0] at hm
        | reports a b c d => simp [h0] at hm

end Xdist.Sys
