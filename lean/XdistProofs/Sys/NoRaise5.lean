import XdistProofs.Sys.NoRaise4
/-! The eleventh layer is kept by crashes, the receiver threads and the controller; `workerready` never raises. -/
namespace Xdist.Sys
open Xdist Xdist.Ctl Xdist.Load Xdist.Contract

variable {τ : Type} [DecidableEq τ]

theorem WkInv11.congr {c c' : Ctl.State (Load.State τ) τ} {k : Nat} {w : Wk τ} (hs : c'.sched = c.sched) (h : WkInv11 c k w) :
    WkInv11 c' k w := ⟨h.shape, by rw [hs]; exact h.bootNoKey, by rw [hs]; exact h.readyNew⟩

theorem inv11_setWk {st : LState τ} {k : Nat} {w w' : Wk τ} (hinv : Inv11 st) (hw : st.wk[k]? = some w)
    (h' : WkInv11 st.ctl k w') : Inv11 (setWk st k w') := by
  intro j wj hj
  by_cases hjk : j = k
  · subst hjk
    simp only [setWk] at hj
    rw [getElem?_set_self' hw] at hj
    cases hj
    exact h'
  · simp only [setWk] at hj
    rw [List.getElem?_set_ne (Ne.symm hjk)] at hj
    exact hinv j wj hj

/-- the receiver thread moves, or drops, the oldest message of the channel -/
theorem recv_wk11 {c : Ctl.State (Load.State τ) τ} {j : Nat} {w w2 : Wk τ} {m : WMsg τ} {rest : List (WMsg τ)} {d sn : Bool}
    (h : WkInv11 c j w) (ho : w.outbox = m :: rest)
    (hout : w2.outbox = rest) (hph : w2.phase = w.phase)
    (hpo : w2.posted = w.posted ++ (Receiver.step (α := Ctl.Event τ) { down := d, shutdownSent := sn } (toRecv j m)).2.1.map (ofPost j)) :
    WkInv11 c j w2 := by
  generalize hevs : (Receiver.step (α := Ctl.Event τ) { down := d, shutdownSent := sn } (toRecv j m)).2.1.map (ofPost j) = evs at hpo
  have hposts := recv_posts j d sn m
  simp only [hevs] at hposts
  -- whatever is posted is what was at the head of the channel, or a death notice
  have hP : evs.any isReady = true → ((evOf j m).toList).any isReady = true := by
    intro he
    rcases hposts with h' | ⟨_, h'⟩ | ⟨_, h', _⟩
    · rw [h'] at he; cases he
    · rw [← h']; exact he
    · rw [h'] at he; simp [isReady] at he
  have hfl : flight j w = w.posted ++ ((evOf j m).toList ++ rest.filterMap (evOf j)) := by
    unfold flight; rw [ho, filterMap_cons_toList]
  have hfl2 : flight j w2 = w.posted ++ (evs ++ rest.filterMap (evOf j)) := by
    unfold flight; rw [hpo, hout, List.append_assoc]
  have hmono : (flight j w2).any isReady = true → (flight j w).any isReady = true := by
    rw [hfl, hfl2]
    simp only [any_isReady_append, Bool.or_eq_true]
    rintro (h1 | h2 | h3)
    · exact Or.inl h1
    · exact Or.inr (Or.inl (hP h2))
    · exact Or.inr (Or.inr h3)
  refine ⟨?_, fun hb => h.bootNoKey (by rw [← hph]; exact hb), fun hf => h.readyNew (hmono hf)⟩
  rcases h.shape with h0 | ⟨ps, h1, h2⟩ | ⟨h1, os, h2, h3⟩
  · left
    cases hh : (flight j w2).any isReady with
    | false => rfl
    | true => rw [hmono hh] at h0; cases h0
  · right; left
    refine ⟨ps ++ evs, by rw [hpo, h1]; rfl, ?_⟩
    rw [ho, filterMap_cons_toList] at h2
    rw [hout]
    simp only [any_isReady_append, Bool.or_eq_false_iff] at h2 ⊢
    refine ⟨⟨h2.1, ?_⟩, h2.2.2⟩
    cases hh : evs.any isReady with
    | false => rfl
    | true => rw [hP hh] at h2; cases h2.2.1
  · rw [ho] at h2
    simp only [List.cons.injEq] at h2
    obtain ⟨rfl, rfl⟩ := h2
    rcases hposts with h' | ⟨_, h'⟩ | ⟨_, _, h'⟩
    · left
      rw [hfl2, h1, h']
      simpa using h3
    · right; left
      refine ⟨[], by rw [hpo, h1, h']; rfl, ?_⟩
      rw [hout]; simpa using h3
    · simp [evOf] at h'

/-- which workers the scheduler knows after an iteration -/
theorem keys_after {c c' : Ctl.State (Load.State τ) τ} {ev : Ctl.Event τ} {new : List SOut} {b1 : Load.Books}
    (f : CtlFacts c ev c' new b1) {j : Nat} (hj : j ∈ AList.keys c'.sched.node2pending) :
    j ∈ AList.keys c.sched.node2pending ∨ ev = .workerready j := by
  rw [f.acc.keys] at hj
  have hprep := f.prep
  cases ev with
  | workerready n =>
    rcases hprep with rfl | ⟨_, rfl⟩
    · exact Or.inl hj
    · rcases (AList.mem_keys_set _ _ _ _).1 hj with rfl | h
      · exact Or.inr rfl
      · exact Or.inl h
  | complete n i s =>
    obtain ⟨book, hl, _, rfl⟩ := hprep
    rcases (AList.mem_keys_set _ _ _ _).1 hj with rfl | h
    · left
      exact (AList.lookup_isSome_iff_mem_keys _ _).1 (by rw [hl]; rfl)
    · exact Or.inl h
  | errordown n rq =>
    rcases hprep with rfl | ⟨book, _, rfl⟩
    · exact Or.inl hj
    · exact Or.inl (AList.mem_keys_of_mem_keys_erase _ _ _ hj)
  | workerfinished n x sf ss =>
    rcases hprep with rfl | ⟨book, _, rfl⟩
    · exact Or.inl hj
    · exact Or.inl (AList.mem_keys_of_mem_keys_erase _ _ _ hj)
  | internalError n => cases hprep; exact Or.inl hj
  | collectionfinish n ids => cases hprep; exact Or.inl hj
  | testreport n fl => cases hprep; exact Or.inl hj
  | unscheduled n is => cases hprep; exact Or.inl hj
  | collectreport n key fl => cases hprep; exact Or.inl hj
  | other => cases hprep; exact Or.inl hj

theorem step_inv11 (idsOf : Nat → List τ) {st st' : LState τ} (a : Step) (h1 : Inv st) (h11 : Inv11 st)
    (h : step loadI idsOf st a = .ok st') : Inv11 st' := by
  cases a with
  | main k p =>
    simp only [Sys.step] at h
    split at h
    · cases h
    · rename_i w hw
      split at h
      · cases h
      · rename_i w' hm
        simp only [Except.ok.injEq] at h; subst h
        exact inv11_setWk h11 hw (mainStep_inv11 (h1.wk hw) (h11 k w hw) hm)
  | deliver k =>
    simp only [Sys.step] at h
    split at h
    · cases h
    · rename_i w hw
      split at h
      · cases h
      · rename_i w' hm
        simp only [Except.ok.injEq] at h; subst h
        exact inv11_setWk h11 hw (deliverStep_inv11 (h11 k w hw) hm)
  | crash k b =>
    simp only [Sys.step] at h
    split at h
    · cases h
    rename_i s1 hc
    simp only [Except.ok.injEq] at h; subst h
    unfold crashStep at hc
    split at hc
    · cases hc
    rename_i w hw
    split at hc
    · cases hc
    have base : Inv11 (setWk st k ({ w with alive := false, inbox := [], outbox := w.outbox ++ [.endMarker] } : Wk τ)) :=
      inv11_setWk h11 hw (wkInv11_emit [.endMarker] (h11 k w hw) rfl rfl (by simp [evOf]) (fun hb => hb))
    split at hc
    · simp only [Option.some.injEq] at hc; subst hc
      intro j wj hj
      exact ⟨(base j wj hj).shape, (base j wj hj).bootNoKey, (base j wj hj).readyNew⟩
    · simp only [Option.some.injEq] at hc; subst hc; exact base
  | recv k =>
    simp only [Sys.step] at h
    split at h
    · cases h
    rename_i s1 hr
    simp only [Except.ok.injEq] at h; subst h
    obtain ⟨w, m, rest, fl', w2, outs', hw, ho, rfl, hfl', hw2⟩ := recvStep_shape hr
    simp only at hfl' hw2
    intro j wj hj
    by_cases hjk : j ≠ k
    · simp only at hj
      rw [List.getElem?_set_ne (Ne.symm hjk)] at hj
      exact ⟨(h11 j wj hj).shape, (h11 j wj hj).bootNoKey, (h11 j wj hj).readyNew⟩
    have hjk : j = k := Classical.byContradiction hjk
    subst hjk
    simp only at hj
    rw [getElem?_set_self' hw] at hj
    cases hj
    have hres : WkInv11 st.ctl j w2 := by
      refine recv_wk11 (d := (st.ctl.env.flags.get j).down) (sn := (st.ctl.env.flags.get j).sent) (h11 j w hw) ho ?_ ?_ ?_
      · rw [hw2]; split
        · split <;> rfl
        · rfl
      · rw [hw2]; split
        · split <;> rfl
        · rfl
      · rw [hw2]; split
        · split <;> rfl
        · rfl
    exact ⟨hres.shape, hres.bootNoKey, hres.readyNew⟩
  | ctl k rq =>
    simp only [Sys.step] at h
    obtain ⟨w, ev0, rest, c', hw, hp, hl, rfl⟩ := ctlStep_shape h
    have hk : k < st.wk.length := by
      rcases Nat.lt_or_ge k st.wk.length with h' | h'
      · exact h'
      · rw [List.getElem?_eq_none h'] at hw; cases hw
    have hlen := h1.1.len
    have wi := h1.wk hw
    have hown : Own k ev0 = true := wi.ownP ev0 (by rw [hp]; simp)
    obtain ⟨new, b1, f⟩ := ctl_facts h1.1 (by rw [← hlen]; exact hk) (fixRq_own rq hown) hl
    have hnew : c'.env.outs.drop st.ctl.env.outs.length = new := by rw [f.outs]; simp
    rw [hnew]
    have hsubj : ∀ j, fixRq rq ev0 = .workerready j → j = k := by
      intro j hj
      have : Own k (fixRq rq ev0) = true := fixRq_own rq hown
      rw [hj] at this
      simpa [Own] using this
    have hsetlen : (st.wk.set k ({ w with posted := rest } : Wk τ)).length = st.ctl.nextId := by simp [hlen]
    intro j wj hj
    simp only at hj
    rw [route_get] at hj
    by_cases hjl : j < st.wk.length
    · rw [spawn_get_old _ _ _ _ (by simpa using hjl)] at hj
      by_cases hjk : j = k
      · subst hjk
        rw [getElem?_set_self' hw] at hj
        simp only [Option.map_some, Option.some.injEq] at hj
        subst hj
        have h0 := h11 j w hw
        obtain ⟨r1, r2, r3, r4, r5⟩ := routed_fields j new ({ w with posted := rest } : Wk τ)
        have hflr : flight j (routed j new ({ w with posted := rest } : Wk τ)) = rest ++ w.outbox.filterMap (evOf j) := by
          unfold flight; rw [r3, r4]
        -- after the oldest event is taken, no `workerready` is left
        have hno : (rest ++ w.outbox.filterMap (evOf j)).any isReady = false := by
          rcases h0.shape with h' | ⟨ps, h', h''⟩ | ⟨h', _⟩
          · unfold flight at h'
            rw [hp, List.cons_append, List.any_cons, Bool.or_eq_false_iff] at h'
            exact h'.2
          · rw [hp] at h'
            simp only [List.cons.injEq] at h'
            rw [h'.2]; exact h''
          · rw [hp] at h'; cases h'
        refine ⟨Or.inl (by rw [hflr]; exact hno), ?_, fun hf => by rw [hflr, hno] at hf; cases hf⟩
        intro hb
        rw [r2] at hb
        have hb' : w.phase = .boot := hb
        intro hkey
        rcases keys_after f hkey with h' | h'
        · exact h0.bootNoKey hb' h'
        · have hnr := wi.bootNoReady hb'
          have hev : isReady ev0 = true := by
            have := congrArg isReady h'
            rw [fixRq_isReady] at this
            rw [this]; rfl
          unfold flight at hnr
          rw [hp, List.cons_append, List.any_cons, hev] at hnr
          cases hnr
      · rw [List.getElem?_set_ne (Ne.symm hjk)] at hj
        cases hwj : st.wk[j]? with
        | none => rw [hwj] at hj; cases hj
        | some w0 =>
          rw [hwj] at hj
          simp only [Option.map_some, Option.some.injEq] at hj
          subst hj
          have h0 := h11 j w0 hwj
          obtain ⟨r1, r2, r3, r4, r5⟩ := routed_fields j new w0
          have hflr : flight j (routed j new w0) = flight j w0 := by unfold flight; rw [r3, r4]
          have hkeys : j ∈ AList.keys c'.sched.node2pending → j ∈ AList.keys st.ctl.sched.node2pending := by
            intro hkey
            rcases keys_after f hkey with h' | h'
            · exact h'
            · exact absurd (hsubj j h') hjk
          refine ⟨?_, fun hb hkey => h0.bootNoKey (by rw [← r2]; exact hb) (hkeys hkey),
            fun hf hkey => h0.readyNew (by rw [← hflr]; exact hf) (hkeys hkey)⟩
          unfold RShape
          rw [hflr, r3, r4]
          exact h0.shape
    · have hjl' : st.wk.length ≤ j := Nat.le_of_not_lt hjl
      by_cases hju : j < c'.nextId
      · rw [spawn_get_new _ _ _ _ (by simpa using hjl') hju] at hj
        simp only [Option.map_some, Option.some.injEq] at hj
        subst hj
        obtain ⟨r1, r2, r3, r4, r5⟩ := routed_fields j new ({ ids := idsOf j } : Wk τ)
        have hflr : flight j (routed j new ({ ids := idsOf j } : Wk τ)) = [] := by unfold flight; rw [r3, r4]; rfl
        have hnokey : j ∉ AList.keys c'.sched.node2pending := by
          intro hkey
          rcases keys_after f hkey with h' | h'
          · have := h1.1.keysLt j h'
            omega
          · have := hsubj j h'
            omega
        exact ⟨Or.inl (by rw [hflr]; rfl), fun _ => hnokey, fun _ => hnokey⟩
      · have : (spawn idsOf (st.wk.set k ({ w with posted := rest } : Wk τ)) c'.nextId)[j]? = none := by
          apply List.getElem?_eq_none
          rw [spawn_length _ _ _ (by rw [hsetlen]; exact f.nextLe)]
          omega
        rw [this] at hj; cases hj

theorem init_inv11 (numnodes maxfail : Nat) (msc maxRestart : Option Int) (idsOf : Nat → List τ) :
    Inv11 (init loadI (Load.init numnodes msc) numnodes maxfail maxRestart idsOf) := by
  intro j w hj
  simp only [init, List.getElem?_map] at hj
  cases hr : (List.range numnodes)[j]? with
  | none => rw [hr] at hj; cases hj
  | some x =>
    rw [hr] at hj
    simp only [Option.map_some, Option.some.injEq] at hj
    subst hj
    refine ⟨Or.inl rfl, ?_, ?_⟩ <;> intro _ hk <;> simp [init, Ctl.init, Load.init, AList.keys] at hk

theorem reach_inv11 (numnodes maxfail : Nat) (msc maxRestart : Option Int) (idsOf : Nat → List τ) {st : LState τ}
    (h : Reach idsOf (init loadI (Load.init numnodes msc) numnodes maxfail maxRestart idsOf) st) : Inv st ∧ Inv11 st := by
  induction h with
  | init => exact ⟨init_inv numnodes maxfail msc maxRestart idsOf, init_inv11 numnodes maxfail msc maxRestart idsOf⟩
  | step a _ hs ih => exact ⟨step_inv idsOf a ih.1 hs, step_inv11 idsOf a ih.1 ih.2 hs⟩

/-- **`worker_workerready` returns**: the node is not yet known to the scheduler -/
theorem handle_ready_total {st : LState τ} (i1 : Inv st) (i11 : Inv11 st) {k n : Nat} {w : Wk τ} {rest : List (Ctl.Event τ)}
    (hw : st.wk[k]? = some w) (hp : w.posted = .workerready n :: rest) :
    ∃ c1, handle loadI st.ctl (.workerready n) = .ok c1 := by
  have wi := i1.wk hw
  have hown := wi.ownP (.workerready n) (by rw [hp]; simp)
  have hnk : n = k := by simpa [Own] using hown
  subst hnk
  have hfl : (flight n w).any isReady = true := by
    unfold flight; rw [hp]; simp [isReady]
  have hnk := (i11 n w hw).readyNew hfl
  simp only [handle]
  split
  · exact ⟨_, rfl⟩
  · have : AList.contains st.ctl.sched.node2pending n = false := by
      unfold AList.contains
      cases hl : AList.lookup st.ctl.sched.node2pending n with
      | none => rfl
      | some b => exact absurd ((AList.lookup_isSome_iff_mem_keys _ _).1 (by rw [hl]; rfl)) hnk
    simp only [callSched, loadI, Load.step, Load.addNode, this, Bool.false_eq_true, ↓reduceIte, Except.map]
    exact ⟨_, rfl⟩

end Xdist.Sys
