import XdistProofs.Sys.StopOnly
import XdistProofs.Sys.ReportOrder
/-!
  C03 / C17, whole system, all six modes: **at most one crash report per worker, published under the dead worker's own id, and only
  while its death is being handled** — however the deaths, finishes, replacements and undecodable messages interleave.
-/
namespace Xdist.Sys
open Xdist Xdist.Ctl Xdist.Contract

set_option linter.unusedSectionVars false

variable {σ τ : Type} [DecidableEq τ]

/-- the tests reported as "worker gw<n> crashed while running …", in order -/
def crashOf (n : Nat) (pubs : List (Pub τ)) : List τ :=
  pubs.filterMap fun p => match p with | .crash m t _ => if m = n then some t else none | _ => none

theorem crashOf_append (n : Nat) (a b : List (Pub τ)) : crashOf n (a ++ b) = crashOf n a ++ crashOf n b := by
  simp [crashOf, List.filterMap_append]

/-- what a handler adds to the publications, as far as crash reports go: only a death notice about worker `m` yields a crash report
    under `m`'s id, and at most one -/
def CrashSpec (c c1 : Ctl.State σ τ) (ev : Ctl.Event τ) : Prop :=
  ∃ added, c1.pubs = c.pubs ++ added ∧ (∀ m, crashOf m added ≠ [] → downOfEv ev = some m) ∧ ∀ m, (crashOf m added).length ≤ 1

theorem crashSpec_none {c c1 : Ctl.State σ τ} {ev : Ctl.Event τ} (added : List (Pub τ)) (h : c1.pubs = c.pubs ++ added)
    (hno : ∀ m, crashOf m added = []) : CrashSpec c c1 ev :=
  ⟨added, h, fun m hm => absurd (hno m) hm, fun m => by rw [hno m]; exact Nat.zero_le _⟩

theorem errordown_crashSpec (I : SchedI σ τ) {c c' : Ctl.State σ τ} {n : Nat} {rq : Bool} (h : errordown I c n rq = .ok c') :
    ∃ added, c'.pubs = c.pubs ++ added ∧ (∀ m, crashOf m added ≠ [] → m = n) ∧ ∀ m, (crashOf m added).length ≤ 1 := by
  have ros : ∀ (a : Ctl.State σ τ), ∃ ad, (restartOrStop I a n).pubs = a.pubs ++ ad ∧ ∀ m, crashOf m ad = [] := by
    intro a
    rcases restartOrStop_cases I a n with ⟨b, hh⟩ | hh
    · rw [hh, triggerShutdown_pubs]; exact ⟨[], by simp, fun m => rfl⟩
    · rw [hh]; exact ⟨[.spawn a.nextId], rfl, fun m => rfl⟩
  have key : ∀ (a : Ctl.State σ τ) (ad0 : List (Pub τ)), a.pubs = c.pubs ++ ad0 → (∀ m, crashOf m ad0 ≠ [] → m = n) →
      (∀ m, (crashOf m ad0).length ≤ 1) → removeActive (restartOrStop I a n) n = .ok c' →
      ∃ added, c'.pubs = c.pubs ++ added ∧ (∀ m, crashOf m added ≠ [] → m = n) ∧ ∀ m, (crashOf m added).length ≤ 1 := by
    intro a ad0 ha h0 h1 hr
    obtain ⟨ad, e1, e2⟩ := ros a
    refine ⟨ad0 ++ ad, by rw [removeActive_pubs hr, e1, ha, List.append_assoc], ?_, ?_⟩
    · intro m hm; rw [crashOf_append, e2 m, List.append_nil] at hm; exact h0 m hm
    · intro m; rw [crashOf_append, e2 m, List.append_nil]; exact h1 m
  unfold errordown at h
  simp only at h
  split at h
  · exact key _ [.nodedown n true] rfl (fun m hm => absurd rfl hm) (fun m => Nat.zero_le _) h
  · cases h
  · rename_i c1 hc
    exact key _ [.nodedown n true] (by rw [callSched_pubs I hc]) (fun m hm => absurd rfl hm) (fun m => Nat.zero_le _) h
  · rename_i c1 x hc
    obtain ⟨c2, h2, h3⟩ := bind_ok.1 h
    unfold handleCrashItem at h2
    obtain ⟨c3, h4, h5⟩ := map_ok.1 h2
    subst h5
    have hc3 : c3.pubs = c1.pubs := by
      split at h4
      · obtain ⟨a, ha, hb⟩ := map_ok.1 h4
        subst hb
        exact callSched_pubs I (show callSched I c1 (.markPending x) = .ok (a.1, a.2) by rw [ha])
      · simp only [Except.ok.injEq] at h4; subst h4; rfl
    refine key _ [.nodedown n true, .crash n x rq] (by simp only; rw [hc3, callSched_pubs I hc]; simp) ?_ ?_ h3
    · intro m hm
      by_cases hmn : m = n
      · exact hmn
      · exfalso; apply hm
        have : n ≠ m := fun hh => hmn hh.symm
        simp [crashOf, this]
    · intro m
      by_cases hmn : n = m <;> simp [crashOf, hmn]

theorem handle_crashSpec (I : SchedI σ τ) {c c1 : Ctl.State σ τ} {ev : Ctl.Event τ} (h : handle I c ev = .ok c1) : CrashSpec c c1 ev := by
  cases ev with
  | workerready n =>
    simp only [handle] at h
    split at h
    · simp only [Except.ok.injEq] at h; subst h; exact crashSpec_none [] (by simp) (fun m => rfl)
    · obtain ⟨a, ha, hb⟩ := map_ok.1 h
      subst hb
      exact crashSpec_none [] (by simp only [List.append_nil]; exact callSched_pubs I (show callSched I c (.addNode n) = .ok (a.1, a.2) by rw [ha])) (fun m => rfl)
  | workerfinished n x sf ss =>
    simp only [handle] at h
    unfold workerfinished at h
    split at h
    · simp only at h
      obtain ⟨ad, e1, e2, e3⟩ := errordown_crashSpec I h
      rw [triggerShutdown_pubs] at e1
      refine ⟨[.nodedown n false] ++ ad, by rw [e1]; simp, ?_, ?_⟩
      · intro m hm
        have : crashOf m ([Pub.nodedown n false] ++ ad) = crashOf m ad := by rw [crashOf_append]; rfl
        rw [this] at hm
        rw [e2 m hm]; rfl
      · intro m
        have : crashOf m ([Pub.nodedown n false] ++ ad) = crashOf m ad := by rw [crashOf_append]; rfl
        rw [this]; exact e3 m
    · simp only at h
      split at h
      · refine crashSpec_none [.nodedown n false] ?_ (fun m => rfl)
        rw [removeActive_pubs h]
        split <;> rfl
      · split at h
        · split at h
          · cases h
          · cases h
          · rename_i c2 hc
            refine crashSpec_none [.nodedown n false] ?_ (fun m => rfl)
            rw [removeActive_pubs h, callSched_pubs I hc]
        · refine crashSpec_none [.nodedown n false] ?_ (fun m => rfl)
          rw [removeActive_pubs h]
  | internalError n =>
    simp only [handle] at h
    obtain ⟨a, ha, hb⟩ := map_ok.1 h
    subst hb
    exact crashSpec_none [.internalError n] (by simp only; rw [removeActive_pubs ha]) (fun m => rfl)
  | errordown n rq =>
    simp only [handle] at h
    obtain ⟨ad, e1, e2, e3⟩ := errordown_crashSpec I h
    exact ⟨ad, e1, fun m hm => by rw [e2 m hm]; rfl, e3⟩
  | collectionfinish n ids =>
    simp only [handle, collectionfinish] at h
    split at h
    · simp only [Except.ok.injEq] at h; subst h; exact crashSpec_none [] (by simp) (fun m => rfl)
    · split at h
      · simp only [Except.ok.injEq] at h; subst h; exact crashSpec_none [] (by simp) (fun m => rfl)
      · obtain ⟨r, hr, h2⟩ := bind_ok.1 h
        have a1 := callSched_pubs I (show callSched I c (.addNodeCollection n ids) = .ok (r.1, r.2) by rw [hr])
        split at h2
        · obtain ⟨a, ha, hb⟩ := map_ok.1 h2
          subst hb
          have b1 := callSched_pubs I (show callSched I r.1 .schedule = .ok (a.1, a.2) by rw [ha])
          exact crashSpec_none [] (by simp only [List.append_nil]; exact b1.trans a1) (fun m => rfl)
        · simp only [Except.ok.injEq] at h2; subst h2
          exact crashSpec_none [] (by simp only [List.append_nil]; exact a1) (fun m => rfl)
  | testreport n failed =>
    simp only [handle, Except.ok.injEq] at h; subst h
    exact crashSpec_none [.report n failed] (by rw [handleFailures_pubs]) (fun m => rfl)
  | complete n i slow =>
    simp only [handle] at h
    obtain ⟨a, ha, hb⟩ := map_ok.1 h
    subst hb
    exact crashSpec_none [] (by simp only [List.append_nil]; exact callSched_pubs I (show callSched I c (.markComplete n i slow) = .ok (a.1, a.2) by rw [ha])) (fun m => rfl)
  | unscheduled n is =>
    simp only [handle] at h
    obtain ⟨a, ha, hb⟩ := map_ok.1 h
    subst hb
    exact crashSpec_none [] (by simp only [List.append_nil]; exact callSched_pubs I (show callSched I c (.removePending n is) = .ok (a.1, a.2) by rw [ha])) (fun m => rfl)
  | collectreport n key failed =>
    simp only [handle] at h
    split at h
    · simp only [Except.ok.injEq] at h; subst h; exact crashSpec_none [] (by simp) (fun m => rfl)
    · simp only [Except.ok.injEq] at h; subst h
      exact crashSpec_none [.collect key] (by rw [handleFailures_pubs]) (fun m => rfl)
  | other => simp only [handle, Except.ok.injEq] at h; subst h; exact crashSpec_none [] (by simp) (fun m => rfl)

/-- a crash report under worker `n`'s id means `n` has been handled: it is a started worker and no longer active -/
def CrashInv (c : Ctl.State σ τ) : Prop :=
  ∀ n, ((crashOf n c.pubs).length ≤ 1) ∧ (crashOf n c.pubs ≠ [] → n ∉ c.active ∧ n < c.nextId)

theorem step_crashInv (I : SchedI σ τ) (idsOf : Nat → List τ) {st st' : State σ τ} (a : Step) (hi : CrashInv st.ctl)
    (hact : ActInv st.ctl) (hd : DAll st) (h : step I idsOf st a = .ok st') : CrashInv st'.ctl := by
  cases a with
  | main j p =>
    simp only [Sys.step] at h
    split at h
    · cases h
    · split at h
      · cases h
      · simp only [Except.ok.injEq] at h; subst h; exact hi
  | deliver j =>
    simp only [Sys.step] at h
    split at h
    · cases h
    · split at h
      · cases h
      · simp only [Except.ok.injEq] at h; subst h; exact hi
  | recv j =>
    simp only [Sys.step] at h
    split at h
    · cases h
    rename_i s1 hr
    simp only [Except.ok.injEq] at h; subst h
    obtain ⟨w, m, rest, fl', w2, outs', _, _, rfl, _⟩ := recvStep_shape' hr
    exact hi
  | crash j b =>
    simp only [Sys.step] at h
    split at h
    · cases h
    rename_i s1 hc
    simp only [Except.ok.injEq] at h; subst h
    unfold crashStep at hc
    split at hc
    · cases hc
    split at hc
    · cases hc
    split at hc
    · simp only [Option.some.injEq] at hc; subst hc; exact hi
    · simp only [Option.some.injEq] at hc; subst hc; exact hi
  | ctl j rq =>
    simp only [Sys.step] at h
    obtain ⟨w, ev, rest, c', hw, hp, hl, rfl⟩ := ctlStep_shape' h
    have hj := hd j w hw
    have hrel := loopOnce_act I hl
    rw [fixRq_downOfEv] at hrel
    unfold loopOnce at hl
    split at hl
    · cases hl
    obtain ⟨c1, hh1, rfl⟩ := map_ok.1 hl
    obtain ⟨added, e1, e2, e3⟩ := handle_crashSpec I hh1
    rw [fixRq_downOfEv] at e2
    intro n
    simp only
    rw [afterHandler_pubs', e1, crashOf_append]
    obtain ⟨i1, i2⟩ := hi n
    by_cases hn : crashOf n added = []
    · rw [hn, List.append_nil]
      refine ⟨i1, ?_⟩
      intro hne
      obtain ⟨na, nlt⟩ := i2 hne
      refine ⟨?_, Nat.lt_of_lt_of_le nlt hrel.nextLe⟩
      intro hin
      rcases hrel.new n hin with h' | ⟨h', _⟩
      · exact na h'
      · omega
    · -- a crash report under `n`: the handled event is `n`'s death notice, `n` = `j` was active, so nothing was published before
      have hdn := e2 n hn
      have hnj : n = j := hj.ownP ev (by rw [hp]; simp) n hdn
      subst hnj
      have hin : n ∈ st.ctl.active := by
        apply Classical.byContradiction
        intro hni
        have := (hj.inactive hni).1
        rw [hp] at this; cases this
      have hold : crashOf n st.ctl.pubs = [] := by
        cases hc : crashOf n st.ctl.pubs with
        | nil => rfl
        | cons t l => exact absurd hin (i2 (by rw [hc]; simp)).1
      rw [hold, List.nil_append]
      refine ⟨e3 n, fun _ => ⟨hrel.goneOut n hdn hact.1 hact.2, Nat.lt_of_lt_of_le (hact.2 n hin) hrel.nextLe⟩⟩

/-- **At most one crash report per worker, under its own id — whole system, all six modes** (C03, C17).  After any execution:
    for every worker number `n` at most one "worker gw`n` crashed while running …" report has been published, and if one has,
    `n` is a worker that was started and is no longer active (its death has been handled). -/
theorem C03_sys_one_crash_report_per_worker (I : SchedI σ τ) (hK : KeepsDown I) (s0 : σ) (numnodes maxfail : Nat) (mr : Option Int)
    (idsOf : Nat → List τ) (steps : List Step) {st : State σ τ}
    (h : run I idsOf (init I s0 numnodes maxfail mr idsOf) steps = .ok st) (n : Nat) :
    (crashOf n st.ctl.pubs).length ≤ 1 ∧ (crashOf n st.ctl.pubs ≠ [] → n ∉ st.ctl.active ∧ n < st.wk.length) := by
  have key : ∀ (steps : List Step) {x y : State σ τ}, BudgetSys numnodes mr x → ActInv x.ctl → DAll x → CrashInv x.ctl →
      run I idsOf x steps = .ok y → CrashInv y.ctl ∧ BudgetSys numnodes mr y := by
    intro steps
    induction steps with
    | nil => intro x y hb _ _ hc h; simp only [run, Except.ok.injEq] at h; subst h; exact ⟨hc, hb⟩
    | cons s rest ih =>
      intro x y hb ha hd hc h
      simp only [run] at h
      split at h
      · cases h
      · rename_i x1 hs
        exact ih (step_budgetSys I idsOf s hb hs) (step_actInv I idsOf s ha hs) (step_dall I hK idsOf s hb.2 hd hs)
          (step_crashInv I idsOf s hc ha hd hs) h
  have hb0 : BudgetSys numnodes mr (init I s0 numnodes maxfail mr idsOf) :=
    ⟨Ctl.init_inv I s0 numnodes maxfail mr, by simp [init, Ctl.init]⟩
  have ha0 : ActInv (init I s0 numnodes maxfail mr idsOf).ctl := by
    refine ⟨?_, ?_⟩
    · simp only [init, Ctl.init]; exact List.nodup_range
    · intro a ha; simp only [init, Ctl.init, List.mem_range] at ha ⊢; exact ha
  have hd0 : DAll (init I s0 numnodes maxfail mr idsOf) := by
    intro k w hk
    simp only [init, List.getElem?_map] at hk
    cases hr : (List.range numnodes)[k]? with
    | none => rw [hr] at hk; cases hk
    | some x =>
      rw [hr] at hk
      simp only [Option.map_some, Option.some.injEq] at hk
      subst hk
      have hx : k < numnodes := by
        have := List.getElem?_eq_some_iff.1 hr
        obtain ⟨hlt, _⟩ := this
        simpa using hlt
      exact { ownP := by intro e he; cases he
              plainO := by intro e he; cases he
              last := by intro a e b hsplit; cases a <;> cases hsplit
              noticeDown := fun ⟨e, he, _⟩ => by cases he
              inactive := fun hna => absurd (by simp [init, Ctl.init, hx]) hna }
  have hc0 : CrashInv (init I s0 numnodes maxfail mr idsOf).ctl := by
    intro m; simp [init, Ctl.init, crashOf]
  obtain ⟨hc, hb⟩ := key steps hb0 ha0 hd0 hc0 h
  obtain ⟨c1, c2⟩ := hc n
  exact ⟨c1, fun hne => ⟨(c2 hne).1, by rw [hb.2]; exact (c2 hne).2⟩⟩

/-- … in each of the six `--dist` modes -/
theorem C03_sys_one_crash_report_per_worker_all_modes (specs : AList Nat Nat) (s0 : Sched.Any) (numnodes maxfail : Nat) (mr : Option Int)
    (idsOf : Nat → List String) (steps : List Step) {st : State Sched.Any String}
    (h : run (Sched.iface specs) idsOf (init (Sched.iface specs) s0 numnodes maxfail mr idsOf) steps = .ok st) (n : Nat) :
    (crashOf n st.ctl.pubs).length ≤ 1 ∧ (crashOf n st.ctl.pubs ≠ [] → n ∉ st.ctl.active ∧ n < st.wk.length) :=
  C03_sys_one_crash_report_per_worker (Sched.iface specs) (iface_keepsDown specs) s0 numnodes maxfail mr idsOf steps h n

end Xdist.Sys
