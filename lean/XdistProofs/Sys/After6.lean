import XdistProofs.Sys.After5
/-! The last case and the complete theorem: **the controller never raises while handling an event** (`--dist load`). -/
namespace Xdist.Sys
open Xdist Xdist.Ctl Xdist.Load Xdist.Contract

variable {τ : Type} [DecidableEq τ]

/-- a registered worker that finished normally holds nothing: its book is empty -/
theorem book_of_finished {st : LState τ} (i1 : Inv st) (i6 : Inv6 st) (i13 : Inv13 st) (i14 : Inv14 st)
    {k x : Nat} {sf ss : Option String} {w : Wk τ} {rest : List (Ctl.Event τ)} (hw : st.wk[k]? = some w)
    (hp : w.posted = .workerfinished k x sf ss :: rest) (hx : x ≠ 2) (hsf : sf = none) (hss : ss = none)
    (hkey : k ∈ AList.keys st.ctl.sched.node2pending) : AList.lookup st.ctl.sched.node2pending k = some [] := by
  have wi := i1.wk hw
  have w13 := i13 k w hw
  have hmem : Ctl.Event.workerfinished k x sf ss ∈ flight k w := by unfold flight; rw [hp]; simp
  obtain ⟨hph, hx', hsf', hss'⟩ := w13.wfFields k x sf ss hmem
  have ha := w13.doneAlive hph
  have hnext : w.w.next = some .shutdown := by
    rcases w13.exitWhy (Or.inr hph) with h' | h' | h' | h'
    · exact absurd (hx'.trans h') hx
    · rw [← hsf', hsf] at h'; cases h'
    · rw [← hss', hss] at h'; cases h'
    · exact h'
  obtain ⟨htor, hruns⟩ := w13.na1 ha hnext
  have hpc : w.w.pc = .done := by
    rcases i14 w (List.mem_of_getElem? hw) (Or.inr hph) with h' | h'
    · exact absurd (hx'.trans h') hx
    · exact h'
  have hheld : heldS w = [] := by
    unfold heldS
    rw [hpc, hnext, htor]
    simp
  have hrest : rest = [] := by
    cases hr : rest with
    | nil => rfl
    | cons e t =>
      exfalso
      have := wi.noticeLast
      rw [hp, hr, dropLast_cons_of_ne _ (by simp), List.any_cons] at this
      simp [isNotice] at this
  have hs := (i6 k w hw).doneSync ha (by rw [hp]; simp [isWf])
  unfold DoneD at hs
  obtain ⟨book, hb⟩ := Load.lookup_of_mem_keys hkey
  rw [hb] at hs
  simp only at hs
  have hbk : book = [] := by
    rw [hs, hp, hrest, hheld, hruns]
    simp [completes, complIdx]
  rw [hb, hbk]

/-- **`worker_workerfinished` returns** for a registered worker that finished normally -/
theorem handle_wf_normal_total {c : Ctl.State (Load.State τ) τ} {n x : Nat} (hx : x ≠ 2)
    (hb : AList.lookup c.sched.node2pending n = some []) (hact : n ∈ c.active) :
    ∃ c1, handle loadI c (.workerfinished n x none none) = .ok c1 := by
  have hkey : n ∈ AList.keys c.sched.node2pending := (AList.lookup_isSome_iff_mem_keys _ _).1 (by rw [hb]; rfl)
  have hrm : Load.removeNode c.sched c.env n = .ok ({ c.sched with node2pending := AList.erase c.sched.node2pending n }, c.env, none) := by
    have hp : c.sched.node2pending.pop n = .ok ([], AList.erase c.sched.node2pending n) := AList.pop_eq_ok.2 ⟨hb, rfl⟩
    unfold Load.removeNode
    simp only [hp, bind, Except.bind]
  simp only [handle]
  unfold workerfinished
  simp only [hx, ↓reduceIte]
  simp only [callSched, loadI, Load.step, hrm, Except.map]
  split
  · exact removeActive_ok (st := _) hact
  · exact removeActive_ok (st := _) hact

/-- **The controller never raises while handling an event** (`--dist load`, whole system; every worker collects the same
    non-empty list of tests; no undecodable message is received).  In every reachable state of every execution — any interleaving
    of the threads, any number of crashes at any stage (start-up, collection, inside a test, while finishing), replacements,
    re-queues, stop requests, any budget — : whichever worker's oldest event the controller takes from its queue, the iteration
    of `loop_once` that handles it returns.  No `AssertionError` (`assert node not in self.node2pending`, `assert self.collection`,
    `assert not crashitem`), no `KeyError`, `ValueError`, `IndexError`, `ZeroDivisionError`, `TypeError`. -/
theorem C17_sys_load_controller_never_raises {ids : List τ} (numnodes maxfail : Nat) (msc maxRestart : Option Int)
    (idsOf : Nat → List τ) (hids : ∀ j, idsOf j = ids) (hne : ids ≠ []) (hnn : 0 < numnodes) {st : LState τ} {g : Ghost}
    (h : ReachB idsOf (init loadI (Load.init numnodes msc) numnodes maxfail maxRestart idsOf) st [] g)
    {k : Nat} {w : Wk τ} {ev0 : Ctl.Event τ} {rest : List (Ctl.Event τ)} (hw : st.wk[k]? = some w)
    (hp : w.posted = ev0 :: rest) (hnf : Ctl.sessionFinished st.ctl = false) (rq : Bool) :
    ∃ st', step loadI idsOf st (.ctl k rq) = .ok st' := by
  obtain ⟨i1, i6, _, _, _, _⟩ := reachB_all numnodes maxfail msc maxRestart idsOf h
  have wi := i1.wk hw
  have hown : Own k ev0 = true := wi.ownP ev0 (by rw [hp]; simp)
  cases hcov : coveredEvent ev0 with
  | true => exact C17_sys_load_events_never_raise numnodes maxfail msc maxRestart idsOf hids hne hnn h hw (by simp) hp hcov hnf rq
  | false =>
    cases ev0 with
    | internalError n => simp [Own] at hown
    | unscheduled n is => simp [Own] at hown
    | workerfinished n x sf ss =>
      have hnk : n = k := by simpa [Own] using hown
      subst hnk
      by_cases hcase : x = 2 ∨ sf.isSome = true ∨ ss.isSome = true ∨ n ∉ AList.keys st.ctl.sched.node2pending
      · exact C17_sys_load_workerfinished_never_raises_partial numnodes maxfail msc maxRestart idsOf h hw hp hcase hnf rq
      · simp only [not_or, Decidable.not_not] at hcase
        obtain ⟨hx, hsf, hss, hkey⟩ := hcase
        have hsf' : sf = none := by cases sf <;> simp_all
        have hss' : ss = none := by cases ss <;> simp_all
        subst hsf' hss'
        obtain ⟨i13, _, i14⟩ := reachB_after numnodes maxfail msc maxRestart idsOf hids hnn h rfl
        have hbook := book_of_finished i1 i6 i13 i14 hw hp hx rfl rfl hkey
        have hact : n ∈ st.ctl.active := by
          apply Classical.byContradiction
          intro hna
          have := wi.inactive hna
          rw [hp] at this; cases this
        have hnem : st.ctl.active.isEmpty = false := by
          cases hh : st.ctl.active with
          | nil => rw [hh] at hact; cases hact
          | cons a t => rfl
        obtain ⟨c1, hc1⟩ := handle_wf_normal_total (c := st.ctl) hx hbook hact
        have hloop : loopOnce loadI st.ctl (.workerfinished n x none none) = .ok (afterHandler loadI c1) := by
          simp only [loopOnce, hnem, Bool.false_eq_true, ↓reduceIte, hc1, Except.map]
        have : step loadI idsOf st (.ctl n rq) = .ok
            { ctl := afterHandler loadI c1,
              wk := route (spawn idsOf (st.wk.set n { w with posted := rest }) (afterHandler loadI c1).nextId)
                ((afterHandler loadI c1).env.outs.drop st.ctl.env.outs.length) } := by
          simp only [Sys.step, ctlStep, hnf, Bool.false_eq_true, ↓reduceIte, hnem, hw, hp, hloop]
        exact ⟨_, this⟩
    | workerready n => cases hcov
    | collectionfinish n cc => cases hcov
    | testreport n f => cases hcov
    | complete n i slow => cases hcov
    | errordown n r => cases hcov
    | collectreport n key f => cases hcov
    | other => cases hcov

/-- **Nothing behind the shutdown signal — as the worker sees it** (C16, whole system, `--dist load`): in every reachable state of
    an execution without an undecodable message, for every live worker: no test follows the shutdown command in its inbox, none
    follows the shutdown marker in its queue, and once the marker is the next item the queue and the inbox hold no test. -/
theorem C16_sys_load_nothing_behind_the_shutdown_marker {ids : List τ} (numnodes maxfail : Nat) (msc maxRestart : Option Int)
    (idsOf : Nat → List τ) (hids : ∀ j, idsOf j = ids) (hnn : 0 < numnodes) {st : LState τ} {g : Ghost}
    (h : ReachB idsOf (init loadI (Load.init numnodes msc) numnodes maxfail maxRestart idsOf) st [] g)
    {k : Nat} {w : Wk τ} (hw : st.wk[k]? = some w) (ha : w.alive = true) :
    (∀ a b, w.inbox = a ++ Cmd.shutdown :: b → runsL b = []) ∧
    (∀ a b, w.w.torun = a ++ Worker.QItem.shutdown :: b → Worker.tests b = [] ∧ inboxRuns w = []) ∧
    (w.w.next = some .shutdown → Worker.tests w.w.torun = [] ∧ inboxRuns w = []) := by
  obtain ⟨i13, _, _⟩ := reachB_after numnodes maxfail msc maxRestart idsOf hids hnn h rfl
  have w13 := i13 k w hw
  exact ⟨w13.na3 ha, w13.na2 ha, w13.na1 ha⟩

end Xdist.Sys
