import XdistProofs.Sys.PreserveRecv2
import XdistProofs.Sched.LoadQG
/-! How the commands of one controller iteration reach the workers (`route`, `spawn`). -/
namespace Xdist.Sys
open Xdist

variable {τ : Type} [DecidableEq τ]

/-- the commands among `new` addressed to worker `j`, in order -/
def deliverTo (j : Nat) (new : List SOut) : List Cmd :=
  new.filterMap fun o => match cmdOf o with
    | some (n, c) => if n = j then some c else none
    | none => none

theorem deliverTo_cons (j : Nat) (o : SOut) (rest : List SOut) :
    deliverTo j (o :: rest) = (match cmdOf o with | some (n, c) => if n = j then [c] else [] | none => []) ++ deliverTo j rest := by
  unfold deliverTo
  simp only [List.filterMap_cons]
  cases cmdOf o with
  | none => rfl
  | some p =>
    obtain ⟨n, c⟩ := p
    by_cases h : n = j <;> simp [h]

/-- what `route` does to worker `j` -/
def routed (j : Nat) (new : List SOut) (w : Wk τ) : Wk τ :=
  if w.alive then { w with inbox := w.inbox ++ deliverTo j new } else w

theorem routed_nil (j : Nat) (w : Wk τ) : routed j [] w = w := by
  unfold routed deliverTo; split <;> simp

theorem route_length (wk : List (Wk τ)) (new : List SOut) : (route wk new).length = wk.length := by
  induction new generalizing wk with
  | nil => rfl
  | cons o rest ih =>
    simp only [route]
    split
    · exact ih wk
    · split
      · rename_i w _
        rw [ih]; split <;> simp
      · exact ih wk

theorem route_get (wk : List (Wk τ)) (new : List SOut) (j : Nat) :
    (route wk new)[j]? = (wk[j]?).map (routed j new) := by
  induction new generalizing wk with
  | nil =>
    simp only [route]
    cases wk[j]? with
    | none => rfl
    | some w => simp [routed_nil]
  | cons o rest ih =>
    simp only [route]
    cases hc : cmdOf o with
    | none =>
      simp only [ih]
      cases wk[j]? with
      | none => rfl
      | some w => simp [routed, deliverTo_cons, hc]
    | some p =>
      obtain ⟨n, c⟩ := p
      simp only
      cases hn : wk[n]? with
      | none =>
        simp only [ih]
        cases hj : wk[j]? with
        | none => rfl
        | some w =>
          have hne : n ≠ j := by intro h; subst h; rw [hj] at hn; cases hn
          simp [routed, deliverTo_cons, hc, hne]
      | some wn =>
        simp only [ih]
        by_cases hal : wn.alive = true
        · simp only [hal, ↓reduceIte]
          by_cases hnj : n = j
          · subst hnj
            have hlt : n < wk.length := by
              rcases Nat.lt_or_ge n wk.length with h' | h'
              · exact h'
              · rw [List.getElem?_eq_none h'] at hn; cases hn
            simp only [List.getElem?_set, hlt, ↓reduceIte, hn, Option.map_some]
            simp [routed, hal, deliverTo_cons, hc, List.append_assoc]
          · rw [List.getElem?_set_ne hnj]
            cases wk[j]? with
            | none => rfl
            | some w => simp [routed, deliverTo_cons, hc, hnj]
        · simp only [hal, Bool.false_eq_true, ↓reduceIte]
          cases hj : wk[j]? with
          | none => rfl
          | some w =>
            by_cases hnj : n = j
            · subst hnj
              rw [hn] at hj; cases hj
              simp [routed, hal]
            · simp [routed, deliverTo_cons, hc, hnj]

theorem spawn_length (idsOf : Nat → List τ) (wk : List (Wk τ)) (upTo : Nat) (h : wk.length ≤ upTo) :
    (spawn idsOf wk upTo).length = upTo := by
  simp [spawn]; omega

theorem spawn_get_old (idsOf : Nat → List τ) (wk : List (Wk τ)) (upTo j : Nat) (h : j < wk.length) :
    (spawn idsOf wk upTo)[j]? = wk[j]? := by
  simp [spawn, List.getElem?_append_left h]

theorem spawn_get_new (idsOf : Nat → List τ) (wk : List (Wk τ)) (upTo j : Nat) (h1 : wk.length ≤ j) (h2 : j < upTo) :
    (spawn idsOf wk upTo)[j]? = some ({ ids := idsOf j } : Wk τ) := by
  simp only [spawn]
  rw [List.getElem?_append_right h1]
  have : j - wk.length < upTo - wk.length := by omega
  simp [List.getElem?_map, List.getElem?_range this]
  congr 1
  omega

/-- the run commands among what is delivered are exactly what the scheduler accounted for this node -/
theorem runs_deliverTo (j : Nat) (new : List SOut) (hk : ∀ o ∈ new, Load.LoadOut o) :
    ((deliverTo j new).flatMap fun c => match c with | .run is => is | _ => []) = Load.sentTo new j := by
  induction new with
  | nil => rfl
  | cons o rest ih =>
    rw [deliverTo_cons, List.flatMap_append, ih (fun x hx => hk x (List.mem_cons_of_mem _ hx))]
    have ho := hk o (by simp)
    cases o with
    | run n is =>
      by_cases h : n = j <;> simp [cmdOf, Load.sentTo, h]
    | shutdown n =>
      by_cases h : n = j <;> simp [cmdOf, Load.sentTo, h]
    | collectReport a b => simp [cmdOf, Load.sentTo]
    | runAll n => exact ho.elim
    | steal n is => exact ho.elim

theorem shutdown_mem_deliverTo (j : Nat) (new : List SOut) (h : SOut.shutdown j ∈ new) : Cmd.shutdown ∈ deliverTo j new := by
  unfold deliverTo
  exact List.mem_filterMap.2 ⟨SOut.shutdown j, h, by simp [cmdOf]⟩

theorem deliverTo_kinds (j : Nat) (new : List SOut) (hk : ∀ o ∈ new, Load.LoadOut o) : ∀ c ∈ deliverTo j new, loadCmd c = true := by
  intro c hc
  unfold deliverTo at hc
  obtain ⟨o, ho, hx⟩ := List.mem_filterMap.1 hc
  have := hk o ho
  cases o with
  | run n is => simp only [cmdOf] at hx; split at hx <;> simp at hx; subst hx; rfl
  | shutdown n => simp only [cmdOf] at hx; split at hx <;> simp at hx; subst hx; rfl
  | collectReport a b => simp [cmdOf] at hx
  | runAll n => exact this.elim
  | steal n is => exact this.elim

theorem deliverTo_nil_of_lt (j : Nat) (new : List SOut) (h : ∀ o ∈ new, ∀ n c, cmdOf o = some (n, c) → n ≠ j) : deliverTo j new = [] := by
  unfold deliverTo
  rw [List.filterMap_eq_nil_iff]
  intro o ho
  cases hc : cmdOf o with
  | none => rfl
  | some p =>
    obtain ⟨n, c⟩ := p
    simp [h o ho n c hc]

end Xdist.Sys
