import XdistProofs.Sys.ShutOnce
import XdistProofs.Sched.WireAll
/-!
  C16, whole system: **nothing is addressed to a worker behind its shutdown signal** — on the complete wire log of any execution,
  for the modes whose scheduler looks at `node.shutting_down` before every send (each, worksteal, loadscope, loadfile, loadgroup),
  with every thread that writes to the wire taken into account: the scheduler, `triggershutdown`, the handler of a late
  `workerready`, and a receiver thread's own `shutdown()` after an undecodable message.
-/
namespace Xdist.Sys
open Xdist Xdist.Ctl Xdist.Contract

set_option linter.unusedSectionVars false

variable {σ τ : Type} [DecidableEq τ]

/-- the scheduler's calls keep the wire well-formed as long as the scheduler's state satisfies `G`, which they keep too -/
def Disc2 (I : SchedI σ τ) (G : σ → Prop) : Prop :=
  ∀ {s : σ} {e : Env} {op : SOp τ} {s' : σ} {e' : Env} {r : Option τ}, G s → I.step s e op = .ok (s', e', r) → WireOk e →
    WireOk e' ∧ G s'

theorem steps_wireOk {I : SchedI σ τ} {G : σ → Prop} (hD : Disc2 I G) {s s' : σ} {e e' : Env} {as : List (Atom τ)}
    (h : Steps I s e as s' e') (hg : G s) (hw : WireOk e) : WireOk e' ∧ G s' := by
  induction h with
  | nil => exact ⟨hw, hg⟩
  | call hc _ ih =>
    obtain ⟨w1, g1⟩ := hD hg hc hw
    exact ih g1 w1
  | shut n _ ih => exact ih hg (wireOk_shutdown hw n)

theorem step_wireOk (I : SchedI σ τ) {G : σ → Prop} (hD : Disc2 I G) (idsOf : Nat → List τ) {st st' : State σ τ} (a : Step)
    (hg : G st.ctl.sched) (hw : WireOk st.ctl.env) (h : step I idsOf st a = .ok st') :
    WireOk st'.ctl.env ∧ G st'.ctl.sched := by
  cases a with
  | main j p =>
    simp only [Sys.step] at h
    split at h
    · cases h
    · split at h
      · cases h
      · simp only [Except.ok.injEq] at h; subst h; exact ⟨hw, hg⟩
  | deliver j =>
    simp only [Sys.step] at h
    split at h
    · cases h
    · split at h
      · cases h
      · simp only [Except.ok.injEq] at h; subst h; exact ⟨hw, hg⟩
  | recv j =>
    simp only [Sys.step] at h
    split at h
    · cases h
    rename_i s1 hr
    simp only [Except.ok.injEq] at h; subst h
    unfold recvStep at hr
    split at hr
    · cases hr
    rename_i w hw'
    split at hr
    · cases hr
    rename_i m rest ho
    simp only [Option.some.injEq] at hr
    subst hr
    obtain ⟨m1, m2⟩ := receiver_shut { down := (st.ctl.env.flags.get j).down, shutdownSent := (st.ctl.env.flags.get j).sent } (toRecv j m)
    simp only at m1 m2
    refine ⟨?_, hg⟩
    obtain ⟨n1, n2⟩ := hw
    simp only
    split
    · rename_i hcond
      simp only [Bool.and_eq_true] at hcond
      obtain ⟨hsent0, hsent1⟩ := m1 hcond.1
      have hnot : SOut.shutdown j ∉ st.ctl.env.outs := fun hm => by rw [n2 j hm] at hsent0; cases hsent0
      refine ⟨noAfter_append_single n1 ?_, ?_⟩
      · intro n hn; simp only [cmdNode, Option.some.injEq] at hn; subst hn; exact hnot
      · intro n hm
        simp only
        rw [flags_get_set]
        by_cases hnj : n = j
        · subst hnj; simp only [if_true]; exact hsent1
        · simp only [hnj, if_false]
          simp only [List.mem_append, List.mem_singleton, SOut.shutdown.injEq, hnj, or_false] at hm
          exact n2 n hm
    · refine ⟨n1, ?_⟩
      intro n hm
      simp only
      rw [flags_get_set]
      by_cases hnj : n = j
      · subst hnj; simp only [if_true]; exact m2 (n2 n hm)
      · simp only [hnj, if_false]; exact n2 n hm
  | crash j b =>
    simp only [Sys.step] at h
    split at h
    · cases h
    rename_i s1 hc
    simp only [Except.ok.injEq] at h; subst h
    unfold crashStep at hc
    split at hc
    · cases hc
    split at hc
    · cases hc
    split at hc
    · simp only [Option.some.injEq] at hc; subst hc
      refine ⟨⟨hw.1, ?_⟩, hg⟩
      intro n hm
      have := hw.2 n hm
      show (Flags.get (AList.set st.ctl.env.flags j { st.ctl.env.flags.get j with broken := true }) n).sent = true
      rw [flags_get_set]
      by_cases hnj : n = j
      · subst hnj; simp only [if_true]; exact this
      · simp only [hnj, if_false]; exact this
    · simp only [Option.some.injEq] at hc; subst hc; exact ⟨hw, hg⟩
  | ctl j rq =>
    simp only [Sys.step] at h
    unfold ctlStep at h
    split at h
    · cases h
    split at h
    · cases h
    split at h
    · cases h
    split at h
    · cases h
    simp only at h
    split at h
    · cases h
    rename_i c' hl
    simp only [Except.ok.injEq] at h; subst h
    obtain ⟨as, hsteps, _⟩ := loopOnce_steps hl
    exact steps_wireOk hD hsteps hg hw

theorem run_wireOk (I : SchedI σ τ) {G : σ → Prop} (hD : Disc2 I G) (idsOf : Nat → List τ) : ∀ (steps : List Step) {st st' : State σ τ},
    G st.ctl.sched → WireOk st.ctl.env → run I idsOf st steps = .ok st' → WireOk st'.ctl.env ∧ G st'.ctl.sched := by
  intro steps
  induction steps with
  | nil => intro st st' hg hw h; simp only [run, Except.ok.injEq] at h; subst h; exact ⟨hw, hg⟩
  | cons a rest ih =>
    intro st st' hg hw h
    simp only [run] at h
    split at h
    · cases h
    · rename_i st1 hs1
      obtain ⟨w1, g1⟩ := step_wireOk I hD idsOf a hg hw hs1
      exact ih g1 w1 h

theorem iface_disc2 (specs : AList Nat Nat) : Disc2 (Sched.iface specs) Sched.Any.guarded := by
  intro s e op s' e' r hg h hw
  exact Sched.any_step_wireOk specs hg h hw

/-- **Nothing behind the shutdown signal, whole system** (C16; `--dist each`, `worksteal`, `loadscope`, `loadfile`, `loadgroup`).
    On the complete log of everything any thread ever wrote to the workers in any execution of the composed system — any schedule,
    crashes, replacements, steals, stop requests, undecodable messages answered by the receiver thread's own `shutdown()` —: after
    the shutdown signal of a worker nothing is addressed to that worker any more (no run command, no withdrawal request, no second
    shutdown signal), and a signal on the wire means its `_shutdown_sent` flag is set. -/
theorem C16_sys_nothing_after_the_shutdown_signal (specs : AList Nat Nat) (s0 : Sched.Any) (hmode : s0.guarded)
    (numnodes maxfail : Nat) (mr : Option Int) (idsOf : Nat → List String) (steps : List Step) {st : State Sched.Any String}
    (h : run (Sched.iface specs) idsOf (init (Sched.iface specs) s0 numnodes maxfail mr idsOf) steps = .ok st) :
    (∀ pre post n, st.ctl.env.outs = pre ++ SOut.shutdown n :: post → ∀ o ∈ post, cmdNode o ≠ some n) ∧
    (∀ n, SOut.shutdown n ∈ st.ctl.env.outs → (st.ctl.env.flags.get n).sent = true) := by
  have h0 : WireOk (init (Sched.iface specs) s0 numnodes maxfail mr idsOf).ctl.env := by
    refine ⟨?_, ?_⟩
    · simp only [init, Ctl.init]; exact noAfter_nil
    · intro n hn; simp [init, Ctl.init] at hn
  obtain ⟨⟨w1, w2⟩, _⟩ := run_wireOk (Sched.iface specs) (iface_disc2 specs) idsOf steps (by simpa [init, Ctl.init] using hmode) h0 h
  exact ⟨w1, w2⟩

/-- the scheduler `pytest_xdist_make_scheduler` builds for a mode other than `load` looks at `shutting_down` before every send -/
theorem make_guarded (mode : String) (numnodes : Nat) (msc : Option Int) (h : mode ≠ "load") :
    (Sched.make mode numnodes msc).guarded := by
  unfold Sched.make
  simp only [h, if_false]
  split
  · trivial
  · split <;> trivial

end Xdist.Sys
