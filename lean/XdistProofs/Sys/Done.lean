import XdistProofs.Sys.EndPool
/-!
  Workers that have finished: the controller's book of a worker whose `workerfinished` is on the event queue still says
  exactly what that worker holds (so that `assert not crashitem` in `worker_workerfinished` means: it holds nothing), a worker
  the scheduler never knew holds nothing, and a worker removed after finishing (run without worker loss, no stop reason)
  holds nothing either.  This is the fourth layer of the system invariant (`Inv6`), used for the end-of-session theorem.
-/
namespace Xdist.Sys
open Xdist Xdist.Ctl Xdist.Load

variable {τ : Type} [DecidableEq τ]

def isFin : WMsg τ → Bool
  | .fin _ _ _ => true
  | _ => false

def isWf : Ctl.Event τ → Bool
  | .workerfinished _ _ _ _ => true
  | _ => false

/-- the book of a finished worker, in terms of what the controller has still to handle of it -/
def DoneD (s : Load.State τ) (k : Nat) (w : Wk τ) : Prop :=
  match AList.lookup s.node2pending k with
  | none => completes w.posted = [] ∧ heldS w = [] ∧ inboxRuns w = []
  | some book => book = completes w.posted ++ heldS w ++ inboxRuns w

structure WkInv6 (c : Ctl.State (Load.State τ) τ) (k : Nat) (w : Wk τ) : Prop where
  /-- `workerfinished` is the last thing a worker sends, followed only by the end of the channel -/
  finNoneO : w.alive = true → w.phase ≠ .done → ∀ m ∈ w.outbox, isFin m = false
  finNoneP : w.alive = true → w.phase ≠ .done → ∀ e ∈ w.posted, isWf e = false
  finLast : w.alive = true → ∀ a x sf ss b, w.outbox = a ++ WMsg.fin x sf ss :: b → b = [.endMarker]
  /-- a worker the scheduler does not know (yet, or never) holds nothing and has completed nothing -/
  nr : w.alive = true → k ∈ c.active → k ∉ AList.keys c.sched.node2pending →
    completes (flight k w) = [] ∧ heldS w = [] ∧ inboxRuns w = []
  doneSync : w.alive = true → w.posted.any isWf = true → DoneD c.sched k w
  idleDone : w.alive = true → c.failedNodes = 0 → c.shouldstop = none → k ∉ c.active →
    w.phase = .done ∧ heldS w = [] ∧ inboxRuns w = []

def Inv6 (st : LState τ) : Prop := ∀ k w, st.wk[k]? = some w → WkInv6 st.ctl k w

/-! ### lists -/

theorem fin_split_unique {o : List (WMsg τ)} (hno : ∀ m ∈ o, isFin m = false) {x sf ss : _} {a b : List (WMsg τ)} {x' sf' ss' : _}
    (h : o ++ [WMsg.fin x sf ss, .endMarker] = a ++ WMsg.fin x' sf' ss' :: b) : b = [.endMarker] := by
  induction o generalizing a with
  | nil =>
    cases a with
    | nil => simp only [List.nil_append, List.cons.injEq] at h; exact h.2.symm
    | cons y t =>
      simp only [List.nil_append, List.cons_append, List.cons.injEq] at h
      obtain ⟨_, h2⟩ := h
      cases t with
      | nil => simp at h2
      | cons z t' =>
        simp only [List.cons_append, List.cons.injEq] at h2
        have := congrArg List.length h2.2
        simp at this
  | cons y o ih =>
    cases a with
    | nil =>
      simp only [List.cons_append, List.nil_append, List.cons.injEq] at h
      have := hno y (by simp)
      rw [h.1] at this; simp [isFin] at this
    | cons z t =>
      simp only [List.cons_append, List.cons.injEq] at h
      exact ih (fun m hm => hno m (List.mem_cons_of_mem _ hm)) h.2

theorem no_fin_split {o : List (WMsg τ)} (hno : ∀ m ∈ o, isFin m = false) {a b : List (WMsg τ)} {x sf ss : _}
    (h : o = a ++ WMsg.fin x sf ss :: b) : False := by
  have := hno (.fin x sf ss) (by rw [h]; simp)
  simp [isFin] at this

/-! ### worker-side steps -/

/-- a step of a worker's own threads (possible only while it has not finished) -/
theorem wkInv6_local {c : Ctl.State (Load.State τ) τ} {k : Nat} {w w' : Wk τ} (h : WkInv6 c k w)
    (hal : w'.alive = true → w.alive = true) (hnd : w.phase ≠ .done)
    (hO : w'.alive = true → w'.phase ≠ .done → ∀ m ∈ w'.outbox, isFin m = false)
    (hL : w'.alive = true → ∀ a x sf ss b, w'.outbox = a ++ WMsg.fin x sf ss :: b → b = [.endMarker])
    (hposted : w'.posted = w.posted)
    (hnr : w.alive = true → (completes (flight k w) = [] ∧ heldS w = [] ∧ inboxRuns w = []) →
      completes (flight k w') = [] ∧ heldS w' = [] ∧ inboxRuns w' = []) :
    WkInv6 c k w' := by
  refine ⟨hO, ?_, hL, ?_, ?_, ?_⟩
  · intro ha _ e he; rw [hposted] at he; exact h.finNoneP (hal ha) hnd e he
  · intro ha hk hnk; exact hnr (hal ha) (h.nr (hal ha) hk hnk)
  · intro ha hwf
    exfalso
    rw [hposted] at hwf
    obtain ⟨e, he, hw⟩ := List.any_eq_true.1 hwf
    rw [h.finNoneP (hal ha) hnd e he] at hw; cases hw
  · intro ha h1 h2 h3
    exact absurd (h.idleDone (hal ha) h1 h2 h3).1 hnd

/-- emitting messages that are neither `workerfinished` nor a completion, holding the same tests -/
theorem wkInv6_emit {c : Ctl.State (Load.State τ) τ} {k : Nat} {w w' : Wk τ} (ms : List (WMsg τ)) (h : WkInv6 c k w)
    (hal : w'.alive = w.alive) (hnd : w.phase ≠ .done) (hnd' : w'.phase ≠ .done)
    (hposted : w'.posted = w.posted) (houtbox : w'.outbox = w.outbox ++ ms)
    (hms : ∀ m ∈ ms, isFin m = false) (hcs : completes (ms.filterMap (evOf k)) = [])
    (hheld : heldS w' = heldS w) (hruns : inboxRuns w' = inboxRuns w) : WkInv6 c k w' := by
  have hno : w'.alive = true → ∀ m ∈ w'.outbox, isFin m = false := by
    intro ha m hm
    rw [houtbox] at hm
    rcases List.mem_append.1 hm with hm | hm
    · exact h.finNoneO (by rw [← hal]; exact ha) hnd m hm
    · exact hms m hm
  refine wkInv6_local h (fun ha => by rw [← hal]; exact ha) hnd (fun ha _ => hno ha) ?_ hposted ?_
  · intro ha a x sf ss b hs
    exact (no_fin_split (hno ha) hs).elim
  · intro _ ⟨x1, x2, x3⟩
    rw [flight_emit k hposted houtbox, completes_append, x1, hcs, hheld, hruns]
    exact ⟨rfl, x2, x3⟩

/-- a worker that is no longer active has finished (run without worker loss, no stop reason): used to see that such a
    worker takes no further step of its own -/
theorem done_of_inactive {c : Ctl.State (Load.State τ) τ} {k : Nat} {w : Wk τ} (h : WkInv6 c k w) (ha : w.alive = true)
    (h1 : c.failedNodes = 0) (h2 : c.shouldstop = none) (h3 : k ∉ c.active) : w.phase = .done :=
  (h.idleDone ha h1 h2 h3).1

end Xdist.Sys
