import XdistProofs.Sys.Budget
import XdistProofs.Ctl.Active
/-!
  C12, whole system, every scheduler: the workers the controller counts as active are pairwise distinct, each is a worker process
  that was actually started (its id is a position of the process list), and ids are never reused: a replacement gets the next
  fresh position.
-/
namespace Xdist.Sys
open Xdist Xdist.Ctl

set_option linter.unusedSectionVars false

variable {σ τ : Type} [DecidableEq τ]

def ActInv (c : Ctl.State σ τ) : Prop := c.active.Nodup ∧ ∀ a ∈ c.active, a < c.nextId

theorem loopOnce_actInv (I : SchedI σ τ) {c c' : Ctl.State σ τ} {ev : Event τ} (h : loopOnce I c ev = .ok c') (hi : ActInv c) :
    ActInv c' ∧ c.nextId ≤ c'.nextId := by
  have r := loopOnce_act I h
  refine ⟨⟨r.nodup hi.1 hi.2, ?_⟩, r.nextLe⟩
  intro a ha
  rcases r.new a ha with h' | ⟨_, h'⟩
  · exact Nat.lt_of_lt_of_le (hi.2 a h') r.nextLe
  · exact h'

theorem step_actInv (I : SchedI σ τ) (idsOf : Nat → List τ) {st st' : State σ τ} (a : Step) (hi : ActInv st.ctl)
    (h : step I idsOf st a = .ok st') : ActInv st'.ctl := by
  cases a with
  | main j p =>
    simp only [Sys.step] at h
    split at h
    · cases h
    · split at h
      · cases h
      · simp only [Except.ok.injEq] at h; subst h; exact hi
  | deliver j =>
    simp only [Sys.step] at h
    split at h
    · cases h
    · split at h
      · cases h
      · simp only [Except.ok.injEq] at h; subst h; exact hi
  | recv j =>
    simp only [Sys.step] at h
    split at h
    · cases h
    rename_i s1 hr
    simp only [Except.ok.injEq] at h; subst h
    unfold recvStep at hr
    split at hr
    · cases hr
    split at hr
    · cases hr
    simp only [Option.some.injEq] at hr
    subst hr
    exact hi
  | crash j b =>
    simp only [Sys.step] at h
    split at h
    · cases h
    rename_i s1 hc
    simp only [Except.ok.injEq] at h; subst h
    unfold crashStep at hc
    split at hc
    · cases hc
    split at hc
    · cases hc
    split at hc
    · simp only [Option.some.injEq] at hc; subst hc; exact hi
    · simp only [Option.some.injEq] at hc; subst hc; exact hi
  | ctl j rq =>
    simp only [Sys.step] at h
    unfold ctlStep at h
    split at h
    · cases h
    split at h
    · cases h
    split at h
    · cases h
    split at h
    · cases h
    simp only at h
    split at h
    · cases h
    rename_i c' hl
    simp only [Except.ok.injEq] at h; subst h
    exact (loopOnce_actInv I hl hi).1

/-- **Worker identities are unique and never reused — whole system, every scheduler** (C12).  After any execution: the active
    workers are pairwise distinct; each is one of the worker processes that were started (its number is a position of the process
    list, `gw<position>`); and with a restart budget `b` the list has exactly `numnodes + min failedNodes b` positions, so a
    replacement always got a number nobody had before. -/
theorem C12_sys_identities_unique (I : SchedI σ τ) (s0 : σ) (numnodes maxfail : Nat) (b : Int) (idsOf : Nat → List τ)
    (steps : List Step) {st : State σ τ} (h : run I idsOf (init I s0 numnodes maxfail (some b) idsOf) steps = .ok st) :
    st.ctl.active.Nodup ∧ (∀ a ∈ st.ctl.active, a < st.wk.length) ∧ st.wk.length = numnodes + min st.ctl.failedNodes b.toNat := by
  have key : ∀ (steps : List Step) {x y : State σ τ}, ActInv x.ctl → run I idsOf x steps = .ok y → ActInv y.ctl := by
    intro steps
    induction steps with
    | nil => intro x y hi h; simp only [run, Except.ok.injEq] at h; subst h; exact hi
    | cons s rest ih =>
      intro x y hi h
      simp only [run] at h
      split at h
      · cases h
      · rename_i x1 hs
        exact ih (step_actInv I idsOf s hi hs) h
  have h0 : ActInv (init I s0 numnodes maxfail (some b) idsOf).ctl := by
    refine ⟨?_, ?_⟩
    · simp only [init, Ctl.init]; exact List.nodup_range
    · intro a ha; simp only [init, Ctl.init, List.mem_range] at ha ⊢; exact ha
  obtain ⟨k1, k2⟩ := key steps h0 h
  have hb := run_budgetSys I idsOf steps (k := numnodes) (mr := some b)
    ⟨Ctl.init_inv I s0 numnodes maxfail (some b), by simp [init, Ctl.init]⟩ h
  obtain ⟨l1, _, _⟩ := C10_sys_restarts_bounded I s0 numnodes maxfail b idsOf steps h
  exact ⟨k1, by intro a ha; rw [hb.2]; exact k2 a ha, l1⟩

end Xdist.Sys
