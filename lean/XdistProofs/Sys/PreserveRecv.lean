import XdistProofs.Sys.PreserveSteps
/-! Preservation of the system invariant by `recv` (one `process_from_remote` of a worker's receiver thread). -/
namespace Xdist.Sys
open Xdist

variable {τ : Type} [DecidableEq τ]

theorem route_shutdown (wk : List (Wk τ)) (k : Nat) :
    route wk [SOut.shutdown k] =
      match wk[k]? with
      | some w => if w.alive then wk.set k { w with inbox := w.inbox ++ [.shutdown] } else wk
      | none => wk := by
  simp only [route, cmdOf]
  cases wk[k]? with
  | none => rfl
  | some w => simp [route]

theorem mem_of_mem_dropLast' {α : Type} (l : List α) (x : α) (h : x ∈ l.dropLast) : x ∈ l := by
  rw [List.dropLast_eq_take] at h
  exact List.mem_of_mem_take h

theorem qnD_of_flag {s : Load.State τ} {e : Env} {k : Nat} (h : e.flags.shuttingDown k = true) : QnD s e k := by
  unfold QnD
  split
  · trivial
  · exact Or.inl h

/-- the worker has been written off (or has finished): whatever it still sends is dropped -/
theorem recv_drop {c c' : Ctl.State (Load.State τ) τ} {k : Nat} {w : Wk τ} {m : WMsg τ} {rest : List (WMsg τ)}
    (h : WkInv c k w) (ho : w.outbox = m :: rest)
    (hs : c'.sched = c.sched) (ha : c'.active = c.active) (hst : c'.shouldstop = c.shouldstop)
    (hdown : (c.env.flags.get k).down = true) (hd' : (c'.env.flags.get k).down = true)
    (hse : (c'.env.flags.get k).sent = (c.env.flags.get k).sent)
    (hb : w.alive = true → (c'.env.flags.get k).broken = (c.env.flags.get k).broken) :
    WkInv c' k ({ w with outbox := rest } : Wk τ) := by
  have hsd : c'.env.flags.shuttingDown k = true := by unfold Flags.shuttingDown; rw [hd']; rfl
  refine ⟨h.loopCb, h.running, h.have1, h.init0, h.early, ?_, h.latePc, h.inboxK, h.ownP, ?_, ?_, ?_, ?_, ?_, ?_, ?_, ?_, h.noticeLast, ?_,
    ?_, ?_, ?_, ?_, ?_, ?_, ?_⟩
  · intro hal hbt
    have := (h.boot0 hal hbt).1
    rw [ho] at this; cases this
  · intro ev hev
    exact h.ownO ev (by rw [ho]; exact List.mem_filterMap.2 (by
      obtain ⟨a, ha', hx⟩ := List.mem_filterMap.1 hev
      exact ⟨a, List.mem_cons_of_mem _ ha', hx⟩))
  · intro x hx; exact h.evPlain x (by rw [ho]; exact List.mem_cons_of_mem _ hx)
  · intro hal; rw [hb hal]; exact h.notBroken hal
  · intro _ hh; rw [hd'] at hh; cases hh
  · intro hk _; rw [ha] at hk; exact h.notice2 hk hdown
  · intro _; exact hd'
  · rw [ha]; exact h.inactive
  · intro _; exact hd'
  · intro hbt
    have := h.bootNoReady hbt
    simp only [flight, ho, List.filterMap_cons, List.any_append, Bool.or_eq_false_iff] at this ⊢
    refine ⟨this.1, ?_⟩
    cases hx : evOf k m with
    | none => rw [hx] at this; exact this.2
    | some e => rw [hx] at this; simp only [List.any_cons, Bool.or_eq_false_iff] at this; exact this.2.2
  · rw [hse]; exact h.shut
  · intro _ hh; rw [hsd] at hh; cases hh
  · intro hh; rw [hd'] at hh; cases hh
  · intro hh; rw [hd'] at hh; cases hh
  · exact Or.inr (qnD_of_flag hsd)
  · rw [hs, ha, hst]; exact h.keysActive
  · intro _ hh; rw [hd'] at hh; cases hh

/-- an ordinary message is posted (or, for `collectionstart`, only logged): what is in flight does not change -/
theorem recv_move {c : Ctl.State (Load.State τ) τ} {k : Nat} {w : Wk τ} {m : WMsg τ} {rest : List (WMsg τ)}
    (h : WkInv c k w) (ho : w.outbox = m :: rest) (hnd : (c.env.flags.get k).down = false)
    (posts : List (Ctl.Event τ)) (hp : posts = (evOf k m).toList) (hnn : posts.any isNotice = false)
    (hne : isEnd m = false) :
    WkInv c k ({ w with outbox := rest, posted := w.posted ++ posts } : Wk τ) := by
  have hfl : flight k ({ w with outbox := rest, posted := w.posted ++ posts } : Wk τ) = flight k w := by
    simp only [flight, ho, List.filterMap_cons, hp]
    cases evOf k m <;> simp
  have hcp : collPending k ({ w with outbox := rest, posted := w.posted ++ posts } : Wk τ) = collPending k w := by
    simp only [collPending, hfl]
  have hka : k ∈ c.active := by
    apply Classical.byContradiction
    intro hk
    have := h.inactiveDown hk
    rw [hnd] at this; cases this
  have hnn0 : w.posted.any isNotice = false := by
    cases hh : w.posted.any isNotice with
    | false => rfl
    | true => have := h.noticeDown hh; rw [hnd] at this; cases this
  refine ⟨h.loopCb, h.running, h.have1, h.init0, h.early, ?_, h.latePc, h.inboxK, ?_, ?_, ?_, h.notBroken, ?_, ?_, ?_, ?_, h.inactiveDown,
    ?_, by rw [hfl]; exact h.bootNoReady, h.shut, ?_, ?_, ?_, ?_, h.keysActive, ?_⟩
  · intro hal hbt
    have := (h.boot0 hal hbt).1
    rw [ho] at this; cases this
  · intro ev hev
    rcases List.mem_append.1 hev with hev | hev
    · exact h.ownP ev hev
    · rw [hp] at hev
      exact h.ownO ev (by
        rw [ho, List.filterMap_cons]
        cases hx : evOf k m with
        | none => rw [hx] at hev; simp at hev
        | some e => rw [hx] at hev; simp at hev; subst hev; simp)
  · intro ev hev
    exact h.ownO ev (by rw [ho]; exact List.mem_filterMap.2 (by
      obtain ⟨a, ha', hx⟩ := List.mem_filterMap.1 hev
      exact ⟨a, List.mem_cons_of_mem _ ha', hx⟩))
  · intro x hx; exact h.evPlain x (by rw [ho]; exact List.mem_cons_of_mem _ hx)
  · intro hk hd
    rcases h.notice1 hk hd with hh | hh
    · exact Or.inl hh
    · right
      rw [ho, List.any_cons, hne] at hh
      simpa using hh
  · intro _ hd; rw [hnd] at hd; cases hd
  · intro hh
    simp only [List.any_append, hnn, Bool.or_false] at hh
    exact h.noticeDown hh
  · intro hk; exact absurd hka hk
  · -- only the last posted event may be a death notice
    rw [List.any_eq_false]
    intro x hx
    have hx' : x ∈ w.posted ++ posts := mem_of_mem_dropLast' _ _ hx
    rcases List.mem_append.1 hx' with hx' | hx'
    · have := List.any_eq_false.1 hnn0 x hx'; simpa using this
    · have := List.any_eq_false.1 hnn x hx'; simpa using this
  · rw [hfl]; exact h.ready
  · rw [hfl]; exact h.readyTail
  · rw [hfl, hcp]; exact h.readyColl
  · rw [hcp]; exact h.qn
  · intro hal hd
    have hs := h.sync hal hd
    have hh : heldS ({ w with outbox := rest, posted := w.posted ++ posts } : Wk τ) = heldS w := rfl
    have hi : inboxRuns ({ w with outbox := rest, posted := w.posted ++ posts } : Wk τ) = inboxRuns w := rfl
    unfold SyncD at hs ⊢
    rw [hfl, hh, hi]
    exact hs

/-- the receiver thread writes the worker off: a death notice is posted, `_down` is set -/
theorem recv_writeoff {c c' : Ctl.State (Load.State τ) τ} {k : Nat} {w : Wk τ} {m : WMsg τ} {rest : List (WMsg τ)}
    (h : WkInv c k w) (ho : w.outbox = m :: rest) (hnd : (c.env.flags.get k).down = false)
    (hs : c'.sched = c.sched) (ha : c'.active = c.active) (hst : c'.shouldstop = c.shouldstop)
    (hd' : (c'.env.flags.get k).down = true)
    (hb : w.alive = true → (c'.env.flags.get k).broken = false)
    (notice : Ctl.Event τ) (hno : isNotice notice = true) (hown : Own k notice = true)
    (inbox' : List Cmd) (hin : ∀ x ∈ inbox', x ∈ w.inbox ∨ x = .shutdown)
    (hshut : w.alive = true → (c'.env.flags.get k).sent = true →
      (inbox'.contains .shutdown || w.w.torun.contains .shutdown || w.w.next == some .shutdown) = true) :
    WkInv c' k ({ w with outbox := rest, posted := w.posted ++ [notice], inbox := inbox' } : Wk τ) := by
  have hsd : c'.env.flags.shuttingDown k = true := by unfold Flags.shuttingDown; rw [hd']; rfl
  have hka : k ∈ c.active := by
    apply Classical.byContradiction
    intro hk
    have := h.inactiveDown hk
    rw [hnd] at this; cases this
  have hnn0 : w.posted.any isNotice = false := by
    cases hh : w.posted.any isNotice with
    | false => rfl
    | true => have := h.noticeDown hh; rw [hnd] at this; cases this
  refine ⟨h.loopCb, h.running, h.have1, h.init0, h.early, ?_, h.latePc, ?_, ?_, ?_, ?_, hb, ?_, ?_, ?_, ?_, ?_, ?_, ?_, ?_, ?_, ?_, ?_, ?_, ?_, ?_⟩
  · intro hal hbt
    have := (h.boot0 hal hbt).1
    rw [ho] at this; cases this
  · intro x hx
    rcases hin x hx with hx | hx
    · exact h.inboxK x hx
    · subst hx; rfl
  · intro ev hev
    rcases List.mem_append.1 hev with hev | hev
    · exact h.ownP ev hev
    · simp at hev; subst hev; exact hown
  · intro ev hev
    exact h.ownO ev (by rw [ho]; exact List.mem_filterMap.2 (by
      obtain ⟨a, ha', hx⟩ := List.mem_filterMap.1 hev
      exact ⟨a, List.mem_cons_of_mem _ ha', hx⟩))
  · intro x hx; exact h.evPlain x (by rw [ho]; exact List.mem_cons_of_mem _ hx)
  · intro _ hh; rw [hd'] at hh; cases hh
  · intro _ _; simp [List.any_append, hno]
  · intro _; exact hd'
  · intro hk; rw [ha] at hk; exact absurd hka hk
  · intro _; exact hd'
  · simp only [List.dropLast_concat]; exact hnn0
  · intro hbt
    have := h.bootNoReady hbt
    simp only [flight, ho, List.filterMap_cons, List.any_append, Bool.or_eq_false_iff] at this ⊢
    refine ⟨⟨this.1, ?_⟩, ?_⟩
    · cases notice <;> simp [isNotice] at hno <;> simp [isReady]
    · cases hx : evOf k m with
      | none => rw [hx] at this; exact this.2
      | some e => rw [hx] at this; simp only [List.any_cons, Bool.or_eq_false_iff] at this; exact this.2.2
  · intro hal hse; rw [shutSeen_def]; exact hshut hal hse
  · intro _ hh; rw [hsd] at hh; cases hh
  · intro hh; rw [hd'] at hh; cases hh
  · intro hh; rw [hd'] at hh; cases hh
  · exact Or.inr (qnD_of_flag hsd)
  · rw [hs, ha, hst]; exact h.keysActive
  · intro _ hh; rw [hd'] at hh; cases hh

end Xdist.Sys

namespace Xdist.Sys
open Xdist
variable {τ : Type} [DecidableEq τ]

theorem recv_drop' {c : Ctl.State (Load.State τ) τ} (e' : Env) {k : Nat} {w : Wk τ} {m : WMsg τ} {rest : List (WMsg τ)}
    (h : WkInv c k w) (ho : w.outbox = m :: rest)
    (hdown : (c.env.flags.get k).down = true) (hd' : (e'.flags.get k).down = true)
    (hse : (e'.flags.get k).sent = (c.env.flags.get k).sent)
    (hb : w.alive = true → (e'.flags.get k).broken = (c.env.flags.get k).broken) :
    WkInv ({ c with env := e' } : Ctl.State (Load.State τ) τ) k ({ w with outbox := rest } : Wk τ) :=
  recv_drop (c := c) (c' := { c with env := e' }) h ho rfl rfl rfl hdown hd' hse hb

theorem recv_writeoff' {c : Ctl.State (Load.State τ) τ} (e' : Env) {k : Nat} {w : Wk τ} {m : WMsg τ} {rest : List (WMsg τ)}
    (h : WkInv c k w) (ho : w.outbox = m :: rest) (hnd : (c.env.flags.get k).down = false)
    (hd' : (e'.flags.get k).down = true)
    (hb : w.alive = true → (e'.flags.get k).broken = false)
    (notice : Ctl.Event τ) (hno : isNotice notice = true) (hown : Own k notice = true)
    (inbox' : List Cmd) (hin : ∀ x ∈ inbox', x ∈ w.inbox ∨ x = .shutdown)
    (hshut : w.alive = true → (e'.flags.get k).sent = true →
      (inbox'.contains .shutdown || w.w.torun.contains .shutdown || w.w.next == some .shutdown) = true) :
    WkInv ({ c with env := e' } : Ctl.State (Load.State τ) τ) k
      ({ w with outbox := rest, posted := w.posted ++ [notice], inbox := inbox' } : Wk τ) :=
  recv_writeoff (c := c) (c' := { c with env := e' }) h ho hnd rfl rfl rfl hd' hb notice hno hown inbox' hin hshut

theorem WkInv.congr_env {c : Ctl.State (Load.State τ) τ} (e' : Env) {j : Nat} {w : Wk τ}
    (hf : e'.flags.get j = c.env.flags.get j) (h : WkInv c j w) :
    WkInv ({ c with env := e' } : Ctl.State (Load.State τ) τ) j w :=
  WkInv.congr (c := c) (c' := { c with env := e' }) rfl rfl rfl hf h

end Xdist.Sys
