import XdistProofs.Sys.StopSys
import XdistProofs.Props.C04
/-!
  C04, whole system, every scheduler: **a collection error (or module-level skip) that several workers hit is published once** —
  in every reachable state the collection reports published so far are pairwise distinct texts, in first-arrival order, whatever
  else happened in between (tests running, workers crashing and being replaced, the replacement reporting the same error again).
-/
namespace Xdist.Sys
open Xdist Xdist.Ctl Xdist.Props.C04

set_option linter.unusedSectionVars false

variable {σ τ : Type} [DecidableEq τ]

/-- what is published about collection is exactly what is remembered, and nothing twice -/
def CollInv (c : Ctl.State σ τ) : Prop := collectKeys c = c.seenCollect ∧ c.seenCollect.Nodup

theorem collInv_congr {c c' : Ctl.State σ τ} (hp : collectKeys c' = collectKeys c) (hs : c'.seenCollect = c.seenCollect)
    (h : CollInv c) : CollInv c' := by
  unfold CollInv at *
  rw [hp, hs]; exact h

theorem collectKeys_append_other (c : Ctl.State σ τ) (p : Pub τ) (hp : ∀ k, p ≠ .collect k) :
    collectKeys ({ c with pubs := c.pubs ++ [p] } : Ctl.State σ τ) = collectKeys c := by
  unfold collectKeys
  simp only [List.filterMap_append, List.filterMap_cons, List.filterMap_nil]
  cases p <;> simp_all

theorem callSched_coll (I : SchedI σ τ) {c c' : Ctl.State σ τ} {op : SOp τ} {r : Option τ} (h : callSched I c op = .ok (c', r)) :
    collectKeys c' = collectKeys c ∧ c'.seenCollect = c.seenCollect := by
  unfold callSched at h
  obtain ⟨a, _, hb⟩ := map_ok.1 h
  simp only [Prod.mk.injEq] at hb
  obtain ⟨rfl, _⟩ := hb
  exact ⟨rfl, rfl⟩

theorem triggerShutdown_coll (I : SchedI σ τ) (c : Ctl.State σ τ) :
    collectKeys (triggerShutdown I c) = collectKeys c ∧ (triggerShutdown I c).seenCollect = c.seenCollect := by
  unfold triggerShutdown; split <;> exact ⟨rfl, rfl⟩

theorem handleFailures_coll (c : Ctl.State σ τ) (f : Bool) :
    collectKeys (handleFailures c f) = collectKeys c ∧ (handleFailures c f).seenCollect = c.seenCollect := by
  unfold handleFailures
  split
  · simp only; split <;> exact ⟨rfl, rfl⟩
  · exact ⟨rfl, rfl⟩

theorem removeActive_coll {c c' : Ctl.State σ τ} {n : Nat} (h : removeActive c n = .ok c') :
    collectKeys c' = collectKeys c ∧ c'.seenCollect = c.seenCollect := by
  unfold removeActive at h
  split at h
  · simp only [Except.ok.injEq] at h; subst h; exact ⟨rfl, rfl⟩
  · cases h

theorem restartOrStop_coll (I : SchedI σ τ) (c : Ctl.State σ τ) (n : Nat) :
    collectKeys (restartOrStop I c n) = collectKeys c ∧ (restartOrStop I c n).seenCollect = c.seenCollect := by
  rcases restartOrStop_cases I c n with ⟨b, hh⟩ | hh
  · rw [hh]; exact triggerShutdown_coll I _
  · rw [hh]
    refine ⟨?_, rfl⟩
    simp only [cloneNode]
    exact collectKeys_append_other _ _ (by intro k; simp)

theorem handleCrashItem_coll (I : SchedI σ τ) {c c' : Ctl.State σ τ} {n : Nat} {t : τ} {rq : Bool}
    (h : handleCrashItem I c n t rq = .ok c') : collectKeys c' = collectKeys c ∧ c'.seenCollect = c.seenCollect := by
  unfold handleCrashItem at h
  obtain ⟨c1, h1, h2⟩ := map_ok.1 h
  subst h2
  have k1 : collectKeys c1 = collectKeys c ∧ c1.seenCollect = c.seenCollect := by
    split at h1
    · obtain ⟨a, ha, hb⟩ := map_ok.1 h1
      subst hb
      exact callSched_coll I (show callSched I c (.markPending t) = .ok (a.1, a.2) by rw [ha])
    · simp only [Except.ok.injEq] at h1; subst h1; exact ⟨rfl, rfl⟩
  exact ⟨(collectKeys_append_other c1 _ (by intro k; simp)).trans k1.1, k1.2⟩

theorem errordown_coll (I : SchedI σ τ) {c c' : Ctl.State σ τ} {n : Nat} {rq : Bool} (h : errordown I c n rq = .ok c') :
    collectKeys c' = collectKeys c ∧ c'.seenCollect = c.seenCollect := by
  have key : ∀ (a : Ctl.State σ τ), collectKeys a = collectKeys c ∧ a.seenCollect = c.seenCollect →
      removeActive (restartOrStop I a n) n = .ok c' → collectKeys c' = collectKeys c ∧ c'.seenCollect = c.seenCollect := by
    intro a ha hr
    obtain ⟨r1, r2⟩ := removeActive_coll hr
    obtain ⟨s1, s2⟩ := restartOrStop_coll I a n
    exact ⟨r1.trans (s1.trans ha.1), r2.trans (s2.trans ha.2)⟩
  have h0 : collectKeys ({ c with pubs := c.pubs ++ [Pub.nodedown n true] } : Ctl.State σ τ) = collectKeys c :=
    collectKeys_append_other c _ (by intro k; simp)
  unfold errordown at h
  simp only at h
  split at h
  · exact key _ ⟨h0, rfl⟩ h
  · cases h
  · rename_i c1 hc
    obtain ⟨a1, a2⟩ := callSched_coll I hc
    exact key _ ⟨a1.trans h0, a2⟩ h
  · rename_i c1 x hc
    obtain ⟨c2, h2, h3⟩ := bind_ok.1 h
    obtain ⟨a1, a2⟩ := callSched_coll I hc
    obtain ⟨b1, b2⟩ := handleCrashItem_coll I h2
    exact key _ ⟨b1.trans (a1.trans h0), b2.trans a2⟩ h3

theorem workerfinished_coll (I : SchedI σ τ) {c c' : Ctl.State σ τ} {n x : Nat} {sf ss : Option String}
    (h : workerfinished I c n x sf ss = .ok c') : collectKeys c' = collectKeys c ∧ c'.seenCollect = c.seenCollect := by
  have h0 : ∀ (stop : Option Stop), collectKeys ({ c with shouldstop := stop, pubs := c.pubs ++ [Pub.nodedown n false] } : Ctl.State σ τ) = collectKeys c := by
    intro stop
    exact collectKeys_append_other ({ c with shouldstop := stop } : Ctl.State σ τ) _ (by intro k; simp)
  have h0' : collectKeys ({ c with pubs := c.pubs ++ [Pub.nodedown n false] } : Ctl.State σ τ) = collectKeys c :=
    collectKeys_append_other c _ (by intro k; simp)
  unfold workerfinished at h
  split at h
  · simp only at h
    obtain ⟨e1, e2⟩ := errordown_coll I h
    obtain ⟨t1, t2⟩ := triggerShutdown_coll I ({ c with shouldstop := some (Stop.keyboard n), pubs := c.pubs ++ [Pub.nodedown n false] } : Ctl.State σ τ)
    exact ⟨e1.trans (t1.trans (h0 _)), e2.trans t2⟩
  · simp only at h
    split at h
    · obtain ⟨r1, r2⟩ := removeActive_coll h
      refine ⟨r1.trans ?_, r2.trans ?_⟩
      · split
        · exact h0 _
        · exact h0'
      · split <;> rfl
    · split at h
      · split at h
        · cases h
        · cases h
        · rename_i c1 hc
          obtain ⟨a1, a2⟩ := callSched_coll I hc
          obtain ⟨r1, r2⟩ := removeActive_coll h
          exact ⟨r1.trans (a1.trans h0'), r2.trans a2⟩
      · obtain ⟨r1, r2⟩ := removeActive_coll h
        exact ⟨r1.trans h0', r2⟩

/-- **every handler keeps the collection reports duplicate-free** -/
theorem handle_collInv (I : SchedI σ τ) {c c' : Ctl.State σ τ} {ev : Event τ} (h : handle I c ev = .ok c') (hi : CollInv c) :
    CollInv c' := by
  cases ev with
  | workerready n =>
    simp only [handle] at h
    split at h
    · simp only [Except.ok.injEq] at h; subst h; exact collInv_congr rfl rfl hi
    · obtain ⟨a, ha, hb⟩ := map_ok.1 h
      subst hb
      obtain ⟨a1, a2⟩ := callSched_coll I (show callSched I c (.addNode n) = .ok (a.1, a.2) by rw [ha])
      exact collInv_congr a1 a2 hi
  | workerfinished n x sf ss =>
    obtain ⟨a1, a2⟩ := workerfinished_coll I h
    exact collInv_congr a1 a2 hi
  | internalError n =>
    simp only [handle] at h
    obtain ⟨a, ha, hb⟩ := map_ok.1 h
    subst hb
    obtain ⟨r1, r2⟩ := removeActive_coll ha
    exact collInv_congr ((collectKeys_append_other a _ (by intro k; simp)).trans r1) r2 hi
  | errordown n rq =>
    obtain ⟨a1, a2⟩ := errordown_coll I h
    exact collInv_congr a1 a2 hi
  | collectionfinish n ids =>
    simp only [handle, collectionfinish] at h
    split at h
    · simp only [Except.ok.injEq] at h; subst h; exact hi
    · split at h
      · simp only [Except.ok.injEq] at h; subst h; exact hi
      · obtain ⟨r, hr, h2⟩ := bind_ok.1 h
        obtain ⟨a1, a2⟩ := callSched_coll I (show callSched I c (.addNodeCollection n ids) = .ok (r.1, r.2) by rw [hr])
        split at h2
        · obtain ⟨a, ha, hb⟩ := map_ok.1 h2
          subst hb
          obtain ⟨b1, b2⟩ := callSched_coll I (show callSched I r.1 .schedule = .ok (a.1, a.2) by rw [ha])
          exact collInv_congr (b1.trans a1) (b2.trans a2) hi
        · simp only [Except.ok.injEq] at h2; subst h2
          exact collInv_congr a1 a2 hi
  | testreport n failed =>
    simp only [handle, Except.ok.injEq] at h; subst h
    obtain ⟨f1, f2⟩ := handleFailures_coll ({ c with pubs := c.pubs ++ [.report n failed] } : Ctl.State σ τ) failed
    exact collInv_congr (f1.trans (collectKeys_append_other c _ (by intro k; simp))) f2 hi
  | complete n i slow =>
    simp only [handle] at h
    obtain ⟨a, ha, hb⟩ := map_ok.1 h
    subst hb
    obtain ⟨a1, a2⟩ := callSched_coll I (show callSched I c (.markComplete n i slow) = .ok (a.1, a.2) by rw [ha])
    exact collInv_congr a1 a2 hi
  | unscheduled n is =>
    simp only [handle] at h
    obtain ⟨a, ha, hb⟩ := map_ok.1 h
    subst hb
    obtain ⟨a1, a2⟩ := callSched_coll I (show callSched I c (.removePending n is) = .ok (a.1, a.2) by rw [ha])
    exact collInv_congr a1 a2 hi
  | collectreport n key failed =>
    simp only [handle] at h
    split at h
    · simp only [Except.ok.injEq] at h; subst h; exact hi
    · rename_i hk
      simp only [Except.ok.injEq] at h; subst h
      obtain ⟨f1, f2⟩ := handleFailures_coll
        ({ c with seenCollect := c.seenCollect ++ [key], pubs := c.pubs ++ [.collect key] } : Ctl.State σ τ) failed
      unfold CollInv at hi ⊢
      rw [f1, f2]
      simp only
      refine ⟨?_, ?_⟩
      · unfold collectKeys at hi ⊢
        simp only [List.filterMap_append, List.filterMap_cons, List.filterMap_nil]
        rw [hi.1]
      · exact List.nodup_append.2 ⟨hi.2, by simp, by intro a ha b hb; simp at hb; subst hb; intro hab; subst hab; exact hk ha⟩
  | other => simp only [handle, Except.ok.injEq] at h; subst h; exact hi

theorem afterHandler_coll (I : SchedI σ τ) (c : Ctl.State σ τ) :
    collectKeys (afterHandler I c) = collectKeys c ∧ (afterHandler I c).seenCollect = c.seenCollect := by
  unfold afterHandler
  simp only
  split
  · split
    · obtain ⟨a1, a2⟩ := triggerShutdown_coll I c
      obtain ⟨b1, b2⟩ := triggerShutdown_coll I (triggerShutdown I c)
      exact ⟨b1.trans a1, b2.trans a2⟩
    · exact triggerShutdown_coll I c
  · split
    · exact triggerShutdown_coll I c
    · exact ⟨rfl, rfl⟩

theorem step_collInv (I : SchedI σ τ) (idsOf : Nat → List τ) {st st' : State σ τ} (a : Step) (hi : CollInv st.ctl)
    (h : step I idsOf st a = .ok st') : CollInv st'.ctl := by
  cases a with
  | main j p =>
    simp only [Sys.step] at h
    split at h
    · cases h
    · split at h
      · cases h
      · simp only [Except.ok.injEq] at h; subst h; exact hi
  | deliver j =>
    simp only [Sys.step] at h
    split at h
    · cases h
    · split at h
      · cases h
      · simp only [Except.ok.injEq] at h; subst h; exact hi
  | recv j =>
    simp only [Sys.step] at h
    split at h
    · cases h
    rename_i s1 hr
    simp only [Except.ok.injEq] at h; subst h
    unfold recvStep at hr
    split at hr
    · cases hr
    split at hr
    · cases hr
    simp only [Option.some.injEq] at hr
    subst hr
    exact collInv_congr rfl rfl hi
  | crash j b =>
    simp only [Sys.step] at h
    split at h
    · cases h
    rename_i s1 hc
    simp only [Except.ok.injEq] at h; subst h
    unfold crashStep at hc
    split at hc
    · cases hc
    split at hc
    · cases hc
    split at hc
    · simp only [Option.some.injEq] at hc; subst hc; exact collInv_congr rfl rfl hi
    · simp only [Option.some.injEq] at hc; subst hc; exact hi
  | ctl j rq =>
    simp only [Sys.step] at h
    unfold ctlStep at h
    split at h
    · cases h
    split at h
    · cases h
    split at h
    · cases h
    split at h
    · cases h
    simp only at h
    split at h
    · cases h
    rename_i c' hl
    simp only [Except.ok.injEq] at h; subst h
    unfold loopOnce at hl
    split at hl
    · cases hl
    obtain ⟨c1, hh1, rfl⟩ := map_ok.1 hl
    obtain ⟨a1, a2⟩ := afterHandler_coll I c1
    exact collInv_congr a1 a2 (handle_collInv I hh1 hi)

/-- **A collection error every worker hits is published once — whole system, every scheduler** (C04).  After any execution of the
    composed system the texts of the collection reports the controller has published are pairwise distinct (and are exactly the
    texts it remembers): however many workers — initial ones or replacements, at any time — reported the same error or the same
    module-level skip. -/
theorem C04_sys_collection_errors_published_once (I : SchedI σ τ) (s0 : σ) (numnodes maxfail : Nat) (mr : Option Int)
    (idsOf : Nat → List τ) (steps : List Step) {st : State σ τ}
    (h : run I idsOf (init I s0 numnodes maxfail mr idsOf) steps = .ok st) :
    (collectKeys st.ctl).Nodup ∧ collectKeys st.ctl = st.ctl.seenCollect := by
  have key : ∀ (steps : List Step) {a b : State σ τ}, CollInv a.ctl → run I idsOf a steps = .ok b → CollInv b.ctl := by
    intro steps
    induction steps with
    | nil => intro a b hi h; simp only [run, Except.ok.injEq] at h; subst h; exact hi
    | cons x rest ih =>
      intro a b hi h
      simp only [run] at h
      split at h
      · cases h
      · rename_i a1 hs
        exact ih (step_collInv I idsOf x hi hs) h
  have h0 : CollInv (init I s0 numnodes maxfail mr idsOf).ctl := by
    refine ⟨?_, ?_⟩ <;> simp [init, Ctl.init, collectKeys]
  obtain ⟨k1, k2⟩ := key steps h0 h
  exact ⟨by rw [k1]; exact k2, k1⟩

end Xdist.Sys
