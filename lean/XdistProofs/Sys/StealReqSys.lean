import XdistProofs.Sys.EachOnce
import XdistProofs.Sched.StealReq
/-!
  C07, whole system, `--dist worksteal`: in every execution an outstanding withdrawal request names a worker the scheduler still knows.
-/
namespace Xdist.Sys
open Xdist Xdist.Ctl

def WsP : Sched.Any → Env → Prop
  | .ws s, _ => WorkSteal.SR s
  | _, _ => False

theorem iface_wsP (specs : AList Nat Nat) : DiscS (Sched.iface specs) WsP where
  step := by
    intro s e op s' e' r h hp
    cases s with
    | ws s0 =>
      simp only [Sched.iface, Sched.Any.step] at h
      obtain ⟨q, hq, hq2⟩ := map_ok.1 h
      simp only [Prod.mk.injEq] at hq2
      obtain ⟨rfl, rfl, _⟩ := hq2
      obtain ⟨q1, q2, q3⟩ := q
      exact WorkSteal.step_sr hq hp
    | nosched => exact hp.elim
    | load s0 => exact hp.elim
    | scope m s0 => exact hp.elim
    | each s0 => exact hp.elim
  congr := by
    intro s e e' hp _
    cases s with
    | ws s0 => exact hp
    | nosched => exact hp.elim
    | load s0 => exact hp.elim
    | scope m s0 => exact hp.elim
    | each s0 => exact hp.elim

/-- **An outstanding withdrawal request names a worker the scheduler still knows, whole system** (C07, `--dist worksteal`).  After any
    execution of the composed system — crashes of victims before or after they answered, replacements, stop requests —: if a
    request is outstanding (`steal_requested` is set), its victim is one of the scheduler's nodes; so the request is cleared by the
    victim's answer or by its removal (`remove_node` resets it), never left dangling on a forgotten worker. -/
theorem C07_sys_outstanding_request_names_known_worker (specs : AList Nat Nat) (numnodes maxfail : Nat) (mr : Option Int)
    (idsOf : Nat → List String) (steps : List Step) {st : State Sched.Any String}
    (h : run (Sched.iface specs) idsOf (init (Sched.iface specs) (.ws (WorkSteal.init numnodes)) numnodes maxfail mr idsOf) steps = .ok st) :
    ∃ s, st.ctl.sched = .ws s ∧ ∀ v, s.stealReq = some v → v ∈ WorkSteal.nodes s := by
  have h0 : WsP (init (Sched.iface specs) (.ws (WorkSteal.init numnodes)) numnodes maxfail mr idsOf).ctl.sched
      (init (Sched.iface specs) (.ws (WorkSteal.init numnodes)) numnodes maxfail mr idsOf).ctl.env := by
    intro v hv; simp [WorkSteal.init] at hv
  have hp := run_discS (Sched.iface specs) (iface_wsP specs) idsOf steps h0 h
  cases hsc : st.ctl.sched with
  | ws s => rw [hsc] at hp; exact ⟨s, rfl, hp⟩
  | nosched => rw [hsc] at hp; exact hp.elim
  | load s => rw [hsc] at hp; exact hp.elim
  | scope m s => rw [hsc] at hp; exact hp.elim
  | each s => rw [hsc] at hp; exact hp.elim

end Xdist.Sys
