import XdistProofs.Sys.DoneCtl2
/-!
  **`--dist load`: at the end of a run without worker loss and without a stop reason every collected test has been executed
  exactly once** (`C01_sys_load_exactly_once_at_end`).
-/
namespace Xdist.Sys
open Xdist Xdist.Ctl Xdist.Load

variable {τ : Type} [DecidableEq τ]

theorem ctl_inv6 (idsOf : Nat → List τ) {st st' : LState τ} {k : Nat} {rq : Bool} (hinv1 : Inv st) (hinv : Inv6 st)
    (h : step Ctl.loadI idsOf st (.ctl k rq) = .ok st') : Inv6 st' := by
  simp only [step] at h
  obtain ⟨w, ev0, rest, c', hw, hp, hl, rfl⟩ := ctlStep_shape h
  have hk : k < st.wk.length := by
    rcases Nat.lt_or_ge k st.wk.length with h' | h'
    · exact h'
    · rw [List.getElem?_eq_none h'] at hw; cases hw
  have hlen := hinv1.1.len
  have wi := hinv1.wk hw
  have hown : Own k ev0 = true := wi.ownP ev0 (by rw [hp]; simp)
  obtain ⟨new, b1, f⟩ := ctl_facts hinv1.1 (by rw [← hlen]; exact hk) (fixRq_own rq hown) hl
  have hnew : c'.env.outs.drop st.ctl.env.outs.length = new := by rw [f.outs]; simp
  rw [hnew]
  have os := os_loopOnce loadI hl
  have hsubj : ∀ j, j ≠ k → subjectOf (fixRq rq ev0) ≠ some j := by
    intro j hj hs
    rw [fixRq_subject] at hs
    rcases own_subject hown with h' | h'
    · rw [h'] at hs; cases hs; exact hj rfl
    · rw [h'] at hs; cases hs
  have hsetlen : (st.wk.set k ({ w with posted := rest } : Wk τ)).length = st.ctl.nextId := by simp [hlen]
  intro j wj hj
  simp only at hj
  rw [route_get] at hj
  by_cases hjl : j < st.wk.length
  · rw [spawn_get_old _ _ _ _ (by simpa using hjl)] at hj
    by_cases hjk : j = k
    · subst hjk
      rw [getElem?_set_self' hw] at hj
      simp only [Option.map_some, Option.some.injEq] at hj
      subst hj
      exact ctl_wk6_self f os hl hinv1.1.nodup wi (hinv j w hw) hp (by rw [← hlen]; exact hk)
    · rw [List.getElem?_set_ne (Ne.symm hjk)] at hj
      cases hwj : st.wk[j]? with
      | none => rw [hwj] at hj; cases hj
      | some w0 =>
        rw [hwj] at hj
        simp only [Option.map_some, Option.some.injEq] at hj
        subst hj
        exact ctl_wk6_other f os (hinv1.wk hwj) (hinv j w0 hwj) (hsubj j hjk) (by rw [← hlen]; exact hjl)
  · have hjl' : st.wk.length ≤ j := Nat.le_of_not_lt hjl
    by_cases hju : j < c'.nextId
    · rw [spawn_get_new _ _ _ _ (by simpa using hjl') hju] at hj
      simp only [Option.map_some, Option.some.injEq] at hj
      subst hj
      have hge : st.ctl.nextId ≤ j := by rw [← hlen]; exact hjl'
      have hdel : deliverTo j new = [] := by
        apply deliverTo_nil_of_lt
        intro o ho n cmd hc hnj
        have := f.newLt o ho n cmd hc
        omega
      have hr : routed j new ({ ids := idsOf j } : Wk τ) = ({ ids := idsOf j } : Wk τ) := by
        unfold routed; simp [hdel]
      rw [hr]
      exact {
        finNoneO := (by intro _ _ m hm; simp at hm)
        finNoneP := (by intro _ _ e he; simp at he)
        finLast := (by intro _ a x sf ss b hs; cases a <;> simp at hs)
        nr := (by intro _ _ _; exact ⟨rfl, rfl, rfl⟩)
        doneSync := (by intro _ hany; simp at hany)
        idleDone := (by intro _ _ _ hna; exact absurd (f.actFresh j hge hju) hna) }
    · have : (spawn idsOf (st.wk.set k ({ w with posted := rest } : Wk τ)) c'.nextId)[j]? = none := by
        apply List.getElem?_eq_none
        rw [spawn_length _ _ _ (by rw [hsetlen]; exact f.nextLe)]
        omega
      rw [this] at hj; cases hj

theorem step_inv6 (idsOf : Nat → List τ) {st st' : LState τ} (a : Step) (h1 : Inv st) (h6 : Inv6 st)
    (h : step loadI idsOf st a = .ok st') : Inv6 st' := by
  cases a with
  | main k p => exact main_inv6 idsOf h1 h6 h
  | deliver k => exact deliver_inv6 idsOf h1 h6 h
  | recv k => exact recv_inv6 idsOf h1 h6 h
  | crash k b => exact crash_inv6 idsOf h6 h
  | ctl k rq => exact ctl_inv6 idsOf h1 h6 h

theorem init_inv6 (numnodes maxfail : Nat) (msc maxRestart : Option Int) (idsOf : Nat → List τ) :
    Inv6 (init loadI (Load.init numnodes msc) numnodes maxfail maxRestart idsOf) := by
  intro j w hj
  simp only [init, List.getElem?_map] at hj
  cases hr : (List.range numnodes)[j]? with
  | none => rw [hr] at hj; cases hj
  | some x =>
    rw [hr] at hj
    simp only [Option.map_some, Option.some.injEq] at hj
    subst hj
    have hjl : j < numnodes := by
      have := List.getElem?_eq_some_iff.1 hr
      obtain ⟨hlt, _⟩ := this
      simpa using hlt
    exact {
      finNoneO := (by intro _ _ m hm; simp at hm)
      finNoneP := (by intro _ _ e he; simp at he)
      finLast := (by intro _ a x sf ss b hs; cases a <;> simp at hs)
      nr := (by intro _ _ _; exact ⟨rfl, rfl, rfl⟩)
      doneSync := (by intro _ hany; simp at hany)
      idleDone := (by intro _ _ _ hna; exact absurd (by simp [init, Ctl.init, hjl]) hna) }

theorem reach_inv16 (idsOf : Nat → List τ) {st0 st : LState τ} (h1 : Inv st0) (h6 : Inv6 st0) (h : Reach idsOf st0 st) :
    Inv st ∧ Inv6 st := by
  induction h with
  | init => exact ⟨h1, h6⟩
  | step a _ hs ih => exact ⟨step_inv idsOf a ih.1 hs, step_inv6 idsOf a ih.1 ih.2 hs⟩

/-- **`--dist load`: every collected test is executed exactly once, and the run does not end before.**  In every state the
    whole system can reach in which the session is finished, no worker has been lost and no stop reason was set — whatever
    the numbers of workers and tests, `--maxschedchunk`, what the tests do, and in whatever order threads ran and messages
    were delivered —, the tests started by the workers' main threads, all workers taken together, are exactly the indices
    of the agreed collection, each once; nothing is left in the pool, in a queue or on the wire. -/
theorem C01_sys_load_exactly_once_at_end (numnodes maxfail : Nat) (msc maxRestart : Option Int) (idsOf : Nat → List τ)
    {st : LState τ} (h : Reach idsOf (init loadI (Load.init numnodes msc) numnodes maxfail maxRestart idsOf) st)
    (hcl : Clean st) (hst : st.ctl.shouldstop = none) (hfin : Ctl.sessionFinished st.ctl = true)
    {col : List τ} (hcol : st.ctl.sched.collection = some col) :
    (st.wk.flatMap ranIdx).Perm (List.range col.length) ∧ st.ctl.sched.pending = [] ∧
    ∀ w ∈ st.wk, nextT w = [] ∧ Worker.tests w.w.torun = [] ∧ inboxRuns w = [] := by
  obtain ⟨hpool, _⟩ := C01_sys_load_end_accounts numnodes maxfail msc maxRestart idsOf h hcl hst hfin hcol
  obtain ⟨_, i6⟩ := reach_inv16 idsOf (init_inv numnodes maxfail msc maxRestart idsOf)
    (init_inv6 numnodes maxfail msc maxRestart idsOf) h
  have hact : st.ctl.active = [] := by
    unfold Ctl.sessionFinished at hfin
    simp only [Bool.and_eq_true] at hfin
    exact List.isEmpty_iff.1 hfin.2
  have hidle : ∀ w ∈ st.wk, nextT w = [] ∧ Worker.tests w.w.torun = [] ∧ inboxRuns w = [] := by
    intro w hw
    obtain ⟨j, hj, rfl⟩ := List.getElem_of_mem hw
    have hwj : st.wk[j]? = some st.wk[j] := by simp [hj]
    obtain ⟨_, y2, y3⟩ := (i6 j _ hwj).idleDone (hcl.2 _ hw) hcl.1 hst (by rw [hact]; simp)
    refine ⟨?_, ?_, y3⟩
    · unfold heldS at y2
      simp only [List.append_eq_nil_iff] at y2
      unfold nextT
      exact y2.1.2
    · unfold heldS at y2
      simp only [List.append_eq_nil_iff] at y2
      exact y2.2
  exact ⟨C01_sys_load_all_started_when_idle numnodes maxfail msc maxRestart idsOf h hcl hcol hpool hidle, hpool, hidle⟩

end Xdist.Sys
