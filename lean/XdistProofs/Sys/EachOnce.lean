import XdistProofs.Sys.CrashOnce
import XdistProofs.Sched.EachReach
import XdistProofs.Sched.EnvRel
/-!
  C08, whole system, `--dist each`: **every worker is sent tests at most once** — `runtests_all` for a fresh environment, or one
  `runtests` with what is left over of the environment it replaces — in every execution, whatever crashes and replacements happen.
  (That what it is sent is the whole collection, resp. exactly the left-over, is `Sched/EachReach`; that nothing follows the shutdown
  signal is `C16_sys_nothing_after_the_shutdown_signal`.)
-/
namespace Xdist.Sys
open Xdist Xdist.Ctl Xdist.Contract

set_option linter.unusedSectionVars false

/-- the dispatching commands written to worker `n` so far -/
def dispTo (n : Nat) (e : Env) : List SOut := (dispatches e).filter fun o => cmdNode o == some n

theorem dispTo_emit_other (n : Nat) (e : Env) (o : SOut) (h : isDispatch o = false ∨ cmdNode o ≠ some n) : dispTo n (e.emit o) = dispTo n e := by
  unfold dispTo dispatches Env.emit
  simp only [List.filter_append, List.filter_cons, List.filter_nil]
  rcases h with h | h
  · simp [h]
  · by_cases hd : isDispatch o = true
    · simp [hd, h]
    · simp [hd]

theorem dispTo_emit_self (n : Nat) (e : Env) (o : SOut) (hd : isDispatch o = true) (hn : cmdNode o = some n) :
    dispTo n (e.emit o) = dispTo n e ++ [o] := by
  unfold dispTo dispatches Env.emit
  simp [List.filter_append, hd, hn]

theorem dispTo_shutdown (n k : Nat) (e : Env) : dispTo n (e.shutdown k) = dispTo n e := by
  unfold dispTo; rw [shutdown_dispatches]

namespace EachI
open Xdist.Each

variable {τ : Type} [DecidableEq τ]

/-- a worker that was sent tests is marked started, and nobody was sent tests twice -/
def EI (s : Each.State τ) (e : Env) : Prop := ∀ n, (dispTo n e ≠ [] → n ∈ s.started) ∧ (dispTo n e).length ≤ 1

theorem ei_started_mono {s s' : Each.State τ} {e : Env} (h : EI s e) (hs : ∀ n, n ∈ s.started → n ∈ s'.started) : EI s' e :=
  fun n => ⟨fun hn => hs n ((h n).1 hn), (h n).2⟩

theorem ei_env_congr {s : Each.State τ} {e e' : Env} (h : EI s e) (hd : ∀ n, dispTo n e' = dispTo n e) : EI s e' :=
  fun n => by rw [hd n]; exact h n

/-- one send to a node that is not started yet, after which it is started -/
theorem ei_afterSend {s : Each.State τ} {e : Env} {n : Nat} {o : SOut} (h : EI s e) (hns : n ∉ s.started)
    (hd : isDispatch o = true) (hn : cmdNode o = some n) :
    EI ({ s with started := s.started ++ [n] } : Each.State τ) (afterSend e n o) := by
  have hnone : dispTo n e = [] := by
    cases hc : dispTo n e with
    | nil => rfl
    | cons a t => exact absurd ((h n).1 (by rw [hc]; simp)) hns
  intro m
  unfold afterSend
  split
  · exact ⟨fun hm => List.mem_append_left _ ((h m).1 hm), (h m).2⟩
  · split
    · exact ⟨fun hm => List.mem_append_left _ ((h m).1 hm), (h m).2⟩
    · by_cases hmn : m = n
      · subst hmn
        rw [dispTo_emit_self m e o hd hn, hnone]
        exact ⟨fun _ => by simp, by simp⟩
      · rw [dispTo_emit_other m e o (Or.inr (by rw [hn]; intro hh; cases hh; exact hmn rfl))]
        exact ⟨fun hm => List.mem_append_left _ ((h m).1 hm), (h m).2⟩

theorem scheduleLoop_ei (l : List Nat) : ∀ {s s' : Each.State τ} {e e' : Env}, scheduleLoop s e l = .ok (s', e') → EI s e → EI s' e' := by
  induction l with
  | nil =>
    intro s s' e e' h hi
    simp only [scheduleLoop, Except.ok.injEq, Prod.mk.injEq] at h
    obtain ⟨rfl, rfl⟩ := h; exact hi
  | cons n t ih =>
    intro s s' e e' h hi
    by_cases hst : s.started.contains n = true
    · rw [scheduleLoop] at h
      simp only [hst, if_true] at h
      exact ih h hi
    · have hst' : s.started.contains n = false := by simpa using hst
      have hnm : n ∉ s.started := by simpa using hst'
      by_cases hcc : s.node2collection.contains n = true
      · cases hget : s.node2pending.get n with
        | error err =>
          rw [scheduleLoop] at h
          simp [hnm, hcc, hget, bind, Except.bind] at h
        | ok book =>
          rw [scheduleLoop_cons s e n t book hst' hcc hget] at h
          split at h
          · split at h
            · refine ih h ?_
              have h1 := ei_afterSend (o := .runAll n) hi hnm rfl rfl
              exact fun m => by rw [dispTo_shutdown]; exact h1 m
            · cases h
          · exact ih h (ei_afterSend (o := .run n book) hi hnm rfl rfl)
      · rw [scheduleLoop] at h
        simp only [hst', Bool.false_eq_true, if_false, hcc, Bool.not_false, if_true] at h
        exact ih h hi

theorem takeOver_ei (spec : Nat → Nat) {n : Nat} {c : List τ} (l : AList Nat (List Nat)) :
    ∀ {s s' : Each.State τ} {e e' : Env}, takeOver spec s e n c l = .ok (s', e') → EI s e → EI s' e' := by
  induction l with
  | nil =>
    intro s s' e e' h hi
    simp only [takeOver, nothingToTakeOver, Except.ok.injEq, Prod.mk.injEq] at h
    obtain ⟨rfl, rfl⟩ := h
    exact ei_env_congr (ei_started_mono (s' := { s with started := s.started ++ [n] }) hi (fun m hm => List.mem_append_left _ hm))
      (fun m => dispTo_shutdown m n e)
  | cons p rest ih =>
    intro s s' e e' h hi
    obtain ⟨dead, pend⟩ := p
    simp only [takeOver] at h
    split at h
    · obtain ⟨deadCol, _, h⟩ := bind_ok.1 h
      split at h
      · simp only [nothingToTakeOver, Except.ok.injEq, Prod.mk.injEq] at h
        obtain ⟨rfl, rfl⟩ := h
        exact ei_env_congr (ei_started_mono (s' := { s with started := s.started ++ [n] }) hi (fun m hm => List.mem_append_left _ hm))
          (fun m => dispTo_shutdown m n e)
      · simp only [Except.ok.injEq, Prod.mk.injEq] at h
        obtain ⟨rfl, rfl⟩ := h
        exact ei_started_mono hi (fun m hm => hm)
    · exact ih h hi

theorem step_ei (spec : Nat → Nat) {s s' : Each.State τ} {e e' : Env} {op : SOp τ} {r : Option τ}
    (h : Each.step spec s e op = .ok (s', e', r)) (hi : EI s e) : EI s' e' := by
  cases op with
  | addNode n =>
    simp only [Each.step] at h
    obtain ⟨s1, h1, h2⟩ := map_ok.1 h
    simp at h2; obtain ⟨rfl, rfl, _⟩ := h2
    unfold addNode at h1
    split at h1
    · cases h1
    · simp only [Except.ok.injEq] at h1; subst h1; exact ei_started_mono hi (fun m hm => hm)
  | addNodeCollection n c =>
    simp only [Each.step] at h
    obtain ⟨⟨s1, e1⟩, h1, h2⟩ := map_ok.1 h
    simp at h2; obtain ⟨rfl, rfl, _⟩ := h2
    unfold addNodeCollection at h1
    split at h1
    · cases h1
    · split at h1
      · simp only [Except.ok.injEq, Prod.mk.injEq] at h1; obtain ⟨rfl, rfl⟩ := h1
        exact ei_started_mono hi (fun m hm => hm)
      · exact takeOver_ei spec _ h1 hi
  | schedule =>
    simp only [Each.step] at h
    obtain ⟨⟨s1, e1⟩, h1, h2⟩ := map_ok.1 h
    simp at h2; obtain ⟨rfl, rfl, _⟩ := h2
    unfold schedule at h1
    split at h1
    · cases h1
    · exact scheduleLoop_ei _ h1 hi
  | markComplete n i slow =>
    simp only [Each.step] at h
    obtain ⟨s1, h1, h2⟩ := map_ok.1 h
    simp at h2; obtain ⟨rfl, rfl, _⟩ := h2
    unfold markComplete at h1
    obtain ⟨book, _, h1⟩ := bind_ok.1 h1
    obtain ⟨book', _, h1⟩ := bind_ok.1 h1
    simp only [Except.ok.injEq] at h1; subst h1
    exact ei_started_mono hi (fun m hm => hm)
  | markPending t => simp [Each.step] at h
  | removePending n is => simp [Each.step] at h
  | removeNode n =>
    simp only [Each.step] at h
    obtain ⟨p, h1, h2⟩ := map_ok.1 h
    simp at h2; obtain ⟨rfl, rfl, _⟩ := h2
    unfold removeNode at h1
    obtain ⟨q, _, h1⟩ := bind_ok.1 h1
    simp only at h1
    split at h1
    · simp only [Except.ok.injEq] at h1; subst h1; exact ei_started_mono hi (fun m hm => hm)
    · obtain ⟨col, _, h1⟩ := bind_ok.1 h1
      split at h1
      · cases h1
      · simp only [Except.ok.injEq] at h1; subst h1
        simp only
        split <;> exact ei_started_mono hi (fun m hm => hm)

end EachI


variable {σ τ : Type} [DecidableEq τ]

/-- an invariant of scheduler state and wire that the scheduler's calls keep, and that sees the wire only through the dispatching
    commands written to it (so shutdown signals and flag changes by other threads cannot disturb it) -/
structure DiscS (I : SchedI σ τ) (P : σ → Env → Prop) : Prop where
  step : ∀ {s : σ} {e : Env} {op : SOp τ} {s' : σ} {e' : Env} {r : Option τ}, I.step s e op = .ok (s', e', r) → P s e → P s' e'
  congr : ∀ {s : σ} {e e' : Env}, P s e → dispatches e' = dispatches e → P s e'

theorem steps_discS {I : SchedI σ τ} {P : σ → Env → Prop} (hD : DiscS I P) {s s' : σ} {e e' : Env} {as : List (Atom τ)}
    (h : Steps I s e as s' e') (hs : P s e) : P s' e' := by
  induction h with
  | nil => exact hs
  | call hc _ ih => exact ih (hD.step hc hs)
  | shut n _ ih => exact ih (hD.congr hs (shutdown_dispatches _ n))

theorem step_discS (I : SchedI σ τ) {P : σ → Env → Prop} (hD : DiscS I P) (idsOf : Nat → List τ) {st st' : State σ τ} (a : Step)
    (hs : P st.ctl.sched st.ctl.env) (h : step I idsOf st a = .ok st') : P st'.ctl.sched st'.ctl.env := by
  cases a with
  | main j p =>
    simp only [Sys.step] at h
    split at h
    · cases h
    · split at h
      · cases h
      · simp only [Except.ok.injEq] at h; subst h; exact hs
  | deliver j =>
    simp only [Sys.step] at h
    split at h
    · cases h
    · split at h
      · cases h
      · simp only [Except.ok.injEq] at h; subst h; exact hs
  | recv j =>
    simp only [Sys.step] at h
    split at h
    · cases h
    rename_i s1 hr
    simp only [Except.ok.injEq] at h; subst h
    unfold recvStep at hr
    split at hr
    · cases hr
    rename_i w hw
    split at hr
    · cases hr
    rename_i m rest ho
    simp only [Option.some.injEq] at hr
    subst hr
    refine hD.congr hs ?_
    simp only [dispatches]
    split
    · simp [List.filter_append, isDispatch]
    · rfl
  | crash j b =>
    simp only [Sys.step] at h
    split at h
    · cases h
    rename_i s1 hc
    simp only [Except.ok.injEq] at h; subst h
    unfold crashStep at hc
    split at hc
    · cases hc
    split at hc
    · cases hc
    split at hc
    · simp only [Option.some.injEq] at hc; subst hc
      exact hD.congr hs rfl
    · simp only [Option.some.injEq] at hc; subst hc; exact hs
  | ctl j rq =>
    simp only [Sys.step] at h
    unfold ctlStep at h
    split at h
    · cases h
    split at h
    · cases h
    split at h
    · cases h
    split at h
    · cases h
    simp only at h
    split at h
    · cases h
    rename_i c' hl
    simp only [Except.ok.injEq] at h; subst h
    obtain ⟨as, hsteps, _⟩ := loopOnce_steps hl
    exact steps_discS hD hsteps hs

theorem run_discS (I : SchedI σ τ) {P : σ → Env → Prop} (hD : DiscS I P) (idsOf : Nat → List τ) : ∀ (steps : List Step) {st st' : State σ τ},
    P st.ctl.sched st.ctl.env → run I idsOf st steps = .ok st' → P st'.ctl.sched st'.ctl.env := by
  intro steps
  induction steps with
  | nil => intro st st' hs h; simp only [run, Except.ok.injEq] at h; subst h; exact hs
  | cons a rest ih =>
    intro st st' hs h
    simp only [run] at h
    split at h
    · cases h
    · rename_i st1 hs1
      exact ih (step_discS I hD idsOf a hs hs1) h

/-- the invariant, for the scheduler as `DSession` sees it: the scheduler is (and stays) an `EachScheduling`, and `EI` holds of it -/
def EachP : Sched.Any → Env → Prop
  | .each s, e => EachI.EI s e
  | _, _ => False

theorem iface_eachP (specs : AList Nat Nat) : DiscS (Sched.iface specs) EachP where
  step := by
    intro s e op s' e' r h hp
    cases s with
    | each s0 =>
      simp only [Sched.iface, Sched.Any.step] at h
      obtain ⟨q, hq, hq2⟩ := map_ok.1 h
      simp only [Prod.mk.injEq] at hq2
      obtain ⟨rfl, rfl, _⟩ := hq2
      obtain ⟨q1, q2, q3⟩ := q
      exact EachI.step_ei _ hq hp
    | nosched => exact hp.elim
    | load s0 => exact hp.elim
    | ws s0 => exact hp.elim
    | scope m s0 => exact hp.elim
  congr := by
    intro s e e' hp hd
    cases s with
    | each s0 => exact EachI.ei_env_congr hp (fun n => by unfold dispTo; rw [hd])
    | nosched => exact hp.elim
    | load s0 => exact hp.elim
    | ws s0 => exact hp.elim
    | scope m s0 => exact hp.elim

/-- **Under `--dist each`, no worker is ever sent tests twice, whole system** (C08).  After any execution of the composed system
    with `EachScheduling` — any schedule of the threads, crashes, replacement workers taking over what a dead one left, stop
    requests —, every worker has been written at most one dispatching command: `runtests_all` (the whole collection) if it is a
    fresh environment, or the single `runtests` with the left-over of the worker it replaces; and the scheduler has it marked
    started, so `schedule()` skips it from then on. -/
theorem C08_sys_each_sent_tests_at_most_once (specs : AList Nat Nat) (numnodes maxfail : Nat) (mr : Option Int)
    (idsOf : Nat → List String) (steps : List Step) {st : State Sched.Any String}
    (h : run (Sched.iface specs) idsOf (init (Sched.iface specs) (.each (Each.init numnodes)) numnodes maxfail mr idsOf) steps = .ok st)
    (n : Nat) :
    (dispTo n st.ctl.env).length ≤ 1 ∧
    ∃ s, st.ctl.sched = .each s ∧ (dispTo n st.ctl.env ≠ [] → n ∈ s.started) := by
  have h0 : EachP (init (Sched.iface specs) (.each (Each.init numnodes)) numnodes maxfail mr idsOf).ctl.sched
      (init (Sched.iface specs) (.each (Each.init numnodes)) numnodes maxfail mr idsOf).ctl.env := by
    show EachI.EI _ _
    intro k; simp [init, Ctl.init, dispTo, dispatches]
  have hp := run_discS (Sched.iface specs) (iface_eachP specs) idsOf steps h0 h
  cases hsc : st.ctl.sched with
  | each s =>
    rw [hsc] at hp
    exact ⟨(hp n).2, s, rfl, (hp n).1⟩
  | nosched => rw [hsc] at hp; exact hp.elim
  | load s => rw [hsc] at hp; exact hp.elim
  | ws s => rw [hsc] at hp; exact hp.elim
  | scope m s => rw [hsc] at hp; exact hp.elim

/-! Non-vacuity: an `--dist each` execution, replayed by the kernel, in which the worker was sent its tests (`runtests_all`, then the
    shutdown signal, as `each.py` does for a fresh environment). -/
def eachIds : Nat → List String := fun _ => ["a", "b"]
def eachInit : State Sched.Any String := init (Sched.iface []) (.each (Each.init 1)) 1 0 (some 4) eachIds
def eachSteps : List Step :=
  [.main 0 .none, .main 0 (.collect [] false false none), .recv 0, .ctl 0 false, .recv 0, .recv 0, .ctl 0 false]
def eachFinal : Option (State Sched.Any String) :=
  match run (Sched.iface []) eachIds eachInit eachSteps with | .ok st => some st | .error _ => none

theorem eachRun : eachFinal.map (fun st => st.ctl.env.outs == [.runAll 0, .shutdown 0]) = some true := by decide +kernel

example : ∃ st, run (Sched.iface []) eachIds eachInit eachSteps = .ok st ∧ dispTo 0 st.ctl.env = [.runAll 0] ∧
    ∃ s, st.ctl.sched = .each s ∧ 0 ∈ s.started := by
  have h := eachRun
  unfold eachFinal at h
  cases hr : run (Sched.iface []) eachIds eachInit eachSteps with
  | error e => rw [hr] at h; simp at h
  | ok st =>
    rw [hr] at h
    simp only [Option.map_some, Option.some.injEq, beq_iff_eq] at h
    have hd : dispTo 0 st.ctl.env = [.runAll 0] := by simp [dispTo, dispatches, h, isDispatch, cmdNode]
    obtain ⟨_, s, hs, hst⟩ := C08_sys_each_sent_tests_at_most_once [] 1 0 (some 4) eachIds eachSteps hr 0
    exact ⟨st, rfl, hd, s, hs, hst (by rw [hd]; simp)⟩

end Xdist.Sys
