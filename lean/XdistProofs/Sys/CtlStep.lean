import XdistProofs.Sys.CtlSelf
/-! The controller step keeps the system invariant, given what one loop iteration does (`CtlFacts`). -/
namespace Xdist.Sys
open Xdist

variable {τ : Type} [DecidableEq τ]

theorem flags_default {st : LState τ} (hc : CtlInv st) (j : Nat) (hj : st.ctl.nextId ≤ j) : st.ctl.env.flags.get j = {} := by
  by_cases hk : j ∈ AList.keys st.ctl.env.flags
  · exact hc.flagsLt j hk hj
  · unfold Flags.get
    cases hl : AList.lookup st.ctl.env.flags j with
    | none => rfl
    | some v => exact absurd ((AList.lookup_isSome_iff_mem_keys _ _).1 (by rw [hl]; rfl)) hk

theorem prep_keys {ev : Ctl.Event τ} {b b1 : Load.Books} (h : Prep ev b b1) {m : Nat} (hm : m ∈ AList.keys b1) :
    m ∈ AList.keys b ∨ subjectOf ev = some m := by
  by_cases hs : subjectOf ev = some m
  · exact Or.inr hs
  · left
    have := (AList.lookup_isSome_iff_mem_keys _ _).2 hm
    rw [prep_other h hs] at this
    exact (AList.lookup_isSome_iff_mem_keys _ _).1 this

/-- a worker started in this iteration: nothing has happened to it yet -/
theorem ctl_wk_fresh {c c' : Ctl.State (Load.State τ) τ} {ev : Ctl.Event τ} {new : List SOut} {b1 : Load.Books}
    (f : CtlFacts c ev c' new b1) {j : Nat} (ids : List τ) (h1 : c.nextId ≤ j) (h2 : j < c'.nextId)
    (hfl : c.env.flags.get j = {}) (hnk : j ∉ AList.keys c'.sched.node2pending) :
    WkInv c' j ({ ids := ids } : Wk τ) := by
  have hact : j ∈ c'.active := f.actFresh j h1 h2
  have hd : (c'.env.flags.get j).down = false := by rw [(f.acc.other j).1, hfl]
  have hb : (c'.env.flags.get j).broken = false := by rw [(f.acc.other j).2, hfl]
  have hs : (c'.env.flags.get j).sent = false := by
    cases hh : (c'.env.flags.get j).sent with
    | false => rfl
    | true =>
      rcases f.acc.sentNew j hh with h' | h' | h'
      · rw [hfl] at h'; cases h'
      · have := f.newLt _ h' j .shutdown (by simp [cmdOf]); omega
      · rw [hfl] at h'; cases h'
  have hsync : SyncD c'.sched j ({ ids := ids } : Wk τ) := by
    unfold SyncD
    have : AList.lookup c'.sched.node2pending j = none := by
      cases hl : AList.lookup c'.sched.node2pending j with
      | none => rfl
      | some v => exact absurd ((AList.lookup_isSome_iff_mem_keys _ _).1 (by rw [hl]; rfl)) hnk
    rw [this]
    simp only
    intro _
    exact ⟨rfl, rfl, rfl⟩
  exact {
    loopCb := (by intro h; cases h)
    running := (by intro h; cases h)
    have1 := (by intro h; cases h)
    init0 := fun _ => rfl
    early := fun _ => ⟨rfl, rfl, rfl⟩
    boot0 := fun _ _ => ⟨rfl, rfl⟩
    latePc := fun _ => trivial
    inboxK := (by intro x hx; simp at hx)
    ownP := (by intro x hx; simp at hx)
    ownO := (by intro x hx; simp at hx)
    evPlain := (by intro x hx; simp at hx)
    notBroken := fun _ => hb
    notice1 := fun _ _ => Or.inl ⟨rfl, by simp⟩
    notice2 := (by intro _ hh; rw [hd] at hh; cases hh)
    noticeDown := (by intro h; simp at h)
    inactive := fun hk => absurd hact hk
    inactiveDown := fun hk => absurd hact hk
    noticeLast := rfl
    bootNoReady := fun _ => rfl
    shut := (by intro _ hh; rw [hs] at hh; cases hh)
    ready := fun _ _ hp => absurd rfl hp
    readyTail := fun _ => rfl
    readyColl := (by intro _ h; simp [flight] at h)
    qn := Or.inl rfl
    keysActive := fun hk => absurd hk hnk
    sync := fun _ _ => hsync }

end Xdist.Sys

namespace Xdist.Sys
open Xdist

variable {τ : Type} [DecidableEq τ]

/-- the shape of a successful controller step -/
theorem ctlStep_shape {idsOf : Nat → List τ} {st st' : LState τ} {k : Nat} {rq : Bool}
    (h : ctlStep Ctl.loadI idsOf st k rq = .ok st') :
    ∃ w ev0 rest c', st.wk[k]? = some w ∧ w.posted = ev0 :: rest ∧ Ctl.loopOnce Ctl.loadI st.ctl (fixRq rq ev0) = .ok c' ∧
      st' = { ctl := c', wk := route (spawn idsOf (st.wk.set k { w with posted := rest }) c'.nextId)
                                  (c'.env.outs.drop st.ctl.env.outs.length) } := by
  unfold ctlStep at h
  split at h
  · cases h
  split at h
  · cases h
  split at h
  · cases h
  rename_i w hw
  split at h
  · cases h
  rename_i ev0 rest hp
  have hfix : (match ev0 with | .errordown n _ => Ctl.Event.errordown n rq | e => e) = fixRq rq ev0 := by
    cases ev0 <;> rfl
  simp only [hfix] at h
  split at h
  · cases h
  rename_i c' hl
  simp only [Except.ok.injEq] at h
  exact ⟨w, ev0, rest, c', hw, hp, hl, h.symm⟩

/-- **The controller step keeps the system invariant**, given the facts about one loop iteration. -/
theorem ctl_inv_of_facts (idsOf : Nat → List τ) {st st' : LState τ} {k : Nat} {rq : Bool} (hinv : Inv st)
    (hfacts : ∀ w ev0 rest c', st.wk[k]? = some w → w.posted = ev0 :: rest →
      Ctl.loopOnce Ctl.loadI st.ctl (fixRq rq ev0) = .ok c' → ∃ new b1, CtlFacts st.ctl (fixRq rq ev0) c' new b1)
    (h : step Ctl.loadI idsOf st (.ctl k rq) = .ok st') : Inv st' := by
  simp only [step] at h
  obtain ⟨w, ev0, rest, c', hw, hp, hl, rfl⟩ := ctlStep_shape h
  obtain ⟨new, b1, f⟩ := hfacts w ev0 rest c' hw hp hl
  have hk : k < st.wk.length := by
    rcases Nat.lt_or_ge k st.wk.length with h' | h'
    · exact h'
    · rw [List.getElem?_eq_none h'] at hw; cases hw
  have hlen := hinv.1.len
  have hnew : c'.env.outs.drop st.ctl.env.outs.length = new := by rw [f.outs]; simp
  rw [hnew]
  have wi := hinv.wk hw
  have hown : Own k ev0 = true := wi.ownP ev0 (by rw [hp]; simp)
  have hsubj : ∀ j, j ≠ k → subjectOf (fixRq rq ev0) ≠ some j := by
    intro j hj hs
    rw [fixRq_subject] at hs
    rcases own_subject hown with h' | h'
    · rw [h'] at hs; cases hs; exact hj rfl
    · rw [h'] at hs; cases hs
  have hsetlen : (st.wk.set k ({ w with posted := rest } : Wk τ)).length = st.ctl.nextId := by simp [hlen]
  have hkeys' : ∀ m ∈ AList.keys c'.sched.node2pending, m < st.ctl.nextId := by
    intro m hm
    rw [f.acc.keys] at hm
    rcases prep_keys f.prep hm with h' | h'
    · exact hinv.1.keysLt m h'
    · rw [fixRq_subject] at h'
      rcases own_subject hown with h'' | h''
      · rw [h''] at h'; cases h'; rw [← hlen]; exact hk
      · rw [h''] at h'; cases h'
  refine inv_of ?_ ?_
  · -- the controller's own invariant
    refine ⟨?_, ?_, f.actNodup, f.stopShut, f.shutInv, f.tf, f.p0.nocol, f.p0.compl, f.p0.nodup, ?_, ?_⟩
    · simp only
      rw [route_length, spawn_length _ _ _ (by rw [hsetlen]; exact f.nextLe)]
    · intro a ha
      rcases f.actNew a ha with h' | ⟨_, h'⟩
      · exact Nat.lt_of_lt_of_le (hinv.1.activeLt a h') f.nextLe
      · exact h'
    · intro m hm; exact Nat.lt_of_lt_of_le (hkeys' m hm) f.nextLe
    · intro m _ hge
      have hge0 : st.ctl.nextId ≤ m := Nat.le_trans f.nextLe hge
      have hold := flags_default hinv.1 m hge0
      have hd : (c'.env.flags.get m).down = false := by rw [(f.acc.other m).1, hold]
      have hb : (c'.env.flags.get m).broken = false := by rw [(f.acc.other m).2, hold]
      have hs : (c'.env.flags.get m).sent = false := by
        cases hh : (c'.env.flags.get m).sent with
        | false => rfl
        | true =>
          rcases f.acc.sentNew m hh with h' | h' | h'
          · rw [hold] at h'; cases h'
          · have := f.newLt _ h' m .shutdown (by simp [cmdOf]); omega
          · rw [hold] at h'; cases h'
      cases hx : c'.env.flags.get m with
      | mk d s b =>
        rw [hx] at hd hb hs
        simp only at hd hb hs
        subst hd; subst hb; subst hs; rfl
  · -- every worker
    intro j wj hj
    simp only at hj
    rw [route_get] at hj
    by_cases hjl : j < st.wk.length
    · rw [spawn_get_old _ _ _ _ (by simpa using hjl)] at hj
      by_cases hjk : j = k
      · subst hjk
        rw [getElem?_set_self' hw] at hj
        simp only [Option.map_some, Option.some.injEq] at hj
        subst hj
        exact ctl_wk_self f wi hp (by rw [← hlen]; exact hk)
      · rw [List.getElem?_set_ne (Ne.symm hjk)] at hj
        cases hwj : st.wk[j]? with
        | none => rw [hwj] at hj; cases hj
        | some w0 =>
          rw [hwj] at hj
          simp only [Option.map_some, Option.some.injEq] at hj
          subst hj
          exact ctl_wk_other f (hinv.wk hwj) (hsubj j hjk) (by rw [← hlen]; exact hjl)
    · have hjl' : st.wk.length ≤ j := Nat.le_of_not_lt hjl
      by_cases hju : j < c'.nextId
      · rw [spawn_get_new _ _ _ _ (by simpa using hjl') hju] at hj
        simp only [Option.map_some, Option.some.injEq] at hj
        subst hj
        have hge : st.ctl.nextId ≤ j := by rw [← hlen]; exact hjl'
        -- nothing of this iteration is addressed to a worker that did not exist yet
        have hdel : deliverTo j new = [] := by
          apply deliverTo_nil_of_lt
          intro o ho n cmd hc hnj
          have := f.newLt o ho n cmd hc
          omega
        have hr : routed j new ({ ids := idsOf j } : Wk τ) = ({ ids := idsOf j } : Wk τ) := by
          unfold routed; simp [hdel]
        rw [hr]
        refine ctl_wk_fresh f (idsOf j) hge hju (flags_default hinv.1 j hge) ?_
        intro hm
        have := hkeys' j hm
        omega
      · have : (spawn idsOf (st.wk.set k ({ w with posted := rest } : Wk τ)) c'.nextId)[j]? = none := by
          apply List.getElem?_eq_none
          rw [spawn_length _ _ _ (by rw [hsetlen]; exact f.nextLe)]
          omega
        rw [this] at hj; cases hj

end Xdist.Sys
