import XdistProofs.Sys.RanDone
import XdistProofs.Props.C05
import XdistProofs.Props.C07
/-!
  **Every worker of the whole system is the validated worker step machine.**  Whatever the scheduler, the schedule of the
  threads, the crashes: the queue state (`Worker.State`) of every worker process in every reachable state of the system is
  reached by a sequence of `Worker.Step`s (`put`, `putShutdown`, `steal`, `get0`, `get1`, `finish`) from the initial state.
  Hence every theorem proved about `Worker.run` — assignment order (C05), true next item (C05), withdrawn tests neither started
  nor announced, all-or-nothing steals (C07) — holds of every worker in every execution of the whole system, for all six modes.
-/
namespace Xdist.Sys
open Xdist Xdist.Ctl

set_option linter.unusedSectionVars false

variable {σ τ : Type} [DecidableEq τ]

/-- reachable by the worker step machine -/
def WReach (s : Worker.State) : Prop := ∃ steps, Worker.run {} steps = some s

theorem worker_run_append (s : Worker.State) (a b : List Worker.Step) :
    Worker.run s (a ++ b) = (Worker.run s a).bind (fun s' => Worker.run s' b) := by
  induction a generalizing s with
  | nil => rfl
  | cons x t ih =>
    simp only [List.cons_append, Worker.run]
    cases Worker.step s x with
    | none => rfl
    | some s1 => exact ih s1

theorem wreach_step {s s' : Worker.State} (h : WReach s) (a : Worker.Step) (hs : Worker.step s a = some s') : WReach s' := by
  obtain ⟨steps, hr⟩ := h
  refine ⟨steps ++ [a], ?_⟩
  rw [worker_run_append, hr]
  simp [Worker.run, hs]

theorem wreach_putMany {s : Worker.State} (h : WReach s) (is : List Nat) : WReach (Worker.putMany s is) := by
  induction is generalizing s with
  | nil => exact h
  | cons i t ih => exact ih (wreach_step h (.put i) rfl)

theorem mainStep_wreach {k : Nat} {w w' : Wk τ} {p : MainP} (hr : WReach w.w) (h : mainStep k w p = some w') : WReach w'.w := by
  unfold mainStep at h
  split at h
  · cases h
  cases hph : w.phase with
  | boot => simp only [hph, Option.some.injEq] at h; subst h; exact hr
  | collect =>
    simp only [hph] at h
    cases p with
    | collect errs garbage intr sf0 =>
      simp only at h
      split at h
      · simp only [Option.some.injEq] at h; subst h; exact hr
      · simp only [Option.some.injEq] at h; subst h; exact hr
    | none => cases h
    | reports a b c d => cases h
    | complete s => cases h
  | loop =>
    simp only [hph] at h
    cases hpc : w.w.pc with
    | init =>
      simp only [hpc] at h
      obtain ⟨w1, h1, h2⟩ := Option.map_eq_some_iff.1 h
      subst h2
      exact wreach_step hr .get0 h1
    | haveItem =>
      simp only [hpc] at h
      obtain ⟨w1, h1, h2⟩ := Option.map_eq_some_iff.1 h
      subst h2
      exact wreach_step hr .get1 h1
    | running =>
      simp only [hpc] at h
      split at h
      · simp only [Option.some.injEq] at h; subst h; exact hr
      · simp only [Option.some.injEq] at h; subst h; exact hr
      · split at h
        · simp only [Option.some.injEq] at h; subst h; exact hr
        · split at h
          · rename_i i w1 hc hf
            simp only [Option.some.injEq] at h; subst h
            exact wreach_step hr (.finish _) hf
          · cases h
      · cases h
    | done => simp only [hpc] at h; cases h
  | finish => simp only [hph, Option.some.injEq] at h; subst h; exact hr
  | done => simp only [hph] at h; cases h

theorem deliverStep_wreach {k : Nat} {w w' : Wk τ} (hr : WReach w.w) (h : deliverStep k w = some w') : WReach w'.w := by
  unfold deliverStep at h
  split at h
  · cases h
  split at h
  · cases h
  · rename_i c rest hin
    cases c with
    | run is => simp only [Option.some.injEq] at h; subst h; exact wreach_putMany hr is
    | runAll => simp only [Option.some.injEq] at h; subst h; exact wreach_putMany hr _
    | shutdown => simp only [Option.some.injEq] at h; subst h; exact wreach_step hr .putShutdown rfl
    | steal is => simp only [Option.some.injEq] at h; subst h; exact wreach_step hr (.steal is) rfl

/-- all workers -/
def AllW (st : State σ τ) : Prop := ∀ w ∈ st.wk, WReach w.w

theorem route_w : ∀ (outs : List SOut) (wk : List (Wk τ)), ∀ w' ∈ route wk outs, ∃ w ∈ wk, w'.w = w.w := by
  intro outs
  induction outs with
  | nil => intro wk w' hw'; exact ⟨w', hw', rfl⟩
  | cons o rest ih =>
    intro wk w' hw'
    simp only [route] at hw'
    split at hw'
    · exact ih wk w' hw'
    · split at hw'
      · rename_i n c _ w hw
        split at hw'
        · obtain ⟨w1, hw1, he⟩ := ih _ w' hw'
          rcases List.mem_or_eq_of_mem_set hw1 with h | h
          · exact ⟨w1, h, he⟩
          · exact ⟨w, List.mem_of_getElem? hw, by rw [he, h]⟩
        · exact ih wk w' hw'
      · exact ih wk w' hw'

theorem allW_set {st : State σ τ} {k : Nat} {w' : Wk τ} (h : AllW st) (hw : WReach w'.w) : ∀ x ∈ st.wk.set k w', WReach x.w := by
  intro x hx
  rcases List.mem_or_eq_of_mem_set hx with h' | h'
  · exact h x h'
  · rw [h']; exact hw

theorem step_allW (I : SchedI σ τ) (idsOf : Nat → List τ) {st st' : State σ τ} (a : Step) (hall : AllW st)
    (h : step I idsOf st a = .ok st') : AllW st' := by
  cases a with
  | main j p =>
    simp only [Sys.step] at h
    split at h
    · cases h
    rename_i w hw
    split at h
    · cases h
    rename_i w' hm
    simp only [Except.ok.injEq] at h; subst h
    exact allW_set hall (mainStep_wreach (hall w (List.mem_of_getElem? hw)) hm)
  | deliver j =>
    simp only [Sys.step] at h
    split at h
    · cases h
    rename_i w hw
    split at h
    · cases h
    rename_i w' hm
    simp only [Except.ok.injEq] at h; subst h
    exact allW_set hall (deliverStep_wreach (hall w (List.mem_of_getElem? hw)) hm)
  | recv j =>
    simp only [Sys.step] at h
    split at h
    · cases h
    rename_i s1 hr
    simp only [Except.ok.injEq] at h; subst h
    unfold recvStep at hr
    split at hr
    · cases hr
    rename_i w hw
    split at hr
    · cases hr
    simp only [Option.some.injEq] at hr
    subst hr
    have hw' := hall w (List.mem_of_getElem? hw)
    intro x hx
    simp only at hx
    split at hx
    · obtain ⟨w1, hw1, he⟩ := route_w _ _ x hx
      rw [he]
      rcases List.mem_or_eq_of_mem_set hw1 with h' | h'
      · exact hall w1 h'
      · rw [h']; exact hw'
    · rcases List.mem_or_eq_of_mem_set hx with h' | h'
      · exact hall x h'
      · rw [h']; exact hw'
  | crash j b =>
    simp only [Sys.step] at h
    split at h
    · cases h
    rename_i s1 hc
    simp only [Except.ok.injEq] at h; subst h
    unfold crashStep at hc
    split at hc
    · cases hc
    rename_i w hw
    split at hc
    · cases hc
    have hw' := hall w (List.mem_of_getElem? hw)
    split at hc
    · simp only [Option.some.injEq] at hc; subst hc
      exact allW_set hall (w' := { w with alive := false, inbox := [], outbox := _ }) hw'
    · simp only [Option.some.injEq] at hc; subst hc
      exact allW_set hall (w' := { w with alive := false, inbox := [], outbox := _ }) hw'
  | ctl j rq =>
    simp only [Sys.step] at h
    unfold ctlStep at h
    split at h
    · cases h
    split at h
    · cases h
    split at h
    · cases h
    rename_i w hw
    split at h
    · cases h
    simp only at h
    split at h
    · cases h
    simp only [Except.ok.injEq] at h; subst h
    have hw' := hall w (List.mem_of_getElem? hw)
    intro x hx
    simp only at hx
    obtain ⟨w1, hw1, he⟩ := route_w _ _ x hx
    rw [he]
    simp only [spawn] at hw1
    rcases List.mem_append.1 hw1 with h1 | h1
    · rcases List.mem_or_eq_of_mem_set h1 with h' | h'
      · exact hall w1 h'
      · rw [h']; exact hw'
    · obtain ⟨i, _, rfl⟩ := List.mem_map.1 h1
      exact ⟨[], rfl⟩

theorem run_allW (I : SchedI σ τ) (idsOf : Nat → List τ) : ∀ (steps : List Step) {st st' : State σ τ}, AllW st →
    run I idsOf st steps = .ok st' → AllW st' := by
  intro steps
  induction steps with
  | nil => intro st st' ha h; simp only [run, Except.ok.injEq] at h; subst h; exact ha
  | cons a rest ih =>
    intro st st' ha h
    simp only [run] at h
    split at h
    · cases h
    · rename_i st1 hs
      exact ih (step_allW I idsOf a ha hs) h

/-- **Every worker of the whole system is the validated worker step machine** — every scheduler, every execution. -/
theorem C05_sys_workers_refine (I : SchedI σ τ) (s0 : σ) (numnodes maxfail : Nat) (mr : Option Int) (idsOf : Nat → List τ)
    (steps : List Step) {st : State σ τ} (h : run I idsOf (init I s0 numnodes maxfail mr idsOf) steps = .ok st) :
    ∀ w ∈ st.wk, ∃ ws : List Worker.Step, Worker.run {} ws = some w.w := by
  refine run_allW I idsOf steps ?_ h
  intro w hw
  simp only [init, List.mem_map] at hw
  obtain ⟨k, _, rfl⟩ := hw
  exact ⟨[], rfl⟩

/-- **Assignment order and true next item, whole system, all modes** (C05): for every worker process in every reachable state
    — whatever the scheduler sent it, whatever was withdrawn from it, however the threads interleaved —: what it has run, holds
    as next item and still has queued is, in this order, a subsequence of what it received, and what is missing is exactly what
    it gave back; consecutive protocol calls `(i, a)`, `(j, _)` satisfy `a = some j`, and the last call announced the entry it
    currently holds as `nextitem_index`. -/
theorem C05_sys_order_and_nextitem (I : SchedI σ τ) (s0 : σ) (numnodes maxfail : Nat) (mr : Option Int) (idsOf : Nat → List τ)
    (steps : List Step) {st : State σ τ} (h : run I idsOf (init I s0 numnodes maxfail mr idsOf) steps = .ok st)
    (w : Wk τ) (hw : w ∈ st.wk) :
    (Worker.line w.w).Sublist w.w.received ∧ w.w.received.Perm (Worker.line w.w ++ w.w.stolen) ∧
    Worker.Chain w.w.ran ∧ (∀ i a, w.w.ran.getLast? = some (i, a) → ∃ q, w.w.next = some q ∧ a = Worker.announce q) := by
  obtain ⟨ws, hws⟩ := C05_sys_workers_refine I s0 numnodes maxfail mr idsOf steps h w hw
  obtain ⟨a1, a2⟩ := Props.C05.C05_order ws hws
  obtain ⟨b1, b2⟩ := Props.C05.C05_nextitem ws hws
  exact ⟨a1, a2, b1, b2⟩

/-- an invariant of the worker step machine holds of everything it reaches -/
theorem worker_run_inv (P : Worker.State → Prop) (hstep : ∀ s a s', P s → Worker.step s a = some s' → P s') :
    ∀ (ws : List Worker.Step) {s s' : Worker.State}, P s → Worker.run s ws = some s' → P s' := by
  intro ws
  induction ws with
  | nil => intro s s' hp h; simp only [Worker.run, Option.some.injEq] at h; subst h; exact hp
  | cons a t ih =>
    intro s s' hp h
    simp only [Worker.run] at h
    split at h
    · cases h
    · rename_i s1 hs
      exact ih (hstep s a s1 hp hs) h

/-- started = completed ++ the one in progress, for the bare queue state -/
def RanOkW (s : Worker.State) : Prop :=
  s.ran.map (·.1) = (s.sent.filterMap fun e => match e with | .complete i => some i | _ => none) ++
    (if s.pc = .running then s.cur.toList else [])

theorem ranOkW_step (s : Worker.State) (a : Worker.Step) (s' : Worker.State) (hp : RanOkW s) (h : Worker.step s a = some s') : RanOkW s' := by
  unfold RanOkW at hp ⊢
  cases a with
  | put i => simp only [Worker.step, Worker.put, Option.some.injEq] at h; subst h; exact hp
  | putShutdown => simp only [Worker.step, Worker.putShutdown, Option.some.injEq] at h; subst h; exact hp
  | steal req =>
    simp only [Worker.step, Worker.steal, Option.some.injEq] at h
    subst h
    split
    · simp only [List.filterMap_append, List.filterMap_cons, List.filterMap_nil, List.append_nil]; exact hp
    · simp only [List.filterMap_append, List.filterMap_cons, List.filterMap_nil, List.append_nil]; exact hp
  | get0 =>
    simp only [Worker.step, Worker.get0] at h
    split at h
    · cases h
    rename_i hpc
    have hpc' : s.pc = .init := by simpa using hpc
    split at h
    · cases h
    · rename_i q r hq
      simp only [Option.some.injEq] at h; subst h
      simp only [hpc'] at hp
      cases q <;> simpa using hp
  | get1 =>
    simp only [Worker.step, Worker.get1] at h
    split at h
    · cases h
    rename_i hpc
    have hpc' : s.pc = .haveItem := by simpa using hpc
    split at h
    · rename_i i q r hn hq
      simp only [Option.some.injEq] at h; subst h
      simp only [hpc'] at hp
      simp only [List.map_append, List.map_cons, List.map_nil, if_true, Option.toList_some]
      rw [show (List.map (fun x => x.1) s.ran) = _ from by simpa using hp]
    · cases h
  | finish b =>
    simp only [Worker.step, Worker.finish] at h
    split at h
    · cases h
    rename_i hpc
    have hpc' : s.pc = .running := by simpa using hpc
    split at h
    · cases h
    · rename_i i hc
      simp only [Option.some.injEq] at h
      have e1 : s'.ran = s.ran := by rw [← h]
      have e2 : s'.sent = s.sent ++ [.complete i] := by rw [← h]
      have e3 : s'.pc ≠ .running := by
        rw [← h]
        simp only
        split
        · simp
        · split <;> simp
      simp only [hpc', if_true, hc, Option.toList_some] at hp
      simp only [e1, e2]
      rw [if_neg e3]
      simp only [List.filterMap_append, List.filterMap_cons, List.filterMap_nil, List.append_nil]
      exact hp

/-- **A worker starts exactly what it completes, plus the test in progress — whole system, every scheduler** (C01/C05): for
    every worker process in every reachable state, the tests its main thread has started are, in order, the tests for which it
    has sent a completion, followed — while it is inside a protocol call — by the one it is running.  No worker ever starts a
    test twice on its own account or reports a completion for a test it did not start. -/
theorem C01_sys_started_is_completed_plus_running (I : SchedI σ τ) (s0 : σ) (numnodes maxfail : Nat) (mr : Option Int)
    (idsOf : Nat → List τ) (steps : List Step) {st : State σ τ}
    (h : run I idsOf (init I s0 numnodes maxfail mr idsOf) steps = .ok st) (w : Wk τ) (hw : w ∈ st.wk) :
    ranIdx w = doneIdx w ++ (if w.w.pc = .running then w.w.cur.toList else []) := by
  obtain ⟨ws, hws⟩ := C05_sys_workers_refine I s0 numnodes maxfail mr idsOf steps h w hw
  exact worker_run_inv RanOkW ranOkW_step ws (by simp [RanOkW]) hws

end Xdist.Sys
