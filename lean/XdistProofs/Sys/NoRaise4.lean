import XdistProofs.Sys.NoRaise3
/-!
  C17: `workerready` never raises.  Eleventh layer (`Inv11`): a worker reports ready once, as the first thing it ever sends, and
  the scheduler does not know it before that report has been handled — so `add_node`'s `assert node not in self.node2pending`
  holds.
-/
namespace Xdist.Sys
open Xdist Xdist.Ctl Xdist.Load Xdist.Contract

variable {τ : Type} [DecidableEq τ]

/-- where the `workerready` of a worker is: handled (or not sent yet), at the head of the controller's queue, or at the head of
    the channel -/
def RShape (k : Nat) (w : Wk τ) : Prop :=
  (flight k w).any isReady = false ∨
  (∃ ps, w.posted = Ctl.Event.workerready k :: ps ∧ (ps ++ w.outbox.filterMap (evOf k)).any isReady = false) ∨
  (w.posted = [] ∧ ∃ os, w.outbox = WMsg.ev (Ctl.Event.workerready k) :: os ∧ (os.filterMap (evOf k)).any isReady = false)

structure WkInv11 (c : Ctl.State (Load.State τ) τ) (k : Nat) (w : Wk τ) : Prop where
  shape : RShape k w
  bootNoKey : w.phase = .boot → k ∉ AList.keys c.sched.node2pending
  readyNew : (flight k w).any isReady = true → k ∉ AList.keys c.sched.node2pending

def Inv11 (st : LState τ) : Prop := ∀ k w, st.wk[k]? = some w → WkInv11 st.ctl k w

theorem any_isReady_append (a b : List (Ctl.Event τ)) : (a ++ b).any isReady = (a.any isReady || b.any isReady) := by
  simp [List.any_append]

/-- appending messages that are not `workerready` to the channel -/
theorem rshape_emit {k : Nat} {w w' : Wk τ} {ms : List (WMsg τ)} (h : RShape k w) (hp : w'.posted = w.posted)
    (ho : w'.outbox = w.outbox ++ ms) (hms : (ms.filterMap (evOf k)).any isReady = false) : RShape k w' := by
  have hfl := flight_emit k hp ho
  rcases h with h | ⟨ps, h1, h2⟩ | ⟨h1, os, h2, h3⟩
  · left; rw [hfl, any_isReady_append, h, hms]; rfl
  · right; left
    refine ⟨ps, by rw [hp, h1], ?_⟩
    rw [ho, List.filterMap_append, ← List.append_assoc, any_isReady_append, h2, hms]; rfl
  · right; right
    refine ⟨by rw [hp, h1], os ++ ms, by rw [ho, h2]; rfl, ?_⟩
    rw [List.filterMap_append, any_isReady_append, h3, hms]; rfl

theorem flight_any_emit {k : Nat} {w w' : Wk τ} {ms : List (WMsg τ)} (hp : w'.posted = w.posted)
    (ho : w'.outbox = w.outbox ++ ms) (hms : (ms.filterMap (evOf k)).any isReady = false) :
    (flight k w').any isReady = (flight k w).any isReady := by
  rw [flight_emit k hp ho, any_isReady_append, hms, Bool.or_false]

theorem wkInv11_emit {c : Ctl.State (Load.State τ) τ} {k : Nat} {w w' : Wk τ} (ms : List (WMsg τ)) (h : WkInv11 c k w)
    (hp : w'.posted = w.posted) (ho : w'.outbox = w.outbox ++ ms) (hms : (ms.filterMap (evOf k)).any isReady = false)
    (hph : w'.phase = .boot → w.phase = .boot) : WkInv11 c k w' :=
  ⟨rshape_emit h.shape hp ho hms, fun hb => h.bootNoKey (hph hb), by rw [flight_any_emit hp ho hms]; exact h.readyNew⟩

theorem filterMap_evOf_collect_noReady (k : Nat) (errs : List (String × Bool)) :
    ((errs.map (fun (e : String × Bool) => WMsg.ev (Ctl.Event.collectreport (τ := τ) k e.1 e.2))).filterMap (evOf k)).any isReady = false := by
  induction errs with
  | nil => rfl
  | cons e t ih => simpa [evOf, isReady] using ih

theorem filterMap_evOf_reports_noReady (k : Nat) (fs : List Bool) :
    ((fs.map (fun f => WMsg.ev (Ctl.Event.testreport (τ := τ) k f))).filterMap (evOf k)).any isReady = false := by
  induction fs with
  | nil => rfl
  | cons e t ih => simpa [evOf, isReady] using ih

theorem mainStep_inv11 {c : Ctl.State (Load.State τ) τ} {k : Nat} {w w' : Wk τ} {p : MainP} (h1 : WkInv c k w)
    (h : WkInv11 c k w) (hm : mainStep k w p = some w') : WkInv11 c k w' := by
  have ha := mainStep_alive hm
  unfold mainStep at hm
  split at hm
  · cases hm
  cases hph : w.phase with
  | boot =>
    simp only [hph, Option.some.injEq] at hm
    subst hm
    obtain ⟨ho, hpo⟩ := h1.boot0 ha hph
    have hk := h.bootNoKey hph
    refine ⟨Or.inr (Or.inr ⟨hpo, [], by simp [ho], rfl⟩), ?_, fun _ => hk⟩
    intro hb; cases hb
  | collect =>
    simp only [hph] at hm
    cases p with
    | collect errs garbage intr sf0 =>
      simp only at hm
      split at hm
      · simp only [Option.some.injEq] at hm
        subst hm
        refine wkInv11_emit _ h rfl rfl ?_ (fun hb => by cases hb)
        simp only [List.filterMap_append, any_isReady_append, filterMap_evOf_collect_noReady]
        simp [evOf, isReady]
      · simp only [Option.some.injEq] at hm
        subst hm
        refine wkInv11_emit (([WMsg.ignored] ++ errs.map (fun (e : String × Bool) => WMsg.ev (Ctl.Event.collectreport k e.1 e.2)) ++
            [WMsg.ev (Ctl.Event.collectionfinish k w.ids)]) ++ (if garbage then [WMsg.garbage] else [])) h rfl
          (by simp [List.append_assoc]) ?_ (fun hb => by cases hb)
        simp only [List.filterMap_append, any_isReady_append, filterMap_evOf_collect_noReady]
        cases garbage <;> simp [evOf, isReady]
    | none => simp at hm
    | reports fs sf ss ex => simp at hm
    | complete slow => simp at hm
  | finish =>
    simp only [hph, Option.some.injEq] at hm
    subst hm
    exact wkInv11_emit [.fin w.exitstatus w.sf w.ss, .endMarker] h rfl rfl (by simp [evOf, isReady]) (fun hb => by cases hb)
  | done => simp [hph] at hm
  | loop =>
    simp only [hph] at hm
    have hnb : ∀ {w'' : Wk τ}, w''.phase = .boot → w''.phase ≠ .boot → w.phase = .boot := fun a b => absurd a b
    cases hpc : w.w.pc with
    | init =>
      simp only [hpc] at hm
      obtain ⟨v, hv, rfl⟩ := Option.map_eq_some_iff.1 hm
      exact wkInv11_emit [] h rfl (by simp) rfl (fun hb => by simp only at hb; split at hb <;> cases hb)
    | haveItem =>
      simp only [hpc] at hm
      obtain ⟨v, hv, rfl⟩ := Option.map_eq_some_iff.1 hm
      exact wkInv11_emit [] h rfl (by simp) rfl (fun hb => by simp only [hph] at hb; cases hb)
    | done => simp [hpc] at hm
    | running =>
      simp only [hpc] at hm
      split at hm
      · simp only [Option.some.injEq] at hm
        subst hm
        exact wkInv11_emit [.ev .other] h rfl rfl (by simp [evOf, isReady]) (fun hb => by simp only [hph] at hb; cases hb)
      · simp only [Option.some.injEq] at hm
        subst hm
        refine wkInv11_emit _ h rfl (List.append_assoc _ _ _) ?_ (fun hb => by simp only [hph] at hb; cases hb)
        simp only [List.filterMap_append, any_isReady_append, filterMap_evOf_reports_noReady]
        simp [evOf, isReady]
      · split at hm
        · simp only [Option.some.injEq] at hm
          subst hm
          exact wkInv11_emit [] h rfl (by simp) rfl (fun hb => by cases hb)
        · split at hm
          · simp only [Option.some.injEq] at hm
            subst hm
            exact wkInv11_emit [.ev (.complete k _ _)] h rfl rfl (by simp [evOf, isReady])
              (fun hb => by simp only at hb; split at hb <;> cases hb)
          · cases hm
      · cases hm

theorem deliverStep_inv11 {c : Ctl.State (Load.State τ) τ} {k : Nat} {w w' : Wk τ} (h : WkInv11 c k w)
    (hd : deliverStep k w = some w') : WkInv11 c k w' := by
  unfold deliverStep at hd
  split at hd
  · cases hd
  cases hi : w.inbox with
  | nil => simp [hi] at hd
  | cons cmd rest =>
    simp only [hi] at hd
    cases cmd with
    | run is => simp only [Option.some.injEq] at hd; subst hd; exact wkInv11_emit [] h rfl (by simp) rfl (fun hb => hb)
    | runAll => simp only [Option.some.injEq] at hd; subst hd; exact wkInv11_emit [] h rfl (by simp) rfl (fun hb => hb)
    | shutdown => simp only [Option.some.injEq] at hd; subst hd; exact wkInv11_emit [] h rfl (by simp) rfl (fun hb => hb)
    | steal is =>
      simp only [Option.some.injEq] at hd; subst hd
      exact wkInv11_emit [.ev (.unscheduled k _)] h rfl rfl (by simp [evOf, isReady]) (fun hb => hb)

end Xdist.Sys
