import XdistProofs.Sys.NoRaise2
/-!
  C17, whole system, `--dist load`: the controller handles completions, reports and death notices of every worker that was not
  written off because of an undecodable message **without raising** (`C17_sys_load_events_never_raise_partial`).
-/
namespace Xdist.Sys
open Xdist Xdist.Ctl Xdist.Load Xdist.Contract

variable {τ : Type} [DecidableEq τ]

theorem completes_cons_complete (n i : Nat) (slow : Bool) (l : List (Ctl.Event τ)) :
    completes (Ctl.Event.complete n i slow :: l) = i :: completes l := by
  simp [completes, complIdx]

/-- a completion on the controller's queue is about a test in the worker's book -/
theorem book_of_complete {st : LState τ} {W : List Nat} (i1 : Inv st) (i6 : Inv6 st) (i7 : Inv7 st W) (i10 : Inv10 st W)
    {k n i : Nat} {slow : Bool} {w : Wk τ} {rest : List (Ctl.Event τ)} (hw : st.wk[k]? = some w) (hW : k ∉ W)
    (hp : w.posted = .complete n i slow :: rest) :
    n = k ∧ ∃ book, AList.lookup st.ctl.sched.node2pending k = some book ∧ i ∈ book := by
  have wi := i1.wk hw
  have hown := wi.ownP (.complete n i slow) (by rw [hp]; simp)
  have hnk : n = k := by simpa [Own] using hown
  refine ⟨hnk, ?_⟩
  have hact : k ∈ st.ctl.active := by
    apply Classical.byContradiction
    intro hna
    have := wi.inactive hna
    rw [hp] at this; cases this
  have hfl : ∃ tl, completes (flight k w) = i :: tl := by
    unfold flight
    rw [hp, List.cons_append, completes_cons_complete]
    exact ⟨_, rfl⟩
  obtain ⟨tl, hfl⟩ := hfl
  have hpo : ∃ tl', completes w.posted = i :: tl' := by
    rw [hp, completes_cons_complete]; exact ⟨_, rfl⟩
  obtain ⟨tl', hpo⟩ := hpo
  cases ha : w.alive with
  | true =>
    cases hd : (st.ctl.env.flags.get k).down with
    | false =>
      have hkey : k ∈ AList.keys st.ctl.sched.node2pending := by
        apply Classical.byContradiction
        intro hnk'
        have := (i6 k w hw).nr ha hact hnk'
        rw [hfl] at this; cases this.1
      obtain ⟨book, hb⟩ := Load.lookup_of_mem_keys hkey
      have hs := wi.sync ha hd
      unfold SyncD at hs
      rw [hb] at hs
      simp only at hs
      exact ⟨book, hb, by rw [hs, hfl]; simp⟩
    | true =>
      have hnot := wi.notice2 hact hd
      have hwf : w.posted.any isWf = true := by
        obtain ⟨e, he, hn⟩ := List.any_eq_true.1 hnot
        refine List.any_eq_true.2 ⟨e, he, ?_⟩
        have hne := i10 k w hw ha hW e he
        cases e <;> simp_all [isNotice, isErrd, isWf]
      have hs := (i6 k w hw).doneSync ha hwf
      unfold DoneD at hs
      cases hb : AList.lookup st.ctl.sched.node2pending k with
      | none => rw [hb] at hs; simp only at hs; rw [hpo] at hs; cases hs.1
      | some book =>
        rw [hb] at hs
        simp only at hs
        exact ⟨book, rfl, by rw [hs, hpo]; simp⟩
  | false =>
    have hs := (i7 k w hw).deadSync ha hW hact
    unfold DeadD at hs
    cases hb : AList.lookup st.ctl.sched.node2pending k with
    | none => rw [hb] at hs; simp only at hs; rw [hfl] at hs; cases hs.1
    | some book =>
      rw [hb] at hs
      simp only at hs
      obtain ⟨extra, he⟩ := hs
      exact ⟨book, rfl, by rw [he, hfl]; simp⟩

theorem fixRq_match (rq : Bool) (ev : Ctl.Event τ) :
    (match ev with | .errordown n _ => Ctl.Event.errordown n rq | e => e) = fixRq rq ev := by
  cases ev <;> rfl

/-- the events covered so far: everything except a worker reporting ready, reporting its collection, or finishing -/
def plainEvent : Ctl.Event τ → Bool
  | .complete _ _ _ => true
  | .errordown _ _ => true
  | .testreport _ _ => true
  | .collectreport _ _ _ => true
  | .other => true
  | _ => false

/-- **Handling a completion, a report or a death notice never raises** (`--dist load`, whole system).  In every reachable state
    of every execution, for every worker that was not written off because of an undecodable message: if the oldest event of that
    worker on the controller's queue is a test completion, a test or collection report, a log event, or the notice that the worker
    died, the iteration of the controller loop that handles it returns — no `KeyError` for an unknown node, no `ValueError` for a
    test that is not in the book, no `IndexError`, no `AssertionError`, no division by zero.
    Partial: `workerready`, `collectionfinish` and `workerfinished` are not covered by this theorem. -/
theorem C17_sys_load_events_never_raise_partial (numnodes maxfail : Nat) (msc maxRestart : Option Int) (idsOf : Nat → List τ)
    {st : LState τ} {W : List Nat} {g : Ghost}
    (h : ReachB idsOf (init loadI (Load.init numnodes msc) numnodes maxfail maxRestart idsOf) st W g)
    {k : Nat} {w : Wk τ} {ev0 : Ctl.Event τ} {rest : List (Ctl.Event τ)} (hw : st.wk[k]? = some w) (hW : k ∉ W)
    (hp : w.posted = ev0 :: rest) (hev : plainEvent ev0 = true) (hnf : Ctl.sessionFinished st.ctl = false) (rq : Bool) :
    ∃ st', step loadI idsOf st (.ctl k rq) = .ok st' := by
  have hrG := h.reachG
  obtain ⟨i1, i6, i7⟩ := reachG_inv idsOf (init_inv numnodes maxfail msc maxRestart idsOf)
    (init_inv6 numnodes maxfail msc maxRestart idsOf) (init_inv7 numnodes maxfail msc maxRestart idsOf) hrG
  have hso := reachB_schedOk numnodes maxfail msc maxRestart idsOf h
  have i10 : Inv10 st W := by
    clear hw hp hnf hso hrG i1 i6 i7 hW
    induction h with
    | init =>
      intro j w hj _ _ e he
      simp only [init, List.getElem?_map] at hj
      cases hr : (List.range numnodes)[j]? with
      | none => rw [hr] at hj; cases hj
      | some x =>
        rw [hr] at hj
        simp only [Option.map_some, Option.some.injEq] at hj
        subst hj
        cases he
    | other a hn hprev hs ih =>
      obtain ⟨a1, _, a7, a8, _, _⟩ := reachB_all numnodes maxfail msc maxRestart idsOf hprev
      exact step_inv10 idsOf a a1 a7 a8 ih hs
    | ctl k rq hprev hs _ _ _ _ _ ih =>
      obtain ⟨a1, _, a7, a8, _, _⟩ := reachB_all numnodes maxfail msc maxRestart idsOf hprev
      exact step_inv10 idsOf _ a1 a7 a8 ih hs
  have wi := i1.wk hw
  have hact : k ∈ st.ctl.active := by
    apply Classical.byContradiction
    intro hna
    have := wi.inactive hna
    rw [hp] at this; cases this
  have hne : st.ctl.active.isEmpty = false := by
    cases hh : st.ctl.active with
    | nil => rw [hh] at hact; cases hact
    | cons a t => rfl
  -- the handler returns
  have hhandle : ∃ c1, handle loadI st.ctl (fixRq rq ev0) = .ok c1 := by
    cases ev0 with
    | complete n i slow =>
      obtain ⟨rfl, book, hb, hi⟩ := book_of_complete i1 i6 i7 i10 hw hW hp
      exact handle_complete_total hso slow hb hi
    | errordown n r =>
      have hown := wi.ownP (.errordown n r) (by rw [hp]; simp)
      have hnk : n = k := by simpa [Own] using hown
      subst hnk
      simp only [fixRq, handle]
      exact errordown_total hso rq hact
    | testreport n f => exact ⟨_, rfl⟩
    | collectreport n key f =>
      simp only [fixRq, handle]
      split <;> exact ⟨_, rfl⟩
    | other => exact ⟨_, rfl⟩
    | workerready n => cases hev
    | workerfinished n x sf ss => cases hev
    | internalError n => cases hev
    | collectionfinish n ids => cases hev
    | unscheduled n is => cases hev
  obtain ⟨c1, hc1⟩ := hhandle
  have hloop : loopOnce loadI st.ctl (fixRq rq ev0) = .ok (afterHandler loadI c1) := by
    simp only [loopOnce, hne, Bool.false_eq_true, ↓reduceIte, hc1, Except.map]
  have : step loadI idsOf st (.ctl k rq) = .ok
      { ctl := afterHandler loadI c1,
        wk := route (spawn idsOf (st.wk.set k { w with posted := rest }) (afterHandler loadI c1).nextId)
          ((afterHandler loadI c1).env.outs.drop st.ctl.env.outs.length) } := by
    simp only [Sys.step, ctlStep, hnf, Bool.false_eq_true, ↓reduceIte, hne, hw, hp]
    cases ev0 <;> simp only [fixRq] at hloop <;> simp only [hloop]
  exact ⟨_, this⟩

end Xdist.Sys
