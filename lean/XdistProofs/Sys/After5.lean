import XdistProofs.Sys.After4
/-!
  C17, whole system, `--dist load`: **`workerfinished` of a registered worker that finished normally never raises** — its book is
  empty (`assert not crashitem` holds) — and with it: *no event is ever handled with an internal error*
  (`C17_sys_load_controller_never_raises`), in executions without an undecodable message, when every worker collects the same
  non-empty list of tests.
-/
namespace Xdist.Sys
open Xdist Xdist.Ctl Xdist.Load Xdist.Contract

variable {τ : Type} [DecidableEq τ]

/-- a worker that is past its loop without exit status 2 has left `pytest_runtestloop` -/
def FinPc (w : Wk τ) : Prop := (w.phase = .finish ∨ w.phase = .done) → w.exitstatus = 2 ∨ w.w.pc = .done

def Inv14 (st : LState τ) : Prop := ∀ w ∈ st.wk, FinPc w

theorem mainStep_finPc {k : Nat} {w w' : Wk τ} {p : MainP} (h : FinPc w) (hm : mainStep k w p = some w') : FinPc w' := by
  unfold mainStep at hm
  split at hm
  · cases hm
  cases hph : w.phase with
  | boot => simp only [hph, Option.some.injEq] at hm; subst hm; intro hp; rcases hp with hp | hp <;> cases hp
  | collect =>
    simp only [hph] at hm
    cases p with
    | collect errs garbage intr sf0 =>
      simp only at hm
      split at hm
      · simp only [Option.some.injEq] at hm; subst hm; exact fun _ => Or.inl rfl
      · simp only [Option.some.injEq] at hm; subst hm; intro hp; rcases hp with hp | hp <;> cases hp
    | none => simp at hm
    | reports fs sf ss ex => simp at hm
    | complete slow => simp at hm
  | finish => simp only [hph, Option.some.injEq] at hm; subst hm; exact fun _ => h (Or.inl hph)
  | done => simp [hph] at hm
  | loop =>
    simp only [hph] at hm
    cases hpc : w.w.pc with
    | init =>
      simp only [hpc] at hm
      obtain ⟨v, hv, rfl⟩ := Option.map_eq_some_iff.1 hm
      intro hp
      simp only at hp ⊢
      by_cases hd : v.pc = .done
      · exact Or.inr hd
      · simp only [hd, ↓reduceIte] at hp; rcases hp with hp | hp <;> cases hp
    | haveItem =>
      simp only [hpc] at hm
      obtain ⟨v, hv, rfl⟩ := Option.map_eq_some_iff.1 hm
      intro hp; simp only [hph] at hp; rcases hp with hp | hp <;> cases hp
    | done => simp [hpc] at hm
    | running =>
      simp only [hpc] at hm
      split at hm
      · simp only [Option.some.injEq] at hm; subst hm
        intro hp; simp only [hph] at hp; rcases hp with hp | hp <;> cases hp
      · simp only [Option.some.injEq] at hm; subst hm
        intro hp; simp only [hph] at hp; rcases hp with hp | hp <;> cases hp
      · split at hm
        · rename_i hex
          simp only [Option.some.injEq] at hm; subst hm
          exact fun _ => Or.inl hex
        · split at hm
          · rename_i i v hcur hfin
            simp only [Option.some.injEq] at hm; subst hm
            intro hp
            simp only at hp ⊢
            by_cases hd : v.pc = .done
            · exact Or.inr hd
            · simp only [hd, ↓reduceIte] at hp; rcases hp with hp | hp <;> cases hp
          · cases hm
      · cases hm

theorem deliverStep_finPc {k : Nat} {w w' : Wk τ} (h : FinPc w) (hd : deliverStep k w = some w') : FinPc w' := by
  unfold deliverStep at hd
  split at hd
  · cases hd
  cases hi : w.inbox with
  | nil => simp [hi] at hd
  | cons cmd rest =>
    simp only [hi] at hd
    cases cmd with
    | run is =>
      simp only [Option.some.injEq] at hd; subst hd
      intro hp
      simp only at hp ⊢
      rw [(putMany_next w.w is).2]; exact h hp
    | runAll =>
      simp only [Option.some.injEq] at hd; subst hd
      intro hp
      simp only at hp ⊢
      rw [(putMany_next w.w _).2]; exact h hp
    | shutdown => simp only [Option.some.injEq] at hd; subst hd; exact h
    | steal is =>
      simp only [Option.some.injEq] at hd; subst hd
      intro hp
      simp only at hp ⊢
      have : (Worker.steal w.w is).pc = w.w.pc := by unfold Worker.steal; simp only; split <;> rfl
      rw [this]; exact h hp

theorem finPc_of_fields {w w' : Wk τ} (h : FinPc w) (h1 : w'.phase = w.phase) (h2 : w'.exitstatus = w.exitstatus) (h3 : w'.w = w.w) :
    FinPc w' := by
  unfold FinPc; rw [h1, h2, h3]; exact h

theorem routed_finPc (j : Nat) (new : List SOut) {w : Wk τ} (h : FinPc w) : FinPc (routed j new w) := by
  unfold routed; split
  · exact finPc_of_fields h rfl rfl rfl
  · exact h

theorem step_inv14 (idsOf : Nat → List τ) {st st' : LState τ} (a : Step) (h14 : Inv14 st) (h : step loadI idsOf st a = .ok st') :
    Inv14 st' := by
  have hset : ∀ {k : Nat} {w w' : Wk τ}, st.wk[k]? = some w → FinPc w' → ∀ v ∈ st.wk.set k w', FinPc v := by
    intro k w w' _ hw' v hv
    rcases List.mem_or_eq_of_mem_set hv with hv | hv
    · exact h14 v hv
    · rw [hv]; exact hw'
  cases a with
  | main k p =>
    simp only [Sys.step] at h
    split at h
    · cases h
    · rename_i w hw
      split at h
      · cases h
      · rename_i w' hm
        simp only [Except.ok.injEq] at h; subst h
        exact hset hw (mainStep_finPc (h14 w (List.mem_of_getElem? hw)) hm)
  | deliver k =>
    simp only [Sys.step] at h
    split at h
    · cases h
    · rename_i w hw
      split at h
      · cases h
      · rename_i w' hm
        simp only [Except.ok.injEq] at h; subst h
        exact hset hw (deliverStep_finPc (h14 w (List.mem_of_getElem? hw)) hm)
  | crash k b =>
    simp only [Sys.step] at h
    split at h
    · cases h
    rename_i s1 hc
    simp only [Except.ok.injEq] at h; subst h
    unfold crashStep at hc
    split at hc
    · cases hc
    rename_i w hw
    split at hc
    · cases hc
    have base := hset (w' := ({ w with alive := false, inbox := [], outbox := w.outbox ++ [.endMarker] } : Wk τ)) hw
      (finPc_of_fields (h14 w (List.mem_of_getElem? hw)) rfl rfl rfl)
    split at hc
    · simp only [Option.some.injEq] at hc; subst hc; exact base
    · simp only [Option.some.injEq] at hc; subst hc; exact base
  | recv k =>
    simp only [Sys.step] at h
    split at h
    · cases h
    rename_i s1 hr
    simp only [Except.ok.injEq] at h; subst h
    obtain ⟨w, m, rest, fl', w2, outs', hw, ho, rfl, hfl', hw2⟩ := recvStep_shape hr
    simp only at hw2
    refine hset hw ?_
    rw [hw2]
    have h0 := h14 w (List.mem_of_getElem? hw)
    split
    · split
      · exact finPc_of_fields h0 rfl rfl rfl
      · exact finPc_of_fields h0 rfl rfl rfl
    · exact finPc_of_fields h0 rfl rfl rfl
  | ctl k rq =>
    simp only [Sys.step] at h
    obtain ⟨w, ev0, rest, c', hw, hp, hl, rfl⟩ := ctlStep_shape h
    intro v hv
    simp only at hv
    obtain ⟨j, hj, rfl⟩ := List.getElem_of_mem hv
    have hget : (route (spawn idsOf (st.wk.set k ({ w with posted := rest } : Wk τ)) c'.nextId)
        (c'.env.outs.drop st.ctl.env.outs.length))[j]? = some (route (spawn idsOf (st.wk.set k ({ w with posted := rest } : Wk τ)) c'.nextId)
        (c'.env.outs.drop st.ctl.env.outs.length))[j] := by simp [hj]
    rw [route_get] at hget
    cases hs : (spawn idsOf (st.wk.set k ({ w with posted := rest } : Wk τ)) c'.nextId)[j]? with
    | none => rw [hs] at hget; cases hget
    | some u =>
      rw [hs] at hget
      simp only [Option.map_some, Option.some.injEq] at hget
      rw [← hget]
      apply routed_finPc
      have hu := List.mem_of_getElem? hs
      unfold spawn at hu
      rcases List.mem_append.1 hu with hu | hu
      · exact hset (w' := ({ w with posted := rest } : Wk τ)) hw (finPc_of_fields (h14 w (List.mem_of_getElem? hw)) rfl rfl rfl) u hu
      · obtain ⟨i, _, rfl⟩ := List.mem_map.1 hu
        intro hp'; rcases hp' with hp' | hp' <;> cases hp'

/-- all layers needed for the last case, along executions without an undecodable message -/
theorem reachB_after {ids : List τ} (numnodes maxfail : Nat) (msc maxRestart : Option Int) (idsOf : Nat → List τ)
    (hids : ∀ j, idsOf j = ids) (hnn : 0 < numnodes) {st : LState τ} {W : List Nat} {g : Ghost}
    (h : ReachB idsOf (init loadI (Load.init numnodes msc) numnodes maxfail maxRestart idsOf) st W g) :
    W = [] → Inv13 st ∧ FO st [] ∧ Inv14 st := by
  induction h with
  | init =>
    intro _
    refine ⟨?_, ?_, ?_⟩
    · intro j w hj
      simp only [init, List.getElem?_map] at hj
      cases hr : (List.range numnodes)[j]? with
      | none => rw [hr] at hj; cases hj
      | some x =>
        rw [hr] at hj
        simp only [Option.map_some, Option.some.injEq] at hj
        subst hj
        refine ⟨fun hh => absurd rfl hh, fun hp' => (by rcases hp' with hp' | hp' <;> cases hp'), ?_, fun hp' => (by cases hp'),
          fun _ hn => (by cases hn), ?_, ?_, fun _ hs => (by simp [shutSeen] at hs)⟩
        · intro n x sf ss hm; simp [flight] at hm
        · intro _ a b hs; exact (Load.nil_ne_append_cons hs).elim
        · intro _ a b hs; exact (Load.nil_ne_append_cons hs).elim
    · intro _ k _
      simp [init, Ctl.init, Flags.get, AList.lookup]
    · intro w hw
      simp only [init, List.mem_map] at hw
      obtain ⟨j, _, rfl⟩ := hw
      intro hp'; rcases hp' with hp' | hp' <;> cases hp'
  | other a hn hprev hs ih =>
    intro hW'
    have hW := ghostW_nil hW'
    subst hW
    obtain ⟨i13, ifo, i14⟩ := ih rfl
    obtain ⟨i1, i2⟩ := reach_inv12 idsOf (init_inv numnodes maxfail msc maxRestart idsOf)
      (init_inv2 numnodes maxfail msc maxRestart idsOf) hprev.reachG.reach
    have i12 := reachB_inv12 numnodes maxfail msc maxRestart idsOf hids hnn hprev
    refine ⟨step_inv13 idsOf a i1 i2 i12 ifo i13 hW' hs, ?_, step_inv14 idsOf a i14 hs⟩
    have := step_fo idsOf a i1 i2 ifo hs
    rw [hW'] at this; exact this
  | ctl k rq hprev hs _ _ _ _ _ ih =>
    intro hW'
    have hW := ghostW_nil hW'
    subst hW
    obtain ⟨i13, ifo, i14⟩ := ih rfl
    obtain ⟨i1, i2⟩ := reach_inv12 idsOf (init_inv numnodes maxfail msc maxRestart idsOf)
      (init_inv2 numnodes maxfail msc maxRestart idsOf) hprev.reachG.reach
    have i12 := reachB_inv12 numnodes maxfail msc maxRestart idsOf hids hnn hprev
    refine ⟨step_inv13 idsOf _ i1 i2 i12 ifo i13 hW' hs, ?_, step_inv14 idsOf _ i14 hs⟩
    have := step_fo idsOf (.ctl k rq) i1 i2 ifo hs
    rw [hW'] at this; exact this

end Xdist.Sys
