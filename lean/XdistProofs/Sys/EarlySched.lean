import XdistProofs.Sys.CtlProof2
import XdistProofs.Sys.Inv2
import XdistProofs.Sched.LoadQG
/-!
  The load scheduler before the collection is complete: no call sends anything, hands anything out or fails to keep the
  registered collections; and in general no call ever forgets a registered collection.
-/
namespace Xdist.Load
open Xdist

variable {τ : Type} [DecidableEq τ]

theorem mem_of_lookup {κ ν : Type} [DecidableEq κ] {d : AList κ ν} {x : κ} {v : ν} (h : AList.lookup d x = some v) : (x, v) ∈ d := by
  induction d with
  | nil => cases h
  | cons p t ih =>
    obtain ⟨k, w⟩ := p
    simp only [AList.lookup] at h
    split at h
    · rename_i hk; cases h; subst hk; simp
    · exact List.mem_cons_of_mem _ (ih h)

theorem mem_set {κ ν : Type} [DecidableEq κ] {d : AList κ ν} {x : κ} {v : ν} {p : κ × ν} (h : p ∈ AList.set d x v) :
    p ∈ d ∨ p = (x, v) := by
  induction d with
  | nil => simp [AList.set] at h; exact Or.inr h
  | cons q t ih =>
    obtain ⟨k, w⟩ := q
    simp only [AList.set] at h
    split at h
    · rename_i hk
      rcases List.mem_cons.1 h with h | h
      · right; rw [h, hk]
      · exact Or.inl (List.mem_cons_of_mem _ h)
    · rcases List.mem_cons.1 h with h | h
      · left; rw [h]; simp
      · rcases ih h with h | h
        · exact Or.inl (List.mem_cons_of_mem _ h)
        · exact Or.inr h

theorem mem_erase {κ ν : Type} [DecidableEq κ] {d : AList κ ν} {x : κ} {p : κ × ν} (h : p ∈ AList.erase d x) : p ∈ d := by
  induction d with
  | nil => simp [AList.erase] at h
  | cons q t ih =>
    obtain ⟨k, w⟩ := q
    simp only [AList.erase] at h
    split at h
    · exact List.mem_cons_of_mem _ h
    · rcases List.mem_cons.1 h with h | h
      · rw [h]; simp
      · exact List.mem_cons_of_mem _ (ih h)

theorem static_of_mono {s s' : State τ} {e e' : Env} (m : Mono s e s' e') :
    s'.numnodes = s.numnodes ∧ s'.node2collection = s.node2collection := ⟨m.static.2.2, m.static.1⟩

theorem schedule_static {s s' : State τ} {e e' : Env} (h : schedule s e = .ok (s', e')) :
    s'.numnodes = s.numnodes ∧ s'.node2collection = s.node2collection := by
  unfold schedule at h
  split at h
  · cases h
  split at h
  · exact static_of_mono (checkAll_keys_Q h).2
  · split at h
    · simp at h
    · unfold scheduleFirst at h
      simp only at h
      split at h
      · simp only [Except.ok.injEq, Prod.mk.injEq] at h
        obtain ⟨rfl, rfl⟩ := h
        exact ⟨rfl, rfl⟩
      · split at h
        · simp only [Except.ok.injEq, Prod.mk.injEq] at h
          obtain ⟨rfl, rfl⟩ := h
          exact ⟨rfl, rfl⟩
        · obtain ⟨_, i2⟩ := initialSend_Q' (by simp) h
          have := static_of_mono i2
          exact ⟨this.1, this.2⟩

/-- no scheduler call forgets a registered collection or changes the number of workers waited for -/
theorem step_static {s s' : State τ} {e e' : Env} {op : SOp τ} {r : Option τ} (h : step s e op = .ok (s', e', r)) :
    s'.numnodes = s.numnodes ∧
    (s'.node2collection = s.node2collection ∨ ∃ n c, s'.node2collection = AList.set s.node2collection n c) := by
  cases op with
  | addNode n =>
    simp only [step] at h
    obtain ⟨a, ha, hb⟩ := map_ok.1 h
    simp only [Prod.mk.injEq] at hb
    obtain ⟨rfl, rfl, _⟩ := hb
    unfold addNode at ha
    split at ha
    · simp at ha
    · simp only [Except.ok.injEq] at ha; subst ha; exact ⟨rfl, Or.inl rfl⟩
  | addNodeCollection n c =>
    simp only [step] at h
    obtain ⟨a, ha, hb⟩ := map_ok.1 h
    simp only [Prod.mk.injEq] at hb
    obtain ⟨rfl, rfl, _⟩ := hb
    unfold addNodeCollection at ha
    split at ha
    · simp at ha
    · split at ha
      · split at ha
        · simp at ha
        · split at ha
          · simp at ha
          · split at ha
            · simp only [Except.ok.injEq] at ha; subst ha; exact ⟨rfl, Or.inl rfl⟩
            · simp only [Except.ok.injEq] at ha; subst ha; exact ⟨rfl, Or.inr ⟨n, c, rfl⟩⟩
      · simp only [Except.ok.injEq] at ha; subst ha; exact ⟨rfl, Or.inr ⟨n, c, rfl⟩⟩
  | schedule =>
    simp only [step] at h
    obtain ⟨a, ha, hb⟩ := map_ok.1 h
    simp only [Prod.mk.injEq] at hb
    obtain ⟨rfl, rfl, _⟩ := hb
    have := schedule_static (show schedule s e = .ok (a.1, a.2) by rw [ha])
    exact ⟨this.1, Or.inl this.2⟩
  | markComplete n i slow =>
    simp only [step] at h
    obtain ⟨a, ha, hb⟩ := map_ok.1 h
    simp only [Prod.mk.injEq] at hb
    obtain ⟨rfl, rfl, _⟩ := hb
    unfold markComplete at ha
    obtain ⟨book, _, h1⟩ := bind_ok.1 ha
    obtain ⟨book', _, h2⟩ := bind_ok.1 h1
    have f := checkSchedule_frame (show checkSchedule _ e n slow = .ok (a.1, a.2) from h2)
    exact ⟨f.static.2.2.1, Or.inl f.static.1⟩
  | markPending t =>
    simp only [step] at h
    obtain ⟨a, ha, hb⟩ := map_ok.1 h
    simp only [Prod.mk.injEq] at hb
    obtain ⟨rfl, rfl, _⟩ := hb
    unfold markPending at ha
    split at ha
    · simp at ha
    · obtain ⟨idx, _, h1⟩ := bind_ok.1 ha
      have m := (checkAll_keys_Q (s := { s with pending := idx :: s.pending }) (show checkAll _ e _ = .ok (a.1, a.2) from h1)).2
      exact ⟨m.static.2.2, Or.inl m.static.1⟩
  | removePending n is => simp [step] at h
  | removeNode n =>
    simp only [step] at h
    unfold removeNode at h
    obtain ⟨⟨book, n2p⟩, hp, h1⟩ := bind_ok.1 h
    simp only at h1
    split at h1
    · simp only [Except.ok.injEq, Prod.mk.injEq] at h1
      obtain ⟨rfl, rfl, _⟩ := h1
      exact ⟨rfl, Or.inl rfl⟩
    · split at h1
      · simp at h1
      · split at h1
        · simp at h1
        · obtain ⟨⟨s3, e3⟩, h2, h3⟩ := bind_ok.1 h1
          simp only [Except.ok.injEq, Prod.mk.injEq] at h3
          obtain ⟨rfl, rfl, _⟩ := h3
          have m := (checkAll_keys_Q (s := { s with node2pending := n2p, pending := s.pending ++ _ }) h2).2
          exact ⟨m.static.2.2, Or.inl m.static.1⟩

theorem keys_set_sub {κ ν : Type} [DecidableEq κ] (d : AList κ ν) (x : κ) (v : ν) (y : κ) (h : y ∈ AList.keys d) :
    y ∈ AList.keys (AList.set d x v) := by
  have := (AList.lookup_isSome_iff_mem_keys d y).2 h
  apply (AList.lookup_isSome_iff_mem_keys _ y).1
  rw [AList.lookup_set]
  split
  · rfl
  · exact this

theorem step_completed_mono {s s' : State τ} {e e' : Env} {op : SOp τ} {r : Option τ} (h : step s e op = .ok (s', e', r))
    (hc : collectionIsCompleted s = true) : collectionIsCompleted s' = true := by
  obtain ⟨h1, h2⟩ := step_static h
  unfold collectionIsCompleted at hc ⊢
  simp only [ge_iff_le, decide_eq_true_eq] at hc ⊢
  rw [h1]
  rcases h2 with h2 | ⟨n, c, h2⟩
  · rw [h2]; exact hc
  · rw [h2]; exact Nat.le_trans hc (length_le_set _ _ _)

theorem step_regkeys_mono {s s' : State τ} {e e' : Env} {op : SOp τ} {r : Option τ} (h : step s e op = .ok (s', e', r))
    {k : Nat} (hk : k ∈ AList.keys s.node2collection) : k ∈ AList.keys s'.node2collection := by
  obtain ⟨_, h2⟩ := step_static h
  rcases h2 with h2 | ⟨n, c, h2⟩
  · rw [h2]; exact hk
  · rw [h2]; exact keys_set_sub _ _ _ _ hk

/-- **before the collection is complete a scheduler call sends nothing and hands nothing out** -/
theorem step_early {s s' : State τ} {e e' : Env} {op : SOp τ} {r : Option τ} (h0 : EarlyS s)
    (hnd : (AList.keys s.node2pending).Nodup) (h : step s e op = .ok (s', e', r))
    (hc : collectionIsCompleted s' = false) :
    e' = e ∧ r = none ∧ EarlyS s' ∧
    (∀ m, m ∈ AList.keys s'.node2pending → m ∈ AList.keys s.node2pending ∨ op = .addNode m) ∧
    (∀ n c, op = .addNodeCollection n c → n ∈ AList.keys s'.node2collection) := by
  obtain ⟨hcol, hpend, hmem⟩ := h0
  have hbooks : ∀ m b, AList.lookup s.node2pending m = some b → b = [] := fun m b hl => hmem (m, b) (mem_of_lookup hl)
  have hc0 : collectionIsCompleted s = false := by
    cases hh : collectionIsCompleted s with
    | false => rfl
    | true => rw [step_completed_mono h hh] at hc; cases hc
  cases op with
  | addNode n =>
    simp only [step] at h
    obtain ⟨a, ha, hb⟩ := map_ok.1 h
    simp only [Prod.mk.injEq] at hb
    obtain ⟨rfl, rfl, rfl⟩ := hb
    unfold addNode at ha
    split at ha
    · simp at ha
    · simp only [Except.ok.injEq] at ha; subst ha
      refine ⟨rfl, rfl, ⟨hcol, hpend, ?_⟩, ?_, by intro n c hh; cases hh⟩
      · intro p hp
        rcases mem_set hp with hp | hp
        · exact hmem p hp
        · rw [hp]
      · intro m hm
        simp only at hm
        have := (AList.lookup_isSome_iff_mem_keys _ m).2 hm
        rw [AList.lookup_set] at this
        split at this
        · rename_i hmn; right; rw [hmn]
        · exact Or.inl ((AList.lookup_isSome_iff_mem_keys _ m).1 this)
  | addNodeCollection n c =>
    simp only [step] at h
    obtain ⟨a, ha, hb⟩ := map_ok.1 h
    simp only [Prod.mk.injEq] at hb
    obtain ⟨rfl, rfl, rfl⟩ := hb
    unfold addNodeCollection at ha
    split at ha
    · simp at ha
    · simp only [hc0, Bool.false_eq_true, ↓reduceIte, Except.ok.injEq] at ha
      subst ha
      refine ⟨rfl, rfl, ⟨hcol, hpend, hmem⟩, fun m hm => Or.inl hm, ?_⟩
      intro n' c' hh
      cases hh
      exact (AList.lookup_isSome_iff_mem_keys _ n).1 (by simp)
  | schedule =>
    exfalso
    simp only [step] at h
    obtain ⟨a, ha, _⟩ := map_ok.1 h
    unfold schedule at ha
    simp [hc0] at ha
  | markComplete n i slow =>
    exfalso
    simp only [step] at h
    obtain ⟨a, ha, _⟩ := map_ok.1 h
    unfold markComplete at ha
    obtain ⟨book, hbk, h1⟩ := bind_ok.1 ha
    obtain ⟨book', hrm, _⟩ := bind_ok.1 h1
    have := hbooks n book (AList.get_eq_ok.1 hbk)
    subst this
    simp [PyList.remove] at hrm
  | markPending t =>
    exfalso
    simp only [step] at h
    obtain ⟨a, ha, _⟩ := map_ok.1 h
    unfold markPending at ha
    simp [hcol] at ha
  | removePending n is => simp [step] at h
  | removeNode n =>
    simp only [step] at h
    unfold removeNode at h
    obtain ⟨⟨book, n2p⟩, hp, h1⟩ := bind_ok.1 h
    obtain ⟨hl, rfl⟩ := AList.pop_eq_ok.1 hp
    have := hbooks n book hl
    subst this
    simp only [Except.ok.injEq, Prod.mk.injEq] at h1
    obtain ⟨rfl, rfl, rfl⟩ := h1
    refine ⟨rfl, rfl, ⟨hcol, hpend, ?_⟩, ?_, by intro n' c hh; cases hh⟩
    · intro p hp
      exact hmem p (mem_erase hp)
    · intro m hm
      exact Or.inl (AList.mem_keys_of_mem_keys_erase _ _ _ hm)

end Xdist.Load
