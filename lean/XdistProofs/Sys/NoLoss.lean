import XdistProofs.Sys.BlocksSeq
/-!
  C01, "no test is lost between controller and workers": for a worker process that was started with the session and is alive, what it
  has put on its queue followed by what waits in its inbox is **exactly** the sequence of payloads the log addressed to it — nothing
  lost, nothing duplicated, nothing reordered — for every scheduler, in every execution.  (Without worker failures, which is C01's
  setting, every worker is one of these; for replacement workers `C05_sys_received_in_send_order` gives the subsequence form.)
-/
namespace Xdist.Sys
open Xdist Xdist.Ctl Xdist.Contract

set_option linter.unusedSectionVars false

variable {σ τ : Type} [DecidableEq τ]

def Exact (outs : List SOut) (k : Nat) (w : Wk τ) : Prop :=
  w.alive = true → ∃ L : List (List Nat), w.w.received = L.flatten ∧ L ++ inboxPay w.ids.length w.inbox = payloads k w.ids.length outs

def ExactAll (numnodes : Nat) (st : State σ τ) : Prop :=
  numnodes ≤ st.wk.length ∧ ∀ k w, k < numnodes → st.wk[k]? = some w → Exact st.ctl.env.outs k w

theorem mainStep_alive_eq {k : Nat} {w w' : Wk τ} {p : MainP} (h : mainStep k w p = some w') : w'.alive = w.alive := by
  unfold mainStep at h
  split at h
  · cases h
  cases hph : w.phase with
  | boot => simp only [hph, Option.some.injEq] at h; subst h; rfl
  | collect =>
    simp only [hph] at h
    cases p with
    | collect errs garbage intr sf0 =>
      simp only at h
      split at h
      · simp only [Option.some.injEq] at h; subst h; rfl
      · simp only [Option.some.injEq] at h; subst h; rfl
    | none => simp at h
    | reports fs sf ss ex => simp at h
    | complete slow => simp at h
  | loop =>
    simp only [hph] at h
    cases hpc : w.w.pc with
    | init =>
      simp only [hpc, Option.map_eq_some_iff] at h
      obtain ⟨w1, _, rfl⟩ := h; rfl
    | haveItem =>
      simp only [hpc, Option.map_eq_some_iff] at h
      obtain ⟨w1, _, rfl⟩ := h; rfl
    | running =>
      simp only [hpc] at h
      split at h
      · simp only [Option.some.injEq] at h; subst h; rfl
      · simp only [Option.some.injEq] at h; subst h; rfl
      · split at h
        · simp only [Option.some.injEq] at h; subst h; rfl
        · split at h
          · simp only [Option.some.injEq] at h; subst h; rfl
          · cases h
      · cases h
    | done => simp [hpc] at h
  | finish => simp only [hph, Option.some.injEq] at h; subst h; rfl
  | done => simp [hph] at h

theorem exact_congr {outs : List SOut} {k : Nat} {w w' : Wk τ} (h : Exact outs k w) (h0 : w'.alive = w.alive)
    (h1 : w'.w.received = w.w.received) (h2 : w'.inbox = w.inbox) (h3 : w'.ids = w.ids) : Exact outs k w' := by
  intro ha
  obtain ⟨L, hL, hs⟩ := h (by rw [← h0]; exact ha)
  exact ⟨L, by rw [h1]; exact hL, by rw [h2, h3]; exact hs⟩

theorem deliverStep_exact {outs : List SOut} {k : Nat} {w w' : Wk τ} (h : deliverStep k w = some w') (hb : Exact outs k w) : Exact outs k w' := by
  unfold deliverStep at h
  split at h
  · cases h
  rename_i hguard
  split at h
  · cases h
  rename_i c rest hin
  have hal : w.alive = true := by
    simp only [Bool.or_eq_true, Bool.not_eq_true', not_or, Bool.not_eq_false] at hguard
    cases ha : w.alive with
    | true => rfl
    | false => simp [ha] at hguard
  obtain ⟨L, hL, hs⟩ := hb hal
  rw [hin] at hs
  intro _
  cases c with
  | run is =>
    simp only [Option.some.injEq] at h; subst h
    refine ⟨L ++ [is], ?_, ?_⟩
    · show (Worker.putMany w.w is).received = _
      rw [putMany_received, hL]; simp
    · rw [← hs]; simp [inboxPay]
  | runAll =>
    simp only [Option.some.injEq] at h; subst h
    refine ⟨L ++ [List.range w.ids.length], ?_, ?_⟩
    · show (Worker.putMany w.w (List.range w.ids.length)).received = _
      rw [putMany_received, hL]; simp
    · rw [← hs]; simp [inboxPay]
  | shutdown =>
    simp only [Option.some.injEq] at h; subst h
    exact ⟨L, hL, by rw [← hs]; simp [inboxPay]⟩
  | steal is =>
    simp only [Option.some.injEq] at h; subst h
    exact ⟨L, by show (Worker.steal w.w is).received = _; rw [steal_received]; exact hL, by rw [← hs]; simp [inboxPay]⟩

theorem routed_exact {outs : List SOut} {k : Nat} {w : Wk τ} (new : List SOut) (hb : Exact outs k w) : Exact (outs ++ new) k (routed k new w) := by
  unfold routed
  split
  · rename_i hal
    intro _
    obtain ⟨L, hL, hs⟩ := hb hal
    refine ⟨L, hL, ?_⟩
    show L ++ inboxPay w.ids.length (w.inbox ++ deliverTo k new) = _
    rw [inboxPay_append, inboxPay_deliverTo, payloads_append, ← List.append_assoc, hs]
  · rename_i hal
    intro ha
    exact absurd ha hal

theorem step_exact (I : SchedI σ τ) (hA : Appends I) (idsOf : Nat → List τ) (numnodes : Nat) {st st' : State σ τ} (a : Step)
    (hb : ExactAll numnodes st) (h : step I idsOf st a = .ok st') : ExactAll numnodes st' := by
  obtain ⟨hlen, hb⟩ := hb
  cases a with
  | main j p =>
    simp only [Sys.step] at h
    split at h
    · cases h
    rename_i w hw
    split at h
    · cases h
    rename_i w' hm
    simp only [Except.ok.injEq] at h; subst h
    obtain ⟨m1, m2, m3⟩ := mainStep_keeps hm
    refine ⟨by simpa [setWk] using hlen, ?_⟩
    intro k wk hkn hk
    simp only [setWk] at hk
    by_cases hkj : j = k
    · subst hkj
      rw [List.getElem?_set_self (lt_len_of_get hw)] at hk
      cases hk
      exact exact_congr (hb j w hkn hw) (mainStep_alive_eq hm) m1 m2 m3
    · rw [List.getElem?_set_ne hkj] at hk
      exact hb k wk hkn hk
  | deliver j =>
    simp only [Sys.step] at h
    split at h
    · cases h
    rename_i w hw
    split at h
    · cases h
    rename_i w' hm
    simp only [Except.ok.injEq] at h; subst h
    refine ⟨by simpa [setWk] using hlen, ?_⟩
    intro k wk hkn hk
    simp only [setWk] at hk
    by_cases hkj : j = k
    · subst hkj
      rw [List.getElem?_set_self (lt_len_of_get hw)] at hk
      cases hk
      exact deliverStep_exact hm (hb j w hkn hw)
    · rw [List.getElem?_set_ne hkj] at hk
      exact hb k wk hkn hk
  | recv j =>
    simp only [Sys.step] at h
    split at h
    · cases h
    rename_i s1 hr
    simp only [Except.ok.injEq] at h; subst h
    unfold recvStep at hr
    split at hr
    · cases hr
    rename_i w hw
    split at hr
    · cases hr
    rename_i m rest ho
    simp only [Option.some.injEq] at hr
    subst hr
    have hjl := lt_len_of_get hw
    refine ⟨?_, ?_⟩
    · simp only
      split
      · rw [route_length]; simpa using hlen
      · simpa using hlen
    intro k wk hkn hk
    simp only at hk ⊢
    have key : ∀ w1, (st.wk.set j { w with outbox := rest, posted := w.posted ++ (Receiver.step { down := (st.ctl.env.flags.get j).down, shutdownSent := (st.ctl.env.flags.get j).sent } (toRecv j m)).2.1.map (ofPost j) })[k]? = some w1 →
        Exact st.ctl.env.outs k w1 := by
      intro w1 h1
      by_cases hkj : j = k
      · subst hkj
        rw [List.getElem?_set_self hjl] at h1
        cases h1
        exact exact_congr (hb j w hkn hw) rfl rfl rfl rfl
      · rw [List.getElem?_set_ne hkj] at h1
        exact hb k w1 hkn h1
    split at hk
    · rename_i hcond
      rw [route_get] at hk
      simp only [Option.map_eq_some_iff] at hk
      obtain ⟨w1, h1, rfl⟩ := hk
      simp only [hcond, if_true]
      exact routed_exact _ (key w1 h1)
    · rename_i hcond
      simp only [hcond]
      exact key wk hk
  | crash j b =>
    simp only [Sys.step] at h
    split at h
    · cases h
    rename_i s1 hc
    simp only [Except.ok.injEq] at h; subst h
    unfold crashStep at hc
    split at hc
    · cases hc
    rename_i w hw
    split at hc
    · cases hc
    have key : ∀ k wk, k < numnodes → (st.wk.set j { w with alive := false, inbox := [], outbox := w.outbox ++ [.endMarker] })[k]? = some wk →
        Exact st.ctl.env.outs k wk := by
      intro k wk hkn hk
      by_cases hkj : j = k
      · subst hkj
        rw [List.getElem?_set_self (lt_len_of_get hw)] at hk
        cases hk
        intro ha; cases ha
      · rw [List.getElem?_set_ne hkj] at hk
        exact hb k wk hkn hk
    split at hc
    · simp only [Option.some.injEq] at hc; subst hc
      exact ⟨by simpa [setWk] using hlen, fun k wk hkn hk => key k wk hkn hk⟩
    · simp only [Option.some.injEq] at hc; subst hc
      exact ⟨by simpa [setWk] using hlen, fun k wk hkn hk => key k wk hkn hk⟩
  | ctl j rq =>
    simp only [Sys.step] at h
    obtain ⟨w, ev0, rest, c', hw, hp, hl, rfl⟩ := ctlStep_shape' h
    obtain ⟨as, hsteps, _⟩ := loopOnce_steps hl
    obtain ⟨new, hnew⟩ := steps_appends hA hsteps
    have hdrop : c'.env.outs.drop st.ctl.env.outs.length = new := by rw [hnew]; simp
    refine ⟨?_, ?_⟩
    · simp only [route_length, spawn, List.length_append, List.length_set]
      omega
    intro k wk hkn hk
    simp only at hk ⊢
    rw [hdrop, route_get] at hk
    simp only [Option.map_eq_some_iff] at hk
    obtain ⟨w0, h0, rfl⟩ := hk
    rw [hnew]
    refine routed_exact new ?_
    have hklt : k < (st.wk.set j { w with posted := rest }).length := by simp only [List.length_set]; omega
    rw [spawn_get_old _ _ _ _ hklt] at h0
    by_cases hkj : j = k
    · subst hkj
      rw [List.getElem?_set_self (lt_len_of_get hw)] at h0
      cases h0
      exact exact_congr (hb j w hkn hw) rfl rfl rfl rfl
    · rw [List.getElem?_set_ne hkj] at h0
      exact hb k w0 hkn h0

theorem run_exact (I : SchedI σ τ) (hA : Appends I) (idsOf : Nat → List τ) (numnodes : Nat) : ∀ (steps : List Step) {st st' : State σ τ},
    ExactAll numnodes st → run I idsOf st steps = .ok st' → ExactAll numnodes st' := by
  intro steps
  induction steps with
  | nil => intro st st' hs h; simp only [run, Except.ok.injEq] at h; subst h; exact hs
  | cons a rest ih =>
    intro st st' hs h
    simp only [run] at h
    split at h
    · cases h
    · rename_i st1 hs1
      exact ih (step_exact I hA idsOf numnodes a hs hs1) h

/-- **Nothing is lost between the controller and a live worker** (C01; any scheduler whose calls only append to the log — all six
    modes).  After any execution, for every worker process started with the session that is alive: the blocks it has put on its queue,
    followed by the payloads waiting in its inbox, are exactly — same elements, same order, same multiplicity — the payloads of the
    `runtests`/`runtests_all` commands the log addressed to it. -/
theorem C01_sys_nothing_lost_to_a_live_worker (I : SchedI σ τ) (hA : Appends I) (s0 : σ) (numnodes maxfail : Nat) (mr : Option Int)
    (idsOf : Nat → List τ) (steps : List Step) {st : State σ τ} (h : run I idsOf (init I s0 numnodes maxfail mr idsOf) steps = .ok st)
    (k : Nat) (hk : k < numnodes) (w : Wk τ) (hw : st.wk[k]? = some w) (hal : w.alive = true) :
    ∃ L : List (List Nat), w.w.received = L.flatten ∧
      L ++ inboxPay w.ids.length w.inbox = payloads k w.ids.length st.ctl.env.outs := by
  have h0 : ExactAll numnodes (init I s0 numnodes maxfail mr idsOf) := by
    refine ⟨by simp [init], ?_⟩
    intro k w _ hk
    simp only [init, List.getElem?_map, Option.map_eq_some_iff] at hk
    obtain ⟨i, _, rfl⟩ := hk
    intro _
    exact ⟨[], rfl, by simp [inboxPay, init, Ctl.init, payloads]⟩
  exact (run_exact I hA idsOf numnodes steps h0 h).2 k w hk hw hal

end Xdist.Sys
