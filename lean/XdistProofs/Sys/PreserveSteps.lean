import XdistProofs.Sys.PreserveDeliver
/-! Lifting the worker-side steps to the system invariant; the `crash` step. -/
namespace Xdist.Sys
open Xdist

variable {τ : Type} [DecidableEq τ]

theorem inv_of {st : LState τ} (hc : CtlInv st) (hw : ∀ j w, st.wk[j]? = some w → WkInv st.ctl j w) : Inv st := by
  refine ⟨hc, ?_⟩
  intro p hp
  rw [List.mem_zipIdx_iff_getElem?] at hp
  exact hw p.2 p.1 (by simpa using hp)

/-- the per-worker invariant of worker `j` only looks at the scheduler, the set of active workers, the stop reason and the
    flags of `j` (`broken` only while the worker is alive) -/
theorem WkInv.congr' {c c' : Ctl.State (Load.State τ) τ} {j : Nat} {w : Wk τ} (hs : c'.sched = c.sched)
    (ha : c'.active = c.active) (hst : c'.shouldstop = c.shouldstop)
    (hd : (c'.env.flags.get j).down = (c.env.flags.get j).down) (hse : (c'.env.flags.get j).sent = (c.env.flags.get j).sent)
    (hb : w.alive = true → (c'.env.flags.get j).broken = (c.env.flags.get j).broken)
    (h : WkInv c j w) : WkInv c' j w := by
  have hsd : c'.env.flags.shuttingDown j = c.env.flags.shuttingDown j := by unfold Flags.shuttingDown; rw [hd, hse]
  have hq : QnD c'.sched c'.env j ↔ QnD c.sched c.env j := by unfold QnD; rw [hs, hsd]
  refine ⟨h.loopCb, h.running, h.have1, h.init0, h.early, h.boot0, h.latePc, h.inboxK, h.ownP, h.ownO, h.evPlain, ?_, ?_, ?_, ?_, ?_, ?_,
    h.noticeLast, h.bootNoReady, ?_, ?_, ?_, ?_, ?_, ?_, ?_⟩
  · intro hal; rw [hb hal]; exact h.notBroken hal
  · rw [ha, hd]; exact h.notice1
  · rw [ha, hd]; exact h.notice2
  · rw [hd]; exact h.noticeDown
  · rw [ha]; exact h.inactive
  · rw [ha, hd]; exact h.inactiveDown
  · rw [hse]; exact h.shut
  · rw [ha, hsd, hs]; exact h.ready
  · rw [hd]; exact h.readyTail
  · rw [hd]; exact h.readyColl
  · rcases h.qn with hh | hh
    · exact Or.inl hh
    · exact Or.inr (hq.2 hh)
  · rw [hs, ha, hst]; exact h.keysActive
  · rw [hd, hs]; exact h.sync

theorem WkInv.congr {c c' : Ctl.State (Load.State τ) τ} {j : Nat} {w : Wk τ} (hs : c'.sched = c.sched)
    (ha : c'.active = c.active) (hst : c'.shouldstop = c.shouldstop) (hf : c'.env.flags.get j = c.env.flags.get j)
    (h : WkInv c j w) : WkInv c' j w :=
  h.congr' hs ha hst (by rw [hf]) (by rw [hf]) (fun _ => by rw [hf])

theorem getElem?_set_self' {α : Type} {l : List α} {k : Nat} {a b : α} (h : l[k]? = some a) : (l.set k b)[k]? = some b := by
  have hlt : k < l.length := by
    rcases Nat.lt_or_ge k l.length with h' | h'
    · exact h'
    · rw [List.getElem?_eq_none h'] at h; cases h
  simp [List.getElem?_set, hlt]

/-- a step that changes one worker and leaves the controller alone -/
theorem inv_setWk {st : LState τ} {k : Nat} {w w' : Wk τ} (hinv : Inv st) (hw : st.wk[k]? = some w)
    (h' : WkInv st.ctl k w') : Inv (setWk st k w') := by
  refine inv_of ?_ ?_
  · obtain ⟨c1, c2, c3, c4, c5, c6, c7, c8, c9, c10, c11⟩ := hinv.1
    exact ⟨by simp [setWk, c1], c2, c3, c4, c5, c6, c7, c8, c9, c10, c11⟩
  · intro j wj hj
    by_cases hjk : j = k
    · subst hjk
      simp only [setWk] at hj
      rw [getElem?_set_self' hw] at hj
      cases hj
      exact h'
    · simp only [setWk] at hj
      rw [List.getElem?_set_ne (Ne.symm hjk)] at hj
      exact hinv.wk hj

theorem main_inv (idsOf : Nat → List τ) {st st' : LState τ} {k : Nat} {p : MainP} (hinv : Inv st)
    (h : step Ctl.loadI idsOf st (.main k p) = .ok st') : Inv st' := by
  simp only [step] at h
  split at h
  · cases h
  · rename_i w hw
    split at h
    · cases h
    · rename_i w' hm
      simp only [Except.ok.injEq] at h
      subst h
      exact inv_setWk hinv hw (mainStep_inv (hinv.wk hw) hm)

theorem deliver_inv (idsOf : Nat → List τ) {st st' : LState τ} {k : Nat} (hinv : Inv st)
    (h : step Ctl.loadI idsOf st (.deliver k) = .ok st') : Inv st' := by
  simp only [step] at h
  split at h
  · cases h
  · rename_i w hw
    split at h
    · cases h
    · rename_i w' hm
      simp only [Except.ok.injEq] at h
      subst h
      exact inv_setWk hinv hw (deliverStep_inv (hinv.wk hw) hm)

/-- a worker dies: the end marker is the last thing on its channel -/
theorem crash_wk {c : Ctl.State (Load.State τ) τ} {k : Nat} {w : Wk τ} (h : WkInv c k w) :
    WkInv c k ({ w with alive := false, inbox := [], outbox := w.outbox ++ [.endMarker] } : Wk τ) := by
  have hfl : flight k ({ w with alive := false, inbox := [], outbox := w.outbox ++ [.endMarker] } : Wk τ) = flight k w := by
    simp [flight, List.filterMap_append, evOf]
  have hcp : collPending k ({ w with alive := false, inbox := [], outbox := w.outbox ++ [.endMarker] } : Wk τ) = collPending k w := by
    simp only [collPending, hfl]
  refine ⟨h.loopCb, h.running, h.have1, h.init0, h.early, ?_, h.latePc, ?_, h.ownP, ?_, ?_, ?_, ?_, h.notice2, h.noticeDown, h.inactive,
    h.inactiveDown, h.noticeLast, by rw [hfl]; exact h.bootNoReady, ?_, ?_, ?_, ?_, ?_, h.keysActive, ?_⟩
  · intro hh; cases hh
  · intro c' hc'; simp at hc'
  · have : ([WMsg.endMarker] : List (WMsg τ)).filterMap (evOf k) = [] := rfl
    simp only [List.filterMap_append, this, List.append_nil]
    exact h.ownO
  · intro m hm
    rcases List.mem_append.1 hm with hm | hm
    · exact h.evPlain m hm
    · simp at hm; subst hm; rfl
  · intro hh; cases hh
  · intro _ _; right; simp [isEnd]
  · intro hh; cases hh
  · rw [hfl]; exact h.ready
  · rw [hfl]; exact h.readyTail
  · rw [hfl, hcp]; exact h.readyColl
  · rw [hcp]; exact h.qn
  · intro hh; cases hh

theorem ctlInv_flags {st st' : LState τ} (hc : CtlInv st) (hwk : st'.wk.length = st.wk.length)
    (h1 : st'.ctl.sched = st.ctl.sched) (h2 : st'.ctl.active = st.ctl.active) (h3 : st'.ctl.nextId = st.ctl.nextId)
    (h4 : st'.ctl.shuttingdown = st.ctl.shuttingdown) (h5 : st'.ctl.shouldstop = st.ctl.shouldstop)
    (hmono : ∀ n, st.ctl.env.flags.shuttingDown n = true → st'.ctl.env.flags.shuttingDown n = true)
    (hfk : ∀ m ∈ AList.keys st'.ctl.env.flags, st.ctl.nextId ≤ m → st'.ctl.env.flags.get m = {}) : CtlInv st' := by
  obtain ⟨c1, c2, c3, c4, c5, c6, c7, c8, c9, c10, c11⟩ := hc
  refine ⟨by rw [hwk, h3]; exact c1, by rw [h2, h3]; exact c2, by rw [h2]; exact c3, by rw [h5, h4]; exact c4, ?_, ?_,
    by rw [h1]; exact c7, by rw [h1]; exact c8, by rw [h1]; exact c9, by rw [h1, h3]; exact c10, by rw [h3]; exact hfk⟩
  · rw [h4, h1]; intro hs n hn; exact hmono n (c5 hs n hn)
  · rw [h1]; intro hs n hn; exact hmono n (c6 hs n hn)

theorem keys_set_mem {κ ν : Type} [DecidableEq κ] (d : AList κ ν) (x : κ) (v : ν) (y : κ) (h : y ∈ AList.keys (AList.set d x v)) :
    y ∈ AList.keys d ∨ y = x := by
  induction d with
  | nil => simp [AList.set, AList.keys] at h; exact Or.inr h
  | cons p t ih =>
    simp only [AList.set] at h
    split at h
    · rename_i hp
      simp only [AList.keys, List.map_cons, List.mem_cons] at h ⊢
      rcases h with h | h
      · exact Or.inl (Or.inl h)
      · exact Or.inl (Or.inr h)
    · simp only [AList.keys, List.map_cons, List.mem_cons] at h ⊢
      rcases h with h | h
      · exact Or.inl (Or.inl h)
      · rcases ih h with h' | h'
        · exact Or.inl (Or.inr h')
        · exact Or.inr h'

theorem crash_inv (idsOf : Nat → List τ) {st st' : LState τ} {k : Nat} {b : Bool} (hinv : Inv st)
    (h : step Ctl.loadI idsOf st (.crash k b) = .ok st') : Inv st' := by
  simp only [step] at h
  split at h
  · cases h
  rename_i s1 hc
  simp only [Except.ok.injEq] at h
  subst h
  unfold crashStep at hc
  split at hc
  · cases hc
  rename_i w hw
  split at hc
  · cases hc
  have hwk := crash_wk (hinv.wk hw)
  have base := inv_setWk hinv hw hwk
  split at hc
  · -- the pipe is broken: sends to this worker are lost from now on
    simp only [Option.some.injEq] at hc
    subst hc
    refine inv_of ?_ ?_
    · refine ctlInv_flags base.1 rfl rfl rfl rfl rfl rfl ?_ ?_
      · intro n hn
        simp only [setWk, Flags.shuttingDown, Contract.flags_get_set] at hn ⊢
        by_cases hnk : n = k
        · subst hnk; simpa using hn
        · simpa [hnk] using hn
      · intro m hm hge
        have hkl : k < st.ctl.nextId := by
          rw [← hinv.1.len]
          rcases Nat.lt_or_ge k st.wk.length with h' | h'
          · exact h'
          · rw [List.getElem?_eq_none h'] at hw; cases hw
        have hge' : st.ctl.nextId ≤ m := hge
        have hmk : m ≠ k := by omega
        simp only [setWk, Contract.flags_get_set, hmk, ↓reduceIte]
        rcases keys_set_mem _ _ _ _ hm with hm | hm
        · exact base.1.flagsLt m hm hge
        · exact absurd hm hmk
    · intro j wj hj
      have hj' : (setWk st k ({ w with alive := false, inbox := [], outbox := w.outbox ++ [.endMarker] } : Wk τ)).wk[j]? = some wj := hj
      have hb := base.wk hj'
      by_cases hjk : j = k
      · subst hjk
        have hwj : wj = ({ w with alive := false, inbox := [], outbox := w.outbox ++ [.endMarker] } : Wk τ) := by
          simp only [setWk] at hj'
          rw [getElem?_set_self' hw] at hj'
          cases hj'; rfl
        refine WkInv.congr' (c := (setWk st j ({ w with alive := false, inbox := [], outbox := w.outbox ++ [.endMarker] } : Wk τ)).ctl)
          rfl rfl rfl ?_ ?_ ?_ hb
        · simp [setWk, Contract.flags_get_set]
        · simp [setWk, Contract.flags_get_set]
        · intro hal; rw [hwj] at hal; cases hal
      · refine WkInv.congr (c := (setWk st k ({ w with alive := false, inbox := [], outbox := w.outbox ++ [.endMarker] } : Wk τ)).ctl)
          rfl rfl rfl ?_ hb
        simp [setWk, Contract.flags_get_set, hjk]
  · simp only [Option.some.injEq] at hc
    subst hc
    exact base

end Xdist.Sys
