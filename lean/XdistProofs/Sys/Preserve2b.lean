import XdistProofs.Sys.Preserve2
import XdistProofs.Sys.PreserveRecv2
/-! Lifting `main`, `deliver`, `crash` to the second layer of the system invariant, and the `recv` step. -/
namespace Xdist.Sys
open Xdist

variable {τ : Type} [DecidableEq τ]

theorem late_congr {c c' : Ctl.State (Load.State τ) τ} (hs : c'.sched = c.sched) (hst : c'.shouldstop = c.shouldstop)
    (hm : c'.maxRestart = c.maxRestart) (hf : c'.failedNodes = c.failedNodes) : late c' = late c := by
  unfold late over; rw [hs, hst, hm, hf]

/-- the second layer for worker `j` only looks at the scheduler, the stop reason, the budget and the flags `down`/`sent` of `j` -/
theorem WkInv2.congr {c c' : Ctl.State (Load.State τ) τ} {j : Nat} {w : Wk τ} (hs : c'.sched = c.sched)
    (hst : c'.shouldstop = c.shouldstop) (hm : c'.maxRestart = c.maxRestart) (hf : c'.failedNodes = c.failedNodes)
    (hd : (c'.env.flags.get j).down = (c.env.flags.get j).down) (hse : (c'.env.flags.get j).sent = (c.env.flags.get j).sent)
    (h : WkInv2 c j w) : WkInv2 c' j w := by
  have hl := late_congr hs hst hm hf
  have hsd : c'.env.flags.shuttingDown j = c.env.flags.shuttingDown j := by unfold Flags.shuttingDown; rw [hd, hse]
  refine ⟨?_, by rw [hl, hd]; exact h.shutProv, h.runNext, by rw [hl, hd]; exact h.finCause, by rw [hl, hd]; exact h.finOut,
    by rw [hl]; exact h.finPosted⟩
  rcases h.reg with hh | hh
  · exact Or.inl hh
  · right; unfold RegD at hh ⊢; rw [hs, hl, hsd]; exact hh

theorem CtlInv2.congr {c c' : Ctl.State (Load.State τ) τ} (hs : c'.sched = c.sched)
    (hst : c'.shouldstop = c.shouldstop) (hm : c'.maxRestart = c.maxRestart) (hf : c'.failedNodes = c.failedNodes)
    (ha : c'.active = c.active) (hsd : c'.shuttingdown = c.shuttingdown) (h : CtlInv2 c) : CtlInv2 c' := by
  have hl := late_congr hs hst hm hf
  have ho : over c' = over c := by unfold over; rw [hm, hf]
  exact ⟨by rw [hl, ha, hs]; exact h.count, by rw [hl, hsd]; exact h.shutLate, by rw [ho, hsd]; exact h.overShut,
    by rw [hl, hs]; exact h.early⟩

theorem WkInv2.congr_env {c : Ctl.State (Load.State τ) τ} (e' : Env) {j : Nat} {w : Wk τ}
    (hd : (e'.flags.get j).down = (c.env.flags.get j).down) (hse : (e'.flags.get j).sent = (c.env.flags.get j).sent)
    (h : WkInv2 c j w) : WkInv2 ({ c with env := e' } : Ctl.State (Load.State τ) τ) j w :=
  WkInv2.congr (c := c) (c' := { c with env := e' }) rfl rfl rfl rfl hd hse h

theorem CtlInv2.congr_env {c : Ctl.State (Load.State τ) τ} (e' : Env) (h : CtlInv2 c) :
    CtlInv2 ({ c with env := e' } : Ctl.State (Load.State τ) τ) :=
  CtlInv2.congr (c := c) (c' := { c with env := e' }) rfl rfl rfl rfl rfl rfl h

theorem main_inv2 (idsOf : Nat → List τ) {st st' : LState τ} {k : Nat} {p : MainP} (hinv : Inv2 st)
    (h : step Ctl.loadI idsOf st (.main k p) = .ok st') : Inv2 st' := by
  simp only [step] at h
  split at h
  · cases h
  · rename_i w hw
    split at h
    · cases h
    · rename_i w' hm
      simp only [Except.ok.injEq] at h
      subst h
      exact inv2_setWk hinv hw (mainStep_inv2 (hinv.wk hw) hm)

theorem deliver_inv2 (idsOf : Nat → List τ) {st st' : LState τ} {k : Nat} (hinv1 : Inv st) (hinv : Inv2 st)
    (h : step Ctl.loadI idsOf st (.deliver k) = .ok st') : Inv2 st' := by
  simp only [step] at h
  split at h
  · cases h
  · rename_i w hw
    split at h
    · cases h
    · rename_i w' hm
      simp only [Except.ok.injEq] at h
      subst h
      exact inv2_setWk hinv hw (deliverStep_inv2 (hinv1.wk hw) (hinv.wk hw) hm)

theorem crash_inv2 (idsOf : Nat → List τ) {st st' : LState τ} {k : Nat} {b : Bool} (hinv : Inv2 st)
    (h : step Ctl.loadI idsOf st (.crash k b) = .ok st') : Inv2 st' := by
  simp only [step] at h
  split at h
  · cases h
  rename_i s1 hc
  simp only [Except.ok.injEq] at h
  subst h
  unfold crashStep at hc
  split at hc
  · cases hc
  rename_i w hw
  split at hc
  · cases hc
  have base := inv2_setWk hinv hw (crash_wk2 (hinv.wk hw))
  split at hc
  · simp only [Option.some.injEq] at hc
    subst hc
    refine inv2_of (CtlInv2.congr_env _ base.1) ?_
    intro j wj hj
    have hj' : (setWk st k ({ w with alive := false, inbox := [], outbox := w.outbox ++ [.endMarker] } : Wk τ)).wk[j]? = some wj := hj
    refine WkInv2.congr_env _ ?_ ?_ (base.wk hj')
    · simp only [setWk, Contract.flags_get_set]; split <;> simp_all
    · simp only [setWk, Contract.flags_get_set]; split <;> simp_all
  · simp only [Option.some.injEq] at hc
    subst hc
    exact base

/-- for a worker the controller has written off only two conjuncts say anything -/
theorem wkInv2_down {c : Ctl.State (Load.State τ) τ} {k : Nat} {w : Wk τ} (hd : (c.env.flags.get k).down = true)
    (h1 : w.w.pc = .running → w.w.next.isSome = true) (h2 : ∀ e ∈ w.posted, evFinOk (late c) e = true) : WkInv2 c k w := by
  refine ⟨Or.inr ?_, fun _ => Or.inr hd, h1, fun _ => Or.inr hd, fun _ _ => Or.inr hd, h2⟩
  intro _; right; right
  unfold Flags.shuttingDown; rw [hd]; rfl

theorem recv_inv2 (idsOf : Nat → List τ) {st st' : LState τ} {k : Nat} (hinv1 : Inv st) (hinv : Inv2 st)
    (h : step Ctl.loadI idsOf st (.recv k) = .ok st') : Inv2 st' := by
  simp only [step] at h
  split at h
  · cases h
  rename_i s1 hr
  simp only [Except.ok.injEq] at h
  subst h
  obtain ⟨w, m, rest, fl', w2, outs', hw, ho, rfl, hfl', hw2⟩ := recvStep_shape hr
  simp only at hfl' hw2
  have wi := hinv1.wk hw
  have wi2 := hinv.wk hw
  have hflk : Flags.get (AList.set st.ctl.env.flags k fl') k = fl' := by simp [Contract.flags_get_set]
  have hflj : ∀ j, j ≠ k → Flags.get (AList.set st.ctl.env.flags k fl') j = st.ctl.env.flags.get j := by
    intro j hj; simp [Contract.flags_get_set, hj]
  refine inv2_of (CtlInv2.congr_env _ hinv.1) ?_
  intro j wj hj
  by_cases hjk : j ≠ k
  · simp only at hj
    rw [List.getElem?_set_ne (Ne.symm hjk)] at hj
    refine WkInv2.congr_env _ ?_ ?_ (hinv.wk hj)
    · simp only; rw [hflj j hjk]
    · simp only; rw [hflj j hjk]
  have hjk : j = k := Classical.byContradiction hjk
  subst hjk
  simp only at hj
  rw [getElem?_set_self' hw] at hj
  cases hj
  -- the events already posted keep their justification; what `w2` posts in addition is examined case by case
  have hlate : late ({ st.ctl with env := { flags := AList.set st.ctl.env.flags j fl', outs := outs' } } : Ctl.State (Load.State τ) τ) = late st.ctl := rfl
  cases hdown : (st.ctl.env.flags.get j).down with
  | true =>
    have hr1 : Receiver.step (α := Ctl.Event τ) { down := true, shutdownSent := (st.ctl.env.flags.get j).sent } (toRecv j m) =
        ({ down := true, shutdownSent := (st.ctl.env.flags.get j).sent }, [], false) := by
      cases m <;> simp [Receiver.step, toRecv]
    rw [hdown, hr1] at hfl' hw2
    simp only [List.map_nil, List.append_nil, Bool.false_and, Bool.false_eq_true, ↓reduceIte] at hw2
    subst hw2
    refine wkInv2_down (by simp only; rw [hflk, hfl']) wi2.runNext ?_
    rw [hlate]; exact wi2.finPosted
  | false =>
    cases m with
    | ev e =>
      have hr1 : Receiver.step (α := Ctl.Event τ) { down := false, shutdownSent := (st.ctl.env.flags.get j).sent } (toRecv j (.ev e)) =
          ({ down := false, shutdownSent := (st.ctl.env.flags.get j).sent }, [.event "" e], false) := by
        simp [Receiver.step, toRecv]
      rw [hdown, hr1] at hfl' hw2
      simp only [List.map_cons, List.map_nil, ofPost, Bool.false_and, Bool.false_eq_true, ↓reduceIte, brokenAfter] at hfl' hw2
      subst hw2
      have hpl := wi.evPlain (.ev e) (by rw [ho]; simp)
      have hfe : flight j ({ w with outbox := rest, posted := w.posted ++ [e] } : Wk τ) = flight j w := by
        simp [flight, ho, evOf]
      have hd' : (Flags.get (AList.set st.ctl.env.flags j fl') j).down = (st.ctl.env.flags.get j).down := by rw [hflk, hfl', hdown]
      have hs' : (Flags.get (AList.set st.ctl.env.flags j fl') j).sent = (st.ctl.env.flags.get j).sent := by rw [hflk, hfl']
      refine WkInv2.congr_env _ hd' hs' ?_
      refine ⟨?_, wi2.shutProv, wi2.runNext, wi2.finCause, ?_, ?_⟩
      · rcases wi2.reg with hh | hh
        · left; unfold collPending at hh ⊢; rw [hfe]; exact hh
        · exact Or.inr hh
      · intro x hx; exact wi2.finOut x (by rw [ho]; exact List.mem_cons_of_mem _ hx)
      · intro x hx
        rcases List.mem_append.1 hx with hx | hx
        · exact wi2.finPosted x hx
        · simp at hx; subst hx
          cases x <;> simp_all [evFinOk, plainMsg, isNotice]
    | ignored =>
      have hr1 : Receiver.step (α := Ctl.Event τ) { down := false, shutdownSent := (st.ctl.env.flags.get j).sent } (toRecv j .ignored) =
          ({ down := false, shutdownSent := (st.ctl.env.flags.get j).sent }, [], false) := by
        simp [Receiver.step, toRecv]
      rw [hdown, hr1] at hfl' hw2
      simp only [List.map_nil, Bool.false_and, Bool.false_eq_true, ↓reduceIte, brokenAfter] at hfl' hw2
      subst hw2
      have hfe : flight j ({ w with outbox := rest, posted := w.posted ++ [] } : Wk τ) = flight j w := by
        simp [flight, ho, evOf, List.filterMap_cons]
      have hd' : (Flags.get (AList.set st.ctl.env.flags j fl') j).down = (st.ctl.env.flags.get j).down := by rw [hflk, hfl', hdown]
      have hs' : (Flags.get (AList.set st.ctl.env.flags j fl') j).sent = (st.ctl.env.flags.get j).sent := by rw [hflk, hfl']
      refine WkInv2.congr_env _ hd' hs' ?_
      refine ⟨?_, wi2.shutProv, wi2.runNext, wi2.finCause, ?_, ?_⟩
      · rcases wi2.reg with hh | hh
        · left; unfold collPending at hh ⊢; rw [hfe]; exact hh
        · exact Or.inr hh
      · intro x hx; exact wi2.finOut x (by rw [ho]; exact List.mem_cons_of_mem _ hx)
      · intro x hx; simp only [List.append_nil] at hx; exact wi2.finPosted x hx
    | fin x sf ss =>
      have hr1 : Receiver.step (α := Ctl.Event τ) { down := false, shutdownSent := (st.ctl.env.flags.get j).sent } (toRecv j (.fin x sf ss)) =
          ({ down := true, shutdownSent := (st.ctl.env.flags.get j).sent }, [.workerfinished (.workerfinished j x sf ss)], false) := by
        simp [Receiver.step, toRecv]
      rw [hdown, hr1] at hfl' hw2
      simp only [List.map_cons, List.map_nil, ofPost, Bool.false_and, Bool.false_eq_true, ↓reduceIte, brokenAfter] at hfl' hw2
      subst hw2
      refine wkInv2_down (by simp only; rw [hflk, hfl']) wi2.runNext ?_
      rw [hlate]
      intro e he
      rcases List.mem_append.1 he with he | he
      · exact wi2.finPosted e he
      · simp at he; subst he
        rcases wi2.finOut (.fin x sf ss) (by rw [ho]; simp) with hh | hh
        · exact hh
        · rw [hdown] at hh; cases hh
    | garbage =>
      have hr1 : Receiver.step (α := Ctl.Event τ) { down := false, shutdownSent := (st.ctl.env.flags.get j).sent } (toRecv j .garbage) =
          ({ down := true, shutdownSent := true }, [.errordown], !(st.ctl.env.flags.get j).sent) := by
        simp [Receiver.step, toRecv]
      rw [hdown, hr1] at hfl' hw2
      simp only [List.map_cons, List.map_nil, ofPost, brokenAfter] at hfl' hw2
      have hpost : ∀ e ∈ w.posted ++ [Ctl.Event.errordown j false], evFinOk (late st.ctl) e = true := by
        intro e he
        rcases List.mem_append.1 he with he | he
        · exact wi2.finPosted e he
        · simp at he; subst he; rfl
      subst hw2
      refine wkInv2_down (by simp only; rw [hflk, hfl']) ?_ ?_
      · split
        · split <;> exact wi2.runNext
        · exact wi2.runNext
      · rw [hlate]
        split
        · split <;> exact hpost
        · exact hpost
    | endMarker =>
      have hr1 : Receiver.step (α := Ctl.Event τ) { down := false, shutdownSent := (st.ctl.env.flags.get j).sent } (toRecv j .endMarker) =
          ({ down := true, shutdownSent := (st.ctl.env.flags.get j).sent }, [.errordown], false) := by
        simp [Receiver.step, toRecv]
      rw [hdown, hr1] at hfl' hw2
      simp only [List.map_cons, List.map_nil, ofPost, Bool.false_and, Bool.false_eq_true, ↓reduceIte] at hfl' hw2
      subst hw2
      refine wkInv2_down (by simp only; rw [hflk, hfl']) wi2.runNext ?_
      rw [hlate]
      intro e he
      rcases List.mem_append.1 he with he | he
      · exact wi2.finPosted e he
      · simp at he; subst he; rfl

end Xdist.Sys
