import XdistProofs.Sys.Prog2
/-!
  **C02, whole system, `--dist load`: genuine progress.**  The session never runs out of workers without having decided to end
  (`K`), so `loop_once` never raises "Unexpectedly no active workers available"; together with the no-stand-off theorem and
  "the controller never raises": in every reachable state in which the session is not finished some thread can take a step that
  *succeeds* (`C02_sys_load_progress`).
-/
namespace Xdist.Sys
open Xdist Xdist.Ctl Xdist.Load Xdist.Contract

variable {τ : Type} [DecidableEq τ]

def K (c : Ctl.State (Load.State τ) τ) : Prop := c.active = [] → c.shuttingdown = true

theorem ctl_k (idsOf : Nat → List τ) {ids : List τ} {st st' : LState τ} {k : Nat} {rq : Bool} (h1 : Inv st) (h2 : Inv2 st)
    (h12 : Inv12 ids st) (hfo : FO st []) (i13 : Inv13 st) (hj : J st.ctl)
    (h : step loadI idsOf st (.ctl k rq) = .ok st') : K st'.ctl := by
  have hj' := ctl_j idsOf h1 h2 h12 hfo i13 hj h
  have h2' := step_inv2 idsOf (.ctl k rq) h1 h2 h
  simp only [Sys.step] at h
  obtain ⟨w, ev0, rest, c', hw, hp, hl, rfl⟩ := ctlStep_shape h
  have hk : k < st.wk.length := by
    rcases Nat.lt_or_ge k st.wk.length with h' | h'
    · exact h'
    · rw [List.getElem?_eq_none h'] at hw; cases hw
  have hlen := h1.1.len
  have wi := h1.wk hw
  have hown : Own k ev0 = true := wi.ownP ev0 (by rw [hp]; simp)
  have hkact : k ∈ st.ctl.active := by
    apply Classical.byContradiction
    intro hna
    have := wi.inactive hna
    rw [hp] at this; cases this
  obtain ⟨new, b1, f⟩ := ctl_facts h1.1 (by rw [← hlen]; exact hk) (fixRq_own rq hown) hl
  intro hact'
  simp only at hact' hj' h2' ⊢
  apply Classical.byContradiction
  intro hnsd
  have hsd' : c'.shuttingdown = false := by cases hh : c'.shuttingdown <;> simp_all
  have hl' := hl
  unfold loopOnce at hl'
  split at hl'
  · cases hl'
  obtain ⟨c1, hh1, rfl⟩ := map_ok.1 hl'
  obtain ⟨heq, hss1, htf⟩ := afterHandler_noshut hsd'
  -- the event removes the worker it is about
  have hdown : downOf (fixRq rq ev0) = some k := by
    rcases f.actKeep k hkact with h' | h'
    · rw [hact'] at h'; cases h'
    · exact h'
  cases ev0 with
  | errordown n r =>
    have hnk : n = k := by simpa [Own] using hown
    subst hnk
    simp only [fixRq, handle] at hh1
    have hnid := errordown_clone loadI hh1 (by rw [← heq]; exact hsd')
    have := f.actFresh st.ctl.nextId (Nat.le_refl _) (by rw [heq, hnid]; omega)
    rw [hact'] at this; cases this
  | workerfinished n x sf ss =>
    have hnk : n = k := by simpa [Own] using hown
    subst hnk
    have hh1' := hh1
    simp only [fixRq, handle] at hh1
    unfold workerfinished at hh1
    split at hh1
    · have := (os_errordown loadI hh1).stop (by rw [(triggerShutdown_fields loadI _).1]; rfl)
      rw [hss1] at this; cases this
    · rename_i hx
      simp only at hh1
      split at hh1
      · have := (os_removeActive hh1).stop (by cases hcs : st.ctl.shouldstop <;> simp [hcs])
        rw [hss1] at this; cases this
      · rename_i hnone
        have hsf : sf = none := by cases sf <;> simp_all
        have hss : ss = none := by
          cases ss with
          | none => rfl
          | some r => subst hsf; simp at hnone
        have hsent := sent_of_finished i13 hw hp hx hsf hss
        -- no test is left in the pool
        have hpend : (afterHandler loadI c1).sched.pending = [] := by
          cases hpp : (afterHandler loadI c1).sched.pending with
          | nil => rfl
          | cons a t =>
            obtain ⟨b, hb, _⟩ := hj' hsd' (by rw [hpp]; simp)
            rw [hact'] at hb; cases hb
        -- nobody is registered
        have hkeys : (afterHandler loadI c1).sched.node2pending = [] := by
          cases hb : (afterHandler loadI c1).sched.node2pending with
          | nil => rfl
          | cons p t =>
            exfalso
            have hm : p.1 ∈ AList.keys (afterHandler loadI c1).sched.node2pending := by rw [hb]; simp [AList.keys]
            have hstop' : (afterHandler loadI c1).shouldstop.isSome = false := by rw [heq, hss1]; rfl
            rcases keys_after f hm with h' | h'
            · have hlt := h1.1.keysLt p.1 h'
              rw [← hlen] at hlt
              have hwm : st.wk[p.1]? = some st.wk[p.1] := by simp [hlt]
              rcases (h1.wk hwm).keysActive h' with h'' | h''
              · rcases f.actKeep p.1 h'' with h3 | h3
                · rw [hact'] at h3; cases h3
                · rw [hdown] at h3
                  simp only [Option.some.injEq] at h3
                  have := f.downKeys p.1 (by rw [hdown, h3]) hm
                  rw [hstop'] at this; cases this
              · rw [f.stopMono h''] at hstop'; cases hstop'
            · simp [fixRq] at h'
        -- the collection is complete: the worker had been told to shut down, so the run is not early
        have hlate : late st.ctl = true := by
          cases hh : late st.ctl with
          | true => rfl
          | false => rw [hfo hh n (by simp)] at hsent; cases hsent
        have hlate' := late_mono hl hlate
        have hcomp : Load.collectionIsCompleted (afterHandler loadI c1).sched = true := by
          unfold late at hlate'
          simp only [Bool.or_eq_true] at hlate'
          rcases hlate' with (h' | h') | h'
          · rw [heq, hss1] at h'; cases h'
          · rw [h2'.1.overShut h'] at hsd'; cases hsd'
          · exact h'
        have : Load.testsFinished (afterHandler loadI c1).sched = true := by
          unfold Load.testsFinished
          rw [hcomp, hpend, hkeys]; rfl
        rw [heq] at this
        rw [this] at htf; cases htf
  | internalError n => simp [Own] at hown
  | workerready n => simp [fixRq, downOf] at hdown
  | collectionfinish n cc => simp [fixRq, downOf] at hdown
  | testreport n fl => simp [fixRq, downOf] at hdown
  | complete n i slow => simp [fixRq, downOf] at hdown
  | unscheduled n is => simp [fixRq, downOf] at hdown
  | collectreport n key fl => simp [fixRq, downOf] at hdown
  | other => simp [fixRq, downOf] at hdown

/-- steps of the workers, the receiver threads and crashes: `J` and `K` only look at the controller -/
theorem other_jk (idsOf : Nat → List τ) {st st' : LState τ} (a : Step) (hn : ∀ k rq, a ≠ .ctl k rq) (hW : ghostW st a [] = [])
    (hj : J st.ctl) (hk : K st.ctl) (h : step loadI idsOf st a = .ok st') : J st'.ctl ∧ K st'.ctl := by
  cases a with
  | main k p =>
    simp only [Sys.step] at h
    split at h
    · cases h
    · split at h
      · cases h
      · simp only [Except.ok.injEq] at h; subst h; exact ⟨hj, hk⟩
  | deliver k =>
    simp only [Sys.step] at h
    split at h
    · cases h
    · split at h
      · cases h
      · simp only [Except.ok.injEq] at h; subst h; exact ⟨hj, hk⟩
  | crash k b =>
    simp only [Sys.step] at h
    split at h
    · cases h
    rename_i s1 hc
    simp only [Except.ok.injEq] at h; subst h
    unfold crashStep at hc
    split at hc
    · cases hc
    split at hc
    · cases hc
    split at hc
    · simp only [Option.some.injEq] at hc; subst hc
      refine ⟨?_, hk⟩
      intro hsd hp
      obtain ⟨a, ha, hs⟩ := hj hsd hp
      refine ⟨a, ha, ?_⟩
      simp only [setWk, Contract.flags_get_set]
      split
      · rename_i hak; subst hak; exact hs
      · exact hs
    · simp only [Option.some.injEq] at hc; subst hc; exact ⟨hj, hk⟩
  | recv k =>
    simp only [Sys.step] at h
    split at h
    · cases h
    rename_i s1 hr
    simp only [Except.ok.injEq] at h; subst h
    obtain ⟨w, m, rest, fl', w2, outs', hw, ho, rfl, hfl', hw2⟩ := recvStep_shape hr
    have hng : ¬ (m = .garbage ∧ (st.ctl.env.flags.get k).down = false) := by
      rintro ⟨hm, hd⟩
      have : k ∈ ghostW st (.recv k) [] := by
        unfold ghostW
        simp only [hw, ho, hm, hd, Bool.false_eq_true, ↓reduceIte, List.mem_cons, true_or]
      rw [hW] at this; cases this
    have hsent' : fl'.sent = (st.ctl.env.flags.get k).sent := by
      rw [hfl']
      cases hd : (st.ctl.env.flags.get k).down <;> cases m <;> simp [Receiver.step, toRecv] <;> exact absurd ⟨rfl, hd⟩ hng
    refine ⟨?_, hk⟩
    intro hsd hp
    obtain ⟨a, ha, hs⟩ := hj hsd hp
    refine ⟨a, ha, ?_⟩
    simp only [Contract.flags_get_set]
    split
    · rename_i hak; subst hak; rw [hsent']; exact hs
    · exact hs
  | ctl k rq => exact absurd rfl (hn k rq)

/-- `J` and `K` along executions without an undecodable message -/
theorem reachB_jk {ids : List τ} (numnodes maxfail : Nat) (msc maxRestart : Option Int) (idsOf : Nat → List τ)
    (hids : ∀ j, idsOf j = ids) (hnn : 0 < numnodes) {st : LState τ} {W : List Nat} {g : Ghost}
    (h : ReachB idsOf (init loadI (Load.init numnodes msc) numnodes maxfail maxRestart idsOf) st W g) :
    W = [] → J st.ctl ∧ K st.ctl := by
  induction h with
  | init =>
    intro _
    refine ⟨?_, ?_⟩
    · intro _ hp; simp [init, Ctl.init, Load.init] at hp
    · intro ha
      exfalso
      simp only [init, Ctl.init] at ha
      have : (List.range numnodes).length = 0 := by rw [ha]; rfl
      simp at this; omega
  | other a hn hprev hs ih =>
    intro hW'
    have hW := ghostW_nil hW'
    subst hW
    obtain ⟨ij, ik⟩ := ih rfl
    exact other_jk idsOf a hn hW' ij ik hs
  | ctl k rq hprev hs _ _ _ _ _ ih =>
    intro hW'
    have hW := ghostW_nil hW'
    subst hW
    obtain ⟨ij, ik⟩ := ih rfl
    obtain ⟨i1, i2⟩ := reach_inv12 idsOf (init_inv numnodes maxfail msc maxRestart idsOf)
      (init_inv2 numnodes maxfail msc maxRestart idsOf) hprev.reachG.reach
    have i12 := reachB_inv12 numnodes maxfail msc maxRestart idsOf hids hnn hprev
    obtain ⟨i13, ifo, _⟩ := reachB_after numnodes maxfail msc maxRestart idsOf hids hnn hprev rfl
    exact ⟨ctl_j idsOf i1 i2 i12 ifo i13 ij hs, ctl_k idsOf i1 i2 i12 ifo i13 ij hs⟩

/-- **Genuine progress** (`--dist load`, whole system; every worker collects the same non-empty list of tests; no undecodable
    message).  In every reachable state of every execution in which the session is not finished, some thread — a worker's main
    thread, a command delivery, a receiver thread, or the controller taking an event from its queue — can take a step, and that
    step **succeeds**: no stand-off, no internal error of the controller, and never "Unexpectedly no active workers available". -/
theorem C02_sys_load_progress {ids : List τ} (numnodes maxfail : Nat) (msc maxRestart : Option Int) (idsOf : Nat → List τ)
    (hids : ∀ j, idsOf j = ids) (hne : ids ≠ []) (hnn : 0 < numnodes) {st : LState τ} {g : Ghost}
    (h : ReachB idsOf (init loadI (Load.init numnodes msc) numnodes maxfail maxRestart idsOf) st [] g)
    (hnf : Ctl.sessionFinished st.ctl = false) :
    ∃ (a : Step) (st' : LState τ), (∀ k b, a ≠ .crash k b) ∧ step loadI idsOf st a = .ok st' := by
  obtain ⟨a, hnc, hen⟩ := C02_sys_load_no_standoff_any_phase numnodes maxfail msc maxRestart idsOf h.reachG.reach hnf
  obtain ⟨_, ik⟩ := reachB_jk numnodes maxfail msc maxRestart idsOf hids hnn h rfl
  cases a with
  | main k p =>
    refine ⟨.main k p, ?_⟩
    cases hs : step loadI idsOf st (.main k p) with
    | ok st' => exact ⟨st', hnc, rfl⟩
    | error e =>
      exfalso
      simp only [Sys.step] at hs hen
      split at hs
      · exact hen (by simp_all)
      · split at hs
        · exact hen (by simp_all)
        · cases hs
  | deliver k =>
    refine ⟨.deliver k, ?_⟩
    cases hs : step loadI idsOf st (.deliver k) with
    | ok st' => exact ⟨st', hnc, rfl⟩
    | error e =>
      exfalso
      simp only [Sys.step] at hs hen
      split at hs
      · exact hen (by simp_all)
      · split at hs
        · exact hen (by simp_all)
        · cases hs
  | recv k =>
    refine ⟨.recv k, ?_⟩
    cases hs : step loadI idsOf st (.recv k) with
    | ok st' => exact ⟨st', hnc, rfl⟩
    | error e =>
      exfalso
      simp only [Sys.step] at hs hen
      split at hs
      · exact hen (by simp_all)
      · cases hs
  | crash k b => exact absurd rfl (hnc k b)
  | ctl k rq =>
    -- the controller has an event of worker `k` to handle
    have hact : st.ctl.active.isEmpty = false := by
      cases hh : st.ctl.active with
      | cons x t => rfl
      | nil =>
        exfalso
        have := ik hh
        unfold Ctl.sessionFinished at hnf
        rw [this, hh] at hnf
        simp at hnf
    simp only [Sys.step, ctlStep, hnf, Bool.false_eq_true, ↓reduceIte, hact] at hen
    cases hw : st.wk[k]? with
    | none => simp [hw] at hen
    | some w =>
      cases hp : w.posted with
      | nil => simp [hw, hp] at hen
      | cons ev0 rest =>
        obtain ⟨st', hst'⟩ := C17_sys_load_controller_never_raises numnodes maxfail msc maxRestart idsOf hids hne hnn h hw hp hnf rq
        exact ⟨.ctl k rq, st', hnc, hst'⟩

end Xdist.Sys
