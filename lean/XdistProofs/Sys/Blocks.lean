import XdistProofs.Sys.DeathOnce
import XdistProofs.Sys.Route
/-!
  What a worker has put on its queue is a concatenation of **whole commands of the log**: in every execution of the composed system,
  for every scheduler, the indices worker `k` has received so far are `L.flatten` for a list `L` of index lists each of which is the
  payload of a `runtests k …` (or the `range` of a `runtests_all k`) that was written to the wire; and every `runtests` still in its
  inbox is one of the log too.  Nothing is invented, split or merged between the controller's `send` and the worker's `torun.put`.
  This is the bridge from statements about the wire (C06: every `runtests` carries one group) to statements about what a worker
  runs (C05: it runs a subsequence of what it received, in order).
-/
namespace Xdist.Sys
open Xdist Xdist.Ctl Xdist.Contract

set_option linter.unusedSectionVars false

variable {σ τ : Type} [DecidableEq τ]

/-- the scheduler's calls only append to the log -/
def Appends (I : SchedI σ τ) : Prop :=
  ∀ {s : σ} {e : Env} {op : SOp τ} {s' : σ} {e' : Env} {r : Option τ}, I.step s e op = .ok (s', e', r) → ∃ new, e'.outs = e.outs ++ new

theorem steps_appends {I : SchedI σ τ} (hA : Appends I) {s s' : σ} {e e' : Env} {as : List (Atom τ)} (h : Steps I s e as s' e') :
    ∃ new, e'.outs = e.outs ++ new := by
  induction h with
  | nil => exact ⟨[], by simp⟩
  | call hc _ ih =>
    obtain ⟨n1, h1⟩ := hA hc
    obtain ⟨n2, h2⟩ := ih
    exact ⟨n1 ++ n2, by rw [h2, h1, List.append_assoc]⟩
  | shut k _ ih =>
    obtain ⟨n1, h1⟩ := (flagFrame_envRel.shutdown _ k).2
    obtain ⟨n2, h2⟩ := ih
    exact ⟨n1 ++ n2, by rw [h2, h1, List.append_assoc]⟩

theorem iface_appends (specs : AList Nat Nat) : Appends (Sched.iface specs) := by
  intro s e op s' e' r h
  exact (Sched.any_step_flagFrame specs h).2

/-- `is` is the payload of a command of the log addressed to worker `k` -/
def BlockOk (outs : List SOut) (k : Nat) (ids : List τ) (is : List Nat) : Prop :=
  SOut.run k is ∈ outs ∨ (SOut.runAll k ∈ outs ∧ is = List.range ids.length)

/-- what worker `k` has received and what waits in its inbox came, whole, from the log -/
structure Blk (outs : List SOut) (k : Nat) (w : Wk τ) : Prop where
  recv : ∃ L : List (List Nat), w.w.received = L.flatten ∧ ∀ is ∈ L, BlockOk outs k w.ids is
  inbox : ∀ c ∈ w.inbox, (∀ is, c = Cmd.run is → SOut.run k is ∈ outs) ∧ (c = Cmd.runAll → SOut.runAll k ∈ outs)

def BlkAll (st : State σ τ) : Prop := ∀ k w, st.wk[k]? = some w → Blk st.ctl.env.outs k w

theorem blk_mono {outs outs' : List SOut} {k : Nat} {w : Wk τ} (h : Blk outs k w) (hs : ∀ o ∈ outs, o ∈ outs') : Blk outs' k w := by
  obtain ⟨⟨L, hL, hb⟩, hi⟩ := h
  refine ⟨⟨L, hL, ?_⟩, ?_⟩
  · intro is his
    rcases hb is his with h1 | ⟨h1, h2⟩
    · exact Or.inl (hs _ h1)
    · exact Or.inr ⟨hs _ h1, h2⟩
  · intro c hc
    exact ⟨fun is h1 => hs _ ((hi c hc).1 is h1), fun h1 => hs _ ((hi c hc).2 h1)⟩

/-- same received, inbox and collection -/
theorem blk_congr {outs : List SOut} {k : Nat} {w w' : Wk τ} (h : Blk outs k w) (h1 : w'.w.received = w.w.received)
    (h2 : w'.inbox = w.inbox) (h3 : w'.ids = w.ids) : Blk outs k w' := by
  obtain ⟨⟨L, hL, hb⟩, hi⟩ := h
  exact ⟨⟨L, by rw [h1]; exact hL, by rw [h3]; exact hb⟩, by rw [h2]; exact hi⟩

theorem putMany_received (is : List Nat) : ∀ s : Worker.State, (Worker.putMany s is).received = s.received ++ is := by
  induction is with
  | nil => intro s; simp [Worker.putMany]
  | cons i r ih => intro s; simp [Worker.putMany, ih, Worker.put]

/-- the main thread never touches what was received, the inbox or the collection -/
theorem mainStep_keeps {k : Nat} {w w' : Wk τ} {p : MainP} (h : mainStep k w p = some w') :
    w'.w.received = w.w.received ∧ w'.inbox = w.inbox ∧ w'.ids = w.ids := by
  unfold mainStep at h
  split at h
  · cases h
  cases hph : w.phase with
  | boot => simp only [hph, Option.some.injEq] at h; subst h; exact ⟨rfl, rfl, rfl⟩
  | collect =>
    simp only [hph] at h
    cases p with
    | collect errs garbage intr sf0 =>
      simp only at h
      split at h
      · simp only [Option.some.injEq] at h; subst h; exact ⟨rfl, rfl, rfl⟩
      · simp only [Option.some.injEq] at h; subst h; exact ⟨rfl, rfl, rfl⟩
    | none => simp at h
    | reports fs sf ss ex => simp at h
    | complete slow => simp at h
  | loop =>
    simp only [hph] at h
    cases hpc : w.w.pc with
    | init =>
      simp only [hpc, Option.map_eq_some_iff] at h
      obtain ⟨w1, h1, rfl⟩ := h
      refine ⟨?_, rfl, rfl⟩
      unfold Worker.get0 at h1
      split at h1
      · cases h1
      · split at h1
        · cases h1
        · simp only [Option.some.injEq] at h1; subst h1; rfl
    | haveItem =>
      simp only [hpc, Option.map_eq_some_iff] at h
      obtain ⟨w1, h1, rfl⟩ := h
      refine ⟨?_, rfl, rfl⟩
      unfold Worker.get1 at h1
      split at h1
      · cases h1
      · split at h1
        · simp only [Option.some.injEq] at h1; subst h1; rfl
        · cases h1
    | running =>
      simp only [hpc] at h
      split at h
      · simp only [Option.some.injEq] at h; subst h; exact ⟨rfl, rfl, rfl⟩
      · simp only [Option.some.injEq] at h; subst h; exact ⟨rfl, rfl, rfl⟩
      · split at h
        · simp only [Option.some.injEq] at h; subst h; exact ⟨rfl, rfl, rfl⟩
        · split at h
          · rename_i i w1 _ hf
            simp only [Option.some.injEq] at h; subst h
            refine ⟨?_, rfl, rfl⟩
            unfold Worker.finish at hf
            split at hf
            · cases hf
            · split at hf
              · cases hf
              · simp only [Option.some.injEq] at hf; subst hf; rfl
          · cases h
      · cases h
    | done => simp [hpc] at h
  | finish => simp only [hph, Option.some.injEq] at h; subst h; exact ⟨rfl, rfl, rfl⟩
  | done => simp [hph] at h

theorem steal_received (s : Worker.State) (req : List Nat) : (Worker.steal s req).received = s.received := by
  unfold Worker.steal
  simp only
  split <;> rfl

/-- the receiver thread of the worker takes the first command of the inbox; a `runtests` is put on the queue whole -/
theorem deliverStep_blk {outs : List SOut} {k : Nat} {w w' : Wk τ} (h : deliverStep k w = some w') (hb : Blk outs k w) : Blk outs k w' := by
  unfold deliverStep at h
  split at h
  · cases h
  split at h
  · cases h
  rename_i c rest hin
  obtain ⟨⟨L, hL, hbl⟩, hi⟩ := hb
  have hrest : ∀ c' ∈ rest, (∀ is, c' = Cmd.run is → SOut.run k is ∈ outs) ∧ (c' = Cmd.runAll → SOut.runAll k ∈ outs) :=
    fun c' hc' => hi c' (by rw [hin]; exact List.mem_cons_of_mem _ hc')
  have hc := hi c (by rw [hin]; exact List.mem_cons_self)
  cases c with
  | run is =>
    simp only [Option.some.injEq] at h; subst h
    refine ⟨⟨L ++ [is], ?_, ?_⟩, hrest⟩
    · show (Worker.putMany w.w is).received = _
      rw [putMany_received, hL]; simp
    · intro js hjs
      rcases List.mem_append.1 hjs with hjs | hjs
      · exact hbl js hjs
      · simp only [List.mem_singleton] at hjs; subst hjs; exact Or.inl (hc.1 _ rfl)
  | runAll =>
    simp only [Option.some.injEq] at h; subst h
    refine ⟨⟨L ++ [List.range w.ids.length], ?_, ?_⟩, hrest⟩
    · show (Worker.putMany w.w (List.range w.ids.length)).received = _
      rw [putMany_received, hL]; simp
    · intro js hjs
      rcases List.mem_append.1 hjs with hjs | hjs
      · exact hbl js hjs
      · simp only [List.mem_singleton] at hjs; subst hjs; exact Or.inr ⟨hc.2 rfl, rfl⟩
  | shutdown =>
    simp only [Option.some.injEq] at h; subst h
    exact ⟨⟨L, hL, hbl⟩, hrest⟩
  | steal is =>
    simp only [Option.some.injEq] at h; subst h
    exact ⟨⟨L, by show (Worker.steal w.w is).received = _; rw [steal_received]; exact hL, hbl⟩, hrest⟩

theorem deliverTo_mem {j : Nat} {new : List SOut} {c : Cmd} (h : c ∈ deliverTo j new) : ∃ o ∈ new, cmdOf o = some (j, c) := by
  unfold deliverTo at h
  obtain ⟨o, ho, hc⟩ := List.mem_filterMap.1 h
  refine ⟨o, ho, ?_⟩
  cases hco : cmdOf o with
  | none => simp [hco] at hc
  | some p =>
    obtain ⟨n, c'⟩ := p
    simp only [hco] at hc
    split at hc
    · rename_i hn
      simp only [Option.some.injEq] at hc
      rw [hn, hc]
    · cases hc

/-- commands of the log routed to a worker -/
theorem routed_blk {outs : List SOut} {k : Nat} {w : Wk τ} (new : List SOut) (hb : Blk outs k w) (hnew : ∀ o ∈ new, o ∈ outs) :
    Blk outs k (routed k new w) := by
  unfold routed
  split
  · refine ⟨hb.recv, ?_⟩
    intro c hc
    rcases List.mem_append.1 hc with hc | hc
    · exact hb.inbox c hc
    · obtain ⟨o, ho, hco⟩ := deliverTo_mem hc
      refine ⟨?_, ?_⟩
      · intro is hcis
        subst hcis
        cases o <;> simp [cmdOf] at hco
        obtain ⟨rfl, rfl⟩ := hco
        exact hnew _ ho
      · intro hcall
        subst hcall
        cases o <;> simp [cmdOf] at hco
        subst hco
        exact hnew _ ho
  · exact hb

theorem spawn_get {idsOf : Nat → List τ} {wk : List (Wk τ)} {upTo j : Nat} {w0 : Wk τ} (h : (spawn idsOf wk upTo)[j]? = some w0) :
    wk[j]? = some w0 ∨ w0 = ({ ids := idsOf j } : Wk τ) := by
  unfold spawn at h
  by_cases hj : j < wk.length
  · rw [List.getElem?_append_left hj] at h; exact Or.inl h
  · rw [List.getElem?_append_right (by omega)] at h
    simp only [List.getElem?_map, Option.map_eq_some_iff] at h
    obtain ⟨i, hi, rfl⟩ := h
    have : i = j - wk.length := by
      have := List.getElem?_range (n := upTo - wk.length) (i := j - wk.length)
      by_cases hlt : j - wk.length < upTo - wk.length
      · rw [List.getElem?_range hlt] at hi; simp only [Option.some.injEq] at hi; exact hi.symm
      · rw [List.getElem?_eq_none (by simp; omega)] at hi; cases hi
    right
    subst this
    congr 2
    omega

theorem blk_fresh (outs : List SOut) (k : Nat) (ids : List τ) : Blk outs k ({ ids := ids } : Wk τ) :=
  ⟨⟨[], rfl, by intro is h; cases h⟩, by intro c h; cases h⟩

theorem step_blk (I : SchedI σ τ) (hA : Appends I) (idsOf : Nat → List τ) {st st' : State σ τ} (a : Step)
    (hb : BlkAll st) (h : step I idsOf st a = .ok st') : BlkAll st' := by
  cases a with
  | main j p =>
    simp only [Sys.step] at h
    split at h
    · cases h
    rename_i w hw
    split at h
    · cases h
    rename_i w' hm
    simp only [Except.ok.injEq] at h; subst h
    obtain ⟨m1, m2, m3⟩ := mainStep_keeps hm
    intro k wk hk
    simp only [setWk] at hk
    by_cases hkj : j = k
    · subst hkj
      rw [List.getElem?_set_self (lt_len_of_get hw)] at hk
      cases hk
      exact blk_congr (hb j w hw) m1 m2 m3
    · rw [List.getElem?_set_ne hkj] at hk
      exact hb k wk hk
  | deliver j =>
    simp only [Sys.step] at h
    split at h
    · cases h
    rename_i w hw
    split at h
    · cases h
    rename_i w' hm
    simp only [Except.ok.injEq] at h; subst h
    intro k wk hk
    simp only [setWk] at hk
    by_cases hkj : j = k
    · subst hkj
      rw [List.getElem?_set_self (lt_len_of_get hw)] at hk
      cases hk
      exact deliverStep_blk hm (hb j w hw)
    · rw [List.getElem?_set_ne hkj] at hk
      exact hb k wk hk
  | recv j =>
    simp only [Sys.step] at h
    split at h
    · cases h
    rename_i s1 hr
    simp only [Except.ok.injEq] at h; subst h
    unfold recvStep at hr
    split at hr
    · cases hr
    rename_i w hw
    split at hr
    · cases hr
    rename_i m rest ho
    simp only [Option.some.injEq] at hr
    subst hr
    have hjl := lt_len_of_get hw
    -- the log only grows
    have hsub : ∀ o ∈ st.ctl.env.outs, o ∈ (if ((Receiver.step { down := (st.ctl.env.flags.get j).down, shutdownSent := (st.ctl.env.flags.get j).sent } (toRecv j m)).2.2 && !(st.ctl.env.flags.get j).broken) = true
        then st.ctl.env.outs ++ [SOut.shutdown j] else st.ctl.env.outs) := by
      intro o ho'
      split
      · exact List.mem_append_left _ ho'
      · exact ho'
    intro k wk hk
    simp only at hk ⊢
    -- worker `k` before the optional routing of the shutdown signal
    have key : ∀ w1, (st.wk.set j { w with outbox := rest, posted := w.posted ++ (Receiver.step { down := (st.ctl.env.flags.get j).down, shutdownSent := (st.ctl.env.flags.get j).sent } (toRecv j m)).2.1.map (ofPost j) })[k]? = some w1 →
        Blk st.ctl.env.outs k w1 := by
      intro w1 h1
      by_cases hkj : j = k
      · subst hkj
        rw [List.getElem?_set_self hjl] at h1
        cases h1
        exact blk_congr (hb j w hw) rfl rfl rfl
      · rw [List.getElem?_set_ne hkj] at h1
        exact hb k w1 h1
    split at hk
    · rw [route_get] at hk
      simp only [Option.map_eq_some_iff] at hk
      obtain ⟨w1, h1, rfl⟩ := hk
      have hb1 := blk_mono (key w1 h1) hsub
      refine routed_blk _ hb1 ?_
      intro o ho'
      simp only [List.mem_singleton] at ho'
      subst ho'
      rename_i hcond
      simp only [hcond, if_true]
      exact List.mem_append_right _ List.mem_cons_self
    · exact blk_mono (key wk hk) hsub
  | crash j b =>
    simp only [Sys.step] at h
    split at h
    · cases h
    rename_i s1 hc
    simp only [Except.ok.injEq] at h; subst h
    unfold crashStep at hc
    split at hc
    · cases hc
    rename_i w hw
    split at hc
    · cases hc
    have key : ∀ k wk, (st.wk.set j { w with alive := false, inbox := [], outbox := w.outbox ++ [.endMarker] })[k]? = some wk →
        Blk st.ctl.env.outs k wk := by
      intro k wk hk
      by_cases hkj : j = k
      · subst hkj
        rw [List.getElem?_set_self (lt_len_of_get hw)] at hk
        cases hk
        exact ⟨(hb j w hw).recv, by intro c hc'; cases hc'⟩
      · rw [List.getElem?_set_ne hkj] at hk
        exact hb k wk hk
    split at hc
    · simp only [Option.some.injEq] at hc; subst hc
      intro k wk hk
      exact key k wk hk
    · simp only [Option.some.injEq] at hc; subst hc
      intro k wk hk
      exact key k wk hk
  | ctl j rq =>
    simp only [Sys.step] at h
    obtain ⟨w, ev0, rest, c', hw, hp, hl, rfl⟩ := ctlStep_shape' h
    obtain ⟨as, hsteps, _⟩ := loopOnce_steps hl
    obtain ⟨new, hnew⟩ := steps_appends hA hsteps
    have hdrop : c'.env.outs.drop st.ctl.env.outs.length = new := by rw [hnew]; simp
    have hsub : ∀ o ∈ st.ctl.env.outs, o ∈ c'.env.outs := fun o ho => by rw [hnew]; exact List.mem_append_left _ ho
    have hsubn : ∀ o ∈ new, o ∈ c'.env.outs := fun o ho => by rw [hnew]; exact List.mem_append_right _ ho
    intro k wk hk
    simp only at hk ⊢
    rw [hdrop, route_get] at hk
    simp only [Option.map_eq_some_iff] at hk
    obtain ⟨w0, h0, rfl⟩ := hk
    refine routed_blk new ?_ hsubn
    rcases spawn_get h0 with h0 | h0
    · by_cases hkj : j = k
      · subst hkj
        rw [List.getElem?_set_self (lt_len_of_get hw)] at h0
        cases h0
        exact blk_mono (blk_congr (hb j w hw) rfl rfl rfl) hsub
      · rw [List.getElem?_set_ne hkj] at h0
        exact blk_mono (hb k w0 h0) hsub
    · subst h0
      exact blk_fresh _ _ _

theorem run_blk (I : SchedI σ τ) (hA : Appends I) (idsOf : Nat → List τ) : ∀ (steps : List Step) {st st' : State σ τ},
    BlkAll st → run I idsOf st steps = .ok st' → BlkAll st' := by
  intro steps
  induction steps with
  | nil => intro st st' hs h; simp only [run, Except.ok.injEq] at h; subst h; exact hs
  | cons a rest ih =>
    intro st st' hs h
    simp only [run] at h
    split at h
    · cases h
    · rename_i st1 hs1
      exact ih (step_blk I hA idsOf a hs hs1) h

/-- **What a worker received is a concatenation of whole commands of the log** (any scheduler whose calls only append to the log —
    all six modes, `iface_appends`).  After any execution, for every worker: the indices it has put on its queue so far are
    `L.flatten` where every element of `L` is the payload of a `runtests` addressed to it that is in the log (or the `range` of a
    `runtests_all`). -/
theorem C05_sys_received_is_whole_commands (I : SchedI σ τ) (hA : Appends I) (s0 : σ) (numnodes maxfail : Nat) (mr : Option Int)
    (idsOf : Nat → List τ) (steps : List Step) {st : State σ τ} (h : run I idsOf (init I s0 numnodes maxfail mr idsOf) steps = .ok st)
    (k : Nat) (w : Wk τ) (hw : st.wk[k]? = some w) :
    ∃ L : List (List Nat), w.w.received = L.flatten ∧ ∀ is ∈ L, BlockOk st.ctl.env.outs k w.ids is := by
  have h0 : BlkAll (init I s0 numnodes maxfail mr idsOf) := by
    intro k w hk
    simp only [init, List.getElem?_map, Option.map_eq_some_iff] at hk
    obtain ⟨i, _, rfl⟩ := hk
    exact blk_fresh _ _ _
  exact (run_blk I hA idsOf steps h0 h k w hw).recv

end Xdist.Sys
