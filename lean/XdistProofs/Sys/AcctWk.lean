import XdistProofs.Sys.AcctReach
/-!
  The completions the controller has handled, in terms of what the workers did: for a worker that was never written off
  because of an undecodable message, the completions still on their way to the controller are a suffix of the tests it has
  completed (`Suf`) — nothing is dropped on the way —, so the tests whose completion the controller has processed are a
  prefix (`handled`).  Eighth layer of the system invariant (`Inv8`).
-/
namespace Xdist.Sys
open Xdist Xdist.Ctl Xdist.Load Xdist.Contract

variable {τ : Type} [DecidableEq τ]

/-- the tests a worker's main thread has completed (`runtest_protocol_complete` sent), in order -/
def doneIdx (w : Wk τ) : List Nat := w.w.sent.filterMap fun e => match e with | .complete i => some i | _ => none

def msgC : WMsg τ → Option Nat
  | .ev (.complete _ i _) => some i
  | _ => none

/-- the completions still on their way to the controller -/
def inflightC (w : Wk τ) : List Nat := completes w.posted ++ w.outbox.filterMap msgC

theorem completes_filterMap_evOf (k : Nat) (o : List (WMsg τ)) : completes (o.filterMap (evOf k)) = o.filterMap msgC := by
  induction o with
  | nil => rfl
  | cons m t ih =>
    rw [filterMap_cons_toList, completes_append, ih, filterMap_cons_toList]
    congr 1
    cases m with
    | ev e => cases e <;> rfl
    | ignored => rfl
    | fin x sf ss => rfl
    | garbage => rfl
    | endMarker => rfl

theorem completes_flight (k : Nat) (w : Wk τ) : completes (flight k w) = inflightC w := by
  unfold flight inflightC
  rw [completes_append, completes_filterMap_evOf]

/-- the tests whose completion the controller has handled -/
def handled (w : Wk τ) : List Nat := (doneIdx w).take ((doneIdx w).length - (inflightC w).length)

/-- nothing completed is lost on the way -/
def Suf (w : Wk τ) : Prop := ∃ pre, doneIdx w = pre ++ inflightC w

theorem handled_of_suf {w : Wk τ} {pre : List Nat} (h : doneIdx w = pre ++ inflightC w) : handled w = pre := by
  unfold handled
  rw [h, List.length_append, Nat.add_sub_cancel, List.take_left']
  rfl

/-- a step that completes `d` (nothing, or one test) and puts the completion on the wire -/
theorem suf_step {w w' : Wk τ} {d : List Nat} (h : Suf w) (h1 : doneIdx w' = doneIdx w ++ d) (h2 : inflightC w' = inflightC w ++ d) :
    Suf w' ∧ handled w' = handled w := by
  obtain ⟨pre, hp⟩ := h
  have hp' : doneIdx w' = pre ++ inflightC w' := by rw [h1, h2, hp, List.append_assoc]
  exact ⟨⟨pre, hp'⟩, by rw [handled_of_suf hp', handled_of_suf hp]⟩

/-! ### the worker's own threads -/

theorem get0_sent {s s' : Worker.State} (h : Worker.get0 s = some s') : s'.sent = s.sent := by
  unfold Worker.get0 at h
  split at h
  · cases h
  · split at h
    · cases h
    · simp only [Option.some.injEq] at h; subst h; rfl

theorem get1_sent {s s' : Worker.State} (h : Worker.get1 s = some s') : s'.sent = s.sent := by
  unfold Worker.get1 at h
  split at h
  · cases h
  · split at h
    · simp only [Option.some.injEq] at h; subst h; rfl
    · cases h

theorem finish_sent {s s' : Worker.State} {b : Bool} {i : Nat} (hc : s.cur = some i) (h : Worker.finish s b = some s') :
    s'.sent = s.sent ++ [.complete i] := by
  unfold Worker.finish at h
  split at h
  · cases h
  · rw [hc] at h
    simp only [Option.some.injEq] at h; subst h; rfl

theorem putMany_sent (s : Worker.State) (is : List Nat) : (Worker.putMany s is).sent = s.sent := by
  induction is generalizing s with
  | nil => rfl
  | cons i r ih => simp only [Worker.putMany]; rw [ih]; rfl

theorem doneIdx_congr {w w' : Wk τ} (h : w'.w.sent = w.w.sent) : doneIdx w' = doneIdx w := by unfold doneIdx; rw [h]

theorem inflightC_emit {w w' : Wk τ} {ms : List (WMsg τ)} (hp : w'.posted = w.posted) (ho : w'.outbox = w.outbox ++ ms) :
    inflightC w' = inflightC w ++ ms.filterMap msgC := by
  unfold inflightC; rw [hp, ho, List.filterMap_append, List.append_assoc]

theorem filterMap_msgC_collect (k : Nat) (errs : List (String × Bool)) :
    (errs.map (fun (e : String × Bool) => WMsg.ev (Ctl.Event.collectreport (τ := τ) k e.1 e.2))).filterMap msgC = [] := by
  induction errs with
  | nil => rfl
  | cons e t ih => simp only [List.map_cons, List.filterMap_cons, msgC]; exact ih

theorem filterMap_msgC_reports (k : Nat) (fs : List Bool) :
    (fs.map (fun f => WMsg.ev (Ctl.Event.testreport (τ := τ) k f))).filterMap msgC = [] := by
  induction fs with
  | nil => rfl
  | cons e t ih => simp only [List.map_cons, List.filterMap_cons, msgC]; exact ih

/-- what a step of the worker's main thread completes -/
theorem main_done {k : Nat} {w w' : Wk τ} {p : MainP} (hm : mainStep k w p = some w') :
    ∃ d, doneIdx w' = doneIdx w ++ d ∧ inflightC w' = inflightC w ++ d := by
  unfold mainStep at hm
  split at hm
  · cases hm
  cases hph : w.phase with
  | boot =>
    simp only [hph, Option.some.injEq] at hm
    subst hm
    exact ⟨[], by simp [doneIdx], by simp [inflightC, List.filterMap_append, msgC]⟩
  | collect =>
    simp only [hph] at hm
    cases p with
    | collect errs garbage intr sf0 =>
      simp only at hm
      split at hm
      · simp only [Option.some.injEq] at hm
        subst hm
        exact ⟨[], by simp [doneIdx], by simp only [inflightC, List.filterMap_append, filterMap_msgC_collect, filterMap_msgC_reports, List.filterMap_cons, List.filterMap_nil, msgC, List.append_nil, List.nil_append, List.append_assoc]⟩
      · simp only [Option.some.injEq] at hm
        subst hm
        refine ⟨[], by simp [doneIdx], ?_⟩
        cases garbage <;> simp only [inflightC, List.filterMap_append, filterMap_msgC_collect, List.filterMap_cons, List.filterMap_nil, msgC, List.append_nil, List.nil_append, List.append_assoc, Bool.false_eq_true, ↓reduceIte]
    | none => simp at hm
    | reports fs sf ss ex => simp at hm
    | complete slow => simp at hm
  | finish =>
    simp only [hph, Option.some.injEq] at hm
    subst hm
    exact ⟨[], by simp [doneIdx], by simp [inflightC, List.filterMap_append, msgC]⟩
  | done => simp [hph] at hm
  | loop =>
    simp only [hph] at hm
    cases hpc : w.w.pc with
    | init =>
      simp only [hpc] at hm
      obtain ⟨v, hv, rfl⟩ := Option.map_eq_some_iff.1 hm
      exact ⟨[], by rw [List.append_nil]; exact doneIdx_congr (get0_sent hv), by simp [inflightC]⟩
    | haveItem =>
      simp only [hpc] at hm
      obtain ⟨v, hv, rfl⟩ := Option.map_eq_some_iff.1 hm
      exact ⟨[], by rw [List.append_nil]; exact doneIdx_congr (get1_sent hv), by simp [inflightC]⟩
    | done => simp [hpc] at hm
    | running =>
      simp only [hpc] at hm
      split at hm
      · simp only [Option.some.injEq] at hm
        subst hm
        exact ⟨[], by simp [doneIdx], by simp [inflightC, List.filterMap_append, msgC]⟩
      · simp only [Option.some.injEq] at hm
        subst hm
        exact ⟨[], by simp [doneIdx], by simp only [inflightC, List.filterMap_append, filterMap_msgC_collect, filterMap_msgC_reports, List.filterMap_cons, List.filterMap_nil, msgC, List.append_nil, List.nil_append, List.append_assoc]⟩
      · split at hm
        · simp only [Option.some.injEq] at hm
          subst hm
          exact ⟨[], by simp [doneIdx], by simp [inflightC]⟩
        · split at hm
          · rename_i i v hcur hfin
            simp only [Option.some.injEq] at hm
            subst hm
            refine ⟨[i], ?_, ?_⟩
            · unfold doneIdx
              simp only [finish_sent hcur hfin, List.filterMap_append, List.filterMap_cons, List.filterMap_nil]
            · simp [inflightC, List.filterMap_append, msgC]
          · cases hm
      · cases hm

theorem steal_doneIdx (s : Worker.State) (is : List Nat) :
    (Worker.steal s is).sent.filterMap (fun e => match e with | Worker.WEvent.complete i => some i | _ => none) =
      s.sent.filterMap (fun e => match e with | Worker.WEvent.complete i => some i | _ => none) := by
  unfold Worker.steal
  simp only
  split <;> simp [List.filterMap_append]

/-- the receiver thread of the worker completes nothing -/
theorem deliver_done {k : Nat} {w w' : Wk τ} (hd : deliverStep k w = some w') :
    doneIdx w' = doneIdx w ∧ inflightC w' = inflightC w := by
  unfold deliverStep at hd
  split at hd
  · cases hd
  cases hi : w.inbox with
  | nil => simp [hi] at hd
  | cons cmd rest =>
    simp only [hi] at hd
    cases cmd with
    | run is =>
      simp only [Option.some.injEq] at hd; subst hd
      exact ⟨doneIdx_congr (putMany_sent _ _), rfl⟩
    | runAll =>
      simp only [Option.some.injEq] at hd; subst hd
      exact ⟨doneIdx_congr (putMany_sent _ _), rfl⟩
    | shutdown =>
      simp only [Option.some.injEq] at hd; subst hd
      exact ⟨rfl, rfl⟩
    | steal is =>
      simp only [Option.some.injEq] at hd; subst hd
      exact ⟨steal_doneIdx _ _, by simp [inflightC, List.filterMap_append, msgC]⟩

end Xdist.Sys
