import XdistProofs.Sys.PreserveRecv
/-! `recv` keeps the system invariant. -/
namespace Xdist.Sys
open Xdist

variable {τ : Type} [DecidableEq τ]

theorem route_set_shutdown (wk : List (Wk τ)) (k : Nat) (w1 : Wk τ) (hk : k < wk.length) :
    route (wk.set k w1) [SOut.shutdown k] =
      wk.set k (if w1.alive then ({ w1 with inbox := w1.inbox ++ [.shutdown] } : Wk τ) else w1) := by
  rw [route_shutdown]
  have : (wk.set k w1)[k]? = some w1 := by simp [List.getElem?_set, hk]
  rw [this]
  simp only
  split
  · simp [List.set_set]
  · rfl

/-- the state after `recv k`, in closed form: the controller's flags of `k` and the record of `k` change, nothing else -/
theorem recvStep_shape {st st' : LState τ} {k : Nat} (h : recvStep st k = some st') :
    ∃ w m rest fl' w2 outs', st.wk[k]? = some w ∧ w.outbox = m :: rest ∧
      st' = { st with ctl := { st.ctl with env := { flags := AList.set st.ctl.env.flags k fl', outs := outs' } },
                      wk := st.wk.set k w2 } ∧
      (let fl := st.ctl.env.flags.get k
       let r := Receiver.step { down := fl.down, shutdownSent := fl.sent } (toRecv k m)
       fl' = { down := r.1.down, sent := r.1.shutdownSent, broken := brokenAfter m fl.broken w.alive } ∧
       w2 = (let w1 : Wk τ := { w with outbox := rest, posted := w.posted ++ r.2.1.map (ofPost k) }
             if (r.2.2 && !fl.broken) = true then
               (if w1.alive then ({ w1 with inbox := w1.inbox ++ [.shutdown] } : Wk τ) else w1)
             else w1)) := by
  unfold recvStep at h
  split at h
  · cases h
  rename_i w hw
  split at h
  · cases h
  rename_i m rest ho
  have hk : k < st.wk.length := by
    rcases Nat.lt_or_ge k st.wk.length with h' | h'
    · exact h'
    · rw [List.getElem?_eq_none h'] at hw; cases hw
  simp only [Option.some.injEq] at h
  refine ⟨w, m, rest,
    { down := (Receiver.step { down := (st.ctl.env.flags.get k).down, shutdownSent := (st.ctl.env.flags.get k).sent } (toRecv k m)).1.down,
      sent := (Receiver.step { down := (st.ctl.env.flags.get k).down, shutdownSent := (st.ctl.env.flags.get k).sent } (toRecv k m)).1.shutdownSent,
      broken := brokenAfter m (st.ctl.env.flags.get k).broken w.alive },
    _,
    (if ((Receiver.step { down := (st.ctl.env.flags.get k).down, shutdownSent := (st.ctl.env.flags.get k).sent } (toRecv k m)).2.2 &&
          !(st.ctl.env.flags.get k).broken) = true then st.ctl.env.outs ++ [SOut.shutdown k] else st.ctl.env.outs),
    hw, ho, ?_, rfl, rfl⟩
  rw [← h]
  congr 1
  split
  · rw [route_set_shutdown _ _ _ hk]
  · rfl

end Xdist.Sys

namespace Xdist.Sys
open Xdist

variable {τ : Type} [DecidableEq τ]

theorem recv_inv (idsOf : Nat → List τ) {st st' : LState τ} {k : Nat} (hinv : Inv st)
    (h : step Ctl.loadI idsOf st (.recv k) = .ok st') : Inv st' := by
  simp only [step] at h
  split at h
  · cases h
  rename_i s1 hr
  simp only [Except.ok.injEq] at h
  subst h
  obtain ⟨w, m, rest, fl', w2, outs', hw, ho, rfl, hfl', hw2⟩ := recvStep_shape hr
  simp only at hfl' hw2
  have wi := hinv.wk hw
  have hk : k < st.wk.length := by
    rcases Nat.lt_or_ge k st.wk.length with h' | h'
    · exact h'
    · rw [List.getElem?_eq_none h'] at hw; cases hw
  -- the flags after the step
  have hflk : Flags.get (AList.set st.ctl.env.flags k fl') k = fl' := by simp [Contract.flags_get_set]
  have hflj : ∀ j, j ≠ k → Flags.get (AList.set st.ctl.env.flags k fl') j = st.ctl.env.flags.get j := by
    intro j hj; simp [Contract.flags_get_set, hj]
  -- the receiver only ever sets flags
  have hmonoD : (st.ctl.env.flags.get k).down = true → fl'.down = true := by
    intro hd; rw [hfl']; cases m <;> simp [Receiver.step, toRecv, hd]
  have hmonoS : (st.ctl.env.flags.get k).sent = true → fl'.sent = true := by
    intro hs; rw [hfl']
    cases hd : (st.ctl.env.flags.get k).down <;> cases m <;> simp [Receiver.step, toRecv, hd, hs]
  refine inv_of ?_ ?_
  · refine ctlInv_flags hinv.1 (by simp) rfl rfl rfl rfl rfl ?_ ?_
    · intro n hn
      by_cases hnk : n = k
      · subst hnk
        simp only [Flags.shuttingDown, hflk, Bool.or_eq_true] at hn ⊢
        rcases hn with hn | hn
        · exact Or.inl (hmonoD hn)
        · exact Or.inr (hmonoS hn)
      · simp only [Flags.shuttingDown, hflj n hnk] at hn ⊢
        exact hn
    · intro m hm hge
      have hmk : m ≠ k := by
        have : k < st.ctl.nextId := by rw [← hinv.1.len]; exact hk
        omega
      rw [hflj m hmk]
      rcases keys_set_mem _ _ _ _ hm with hm | hm
      · exact hinv.1.flagsLt m hm hge
      · exact absurd hm hmk
  · intro j wj hj
    by_cases hjk : j ≠ k
    · simp only at hj
      rw [List.getElem?_set_ne (Ne.symm hjk)] at hj
      exact WkInv.congr_env _ (hflj j hjk) (hinv.wk hj)
    have hjk : j = k := Classical.byContradiction hjk
    subst hjk
    simp only at hj
    rw [getElem?_set_self' hw] at hj
    cases hj
    -- worker `j` itself
    cases hdown : (st.ctl.env.flags.get j).down with
    | true =>
      have hr1 : Receiver.step (α := Ctl.Event τ) { down := true, shutdownSent := (st.ctl.env.flags.get j).sent } (toRecv j m) =
          ({ down := true, shutdownSent := (st.ctl.env.flags.get j).sent }, [], false) := by
        cases m <;> simp [Receiver.step, toRecv]
      rw [hdown, hr1] at hfl' hw2
      simp only [List.map_nil, List.append_nil, Bool.false_and, Bool.false_eq_true, ↓reduceIte] at hw2
      subst hw2
      refine recv_drop' _ wi ho hdown (by rw [hflk, hfl']) (by rw [hflk, hfl']) ?_
      intro hal
      rw [hflk, hfl']
      cases m <;> simp [brokenAfter, hal]
    | false =>
      have hka : w.alive = true → (st.ctl.env.flags.get j).broken = false := wi.notBroken
      cases m with
      | ev e =>
        have hr1 : Receiver.step (α := Ctl.Event τ) { down := false, shutdownSent := (st.ctl.env.flags.get j).sent } (toRecv j (.ev e)) =
            ({ down := false, shutdownSent := (st.ctl.env.flags.get j).sent }, [.event "" e], false) := by
          simp [Receiver.step, toRecv]
        rw [hdown, hr1] at hfl' hw2
        simp only [List.map_cons, List.map_nil, ofPost, Bool.false_and, Bool.false_eq_true, ↓reduceIte, brokenAfter] at hfl' hw2
        subst hw2
        have hpl := wi.evPlain (.ev e) (by rw [ho]; simp)
        have hbase := recv_move wi ho hdown [e] (by simp [evOf]) (by simpa [plainMsg] using hpl) rfl
        refine WkInv.congr_env _ ?_ hbase
        rw [hflk, hfl']
        cases hf : st.ctl.env.flags.get j
        simp_all
      | ignored =>
        have hr1 : Receiver.step (α := Ctl.Event τ) { down := false, shutdownSent := (st.ctl.env.flags.get j).sent } (toRecv j .ignored) =
            ({ down := false, shutdownSent := (st.ctl.env.flags.get j).sent }, [], false) := by
          simp [Receiver.step, toRecv]
        rw [hdown, hr1] at hfl' hw2
        simp only [List.map_nil, Bool.false_and, Bool.false_eq_true, ↓reduceIte, brokenAfter] at hfl' hw2
        subst hw2
        have hbase := recv_move wi ho hdown [] (by simp [evOf]) rfl rfl
        refine WkInv.congr_env _ ?_ hbase
        rw [hflk, hfl']
        cases hf : st.ctl.env.flags.get j
        simp_all
      | fin x sf ss =>
        have hr1 : Receiver.step (α := Ctl.Event τ) { down := false, shutdownSent := (st.ctl.env.flags.get j).sent } (toRecv j (.fin x sf ss)) =
            ({ down := true, shutdownSent := (st.ctl.env.flags.get j).sent }, [.workerfinished (.workerfinished j x sf ss)], false) := by
          simp [Receiver.step, toRecv]
        rw [hdown, hr1] at hfl' hw2
        simp only [List.map_cons, List.map_nil, ofPost, Bool.false_and, Bool.false_eq_true, ↓reduceIte, brokenAfter] at hfl' hw2
        subst hw2
        refine recv_writeoff' _ wi ho hdown (by rw [hflk, hfl']) ?_ _ rfl (by simp [Own]) w.inbox (fun x hx => Or.inl hx) ?_
        · intro hal; rw [hflk, hfl']; exact hka hal
        · intro hal hse
          rw [hflk, hfl'] at hse
          have := wi.shut hal hse
          rw [shutSeen_def] at this; exact this
      | garbage =>
        have hr1 : Receiver.step (α := Ctl.Event τ) { down := false, shutdownSent := (st.ctl.env.flags.get j).sent } (toRecv j .garbage) =
            ({ down := true, shutdownSent := true }, [.errordown], !(st.ctl.env.flags.get j).sent) := by
          simp [Receiver.step, toRecv]
        rw [hdown, hr1] at hfl' hw2
        simp only [List.map_cons, List.map_nil, ofPost, brokenAfter] at hfl' hw2
        subst hw2
        by_cases hwr : (!(st.ctl.env.flags.get j).sent && !(st.ctl.env.flags.get j).broken) = true
        · rw [if_pos hwr]
          by_cases hal : w.alive = true
          · rw [if_pos hal]
            refine recv_writeoff' { flags := AList.set st.ctl.env.flags j fl', outs := outs' } wi ho hdown (by rw [hflk, hfl']) ?_ (Ctl.Event.errordown j false) rfl (by simp [Own]) (w.inbox ++ [.shutdown]) ?_ ?_
            · intro _; rw [hflk, hfl']; exact hka hal
            · intro x hx
              rcases List.mem_append.1 hx with hx | hx
              · exact Or.inl hx
              · simp at hx; exact Or.inr hx
            · intro _ _; simp
          · have hal' : w.alive = false := by cases hh : w.alive <;> simp_all
            rw [if_neg hal]
            refine recv_writeoff' { flags := AList.set st.ctl.env.flags j fl', outs := outs' } wi ho hdown (by rw [hflk, hfl']) ?_ (Ctl.Event.errordown j false) rfl (by simp [Own]) w.inbox (fun x hx => Or.inl hx) ?_
            · intro hh; rw [hal'] at hh; cases hh
            · intro hh; rw [hal'] at hh; cases hh
        · rw [if_neg hwr]
          refine recv_writeoff' { flags := AList.set st.ctl.env.flags j fl', outs := outs' } wi ho hdown (by rw [hflk, hfl']) ?_ (Ctl.Event.errordown j false) rfl (by simp [Own]) w.inbox (fun x hx => Or.inl hx) ?_
          · intro hal; rw [hflk, hfl']; exact hka hal
          · intro hal _
            -- the shutdown command was not written: it had been sent before (the worker is alive, so its pipe is not broken)
            have hb := hka hal
            have hs : (st.ctl.env.flags.get j).sent = true := by
              cases hh : (st.ctl.env.flags.get j).sent with
              | true => rfl
              | false => rw [hh, hb] at hwr; simp at hwr
            have := wi.shut hal hs
            rw [shutSeen_def] at this; exact this
      | endMarker =>
        have hr1 : Receiver.step (α := Ctl.Event τ) { down := false, shutdownSent := (st.ctl.env.flags.get j).sent } (toRecv j .endMarker) =
            ({ down := true, shutdownSent := (st.ctl.env.flags.get j).sent }, [.errordown], false) := by
          simp [Receiver.step, toRecv]
        rw [hdown, hr1] at hfl' hw2
        simp only [List.map_cons, List.map_nil, ofPost, Bool.false_and, Bool.false_eq_true, ↓reduceIte, brokenAfter] at hfl' hw2
        subst hw2
        refine recv_writeoff' _ wi ho hdown (by rw [hflk, hfl']) ?_ _ rfl (by simp [Own]) w.inbox (fun x hx => Or.inl hx) ?_
        · intro hal; rw [hflk, hfl']; simp [hka hal, hal]
        · intro hal hse
          rw [hflk, hfl'] at hse
          have := wi.shut hal hse
          rw [shutSeen_def] at this; exact this

end Xdist.Sys
