import XdistProofs.Sys.PreserveMain
/-! Preservation of the per-worker invariant by `deliver` (the worker's receiver thread: `handle_command`), and the lifting
    of the worker-side steps to the system invariant. -/
namespace Xdist.Sys
open Xdist

variable {τ : Type} [DecidableEq τ]

theorem putMany_fields (s : Worker.State) (is : List Nat) :
    (Worker.putMany s is).torun = s.torun ++ is.map Worker.QItem.test ∧ (Worker.putMany s is).pc = s.pc ∧
    (Worker.putMany s is).cur = s.cur ∧ (Worker.putMany s is).next = s.next := by
  induction is generalizing s with
  | nil => simp [Worker.putMany]
  | cons i t ih =>
    obtain ⟨h1, h2, h3, h4⟩ := ih (Worker.put s i)
    simp only [Worker.putMany]
    refine ⟨by rw [h1]; simp [Worker.put], by rw [h2]; rfl, by rw [h3]; rfl, by rw [h4]; rfl⟩

theorem tests_append (a b : List Worker.QItem) : Worker.tests (a ++ b) = Worker.tests a ++ Worker.tests b := by
  induction a with
  | nil => rfl
  | cons q t ih => cases q <;> simp [Worker.tests, ih]

theorem tests_map_test (is : List Nat) : Worker.tests (is.map Worker.QItem.test) = is := by
  induction is with
  | nil => rfl
  | cons i t ih => simp [Worker.tests, ih]

theorem deliverStep_inv {c : Ctl.State (Load.State τ) τ} {k : Nat} {w w' : Wk τ} (h : WkInv c k w)
    (hd : deliverStep k w = some w') : WkInv c k w' := by
  unfold deliverStep at hd
  split at hd
  · cases hd
  rename_i hg
  simp only [Bool.or_eq_true, Bool.not_eq_eq_eq_not, Bool.not_true, decide_eq_true_eq, not_or] at hg
  obtain ⟨⟨ha, hcb⟩, hpd⟩ := hg
  have ha : w.alive = true := by cases hh : w.alive <;> simp_all
  have hcb : w.cbSet = true := by cases hh : w.cbSet <;> simp_all
  have hnb : w.phase ≠ .boot := by
    intro hh
    have := (h.early (Or.inl hh)).2.2
    rw [hcb] at this; cases this
  have hnc : w.phase ≠ .collect := by
    intro hh
    have := (h.early (Or.inr hh)).2.2
    rw [hcb] at this; cases this
  have L := h.local
  cases hi : w.inbox with
  | nil => simp [hi] at hd
  | cons cmd rest =>
    simp only [hi] at hd
    have hk := h.inboxK cmd (by rw [hi]; simp)
    -- the common part: a worker whose queue grew by `qs`, whose inbox lost its head
    have key : ∀ (ww : Worker.State) (is : List Nat), ww.pc = w.w.pc → ww.cur = w.w.cur → ww.next = w.w.next →
        (∃ qs, ww.torun = w.w.torun ++ qs ∧ Worker.tests qs = is ∧ (cmd = .shutdown → Worker.QItem.shutdown ∈ qs)) →
        inboxRuns w = is ++ inboxRuns ({ w with inbox := rest } : Wk τ) →
        WkInv c k ({ w with inbox := rest, w := ww } : Wk τ) := by
      intro ww is h1 h2 h3 ⟨qs, h4, h5, h6⟩ h7
      refine ⟨?_, ?_, ?_, ?_, ?_, ?_, fun _ => trivial, ?_, h.ownP, h.ownO, h.evPlain, h.notBroken, h.notice1, h.notice2, h.noticeDown,
        h.inactive, h.inactiveDown, h.noticeLast, h.bootNoReady, ?_, h.ready, h.readyTail, h.readyColl, h.qn, h.keysActive, ?_⟩
      · intro hl; simp only at hl ⊢; rw [h1]; exact L.loopCb hl
      · intro hr; simp only at hr ⊢; rw [h1] at hr; rw [h2]; exact L.running hr
      · intro hr; simp only at hr ⊢; rw [h1] at hr; rw [h3]; exact L.have1 hr
      · intro hr; simp only at hr ⊢; rw [h1] at hr; rw [h3]; exact L.init0 hr
      · intro hr; simp only at hr
        rcases hr with hr | hr
        · exact absurd hr hnb
        · exact absurd hr hnc
      · intro _ hb; exact absurd hb hnb
      · intro c' hc'; exact h.inboxK c' (by rw [hi]; exact List.mem_cons_of_mem _ hc')
      · intro hal hs
        have := h.shut hal hs
        rw [shutSeen_def] at this ⊢
        simp only [h3, h4]
        rw [hi] at this
        simp only [Bool.or_eq_true, beq_iff_eq, List.contains_eq_mem, decide_eq_true_eq, List.mem_append, List.mem_cons] at this ⊢
        rcases this with (hc1 | hc1) | hc1
        · rcases hc1 with hc1 | hc1
          · exact Or.inl (Or.inr (Or.inr (h6 hc1.symm)))
          · exact Or.inl (Or.inl hc1)
        · exact Or.inl (Or.inr (Or.inl hc1))
        · exact Or.inr hc1
      · intro hal hdn
        have hs := h.sync hal hdn
        have hh : heldS ({ w with inbox := rest, w := ww } : Wk τ) = heldS w ++ is := by
          simp only [heldS, h1, h2, h3, h4, tests_append, h5, List.append_assoc]
        have hf : flight k ({ w with inbox := rest, w := ww } : Wk τ) = flight k w := rfl
        unfold SyncD at hs ⊢
        cases hb : AList.lookup c.sched.node2pending k with
        | none =>
          rw [hb] at hs
          simp only at hs ⊢
          intro hx
          obtain ⟨x1, x2, x3⟩ := hs (by rcases hx with hx | hx; exact Or.inl hx; exact Or.inr (by rw [← hf]; exact hx))
          rw [x3] at h7
          have := List.append_eq_nil_iff.1 h7.symm
          refine ⟨by rw [hf]; exact x1, by rw [hh, x2, this.1]; rfl, ?_⟩
          have h8 : inboxRuns ({ w with inbox := rest, w := ww } : Wk τ) = inboxRuns ({ w with inbox := rest } : Wk τ) := rfl
          rw [h8]; exact this.2
        | some book =>
          rw [hb] at hs
          simp only at hs ⊢
          have h8 : inboxRuns ({ w with inbox := rest, w := ww } : Wk τ) = inboxRuns ({ w with inbox := rest } : Wk τ) := rfl
          rw [hs, hf, hh, h8, h7]
          simp [List.append_assoc]
    cases cmd with
    | run is =>
      simp only [Option.some.injEq] at hd
      subst hd
      obtain ⟨p1, p2, p3, p4⟩ := putMany_fields w.w is
      exact key _ is p2 p3 p4 ⟨is.map .test, p1, tests_map_test is, fun hh => by cases hh⟩ (by simp [inboxRuns, hi])
    | shutdown =>
      simp only [Option.some.injEq] at hd
      subst hd
      exact key _ [] rfl rfl rfl ⟨[.shutdown], rfl, rfl, fun _ => by simp⟩ (by simp [inboxRuns, hi])
    | runAll => simp [loadCmd] at hk
    | steal is => simp [loadCmd] at hk

end Xdist.Sys
