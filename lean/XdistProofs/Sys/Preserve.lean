import XdistProofs.Sys.Inv
/-!
  Preservation of the system invariant (`Sys/Inv.lean`) by the steps of the whole-system model.
  This file: the worker-side steps (`main`, `deliver`), which leave the controller untouched.
-/
namespace Xdist.Sys
open Xdist

variable {τ : Type} [DecidableEq τ]

/-! ### list facts -/

theorem any_append_false {α : Type} {p : α → Bool} {l m : List α} (h1 : l.any p = false) (h2 : m.any p = false) :
    (l ++ m).any p = false := by simp [List.any_append, h1, h2]

theorem tail_append_any_false {α : Type} {p : α → Bool} {l m : List α} (h1 : l.tail.any p = false) (h2 : m.any p = false) :
    (l ++ m).tail.any p = false := by
  cases l with
  | nil =>
    cases m with
    | nil => rfl
    | cons a t =>
      simp only [List.nil_append, List.tail_cons]
      simp only [List.any_cons, Bool.or_eq_false_iff] at h2
      exact h2.2
  | cons a t =>
    simp only [List.cons_append, List.tail_cons] at h1 ⊢
    exact any_append_false h1 h2

theorem any_of_append_true {α : Type} {p : α → Bool} {l m : List α} (h : (l ++ m).any p = true) (h2 : m.any p = false) :
    l.any p = true := by
  simp only [List.any_append, Bool.or_eq_true] at h
  rcases h with h | h
  · exact h
  · rw [h2] at h; cases h

theorem completes_append (a b : List (Ctl.Event τ)) : completes (a ++ b) = completes a ++ completes b := by
  simp [completes, List.filterMap_append]

/-! ### flight -/

theorem flight_emit (k : Nat) {w w' : Wk τ} {ms : List (WMsg τ)} (hp : w'.posted = w.posted) (ho : w'.outbox = w.outbox ++ ms) :
    flight k w' = flight k w ++ ms.filterMap (evOf k) := by
  simp [flight, hp, ho, List.filterMap_append, List.append_assoc]

/-- the part of the per-worker invariant that only concerns the worker's own program state -/
structure LocalInv (w : Wk τ) : Prop where
  loopCb : w.phase = .loop → w.cbSet = true ∧ w.w.pc ≠ .done
  running : w.w.pc = .running → w.sub ≤ 2 ∧ w.w.cur.isSome = true
  have1 : w.w.pc = .haveItem → ∃ j, w.w.next = some (.test j)
  init0 : w.w.pc = .init → w.w.next = none
  early : w.phase = .boot ∨ w.phase = .collect → w.w.pc = .init ∧ w.w.torun = [] ∧ w.cbSet = false

theorem WkInv.local {c : Ctl.State (Load.State τ) τ} {k : Nat} {w : Wk τ} (h : WkInv c k w) : LocalInv w :=
  ⟨h.loopCb, h.running, h.have1, h.init0, h.early⟩

theorem collPending_emit (k : Nat) {w w' : Wk τ} {ms : List (WMsg τ)} (hp : w'.posted = w.posted)
    (ho : w'.outbox = w.outbox ++ ms) (h1 : w.phase ≠ .boot) (h2 : w.phase ≠ .collect)
    (h : collPending k w = true) : collPending k w' = true := by
  unfold collPending at h ⊢
  have hb : (w.phase == Phase.boot) = false := by cases hh : w.phase <;> simp_all
  have hc : (w.phase == Phase.collect) = false := by cases hh : w.phase <;> simp_all
  rw [hb, hc] at h
  simp only [Bool.false_or] at h
  rw [flight_emit k hp ho, List.any_append, h]
  simp

/-- **A main-thread step that only emits messages** (none of them `workerready`) and moves tests from "held" to "completed". -/
theorem wkInv_emit {c : Ctl.State (Load.State τ) τ} {k : Nat} {w w' : Wk τ} (ms : List (WMsg τ)) (h : WkInv c k w)
    (ha' : w'.alive = w.alive) (hposted : w'.posted = w.posted) (hinbox : w'.inbox = w.inbox)
    (houtbox : w'.outbox = w.outbox ++ ms)
    (hown : ∀ e ∈ ms.filterMap (evOf k), Own k e = true ∧ isReady e = false)
    (hphase : w.phase ≠ .boot) (hphase' : w'.phase ≠ .boot)
    (hlocal : LocalInv w')
    (hshut : shutSeen w = true → shutSeen w' = true)
    (hcoll : collPending k w = true → collPending k w' = true)
    (hheld : completes (ms.filterMap (evOf k)) ++ heldS w' = heldS w)
    (hdone : (w'.alive = true ∧ w'.phase ≠ .done) ∨ ms.any isEnd = true)
    (hplain : ∀ m ∈ ms, plainMsg m = true := by intro m hm; simp at hm <;> (try subst hm) <;> simp [plainMsg, isNotice]) : WkInv c k w' := by
  have hfl := flight_emit k hposted houtbox
  have hnr : (ms.filterMap (evOf k)).any isReady = false := by
    rw [List.any_eq_false]
    intro e he
    simp [(hown e he).2]
  have hinr : inboxRuns w' = inboxRuns w := by simp [inboxRuns, hinbox]
  refine ⟨hlocal.loopCb, hlocal.running, hlocal.have1, hlocal.init0, hlocal.early, ?_, fun _ => trivial, ?_, ?_, ?_, ?_, ?_, ?_, ?_, ?_, ?_,
    h.inactiveDown, ?_, ?_, ?_, ?_, ?_, ?_, ?_, h.keysActive, ?_⟩
  · intro _ hb; exact absurd hb hphase'
  · rw [hinbox]; exact h.inboxK
  · rw [hposted]; exact h.ownP
  · rw [houtbox, List.filterMap_append]
    intro ev hev
    rcases List.mem_append.1 hev with hev | hev
    · exact h.ownO ev hev
    · exact (hown ev hev).1
  · rw [houtbox]
    intro m hm
    rcases List.mem_append.1 hm with hm | hm
    · exact h.evPlain m hm
    · exact hplain m hm
  · rw [ha']; exact h.notBroken
  · intro hk hd
    rcases hdone with hd' | hd'
    · exact Or.inl hd'
    · right; rw [houtbox, List.any_append, hd']; simp
  · rw [hposted]; exact h.notice2
  · rw [hposted]; exact h.noticeDown
  · rw [hposted]; exact h.inactive
  · rw [hposted]; exact h.noticeLast
  · intro hb; exact absurd hb hphase'
  · intro hal hs
    exact hshut (h.shut (by rw [← ha']; exact hal) hs)
  · intro hk hsd _ hr
    rw [hfl, List.any_append, Bool.or_eq_false_iff] at hr
    exact h.ready hk hsd hphase hr.1
  · intro hd
    rw [hfl]
    exact tail_append_any_false (h.readyTail hd) hnr
  · intro hd hr
    rw [hfl] at hr
    exact hcoll (h.readyColl hd (any_of_append_true hr hnr))
  · rcases h.qn with hq | hq
    · exact Or.inl (hcoll hq)
    · exact Or.inr hq
  · intro hal hd
    have hs := h.sync (by rw [← ha']; exact hal) hd
    unfold SyncD at hs ⊢
    cases hb : AList.lookup c.sched.node2pending k with
    | none =>
      rw [hb] at hs
      simp only at hs ⊢
      intro hh
      have hr : (flight k w).any isReady = true := by
        rcases hh with hh | hh
        · exact absurd hh hphase'
        · rw [hfl] at hh; exact any_of_append_true hh hnr
      obtain ⟨h1, h2, h3⟩ := hs (Or.inr hr)
      rw [h2] at hheld
      have := List.append_eq_nil_iff.1 hheld
      refine ⟨by rw [hfl, completes_append, h1, this.1]; rfl, this.2, by rw [hinr, h3]⟩
    | some book =>
      rw [hb] at hs
      simp only at hs ⊢
      rw [hs, hfl, completes_append, hinr, ← hheld]
      simp [List.append_assoc]

end Xdist.Sys

namespace Xdist.Sys
open Xdist

variable {τ : Type} [DecidableEq τ]

theorem shutSeen_def (w : Wk τ) : shutSeen w = (w.inbox.contains .shutdown || w.w.torun.contains .shutdown || w.w.next == some .shutdown) := rfl

theorem tests_cons_test (i : Nat) (r : List Worker.QItem) : Worker.tests (.test i :: r) = i :: Worker.tests r := rfl
theorem tests_cons_shut (r : List Worker.QItem) : Worker.tests (.shutdown :: r) = Worker.tests r := rfl

/-- the first step of a worker: `workerready` -/
theorem boot_inv {c : Ctl.State (Load.State τ) τ} {k : Nat} {w : Wk τ} (h : WkInv c k w) (ha : w.alive = true)
    (hb : w.phase = .boot) :
    WkInv c k { w with outbox := w.outbox ++ [.ev (.workerready k)], phase := .collect } := by
  obtain ⟨ho, hp⟩ := h.boot0 ha hb
  have hfl0 : flight k w = [] := by simp [flight, hp, ho]
  have hfl : flight k ({ w with outbox := w.outbox ++ [.ev (.workerready k)], phase := .collect } : Wk τ) = [.workerready k] := by
    simp [flight, hp, List.filterMap_append, ho, evOf]
  have he := h.early (Or.inl hb)
  refine ⟨?_, h.running, h.have1, h.init0, fun _ => he, ?_, fun _ => trivial, h.inboxK, h.ownP, ?_, ?_, h.notBroken, ?_, h.notice2,
    h.noticeDown, h.inactive, h.inactiveDown, h.noticeLast, ?_, h.shut, ?_, ?_, ?_, ?_, h.keysActive, ?_⟩
  · intro hh; cases hh
  · intro _ hh; cases hh
  · simp only [List.filterMap_append]
    intro ev hev
    rcases List.mem_append.1 hev with hev | hev
    · exact h.ownO ev hev
    · simp [evOf] at hev; subst hev; simp [Own]
  · intro m hm
    rcases List.mem_append.1 hm with hm | hm
    · exact h.evPlain m hm
    · simp at hm; subst hm; simp [plainMsg, isNotice]
  · intro _ _; exact Or.inl ⟨ha, by simp⟩
  · intro hh; cases hh
  · intro _ _ _ hr
    rw [hfl] at hr; simp [isReady] at hr
  · intro _; rw [hfl]; rfl
  · intro _ _; simp [collPending]
  · left; simp [collPending]
  · intro hal hd
    have hs := h.sync ha hd
    unfold SyncD at hs ⊢
    cases hbk : AList.lookup c.sched.node2pending k with
    | none =>
      rw [hbk] at hs
      simp only at hs ⊢
      intro _
      obtain ⟨h1, h2, h3⟩ := hs (Or.inl hb)
      refine ⟨by rw [hfl]; rfl, ?_, ?_⟩
      · simpa [heldS] using h2
      · simpa [inboxRuns] using h3
    | some book =>
      rw [hbk] at hs
      simp only at hs ⊢
      rw [hfl0] at hs
      rw [hfl, hs]
      simp [completes, complIdx, heldS, inboxRuns]

end Xdist.Sys

namespace Xdist.Sys
open Xdist
variable {τ : Type} [DecidableEq τ]

theorem filterMap_evOf_map_ev (k : Nat) {α : Type} (f : α → Ctl.Event τ) (l : List α) :
    (l.map (fun a => WMsg.ev (f a))).filterMap (evOf k) = l.map f := by
  induction l with
  | nil => rfl
  | cons a t ih => simp [evOf, ih]

theorem evOf_collect_msgs (k : Nat) (ids : List τ) (errs : List (String × Bool)) (tailMsgs : List (WMsg τ))
    (ht : tailMsgs.filterMap (evOf k) = []) :
    ((([WMsg.ignored] : List (WMsg τ)) ++ errs.map (fun (e : String × Bool) => WMsg.ev (Ctl.Event.collectreport k e.1 e.2)) ++
        [WMsg.ev (Ctl.Event.collectionfinish k ids)]) ++ tailMsgs).filterMap (evOf k)
      = errs.map (fun (e : String × Bool) => Ctl.Event.collectreport k e.1 e.2) ++ [Ctl.Event.collectionfinish k ids] := by
  simp only [List.filterMap_append, ht, List.append_nil, filterMap_evOf_map_ev]
  simp [evOf]

theorem completes_nil_of {l : List (Ctl.Event τ)} (h : ∀ e ∈ l, complIdx e = none) : completes l = [] := by
  unfold completes
  exact List.filterMap_eq_nil_iff.2 h

/-- `wkInv_emit` for messages without completions: what the worker holds does not change -/
theorem wkInv_emit_nc {c : Ctl.State (Load.State τ) τ} {k : Nat} {w w' : Wk τ} (ms : List (WMsg τ)) (evs : List (Ctl.Event τ))
    (hevs : ms.filterMap (evOf k) = evs) (h : WkInv c k w)
    (ha' : w'.alive = w.alive) (hposted : w'.posted = w.posted) (hinbox : w'.inbox = w.inbox)
    (houtbox : w'.outbox = w.outbox ++ ms)
    (hown : ∀ e ∈ evs, Own k e = true ∧ isReady e = false ∧ complIdx e = none)
    (hphase : w.phase ≠ .boot) (hphase' : w'.phase ≠ .boot)
    (hlocal : LocalInv w')
    (hshut : shutSeen w = true → shutSeen w' = true)
    (hcoll : collPending k w = true → collPending k w' = true)
    (hheld : heldS w' = heldS w)
    (hdone : (w'.alive = true ∧ w'.phase ≠ .done) ∨ ms.any isEnd = true)
    (hplain : ∀ m ∈ ms, plainMsg m = true) : WkInv c k w' := by
  refine wkInv_emit ms h ha' hposted hinbox houtbox ?_ hphase hphase' hlocal hshut hcoll ?_ hdone hplain
  · rw [hevs]; intro e he; exact ⟨(hown e he).1, (hown e he).2.1⟩
  · rw [hevs, completes_nil_of (fun e he => (hown e he).2.2), hheld]; rfl

end Xdist.Sys
