import XdistProofs.Sys.EachOnce
import XdistProofs.Sched.ScopeUnits
import XdistProofs.Sched.ScopeDisj
import XdistProofs.Sched.ScopeWire
import XdistProofs.Sys.Blocks
import XdistProofs.Sys.WorkerRefines
/-!
  C06, whole system: under `--dist loadscope`, `loadfile` and `loadgroup`, in **every execution of the composed system** every work
  unit — queued, or assigned to a worker, whole or the re-queued remainder of a dead worker's — holds only tests of the group key it
  is filed under.  (`Sched/ScopeUnits` has the per-call statements: the units of a collection are exactly the classes of the key,
  in collection order, and `_assign_work_unit` hands a unit to one worker as a whole.)
-/
namespace Xdist.Sys
open Xdist Xdist.Ctl

/-- the scheduler is (and stays) a `LoadScopeScheduling` of mode `m`, its units are homogeneous and a key is in one place -/
def ScopeP (m : String) : Sched.Any → Env → Prop
  | .scope m' s, _ => m' = m ∧ LoadScope.Hom (Sched.splitOf m) s ∧ LoadScope.DI s
  | _, _ => False

theorem iface_scopeP (specs : AList Nat Nat) (m : String) : DiscS (Sched.iface specs) (ScopeP m) where
  step := by
    intro s e op s' e' r h hp
    cases s with
    | scope m' s0 =>
      obtain ⟨rfl, hh⟩ := hp
      simp only [Sched.iface, Sched.Any.step] at h
      obtain ⟨q, hq, hq2⟩ := map_ok.1 h
      simp only [Prod.mk.injEq] at hq2
      obtain ⟨rfl, rfl, _⟩ := hq2
      obtain ⟨q1, q2, q3⟩ := q
      exact ⟨rfl, LoadScope.step_hom _ hq hh.1, LoadScope.step_di _ hq hh.2⟩
    | nosched => exact hp.elim
    | load s0 => exact hp.elim
    | ws s0 => exact hp.elim
    | each s0 => exact hp.elim
  congr := by
    intro s e e' hp _
    cases s with
    | scope m' s0 => exact hp
    | nosched => exact hp.elim
    | load s0 => exact hp.elim
    | ws s0 => exact hp.elim
    | each s0 => exact hp.elim

/-- **A unit holds one group only, whole system** (C06; `m` is `loadscope`, `loadfile` or `loadgroup`).  After any execution of the
    composed system — any schedule of the threads, crashes whose left-over is re-queued, replacements, stop requests —, every unit in
    the queue and in every worker's assigned work holds only tests whose group key is the key the unit is filed under. -/
theorem C06_sys_units_hold_one_group (specs : AList Nat Nat) (m : String) (numnodes maxfail : Nat) (mr : Option Int)
    (idsOf : Nat → List String) (steps : List Step) {st : State Sched.Any String}
    (h : run (Sched.iface specs) idsOf (init (Sched.iface specs) (.scope m (LoadScope.init numnodes)) numnodes maxfail mr idsOf) steps = .ok st) :
    ∃ s, st.ctl.sched = .scope m s ∧
      (∀ p ∈ s.workqueue, ∀ q ∈ p.2, Sched.splitOf m q.1 = p.1) ∧
      (∀ a ∈ s.assigned, ∀ p ∈ a.2, ∀ q ∈ p.2, Sched.splitOf m q.1 = p.1) := by
  have h0 : ScopeP m (init (Sched.iface specs) (.scope m (LoadScope.init numnodes)) numnodes maxfail mr idsOf).ctl.sched
      (init (Sched.iface specs) (.scope m (LoadScope.init numnodes)) numnodes maxfail mr idsOf).ctl.env := by
    refine ⟨rfl, ⟨?_, ?_⟩, LoadScope.init_di numnodes⟩
    · intro p hp; simp [LoadScope.init] at hp
    · intro a ha; simp [LoadScope.init] at ha
  have hp := run_discS (Sched.iface specs) (iface_scopeP specs m) idsOf steps h0 h
  cases hsc : st.ctl.sched with
  | scope m' s =>
    rw [hsc] at hp
    obtain ⟨rfl, hh⟩ := hp
    exact ⟨s, rfl, hh.1.1, hh.1.2⟩
  | nosched => rw [hsc] at hp; exact hp.elim
  | load s => rw [hsc] at hp; exact hp.elim
  | ws s => rw [hsc] at hp; exact hp.elim
  | each s => rw [hsc] at hp; exact hp.elim

/-- **A group is in one place at a time, whole system** (C06; `m` is `loadscope`, `loadfile` or `loadgroup`).  After any execution of
    the composed system — any schedule of the threads, crashes whose left-over is re-queued, replacements, stop requests —, for every
    group key: if a unit of that key is in the queue it is in no worker's assigned work; and if it is in the assigned work of two
    workers, they are one and the same worker.  With `C06_sys_units_hold_one_group` (a unit holds only tests of its key) and
    `C06_same_group_same_unit` (all tests of a key are in its unit): the tests of a group are never spread over two workers. -/
theorem C06_sys_group_in_one_place (specs : AList Nat Nat) (m : String) (numnodes maxfail : Nat) (mr : Option Int)
    (idsOf : Nat → List String) (steps : List Step) {st : State Sched.Any String}
    (h : run (Sched.iface specs) idsOf (init (Sched.iface specs) (.scope m (LoadScope.init numnodes)) numnodes maxfail mr idsOf) steps = .ok st)
    (k : String) :
    ∃ s, st.ctl.sched = .scope m s ∧
      (k ∈ AList.keys s.workqueue → ∀ a ∈ s.assigned, k ∉ AList.keys a.2) ∧
      (∀ a ∈ s.assigned, ∀ b ∈ s.assigned, k ∈ AList.keys a.2 → k ∈ AList.keys b.2 → a = b) := by
  have h0 : ScopeP m (init (Sched.iface specs) (.scope m (LoadScope.init numnodes)) numnodes maxfail mr idsOf).ctl.sched
      (init (Sched.iface specs) (.scope m (LoadScope.init numnodes)) numnodes maxfail mr idsOf).ctl.env := by
    refine ⟨rfl, ⟨?_, ?_⟩, LoadScope.init_di numnodes⟩
    · intro p hp; simp [LoadScope.init] at hp
    · intro a ha; simp [LoadScope.init] at ha
  have hp := run_discS (Sched.iface specs) (iface_scopeP specs m) idsOf steps h0 h
  cases hsc : st.ctl.sched with
  | scope m' s =>
    rw [hsc] at hp
    obtain ⟨rfl, hh⟩ := hp
    exact ⟨s, rfl, (hh.2.1.one_place k).1, (hh.2.1.one_place k).2⟩
  | nosched => rw [hsc] at hp; exact hp.elim
  | load s => rw [hsc] at hp; exact hp.elim
  | ws s => rw [hsc] at hp; exact hp.elim
  | each s => rw [hsc] at hp; exact hp.elim

/-- a command that hands out tests is in the log iff it is among the dispatching commands -/
theorem isRun_mem_dispatches (e : Env) (o : SOut) (hr : LoadScope.isRun o = true) : o ∈ dispatches e ↔ o ∈ e.outs := by
  have : isDispatch o = true := by cases o <;> first | rfl | cases hr
  simp [dispatches, this]

/-- the scheduler is (and stays) a `LoadScopeScheduling` of mode `m` and `WI` holds of it and the wire -/
def ScopeW (m : String) : Sched.Any → Env → Prop
  | .scope m' s, e => m' = m ∧ LoadScope.WI (Sched.splitOf m) s e
  | _, _ => False

theorem wi_congr {split : String → String} {s : LoadScope.State String String} {e e' : Env} (h : LoadScope.WI split s e)
    (hd : dispatches e' = dispatches e) : LoadScope.WI split s e' := by
  have hmem : ∀ o ∈ e'.outs, LoadScope.isRun o = true → o ∈ e.outs := by
    intro o hm hr
    rw [← isRun_mem_dispatches _ _ hr] at hm ⊢
    rw [← hd]; exact hm
  refine ⟨h.hom, h.di, fun col hc => ⟨(h.agreed col hc).1, LoadScope.runsOk_mono (h.agreed col hc).2 hmem⟩, ?_, h.cmp,
    fun n is hm => h.toReg n is (hmem _ hm rfl)⟩
  intro hc o hm
  cases hr : LoadScope.isRun o with
  | false => rfl
  | true => exact (h.quiet hc o (hmem o hm hr)).symm ▸ hr ▸ rfl

theorem iface_scopeW (specs : AList Nat Nat) (m : String) : DiscS (Sched.iface specs) (ScopeW m) where
  step := by
    intro s e op s' e' r h hp
    cases s with
    | scope m' s0 =>
      obtain ⟨rfl, hh⟩ := hp
      simp only [Sched.iface, Sched.Any.step] at h
      obtain ⟨q, hq, hq2⟩ := map_ok.1 h
      simp only [Prod.mk.injEq] at hq2
      obtain ⟨rfl, rfl, _⟩ := hq2
      obtain ⟨q1, q2, q3⟩ := q
      exact ⟨rfl, LoadScope.step_wi _ hq hh⟩
    | nosched => exact hp.elim
    | load s0 => exact hp.elim
    | ws s0 => exact hp.elim
    | each s0 => exact hp.elim
  congr := by
    intro s e e' hp hd
    cases s with
    | scope m' s0 => exact ⟨hp.1, wi_congr hp.2 hd⟩
    | nosched => exact hp.elim
    | load s0 => exact hp.elim
    | ws s0 => exact hp.elim
    | each s0 => exact hp.elim

/-- **Every `runtests` carries one group, whole system** (C06; `m` is `loadscope`, `loadfile` or `loadgroup`).  After any execution of
    the composed system — any schedule of the threads, crashes whose left-over is re-queued, replacements, stop requests —, every
    `runtests` command that has ever been written to any worker carries indices which, read in the agreed collection, are tests of one
    single group; and every worker registered with the scheduler has reported exactly that collection.  With the worker executing what
    it is sent in order (`C05_sys_workers_refine`) the tests of a group are handed over together, nothing of another group in between. -/
theorem C06_sys_every_runtests_one_group (specs : AList Nat Nat) (m : String) (numnodes maxfail : Nat) (mr : Option Int)
    (idsOf : Nat → List String) (steps : List Step) {st : State Sched.Any String}
    (h : run (Sched.iface specs) idsOf (init (Sched.iface specs) (.scope m (LoadScope.init numnodes)) numnodes maxfail mr idsOf) steps = .ok st)
    (n : Nat) (is : List Nat) (hrun : SOut.run n is ∈ st.ctl.env.outs) :
    ∃ s col scope, st.ctl.sched = .scope m s ∧ s.collection = some col ∧ (∀ p ∈ s.registered, p.2 = col) ∧
      ∀ i ∈ is, ∃ t, col[i]? = some t ∧ Sched.splitOf m t = scope := by
  have h0 : ScopeW m (init (Sched.iface specs) (.scope m (LoadScope.init numnodes)) numnodes maxfail mr idsOf).ctl.sched
      (init (Sched.iface specs) (.scope m (LoadScope.init numnodes)) numnodes maxfail mr idsOf).ctl.env := by
    refine ⟨rfl, ⟨?_, ?_⟩, LoadScope.init_di numnodes, ?_, ?_, ?_, ?_⟩
    · intro p hp; simp [LoadScope.init] at hp
    · intro a ha; simp [LoadScope.init] at ha
    · intro col hc; simp [LoadScope.init] at hc
    · intro _ o hm; simp [init, Ctl.init] at hm
    · intro hc; simp [LoadScope.init] at hc
    · intro n is hm; simp [init, Ctl.init] at hm
  have hp := run_discS (Sched.iface specs) (iface_scopeW specs m) idsOf steps h0 h
  cases hsc : st.ctl.sched with
  | scope m' s =>
    rw [hsc] at hp
    obtain ⟨rfl, hh⟩ := hp
    cases hc : s.collection with
    | none => have := hh.quiet hc _ hrun; cases this
    | some col =>
      obtain ⟨a1, a2⟩ := hh.agreed col hc
      obtain ⟨n', is', heq, scope, hsc'⟩ := a2 _ hrun rfl
      cases heq
      exact ⟨s, col, scope, rfl, hc, a1, hsc'⟩
  | nosched => rw [hsc] at hp; exact hp.elim
  | load s => rw [hsc] at hp; exact hp.elim
  | ws s => rw [hsc] at hp; exact hp.elim
  | each s => rw [hsc] at hp; exact hp.elim

/-- `WI` holds of scheduler and wire after every execution in a loadscope-family mode -/
theorem scope_wi (specs : AList Nat Nat) (m : String) (numnodes maxfail : Nat) (mr : Option Int)
    (idsOf : Nat → List String) (steps : List Step) {st : State Sched.Any String}
    (h : run (Sched.iface specs) idsOf (init (Sched.iface specs) (.scope m (LoadScope.init numnodes)) numnodes maxfail mr idsOf) steps = .ok st) :
    ∃ s, st.ctl.sched = .scope m s ∧ LoadScope.WI (Sched.splitOf m) s st.ctl.env := by
  have h0 : ScopeW m (init (Sched.iface specs) (.scope m (LoadScope.init numnodes)) numnodes maxfail mr idsOf).ctl.sched
      (init (Sched.iface specs) (.scope m (LoadScope.init numnodes)) numnodes maxfail mr idsOf).ctl.env := by
    refine ⟨rfl, ⟨?_, ?_⟩, LoadScope.init_di numnodes, ?_, ?_, ?_, ?_⟩
    · intro p hp; simp [LoadScope.init] at hp
    · intro a ha; simp [LoadScope.init] at ha
    · intro col hc; simp [LoadScope.init] at hc
    · intro _ o hm; simp [init, Ctl.init] at hm
    · intro hc; simp [LoadScope.init] at hc
    · intro n is hm; simp [init, Ctl.init] at hm
  have hp := run_discS (Sched.iface specs) (iface_scopeW specs m) idsOf steps h0 h
  cases hsc : st.ctl.sched with
  | scope m' s =>
    rw [hsc] at hp
    obtain ⟨rfl, hh⟩ := hp
    exact ⟨s, rfl, hh⟩
  | nosched => rw [hsc] at hp; exact hp.elim
  | load s => rw [hsc] at hp; exact hp.elim
  | ws s => rw [hsc] at hp; exact hp.elim
  | each s => rw [hsc] at hp; exact hp.elim

/-- **Tests go only to workers that collected exactly the agreed collection, whole system** (C09; `loadscope`, `loadfile`,
    `loadgroup`).  After any execution of the composed system — late replacements, crashes, any order of the collection reports —,
    every `runtests` command that has ever been written was addressed to a worker that is registered with the scheduler, the
    collection was agreed by then, and what that worker reported is exactly the agreed collection: a worker whose collection differs
    is never given a single test. -/
theorem C09_sys_scope_tests_only_to_agreeing_workers (specs : AList Nat Nat) (m : String) (numnodes maxfail : Nat) (mr : Option Int)
    (idsOf : Nat → List String) (steps : List Step) {st : State Sched.Any String}
    (h : run (Sched.iface specs) idsOf (init (Sched.iface specs) (.scope m (LoadScope.init numnodes)) numnodes maxfail mr idsOf) steps = .ok st)
    (n : Nat) (is : List Nat) (hrun : SOut.run n is ∈ st.ctl.env.outs) :
    ∃ s col, st.ctl.sched = .scope m s ∧ s.collection = some col ∧ AList.lookup s.registered n = some col := by
  obtain ⟨s, hs, hwi⟩ := scope_wi specs m numnodes maxfail mr idsOf steps h
  cases hc : s.collection with
  | none => have := hwi.quiet hc _ hrun; cases this
  | some col =>
    refine ⟨s, col, hs, hc, ?_⟩
    have hk := hwi.toReg n is hrun
    cases hl : AList.lookup s.registered n with
    | none =>
      have := (AList.lookup_isSome_iff_mem_keys _ _).2 hk
      rw [hl] at this; cases this
    | some c =>
      have := (hwi.agreed col hc).1 _ (LoadScope.mem_of_lookup' hl)
      simp only at this
      rw [this]

/-- **What a worker runs is made of whole groups, in order** (C06, the observable form; `m` is `loadscope`, `loadfile` or `loadgroup`).
    After any execution of the composed system, for every worker process: the test indices it has put on its queue so far are the
    concatenation `L.flatten` of blocks, every block being the payload of one `runtests` of the log and consisting of tests of one
    single group of the agreed collection; and what it has run, holds and has queued is, in this order, a subsequence of that
    (`C05_sys_order_and_nextitem`) — so the tests of a block are executed together, in the order they were sent, with nothing of
    another block in between. -/
theorem C06_sys_worker_runs_whole_groups (specs : AList Nat Nat) (m : String) (numnodes maxfail : Nat) (mr : Option Int)
    (idsOf : Nat → List String) (steps : List Step) {st : State Sched.Any String}
    (h : run (Sched.iface specs) idsOf (init (Sched.iface specs) (.scope m (LoadScope.init numnodes)) numnodes maxfail mr idsOf) steps = .ok st)
    (k : Nat) (w : Wk String) (hw : st.wk[k]? = some w) :
    ∃ s, ∃ L : List (List Nat), st.ctl.sched = .scope m s ∧ w.w.received = L.flatten ∧
      (∀ is ∈ L, SOut.run k is ∈ st.ctl.env.outs ∧ ∃ col scope, s.collection = some col ∧
        ∀ i ∈ is, ∃ t, col[i]? = some t ∧ Sched.splitOf m t = scope) ∧
      (Worker.line w.w).Sublist w.w.received := by
  obtain ⟨s, hs, hwi⟩ := scope_wi specs m numnodes maxfail mr idsOf steps h
  obtain ⟨L, hL, hb⟩ := C05_sys_received_is_whole_commands (Sched.iface specs) (iface_appends specs) _ numnodes maxfail mr idsOf steps h k w hw
  have hline := (C05_sys_order_and_nextitem (Sched.iface specs) _ numnodes maxfail mr idsOf steps h w (List.mem_of_getElem? hw)).1
  refine ⟨s, L, hs, hL, ?_, hline⟩
  intro is his
  -- a command that hands out tests is a `runtests` of one group
  have hone : ∀ o ∈ st.ctl.env.outs, LoadScope.isRun o = true → ∃ n js, o = SOut.run n js ∧ ∃ col scope, s.collection = some col ∧
      ∀ i ∈ js, ∃ t, col[i]? = some t ∧ Sched.splitOf m t = scope := by
    intro o ho hr
    cases hc : s.collection with
    | none => have := hwi.quiet hc o ho; rw [this] at hr; cases hr
    | some col =>
      obtain ⟨n, js, rfl, scope, hsc⟩ := (hwi.agreed col hc).2 o ho hr
      exact ⟨n, js, rfl, col, scope, rfl, hsc⟩
  rcases hb is his with h1 | ⟨h1, _⟩
  · obtain ⟨n, js, heq, col, scope, hc, hsc⟩ := hone _ h1 rfl
    cases heq
    exact ⟨h1, col, scope, hc, hsc⟩
  · obtain ⟨n, js, heq, _⟩ := hone _ h1 rfl
    cases heq

/-! Non-vacuity: a `--dist loadfile` execution, replayed by the kernel, after which worker 0 holds the unit of `a.py` (both its tests,
    in collection order) and has been sent one `runtests` with their indices 0 and 2; the unit of `b.py` went with the top-up. -/
def scopeIds : Nat → List String := fun _ => ["a.py::x", "b.py::y", "a.py::z"]
def scopeInit : State Sched.Any String := init (Sched.iface []) (.scope "loadfile" (LoadScope.init 1)) 1 0 (some 4) scopeIds
def scopeSteps : List Step :=
  [.main 0 .none, .main 0 (.collect [] false false none), .recv 0, .ctl 0 false, .recv 0, .recv 0, .ctl 0 false]
def scopeFinal : Option (State Sched.Any String) :=
  match run (Sched.iface []) scopeIds scopeInit scopeSteps with | .ok st => some st | .error _ => none

theorem scopeRun : scopeFinal.map (fun st => st.ctl.env.outs) = some [.run 0 [0, 2], .run 0 [1], .shutdown 0] := by decide +kernel

example : LoadScope.unitsOf SplitScope.fileKeyS ["a.py::x", "b.py::y", "a.py::z"] =
    [("a.py", [("a.py::x", false), ("a.py::z", false)]), ("b.py", [("b.py::y", false)])] := by decide +kernel

/-- in that execution both keys are in worker 0's assigned work (so the premises `k ∈ keys a.2` of `C06_sys_group_in_one_place` are met) -/
theorem scopeRun_assigned : scopeFinal.map (fun st => match st.ctl.sched with
    | .scope _ s => (s.assigned.map (fun a => (a.1, AList.keys a.2)), AList.keys s.workqueue) | _ => ([], [])) =
    some ([(0, ["a.py", "b.py"])], []) := by decide +kernel

/-- the wire theorem instantiated on that execution: the `runtests 0 [0, 2]` that was written carries tests of one file -/
example : ∃ st, run (Sched.iface []) scopeIds scopeInit scopeSteps = .ok st ∧ SOut.run 0 [0, 2] ∈ st.ctl.env.outs ∧
    ∃ s col scope, st.ctl.sched = .scope "loadfile" s ∧ s.collection = some col ∧
      ∀ i ∈ [0, 2], ∃ t, col[i]? = some t ∧ Sched.splitOf "loadfile" t = scope := by
  have h := scopeRun
  unfold scopeFinal at h
  cases hr : run (Sched.iface []) scopeIds scopeInit scopeSteps with
  | error e => rw [hr] at h; simp at h
  | ok st =>
    rw [hr] at h
    simp only [Option.map_some, Option.some.injEq] at h
    have hrun : SOut.run 0 [0, 2] ∈ st.ctl.env.outs := by rw [h]; simp
    obtain ⟨s, col, scope, a, b, _, c⟩ := C06_sys_every_runtests_one_group [] "loadfile" 1 0 (some 4) scopeIds scopeSteps hr 0 [0, 2] hrun
    exact ⟨st, rfl, hrun, s, col, scope, a, b, c⟩

/-- two deliveries later worker 0 has received `[0, 2] ++ [1]`: the blocks of the theorem above are `[[0, 2], [1]]` -/
theorem scopeRun_received :
    (match run (Sched.iface []) scopeIds scopeInit (scopeSteps ++ [.deliver 0, .deliver 0]) with
      | .ok st => st.wk.map (fun w => w.w.received) | .error _ => []) = [[0, 2, 1]] := by decide +kernel

end Xdist.Sys
