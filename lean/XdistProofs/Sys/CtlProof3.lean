import XdistProofs.Sys.CtlProof2
/-! `WireFacts` for every event of the load mode. -/
namespace Xdist.Sys
open Xdist Xdist.Ctl

variable {τ : Type} [DecidableEq τ]

/-- the tail of shutdown signals of an iteration -/
theorem tail_facts {c c' : Ctl.State (Load.State τ) τ} {ev : Ctl.Event τ} {s1 : Load.State τ} {e1 : Env} {t : List (Atom τ)}
    (h : Steps loadI s1 e1 t c'.sched c'.env) (hs : AllShut (TgtK loadI c c' ev) t) (b : Load.Books) :
    c'.sched = s1 ∧ ∃ new, Load.Acc b e1 new b c'.env ∧
      ∀ o ∈ new, ∀ n, Contract.cmdNode o = some n →
        n ∈ AList.keys c.sched.node2pending ∨ n ∈ AList.keys c'.sched.node2pending ∨ ev = .workerready n := by
  obtain ⟨i1, new, a, tg⟩ := steps_shuts h hs b
  exact ⟨i1, new, a, fun o ho n hn => tg o ho n hn⟩

theorem wire_facts {c c' : Ctl.State (Load.State τ) τ} {ev : Ctl.Event τ} (hl : loopOnce loadI c ev = .ok c') :
    ∃ new b1, WireFacts c ev c' new b1 := by
  obtain ⟨as, hsteps, hshape⟩ := loopOnce_steps hl
  -- the generic case: shutdown signals only
  have shutsOnly : AllShut (TgtK loadI c c' ev) as → Prep ev c.sched.node2pending c.sched.node2pending →
      ∃ new b1, WireFacts c ev c' new b1 := by
    intro hs hprep
    obtain ⟨i1, new, a, tg⟩ := tail_facts hsteps hs c.sched.node2pending
    refine ⟨new, c.sched.node2pending, a.outs, hprep, ?_, tg⟩
    rw [i1]; exact a
  cases ev with
  | workerready n =>
    obtain ⟨t, ht, hcase⟩ := hshape
    rcases hcase with ⟨_, rfl⟩ | ⟨_, rfl⟩
    · have h2 := steps_shut_inv hsteps
      obtain ⟨new1, a1, t1⟩ := shutdown_acc' c.sched.node2pending c.env n
      obtain ⟨i1, new2, a2, tg2⟩ := tail_facts h2 ht c.sched.node2pending
      refine ⟨new1 ++ new2, c.sched.node2pending, (a1.trans a2).outs, Or.inl rfl, by rw [i1]; exact a1.trans a2, ?_⟩
      intro o ho m hm
      rcases List.mem_append.1 ho with ho | ho
      · have := t1 o ho; subst this
        simp [Contract.cmdNode] at hm; subst hm
        exact Or.inr (Or.inr rfl)
      · exact tg2 o ho m hm
    · obtain ⟨s1, e1, r, h1, h2⟩ := steps_call_inv hsteps
      obtain ⟨hl1, hs1, rfl⟩ := addNode_call h1
      obtain ⟨i1, new2, a2, tg2⟩ := tail_facts h2 ht s1.node2pending
      refine ⟨new2, s1.node2pending, a2.outs, Or.inr ⟨hl1, hs1⟩, by rw [i1]; exact a2, tg2⟩
  | complete n i slow =>
    obtain ⟨t, ht, rfl⟩ := hshape
    obtain ⟨s1, e1, r, h1, h2⟩ := steps_call_inv hsteps
    obtain ⟨book, hb, hi, new1, a1, tg1⟩ := markComplete_call h1
    obtain ⟨i1, new2, a2, tg2⟩ := tail_facts h2 ht s1.node2pending
    refine ⟨new1 ++ new2, _, (a1.trans a2).outs, ⟨book, hb, hi, rfl⟩, by rw [i1]; exact a1.trans a2, ?_⟩
    intro o ho m hm
    rcases List.mem_append.1 ho with ho | ho
    · exact Or.inl (tg1 o ho m hm)
    · exact tg2 o ho m hm
  | unscheduled n is =>
    obtain ⟨t, ht, rfl⟩ := hshape
    obtain ⟨s1, e1, r, h1, _⟩ := steps_call_inv hsteps
    simp [Load.step] at h1
  | collectionfinish n ids =>
    obtain ⟨t, ht, hcase⟩ := hshape
    rcases hcase with ⟨_, rfl⟩ | ⟨_, _, _, rfl⟩ | ⟨_, _, rfl⟩
    · exact shutsOnly ht rfl
    · obtain ⟨s1, e1, r, h1, h2⟩ := steps_call_inv hsteps
      obtain ⟨new1, a1, tg1⟩ := plain_call (Or.inl ⟨n, ids, rfl⟩) h1
      obtain ⟨i1, new2, a2, tg2⟩ := tail_facts h2 ht s1.node2pending
      refine ⟨new1 ++ new2, c.sched.node2pending, (a1.trans a2).outs, rfl, by rw [i1]; exact a1.trans a2, ?_⟩
      intro o ho m hm
      rcases List.mem_append.1 ho with ho | ho
      · exact Or.inl (tg1 o ho m hm)
      · exact tg2 o ho m hm
    · obtain ⟨s1, e1, r, h1, h2⟩ := steps_call_inv hsteps
      obtain ⟨s2, e2, r2, h3, h4⟩ := steps_call_inv h2
      obtain ⟨new1, a1, tg1⟩ := plain_call (Or.inl ⟨n, ids, rfl⟩) h1
      obtain ⟨new2, a2, tg2⟩ := plain_call (Or.inr (Or.inl rfl)) h3
      obtain ⟨i1, new3, a3, tg3⟩ := tail_facts h4 ht s2.node2pending
      refine ⟨new1 ++ new2 ++ new3, c.sched.node2pending, ((a1.trans a2).trans a3).outs, rfl, by rw [i1]; exact (a1.trans a2).trans a3, ?_⟩
      intro o ho m hm
      rcases List.mem_append.1 ho with ho | ho
      · rcases List.mem_append.1 ho with ho | ho
        · exact Or.inl (tg1 o ho m hm)
        · have := tg2 o ho m hm
          rw [a1.keys] at this
          exact Or.inl this
      · exact tg3 o ho m hm
  | errordown n rq =>
    obtain ⟨t, ht, hcase⟩ := hshape
    rcases hcase with rfl | rfl | ⟨x, _, rfl⟩
    · exact shutsOnly ht (Or.inl rfl)
    · obtain ⟨s1, e1, r, h1, h2⟩ := steps_call_inv hsteps
      obtain ⟨book, hb, new1, a1, tg1⟩ := removeNode_call h1
      obtain ⟨i1, new2, a2, tg2⟩ := tail_facts h2 ht s1.node2pending
      refine ⟨new1 ++ new2, _, (a1.trans a2).outs, Or.inr ⟨book, hb, rfl⟩, by rw [i1]; exact a1.trans a2, ?_⟩
      intro o ho m hm
      rcases List.mem_append.1 ho with ho | ho
      · exact Or.inl (tg1 o ho m hm)
      · exact tg2 o ho m hm
    · obtain ⟨s1, e1, r, h1, h2⟩ := steps_call_inv hsteps
      obtain ⟨s2, e2, r2, h3, h4⟩ := steps_call_inv h2
      obtain ⟨book, hb, new1, a1, tg1⟩ := removeNode_call h1
      obtain ⟨new2, a2, tg2⟩ := plain_call (Or.inr (Or.inr ⟨x, rfl⟩)) h3
      obtain ⟨i1, new3, a3, tg3⟩ := tail_facts h4 ht s2.node2pending
      refine ⟨new1 ++ new2 ++ new3, _, ((a1.trans a2).trans a3).outs, Or.inr ⟨book, hb, rfl⟩, by rw [i1]; exact (a1.trans a2).trans a3, ?_⟩
      intro o ho m hm
      rcases List.mem_append.1 ho with ho | ho
      · rcases List.mem_append.1 ho with ho | ho
        · exact Or.inl (tg1 o ho m hm)
        · have := tg2 o ho m hm
          rw [a1.keys] at this
          exact Or.inl (AList.mem_keys_of_mem_keys_erase _ _ _ this)
      · exact tg3 o ho m hm
  | workerfinished n x sf ss =>
    obtain ⟨t0, t, ht0, ht, hcase⟩ := hshape
    rcases hcase with rfl | rfl
    · exact shutsOnly (allShut_append ht0 ht) (Or.inl rfl)
    · obtain ⟨s0, e0, h0, h0'⟩ := steps_append_inv hsteps
      obtain ⟨i0, new0, a0, tg0⟩ := steps_shuts h0 ht0 (AList.erase c.sched.node2pending n)
      subst i0
      obtain ⟨s1, e1, r, h1, h2⟩ := steps_call_inv h0'
      obtain ⟨book, hb, new1, a1, tg1⟩ := removeNode_call h1
      obtain ⟨i1, new2, a2, tg2⟩ := tail_facts h2 ht s1.node2pending
      refine ⟨new0 ++ new1 ++ new2, _, ((a0.trans a1).trans a2).outs, Or.inr ⟨book, hb, rfl⟩, by rw [i1]; exact (a0.trans a1).trans a2, ?_⟩
      intro o ho m hm
      rcases List.mem_append.1 ho with ho | ho
      · rcases List.mem_append.1 ho with ho | ho
        · exact tg0 o ho m hm
        · exact Or.inl (tg1 o ho m hm)
      · exact tg2 o ho m hm
  | internalError n => exact shutsOnly hshape rfl
  | testreport n f => exact shutsOnly hshape rfl
  | collectreport n k f => exact shutsOnly hshape rfl
  | other => exact shutsOnly hshape rfl

end Xdist.Sys
