import XdistProofs.Sys.CtlFacts
/-! The worker whose posted event the controller handles. -/
namespace Xdist.Sys
open Xdist

variable {τ : Type} [DecidableEq τ]

/-- the event as the handler sees it: the re-queue decision of the crash hook is taken when `errordown` is handled -/
def fixRq (rq : Bool) : Ctl.Event τ → Ctl.Event τ
  | .errordown n _ => .errordown n rq
  | e => e

theorem fixRq_isReady (rq : Bool) (e : Ctl.Event τ) : isReady (fixRq rq e) = isReady e := by cases e <;> rfl
theorem fixRq_isColl (rq : Bool) (e : Ctl.Event τ) : isColl (fixRq rq e) = isColl e := by cases e <;> rfl
theorem fixRq_isNotice (rq : Bool) (e : Ctl.Event τ) : isNotice (fixRq rq e) = isNotice e := by cases e <;> rfl
theorem fixRq_complIdx (rq : Bool) (e : Ctl.Event τ) : complIdx (fixRq rq e) = complIdx e := by cases e <;> rfl
theorem fixRq_subject (rq : Bool) (e : Ctl.Event τ) : subjectOf (fixRq rq e) = subjectOf e := by cases e <;> rfl
theorem fixRq_downOf (rq : Bool) (e : Ctl.Event τ) : downOf (fixRq rq e) = downOf e := by cases e <;> rfl

theorem own_notice_down {k : Nat} {e : Ctl.Event τ} (ho : Own k e = true) (hn : isNotice e = true) : downOf e = some k := by
  cases e <;> simp [isNotice] at hn <;> simp [Own] at ho <;> simp [downOf, ho]

theorem own_down_notice {k : Nat} {e : Ctl.Event τ} (ho : Own k e = true) {a : Nat} (hd : downOf e = some a) :
    isNotice e = true ∧ a = k := by
  cases e <;> simp [downOf] at hd <;> simp [Own] at ho <;> simp [isNotice] <;> omega

theorem own_subject {k : Nat} {e : Ctl.Event τ} (ho : Own k e = true) : subjectOf e = some k ∨ e = .other := by
  cases e <;> simp [Own] at ho <;> simp [subjectOf, ho]

theorem any_tail_false' {α : Type} {p : α → Bool} {l : List α} (h : l.any p = false) : l.tail.any p = false := by
  cases l with
  | nil => rfl
  | cons a t => simp only [List.any_cons, Bool.or_eq_false_iff] at h; exact h.2

theorem dropLast_cons_of_ne {α : Type} (a : α) {r : List α} (h : r ≠ []) : (a :: r).dropLast = a :: r.dropLast := by
  cases r with
  | nil => exact absurd rfl h
  | cons b t => rfl

end Xdist.Sys

namespace Xdist.Sys
open Xdist

variable {τ : Type} [DecidableEq τ]

/-- **the worker whose oldest posted event is handled** -/
theorem ctl_wk_self {c c' : Ctl.State (Load.State τ) τ} {ev0 : Ctl.Event τ} {rq : Bool} {new : List SOut} {b1 : Load.Books}
    (f : CtlFacts c (fixRq rq ev0) c' new b1) {k : Nat} {w : Wk τ} {rest : List (Ctl.Event τ)} (h : WkInv c k w)
    (hpost : w.posted = ev0 :: rest) (hlt : k < c.nextId) :
    WkInv c' k (routed k new ({ w with posted := rest } : Wk τ)) := by
  -- abbreviations
  have hown : Own k ev0 = true := h.ownP ev0 (by rw [hpost]; simp)
  have hka : k ∈ c.active := by
    apply Classical.byContradiction
    intro hk
    have := h.inactive hk
    rw [hpost] at this; cases this
  have hd : (c'.env.flags.get k).down = (c.env.flags.get k).down := (f.acc.other k).1
  have hbr : (c'.env.flags.get k).broken = (c.env.flags.get k).broken := (f.acc.other k).2
  have hflw : flight k w = ev0 :: flight k ({ w with posted := rest } : Wk τ) := by simp [flight, hpost]
  -- the routed worker
  have hfl : flight k (routed k new ({ w with posted := rest } : Wk τ)) = flight k ({ w with posted := rest } : Wk τ) := by
    unfold routed; split <;> rfl
  have hfl' : flight k (routed k new ({ w with posted := rest } : Wk τ)) = (flight k w).tail := by rw [hfl, hflw]; rfl
  have hph : (routed k new ({ w with posted := rest } : Wk τ)).phase = w.phase := by unfold routed; split <;> rfl
  have hal : (routed k new ({ w with posted := rest } : Wk τ)).alive = w.alive := by unfold routed; split <;> rfl
  have hww : (routed k new ({ w with posted := rest } : Wk τ)).w = w.w := by unfold routed; split <;> rfl
  have hpo : (routed k new ({ w with posted := rest } : Wk τ)).posted = rest := by unfold routed; split <;> rfl
  have hou : (routed k new ({ w with posted := rest } : Wk τ)).outbox = w.outbox := by unfold routed; split <;> rfl
  have hcb : (routed k new ({ w with posted := rest } : Wk τ)).cbSet = w.cbSet := by unfold routed; split <;> rfl
  have hsu : (routed k new ({ w with posted := rest } : Wk τ)).sub = w.sub := by unfold routed; split <;> rfl
  have hsd : c'.env.flags.shuttingDown k = false → c.env.flags.shuttingDown k = false := by
    intro hh
    cases hx : c.env.flags.shuttingDown k with
    | false => rfl
    | true => rw [f.flagMono k hx] at hh; cases hh
  -- death notices
  have hnot_down : isNotice ev0 = true → (c.env.flags.get k).down = true := by
    intro hn; exact h.noticeDown (by rw [hpost]; simp [hn])
  have hact' : isNotice ev0 = false → k ∈ c'.active := by
    intro hn
    rcases f.actKeep k hka with hh | hh
    · exact hh
    · rw [fixRq_downOf] at hh
      have := (own_down_notice hown hh).1
      rw [hn] at this; cases this
  have hgone : isNotice ev0 = true → k ∉ c'.active := by
    intro hn
    exact f.actGone k (by rw [fixRq_downOf]; exact own_notice_down hown hn)
  have hrest_nil : isNotice ev0 = true → rest = [] := by
    intro hn
    apply Classical.byContradiction
    intro hne
    have := h.noticeLast
    rw [hpost, dropLast_cons_of_ne ev0 hne] at this
    simp [hn] at this
  have hboot : w.alive = true → w.phase ≠ .boot := by
    intro ha hb
    have := (h.boot0 ha hb).2
    rw [hpost] at this; cases this
  refine ⟨?_, ?_, ?_, ?_, ?_, ?_, fun _ => trivial, ?_, ?_, ?_, ?_, ?_, ?_, ?_, ?_, ?_, ?_, ?_, ?_, ?_, ?_, ?_, ?_, ?_, ?_, ?_⟩
  · rw [hph, hcb, hww]; exact h.loopCb
  · rw [hww, hsu]; exact h.running
  · rw [hww]; exact h.have1
  · rw [hww]; exact h.init0
  · rw [hph, hww, hcb]; exact h.early
  · rw [hal, hph]; intro ha hb; exact absurd hb (hboot ha)
  · intro x hx
    unfold routed at hx
    split at hx
    · rcases List.mem_append.1 hx with hx | hx
      · exact h.inboxK x hx
      · exact deliverTo_kinds k new f.acc.kinds x hx
    · exact h.inboxK x hx
  · rw [hpo]; intro e he; exact h.ownP e (by rw [hpost]; exact List.mem_cons_of_mem _ he)
  · rw [hou]; exact h.ownO
  · rw [hou]; exact h.evPlain
  · rw [hal, hbr]; exact h.notBroken
  · intro hk hdd
    rw [hal, hph, hou]
    exact h.notice1 hka (by rw [← hd]; exact hdd)
  · -- still active, yet written off: the notice is further back in the queue
    intro hk hdd
    rw [hpo]
    have hn : isNotice ev0 = false := by
      cases hh : isNotice ev0 with
      | false => rfl
      | true => exact absurd hk (hgone hh)
    have := h.notice2 hka (by rw [← hd]; exact hdd)
    rw [hpost] at this
    simpa [hn] using this
  · rw [hpo, hd]
    intro hh
    exact h.noticeDown (by rw [hpost]; simp [hh])
  · intro hk
    rw [hpo]
    cases hn : isNotice ev0 with
    | true => exact hrest_nil hn
    | false => exact absurd (hact' hn) hk
  · intro hk
    rw [hd]
    cases hn : isNotice ev0 with
    | true => exact hnot_down hn
    | false => exact absurd (hact' hn) hk
  · rw [hpo]
    have := h.noticeLast
    rw [hpost] at this
    cases hr : rest with
    | nil => rfl
    | cons a t =>
      rw [hr, dropLast_cons_of_ne ev0 (by simp)] at this
      simp only [List.any_cons, Bool.or_eq_false_iff] at this
      exact this.2
  · rw [hph, hfl']
    intro hb
    exact any_tail_false' (h.bootNoReady hb)
  · intro halive hs
    rw [hal] at halive
    rw [shutSeen_def, hww]
    rcases f.acc.sentNew k hs with hs' | hs' | hs'
    · have := h.shut halive hs'
      rw [shutSeen_def] at this
      simp only [Bool.or_eq_true] at this ⊢
      rcases this with (h1 | h1) | h1
      · left; left
        unfold routed
        simp only [halive, ↓reduceIte]
        simp only [List.contains_eq_mem, decide_eq_true_eq] at h1 ⊢
        exact List.mem_append_left _ h1
      · exact Or.inl (Or.inr h1)
      · exact Or.inr h1
    · simp only [Bool.or_eq_true]
      left; left
      unfold routed
      simp only [halive, ↓reduceIte, List.contains_eq_mem, decide_eq_true_eq]
      exact List.mem_append_right _ (shutdown_mem_deliverTo k new hs')
    · rw [h.notBroken halive] at hs'; cases hs'
  · -- registration
    intro hk hs hp hr
    rw [hph] at hp
    rw [hfl'] at hr
    cases hrdy : isReady ev0 with
    | true =>
      -- this is the `workerready` of `k`
      obtain ⟨n, rfl⟩ : ∃ n, ev0 = .workerready n := by cases ev0 <;> simp [isReady] at hrdy; exact ⟨_, rfl⟩
      have hnk : n = k := by simpa [Own] using hown
      subst hnk
      obtain ⟨r1, r2⟩ := f.readyKey n rfl
      cases hsh : c.shuttingdown with
      | true => rw [r1 hsh] at hs; cases hs
      | false => exact r2 hsh
    | false =>
      have hr0 : (flight k w).any isReady = false := by rw [hflw]; simp [hrdy]; rw [hflw] at hr; simpa using hr
      have hkey := h.ready hka (hsd hs) hp hr0
      -- `k` is not removed by this event: it is still active
      have hnn : isNotice ev0 = false := by
        cases hh : isNotice ev0 with
        | false => rfl
        | true => exact absurd hk (hgone hh)
      have hb1 : (AList.lookup b1 k).isSome := by
        have hks := (AList.lookup_isSome_iff_mem_keys _ _).2 hkey
        have hp' := f.prep
        cases ev0 with
        | workerready n => simp [isReady] at hrdy
        | complete n i s =>
          obtain ⟨book, _, _, rfl⟩ := hp'
          by_cases hnk : k = n
          · subst hnk; simp [AList.lookup_set_same]
          · rw [AList.lookup_set_other _ _ _ _ hnk]; exact hks
        | errordown n r => simp [isNotice] at hnn
        | workerfinished n x a b => simp [isNotice] at hnn
        | internalError n => cases hp'; exact hks
        | collectionfinish n ids => cases hp'; exact hks
        | testreport n fl => cases hp'; exact hks
        | unscheduled n is => cases hp'; exact hks
        | collectreport n key fl => cases hp'; exact hks
        | other => cases hp'; exact hks
      rw [f.acc.keys]
      exact (AList.lookup_isSome_iff_mem_keys _ _).1 hb1
  · rw [hd, hfl']
    intro hdd
    exact any_tail_false' (h.readyTail hdd)
  · rw [hd, hfl']
    intro hdd hr
    rw [h.readyTail hdd] at hr; cases hr
  · -- two queued tests
    cases hdn : (c.env.flags.get k).down with
    | true =>
      right
      exact qnD_of_flag (by unfold Flags.shuttingDown; rw [hd, hdn]; rfl)
    | false =>
      cases hcoll : isColl ev0 with
      | true =>
        obtain ⟨n, ids, rfl⟩ : ∃ n ids, ev0 = .collectionfinish n ids := by cases ev0 <;> simp [isColl] at hcoll; exact ⟨_, _, rfl⟩
        have hnk : n = k := by simpa [Own] using hown
        subst hnk
        right
        rw [qnD_iff]
        exact f.collQ n ids rfl
      | false =>
        have hcp : collPending k (routed k new ({ w with posted := rest } : Wk τ)) = collPending k w := by
          unfold collPending
          rw [hfl, hph, hflw]
          simp [hcoll]
        rw [hcp]
        cases hrdy : isReady ev0 with
        | true =>
          left
          exact h.readyColl hdn (by rw [hflw]; simp [hrdy])
        | false =>
          rcases h.qn with hq | hq
          · exact Or.inl hq
          · right
            rw [qnD_iff] at hq ⊢
            refine f.gq (fun m => m = k) (fun m hm => by rw [hm]; exact hq) ?_ k rfl
            intro n hn _
            have : isReady (fixRq rq ev0) = true := by rw [hn]; rfl
            rw [fixRq_isReady, hrdy] at this; cases this
  · intro hk
    cases hn : isNotice ev0 with
    | true =>
      exact Or.inr (f.downKeys k (by rw [fixRq_downOf]; exact own_notice_down hown hn) hk)
    | false => exact Or.inl (hact' hn)
  · -- books and wire
    intro halive hdd
    rw [hal] at halive
    rw [hd] at hdd
    have hs := h.sync halive hdd
    have hnb := h.notBroken halive
    have hnn : isNotice ev0 = false := by
      cases hh : isNotice ev0 with
      | false => rfl
      | true => rw [hnot_down hh] at hdd; cases hdd
    have hruns : inboxRuns (routed k new ({ w with posted := rest } : Wk τ)) = inboxRuns w ++ Load.sentTo new k := by
      have e := runs_deliverTo k new f.acc.kinds
      unfold routed inboxRuns
      simp only [halive, ↓reduceIte, List.flatMap_append]
      exact congrArg _ e
    have hheld : heldS (routed k new ({ w with posted := rest } : Wk τ)) = heldS w := by unfold heldS; rw [hww]
    have hnoready_tail : (flight k w).tail.any isReady = false := h.readyTail hdd
    -- the new book of `k`, by the kind of the event
    have hcompl : completes (flight k w) = (complIdx ev0).toList ++ completes (flight k ({ w with posted := rest } : Wk τ)) := by
      rw [hflw]; simp only [completes, List.filterMap_cons]
      cases complIdx ev0 <;> rfl
    unfold SyncD at hs ⊢
    rw [hfl, hheld, hruns]
    have hp' := f.prep
    -- case analysis on the event
    cases hci : complIdx ev0 with
    | some i =>
      obtain ⟨n, s, rfl⟩ : ∃ n s, ev0 = .complete n i s := by
        cases ev0 <;> simp [complIdx] at hci
        subst hci; exact ⟨_, _, rfl⟩
      have hnk : n = k := by simpa [Own] using hown
      subst hnk
      obtain ⟨book, hbk, hi, rfl⟩ := hp'
      rw [hbk] at hs
      simp only at hs
      rw [hcompl, hci] at hs
      simp only [Option.toList_some, List.singleton_append, List.cons_append] at hs
      obtain ⟨extra, he1, he2⟩ := f.acc.books n (book.erase i) (AList.lookup_set_same _ _ _)
      rw [he1]
      simp only
      rw [he2 hnb, hs]
      simp [List.append_assoc]
    | none =>
      have hcompl' : completes (flight k w) = completes (flight k ({ w with posted := rest } : Wk τ)) := by
        rw [hcompl, hci]; rfl
      -- the book of `k` before the sends of this iteration
      have hb1 : AList.lookup b1 k = AList.lookup c.sched.node2pending k ∨
          (AList.lookup c.sched.node2pending k = none ∧ AList.lookup b1 k = some [] ∧ isReady ev0 = true) := by
        cases ev0 with
        | workerready n =>
          have hnk : n = k := by simpa [Own] using hown
          subst hnk
          rcases hp' with rfl | ⟨hl, rfl⟩
          · exact Or.inl rfl
          · exact Or.inr ⟨hl, AList.lookup_set_same _ _ _, rfl⟩
        | complete n i s => simp [complIdx] at hci
        | errordown n r => simp [isNotice] at hnn
        | workerfinished n x a b => simp [isNotice] at hnn
        | internalError n => cases hp'; exact Or.inl rfl
        | collectionfinish n ids => cases hp'; exact Or.inl rfl
        | testreport n fl => cases hp'; exact Or.inl rfl
        | unscheduled n is => cases hp'; exact Or.inl rfl
        | collectreport n key fl => cases hp'; exact Or.inl rfl
        | other => cases hp'; exact Or.inl rfl
      rcases hb1 with hb1 | ⟨hl, hb1, hrdy⟩
      · cases hb : AList.lookup c.sched.node2pending k with
        | none =>
          have hb' : AList.lookup c'.sched.node2pending k = none := by
            cases hx : AList.lookup c'.sched.node2pending k with
            | none => rfl
            | some bk =>
              have : k ∈ AList.keys b1 := by
                rw [← f.acc.keys]; exact (AList.lookup_isSome_iff_mem_keys _ _).1 (by rw [hx]; rfl)
              have := (AList.lookup_isSome_iff_mem_keys _ _).2 this
              rw [hb1, hb] at this; cases this
          rw [hb']
          simp only
          intro hx
          rw [hph] at hx
          rcases hx with hx | hx
          · exact absurd hx (hboot halive)
          · have ht : (flight k w).tail = flight k ({ w with posted := rest } : Wk τ) := by rw [hflw]; rfl
            rw [← ht, hnoready_tail] at hx; cases hx
        | some book =>
          rw [hb] at hs
          simp only at hs
          obtain ⟨extra, he1, he2⟩ := f.acc.books k book (by rw [hb1, hb])
          rw [he1]
          simp only
          rw [he2 hnb, hs, hcompl']
          simp [List.append_assoc]
      · -- the worker has just been registered: it holds nothing yet
        rw [hl] at hs
        simp only at hs
        obtain ⟨x1, x2, x3⟩ := hs (Or.inr (by rw [hflw]; simp [hrdy]))
        obtain ⟨extra, he1, he2⟩ := f.acc.books k [] hb1
        rw [he1]
        simp only
        rw [he2 hnb, ← hcompl', x1, x2, x3]
        simp

end Xdist.Sys
