import XdistProofs.Sys.Dead
/-! `main`, `deliver`, `crash`, `recv` keep the dead-worker layer (`Inv7`). -/
namespace Xdist.Sys
open Xdist Xdist.Ctl Xdist.Load

variable {τ : Type} [DecidableEq τ]

theorem end_split_unique {o : List (WMsg τ)} (hno : ∀ m ∈ o, isEnd m = false) {a b : List (WMsg τ)}
    (h : o ++ [WMsg.endMarker] = a ++ WMsg.endMarker :: b) : b = [] := by
  induction o generalizing a with
  | nil =>
    cases a with
    | nil => simp only [List.nil_append, List.cons.injEq] at h; exact h.2.symm
    | cons y t =>
      simp only [List.nil_append, List.cons_append, List.cons.injEq] at h
      have := congrArg List.length h.2
      simp at this
  | cons y o ih =>
    cases a with
    | nil =>
      simp only [List.cons_append, List.nil_append, List.cons.injEq] at h
      have := hno y (by simp)
      rw [h.1] at this; simp [isEnd] at this
    | cons z t =>
      simp only [List.cons_append, List.cons.injEq] at h
      exact ih (fun m hm => hno m (List.mem_cons_of_mem _ hm)) h.2

/-- a step of a live worker's own threads that emits `ms`, none of them the end marker unless the worker is then done -/
theorem wkInv7_alive {c : Ctl.State (Load.State τ) τ} {W : List Nat} {k : Nat} {w w' : Wk τ} (ms : List (WMsg τ))
    (h : WkInv7 c W k w) (ha : w.alive = true) (ha' : w'.alive = true) (hnd : w.phase ≠ .done)
    (houtbox : w'.outbox = w.outbox ++ ms) (hms : w'.phase ≠ .done → ∀ m ∈ ms, isEnd m = false) : WkInv7 c W k w' := by
  have hdead : w'.alive = false → False := by intro hh; rw [ha'] at hh; cases hh
  exact {
    endNone := (by
      intro _ hp m hm
      rw [houtbox] at hm
      rcases List.mem_append.1 hm with hm | hm
      · exact h.endNone ha hnd m hm
      · exact hms hp m hm)
    endLast := (fun hh => (hdead hh).elim)
    deadNoFin := (fun hh => (hdead hh).elim)
    downWhy := (fun _ hW hd => absurd (h.downWhy ha hW hd) hnd)
    deadDown := (fun hh => (hdead hh).elim)
    deadSync := (fun hh => (hdead hh).elim) }

theorem mainStep_inv7 {c : Ctl.State (Load.State τ) τ} {W : List Nat} {k : Nat} {w w' : Wk τ} {p : MainP} (h : WkInv7 c W k w)
    (hm : mainStep k w p = some w') : WkInv7 c W k w' := by
  unfold mainStep at hm
  have ha : w.alive = true := by
    cases hh : w.alive with
    | true => rfl
    | false => simp [hh] at hm
  have hna : (!w.alive) = false := by simp [ha]
  simp only [hna, Bool.false_eq_true, ↓reduceIte] at hm
  cases hph : w.phase with
  | boot =>
    simp only [hph, Option.some.injEq] at hm
    subst hm
    exact wkInv7_alive [.ev (.workerready k)] h ha ha (by rw [hph]; simp) rfl (by intro _ m hm; simp at hm; subst hm; rfl)
  | collect =>
    simp only [hph] at hm
    cases p with
    | collect errs garbage intr sf0 =>
      simp only at hm
      have hfin : ∀ m ∈ ([WMsg.ignored] ++ errs.map (fun (e : String × Bool) => WMsg.ev (Ctl.Event.collectreport (τ := τ) k e.1 e.2)) ++
            [WMsg.ev (Ctl.Event.collectionfinish k w.ids)]), isEnd m = false := by
        intro m hm
        simp only [List.mem_append, List.mem_cons, List.mem_map, List.not_mem_nil, or_false] at hm
        rcases hm with (rfl | ⟨x, _, rfl⟩) | rfl <;> rfl
      split at hm
      · simp only [Option.some.injEq] at hm
        subst hm
        exact wkInv7_alive _ h ha ha (by rw [hph]; simp) rfl (fun _ => hfin)
      · simp only [Option.some.injEq] at hm
        subst hm
        refine wkInv7_alive (([WMsg.ignored] ++ errs.map (fun (e : String × Bool) => WMsg.ev (Ctl.Event.collectreport k e.1 e.2)) ++
            [WMsg.ev (Ctl.Event.collectionfinish k w.ids)]) ++ (if garbage then [WMsg.garbage] else [])) h ha ha (by rw [hph]; simp)
          (by simp [List.append_assoc]) ?_
        intro _ m hm
        rcases List.mem_append.1 hm with hm | hm
        · exact hfin m hm
        · split at hm <;> simp at hm
          subst hm; rfl
    | none => simp at hm
    | reports fs sf ss ex => simp at hm
    | complete slow => simp at hm
  | finish =>
    simp only [hph, Option.some.injEq] at hm
    subst hm
    exact wkInv7_alive [.fin w.exitstatus w.sf w.ss, .endMarker] h ha ha (by rw [hph]; simp) rfl (fun hp => absurd rfl hp)
  | done => simp [hph] at hm
  | loop =>
    simp only [hph] at hm
    have hnd : w.phase ≠ .done := by rw [hph]; simp
    cases hpc : w.w.pc with
    | init =>
      simp only [hpc] at hm
      obtain ⟨v, hv, rfl⟩ := Option.map_eq_some_iff.1 hm
      exact wkInv7_alive [] h ha ha hnd (by simp) (by intro _ m hm; simp at hm)
    | haveItem =>
      simp only [hpc] at hm
      obtain ⟨v, hv, rfl⟩ := Option.map_eq_some_iff.1 hm
      exact wkInv7_alive [] h ha ha hnd (by simp) (by intro _ m hm; simp at hm)
    | done => simp [hpc] at hm
    | running =>
      simp only [hpc] at hm
      split at hm
      · simp only [Option.some.injEq] at hm
        subst hm
        exact wkInv7_alive [.ev .other] h ha ha hnd rfl (by intro _ m hm; simp at hm; subst hm; rfl)
      · simp only [Option.some.injEq] at hm
        subst hm
        refine wkInv7_alive _ h ha ha hnd (List.append_assoc _ _ _) ?_
        intro _ m hm
        simp only [List.mem_append, List.mem_map, List.mem_singleton] at hm
        rcases hm with ⟨x, _, rfl⟩ | rfl <;> rfl
      · split at hm
        · simp only [Option.some.injEq] at hm
          subst hm
          exact wkInv7_alive [] h ha ha hnd (by simp) (by intro _ m hm; simp at hm)
        · split at hm
          · rename_i i v hcur hfin
            simp only [Option.some.injEq] at hm
            subst hm
            exact wkInv7_alive [.ev (.complete k i _)] h ha ha hnd rfl (by intro _ m hm; simp at hm; subst hm; rfl)
          · cases hm
      · cases hm

theorem deliverStep_inv7 {c : Ctl.State (Load.State τ) τ} {W : List Nat} {k : Nat} {w w' : Wk τ} (h1 : WkInv c k w) (h : WkInv7 c W k w)
    (hd : deliverStep k w = some w') : WkInv7 c W k w' := by
  unfold deliverStep at hd
  split at hd
  · cases hd
  rename_i hg
  simp only [Bool.or_eq_true, Bool.not_eq_eq_eq_not, Bool.not_true, decide_eq_true_eq, not_or] at hg
  have hnd : w.phase ≠ .done := hg.2
  have ha : w.alive = true := by cases hh : w.alive <;> simp_all
  cases hi : w.inbox with
  | nil => simp [hi] at hd
  | cons cmd rest =>
    simp only [hi] at hd
    have hk := h1.inboxK cmd (by rw [hi]; simp)
    cases cmd with
    | run is =>
      simp only [Option.some.injEq] at hd
      subst hd
      exact wkInv7_alive [] h ha ha hnd (by simp) (by intro _ m hm; simp at hm)
    | shutdown =>
      simp only [Option.some.injEq] at hd
      subst hd
      exact wkInv7_alive [] h ha ha hnd (by simp) (by intro _ m hm; simp at hm)
    | runAll => simp [loadCmd] at hk
    | steal is => simp [loadCmd] at hk

/-- a worker dies (it had not finished): what the scheduler booked for it is what it held, plus what was on its way to it -/
theorem crash_wk7 {c : Ctl.State (Load.State τ) τ} {W : List Nat} {k : Nat} {w : Wk τ} (h1 : WkInv c k w) (h6 : WkInv6 c k w)
    (h : WkInv7 c W k w) (ha : w.alive = true) (hnd : w.phase ≠ .done) :
    WkInv7 c W k ({ w with alive := false, inbox := [], outbox := w.outbox ++ [.endMarker] } : Wk τ) := by
  have hfl : flight k ({ w with alive := false, inbox := [], outbox := w.outbox ++ [.endMarker] } : Wk τ) = flight k w := by
    simp [flight, List.filterMap_append, evOf]
  have hal : ({ w with alive := false, inbox := [], outbox := w.outbox ++ [.endMarker] } : Wk τ).alive = true → False := by
    intro hh; cases hh
  exact {
    endNone := (fun hh => (hal hh).elim)
    endLast := (fun _ a b hs => end_split_unique (h.endNone ha hnd) hs)
    deadNoFin := (by
      intro _ m hm
      rcases List.mem_append.1 hm with hm | hm
      · exact h6.finNoneO ha hnd m hm
      · simp at hm; subst hm; rfl)
    downWhy := (fun hh => (hal hh).elim)
    deadDown := (fun _ hW hd => absurd (h.downWhy ha hW hd) hnd)
    deadSync := (by
      intro _ hW hk
      have hd : (c.env.flags.get k).down = false := by
        cases hh : (c.env.flags.get k).down with
        | false => rfl
        | true => exact absurd (h.downWhy ha hW hh) hnd
      have hs := h1.sync ha hd
      unfold SyncD at hs
      unfold DeadD
      rw [hfl]
      cases hb : AList.lookup c.sched.node2pending k with
      | none =>
        simp only
        have hnk : k ∉ AList.keys c.sched.node2pending := by
          intro hkk
          have := (AList.lookup_isSome_iff_mem_keys _ _).2 hkk
          rw [hb] at this; cases this
        obtain ⟨x1, x2, _⟩ := h6.nr ha hk hnk
        exact ⟨x1, x2⟩
      | some book =>
        rw [hb] at hs
        simp only at hs ⊢
        exact ⟨inboxRuns w, hs⟩) }

end Xdist.Sys
