import XdistProofs.Sys.Inv2
/-! The whole-system ledger of `--dist load` (definitions; executable — the `sys` driver evaluates it). -/
namespace Xdist.Sys
open Xdist

variable {τ : Type} [DecidableEq τ]

/-- the test a worker holds as `nextitem_index`, not yet started -/
def nextT (w : Wk τ) : List Nat := match w.w.next with | some (.test j) => [j] | _ => []

/-- the indices started so far by the worker's main thread, in order -/
def ranIdx (w : Wk τ) : List Nat := w.w.ran.map (·.1)

/-- a worker's account: started, announced, queued, on their way -/
def acct (w : Wk τ) : List Nat := ranIdx w ++ nextT w ++ Worker.tests w.w.torun ++ inboxRuns w

/-- a run without worker loss so far -/
def Clean (st : LState τ) : Prop := st.ctl.failedNodes = 0 ∧ ∀ w ∈ st.wk, w.alive = true

instance (st : LState τ) : Decidable (Clean st) := by unfold Clean; infer_instance

/-- the ledger: nothing before the collection is agreed; afterwards pool + accounts = the indices of the collection -/
def Ledger (st : LState τ) : Prop :=
  match st.ctl.sched.collection with
  | none => ∀ w ∈ st.wk, acct w = []
  | some col => (st.ctl.sched.pending ++ st.wk.flatMap acct).Perm (List.range col.length)

instance (st : LState τ) : Decidable (Ledger st) := by unfold Ledger; split <;> infer_instance

/-- the third layer of the system invariant -/
def Inv3 (st : LState τ) : Prop := Clean st → Ledger st

instance (st : LState τ) : Decidable (Inv3 st) := by unfold Inv3; infer_instance

end Xdist.Sys
