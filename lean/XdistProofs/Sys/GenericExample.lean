import XdistProofs.Sys.CrashOnce
import XdistProofs.Sys.AcctExample
/-!
  Non-vacuity of the whole-system theorems that hold for every scheduler: the execution of `AcctExample` (one worker, three
  tests; gw0 dies inside the first test, its replacement gw1 runs the other two; a schedule taken from the simulation of the real
  controller) is an execution `run … = .ok st`, replayed by the kernel, in which the interesting premises hold — a worker was
  lost, a replacement was started, a crash report was published, shutdown signals were written, reports were published.
-/
namespace Xdist.Sys
open Xdist Xdist.Ctl Xdist.Load Xdist.Contract

theorem loadI_keepsDown {τ : Type} [DecidableEq τ] : KeepsDown (loadI (τ := τ)) := by
  intro s e op s' e' r h n
  exact ((Load.step_envRel flagFrame_envRel (show Load.step s e op = .ok (s', e', r) from h)).1 n).1

def exCheck2 (st : LState Nat) : Bool :=
  (st.wk.length == 2) && (st.ctl.failedNodes == 1) && (crashOf 0 st.ctl.pubs == [10]) && (crashOf 1 st.ctl.pubs == []) &&
    (st.ctl.active == []) && (st.ctl.env.outs.count (SOut.shutdown 1) == 1) && (st.ctl.env.outs.count (SOut.shutdown 0) == 0) &&
    (pubReports 1 st.ctl.pubs == [false, false, false, false, false, false]) && (pubReports 0 st.ctl.pubs == []) &&
    st.ctl.shuttingdown && (st.ctl.env.flags.get 0).down && (st.ctl.env.flags.get 1).down

def exFinal : Option (LState Nat) := match run loadI exIds exInit exSteps with | .ok st => some st | .error _ => none

theorem exRun2 : exFinal.map exCheck2 = some true := by decide +kernel

/-- the generic theorems, instantiated on an execution with a crash and a replacement -/
example : ∃ st : LState Nat, run loadI exIds exInit exSteps = .ok st ∧
    -- C10: two processes were started: the initial one and one replacement for the one death
    st.wk.length = 1 + min st.ctl.failedNodes (4 : Int).toNat ∧ st.ctl.failedNodes = 1 ∧
    -- C03: one crash report, under gw0's id; gw0 is a started worker that is no longer active
    crashOf 0 st.ctl.pubs = [10] ∧ 0 ∉ st.ctl.active ∧
    -- C16: gw1 was written exactly one shutdown signal, gw0 (dead before anybody told it) none
    st.ctl.env.outs.count (SOut.shutdown 1) = 1 ∧
    -- C04: gw1's six reports (three per test) were published
    pubReports 1 st.ctl.pubs = [false, false, false, false, false, false] := by
  have h := exRun2
  unfold exFinal at h
  cases hr : run loadI exIds exInit exSteps with
  | error e => rw [hr] at h; simp at h
  | ok st =>
    rw [hr] at h
    simp only [Option.map_some, Option.some.injEq, exCheck2, Bool.and_eq_true, beq_iff_eq] at h
    obtain ⟨⟨⟨⟨⟨⟨⟨⟨⟨⟨⟨h1, h2⟩, h3⟩, h4⟩, h5⟩, h6⟩, h7⟩, h8⟩, h9⟩, h10⟩, h11⟩, h12⟩ := h
    have hc10 := (C10_sys_restarts_bounded loadI (Load.init 1 (some 2)) 1 0 4 exIds exSteps hr).1
    have hc03 := (C03_sys_one_crash_report_per_worker loadI loadI_keepsDown (Load.init 1 (some 2)) 1 0 (some 4) exIds exSteps hr 0).2
      (by rw [h3]; simp)
    exact ⟨st, rfl, hc10, h2, h3, hc03.1, h6, h8⟩

end Xdist.Sys
