import XdistProofs.Sys.EarlySched
import XdistProofs.Sys.CtlProof5
/-!
  The controller loop and the second layer of the invariant.

  * `OS`: along one iteration (any scheduler) the restart budget is only ever used up, a stop reason stays, and once the
    budget is exceeded the shutdown stays in force.
  * `early_iteration`: an iteration of the load mode after which the run is still *early* (no stop reason, budget not
    exceeded, collection incomplete) has sent nothing, kept the number of active workers, and at most registered a worker
    or a collection.
-/
namespace Xdist.Ctl
open Xdist

variable {σ τ : Type}

/-- more workers were lost than `--max-worker-restart` allows -/
def overB (st : State σ τ) : Bool :=
  match st.maxRestart with
  | some b => decide (0 < st.failedNodes ∧ (st.failedNodes : Int) > b)
  | none => false

structure OS (st st' : State σ τ) : Prop where
  mr : st'.maxRestart = st.maxRestart
  fn : st.failedNodes ≤ st'.failedNodes
  sd : (overB st = true → st.shuttingdown = true) → overB st' = true → st'.shuttingdown = true
  stop : st.shouldstop.isSome = true → st'.shouldstop.isSome = true

theorem OS.refl (st : State σ τ) : OS st st := ⟨rfl, Nat.le_refl _, fun h => h, fun h => h⟩

theorem OS.trans {a b c : State σ τ} (h1 : OS a b) (h2 : OS b c) : OS a c :=
  ⟨h2.mr.trans h1.mr, Nat.le_trans h1.fn h2.fn, fun h => h2.sd (h1.sd h), fun h => h2.stop (h1.stop h)⟩

/-- a step that leaves the budget, the shutdown flag and the stop reason alone (or sets the latter) -/
theorem OS.same {st st' : State σ τ} (h1 : st'.maxRestart = st.maxRestart) (h2 : st'.failedNodes = st.failedNodes)
    (h3 : st'.shuttingdown = st.shuttingdown) (h4 : st.shouldstop.isSome = true → st'.shouldstop.isSome = true) : OS st st' := by
  refine ⟨h1, by rw [h2]; exact Nat.le_refl _, ?_, h4⟩
  intro h ho
  have : overB st' = overB st := by unfold overB; rw [h1, h2]
  rw [h3]; exact h (by rw [← this]; exact ho)

/-- a step after which the shutdown is in force -/
theorem OS.shut {st st' : State σ τ} (h1 : st'.maxRestart = st.maxRestart) (h2 : st.failedNodes ≤ st'.failedNodes)
    (h3 : st'.shuttingdown = true) (h4 : st.shouldstop.isSome = true → st'.shouldstop.isSome = true) : OS st st' :=
  ⟨h1, h2, fun _ _ => h3, h4⟩

theorem overB_mono {st st' : State σ τ} (h : OS st st') (ho : overB st = true) : overB st' = true := by
  unfold overB at ho ⊢
  rw [h.mr]
  cases hm : st.maxRestart with
  | none => rw [hm] at ho; cases ho
  | some b =>
    rw [hm] at ho
    simp only [decide_eq_true_eq] at ho ⊢
    have := h.fn
    omega

theorem os_triggerShutdown (I : SchedI σ τ) (st : State σ τ) : OS st (triggerShutdown I st) := by
  unfold triggerShutdown
  split
  · exact OS.refl _
  · exact OS.shut rfl (Nat.le_refl _) rfl (fun h => h)

theorem os_callSched (I : SchedI σ τ) {st st' : State σ τ} {op : SOp τ} {r : Option τ} (h : callSched I st op = .ok (st', r)) :
    OS st st' := by
  unfold callSched at h
  obtain ⟨a, _, hb⟩ := map_ok.1 h
  simp only [Prod.mk.injEq] at hb
  obtain ⟨rfl, _⟩ := hb
  exact OS.same rfl rfl rfl (fun h => h)

theorem os_removeActive {st st' : State σ τ} {n : Nat} (h : removeActive st n = .ok st') : OS st st' := by
  unfold removeActive at h
  split at h
  · simp only [Except.ok.injEq] at h; subst h; exact OS.same rfl rfl rfl (fun h => h)
  · simp at h

theorem os_handleFailures (st : State σ τ) (f : Bool) : OS st (handleFailures st f) := by
  unfold handleFailures
  split
  · simp only
    split
    · exact OS.same rfl rfl rfl (fun _ => rfl)
    · exact OS.same rfl rfl rfl (fun h => h)
  · exact OS.refl _

theorem os_restartOrStop (I : SchedI σ τ) (st : State σ τ) (n : Nat) : OS st (restartOrStop I st n) := by
  rcases Option.eq_none_or_eq_some st.maxRestart with hm | ⟨b, hm⟩
  · rw [restartOrStop_within I st n (Or.inl hm)]
    refine ⟨rfl, by simp [cloneNode], ?_, fun h => h⟩
    intro _ ho
    simp [overB, cloneNode, hm] at ho
  · by_cases hb : ((st.failedNodes + 1 : Nat) : Int) > b
    · rw [restartOrStop_exceeded I st n b hm hb]
      generalize hs2 : ({ st with failedNodes := st.failedNodes + 1, summary := some (if b = 0 then Summary.disabled n else Summary.maximum b) } : State σ τ) = st2
      have hts := triggerShutdown_shuttingdown I st2
      have ho := os_triggerShutdown I st2
      have h1 : st2.maxRestart = st.maxRestart := by rw [← hs2]
      have h2 : st2.failedNodes = st.failedNodes + 1 := by rw [← hs2]
      have h3 : st2.shouldstop = st.shouldstop := by rw [← hs2]
      exact OS.shut (ho.mr.trans h1) (by have := ho.fn; omega) hts (fun h => ho.stop (by rw [h3]; exact h))
    · rw [restartOrStop_within I st n (Or.inr ⟨b, hm, hb⟩)]
      refine ⟨rfl, by simp [cloneNode], ?_, fun h => h⟩
      intro _ ho
      exfalso
      simp only [overB, cloneNode, hm, decide_eq_true_eq] at ho
      exact hb ho.2

theorem os_handleCrashItem (I : SchedI σ τ) {st st' : State σ τ} {n : Nat} {t : τ} {rq : Bool}
    (h : handleCrashItem I st n t rq = .ok st') : OS st st' := by
  unfold handleCrashItem at h
  obtain ⟨st1, h1, h2⟩ := map_ok.1 h
  subst h2
  have h3 : OS st st1 := by
    split at h1
    · obtain ⟨a, ha, hb⟩ := map_ok.1 h1
      subst hb
      exact os_callSched I (r := a.2) (show callSched I st (.markPending t) = .ok (a.1, a.2) by rw [ha])
    · simp only [Except.ok.injEq] at h1; subst h1; exact OS.refl _
  exact h3.trans (OS.same rfl rfl rfl (fun h => h))

theorem os_errordown (I : SchedI σ τ) {st st' : State σ τ} {n : Nat} {rq : Bool} (h : errordown I st n rq = .ok st') : OS st st' := by
  unfold errordown at h
  simp only at h
  have h0 : OS st ({ st with pubs := st.pubs ++ [Pub.nodedown n true] } : State σ τ) := OS.same rfl rfl rfl (fun h => h)
  split at h
  · exact h0.trans ((os_restartOrStop I _ n).trans (os_removeActive h))
  · simp at h
  · rename_i st1 hc
    exact h0.trans ((os_callSched I hc).trans ((os_restartOrStop I _ n).trans (os_removeActive h)))
  · rename_i st1 x hc
    obtain ⟨st2, h2, h3⟩ := bind_ok.1 h
    exact h0.trans ((os_callSched I hc).trans ((os_handleCrashItem I h2).trans ((os_restartOrStop I _ n).trans (os_removeActive h3))))

theorem os_workerfinished (I : SchedI σ τ) {st st' : State σ τ} {n x : Nat} {sf ss : Option String}
    (h : workerfinished I st n x sf ss = .ok st') : OS st st' := by
  unfold workerfinished at h
  split at h
  · have h0 : OS st ({ st with shouldstop := some (Stop.keyboard n), pubs := st.pubs ++ [Pub.nodedown n false] } : State σ τ) :=
      OS.same rfl rfl rfl (fun _ => rfl)
    exact h0.trans ((os_triggerShutdown I _).trans (os_errordown I h))
  · simp only at h
    have h0 : OS st ({ st with pubs := st.pubs ++ [Pub.nodedown n false] } : State σ τ) := OS.same rfl rfl rfl (fun h => h)
    split at h
    · refine h0.trans (OS.trans ?_ (os_removeActive h))
      split
      · exact OS.same rfl rfl rfl (fun _ => rfl)
      · exact OS.refl _
    · split at h
      · split at h
        · cases h
        · cases h
        · rename_i st1 hc
          exact h0.trans ((os_callSched I hc).trans (os_removeActive h))
      · exact h0.trans (os_removeActive h)

theorem os_handle (I : SchedI σ τ) {st st' : State σ τ} {ev : Event τ} (h : handle I st ev = .ok st') : OS st st' := by
  cases ev with
  | workerready n =>
    simp only [handle] at h
    split at h
    · simp only [Except.ok.injEq] at h; subst h; exact OS.same rfl rfl rfl (fun h => h)
    · obtain ⟨a, ha, hb⟩ := map_ok.1 h
      subst hb
      exact os_callSched I (r := a.2) (show callSched I st (.addNode n) = .ok (a.1, a.2) by rw [ha])
  | workerfinished n x sf ss => exact os_workerfinished I h
  | internalError n =>
    simp only [handle] at h
    obtain ⟨a, ha, hb⟩ := map_ok.1 h
    subst hb
    exact (os_removeActive ha).trans (OS.same rfl rfl rfl (fun h => h))
  | errordown n rq => exact os_errordown I h
  | collectionfinish n ids =>
    simp only [handle, collectionfinish] at h
    split at h
    · simp only [Except.ok.injEq] at h; subst h; exact OS.refl _
    · split at h
      · simp only [Except.ok.injEq] at h; subst h; exact OS.refl _
      · obtain ⟨r, h1, h2⟩ := bind_ok.1 h
        have o1 := os_callSched I (r := r.2) (show callSched I st (.addNodeCollection n ids) = .ok (r.1, r.2) by rw [h1])
        split at h2
        · obtain ⟨a, ha, hb⟩ := map_ok.1 h2
          subst hb
          exact o1.trans (os_callSched I (r := a.2) (show callSched I r.1 .schedule = .ok (a.1, a.2) by rw [ha]))
        · simp only [Except.ok.injEq] at h2; subst h2; exact o1
  | testreport n failed =>
    simp only [handle, Except.ok.injEq] at h; subst h
    exact (OS.same (st := st) (st' := ({ st with pubs := st.pubs ++ [Pub.report n failed] } : State σ τ)) rfl rfl rfl (fun h => h)).trans
      (os_handleFailures _ _)
  | complete n i slow =>
    simp only [handle] at h
    obtain ⟨a, ha, hb⟩ := map_ok.1 h
    subst hb
    exact os_callSched I (r := a.2) (show callSched I st _ = .ok (a.1, a.2) by rw [ha])
  | unscheduled n is =>
    simp only [handle] at h
    obtain ⟨a, ha, hb⟩ := map_ok.1 h
    subst hb
    exact os_callSched I (r := a.2) (show callSched I st _ = .ok (a.1, a.2) by rw [ha])
  | collectreport n key failed =>
    simp only [handle] at h
    split at h
    · simp only [Except.ok.injEq] at h; subst h; exact OS.refl _
    · simp only [Except.ok.injEq] at h; subst h
      exact (OS.same (st := st) (st' := ({ st with seenCollect := st.seenCollect ++ [key], pubs := st.pubs ++ [Pub.collect key] } : State σ τ))
        rfl rfl rfl (fun h => h)).trans (os_handleFailures _ _)
  | other => simp only [handle, Except.ok.injEq] at h; subst h; exact OS.refl _

theorem os_afterHandler (I : SchedI σ τ) (st : State σ τ) : OS st (afterHandler I st) := by
  unfold afterHandler
  simp only
  split
  · split
    · exact (os_triggerShutdown I st).trans (os_triggerShutdown I _)
    · exact os_triggerShutdown I st
  · split
    · exact os_triggerShutdown I st
    · exact OS.refl _

/-- **one loop iteration only uses the restart budget up, keeps a stop reason, and keeps the shutdown in force once the
    budget is exceeded** (any scheduler) -/
theorem os_loopOnce (I : SchedI σ τ) {st st' : State σ τ} {ev : Event τ} (h : loopOnce I st ev = .ok st') : OS st st' := by
  unfold loopOnce at h
  split at h
  · cases h
  · obtain ⟨st1, h1, rfl⟩ := map_ok.1 h
    exact (os_handle I h1).trans (os_afterHandler I st1)

end Xdist.Ctl

namespace Xdist.Sys
open Xdist Xdist.Ctl

variable {τ : Type} [DecidableEq τ]

theorem over_eq (c : Ctl.State (Load.State τ) τ) : over c = Ctl.overB c := rfl

theorem late_false {c : Ctl.State (Load.State τ) τ} (h : late c = false) :
    c.shouldstop = none ∧ over c = false ∧ Load.collectionIsCompleted c.sched = false := by
  unfold late at h
  simp only [Bool.or_eq_false_iff] at h
  refine ⟨?_, h.1.2, h.2⟩
  cases hs : c.shouldstop with
  | none => rfl
  | some r => rw [hs] at h; simp at h

theorem late_of_stop {c : Ctl.State (Load.State τ) τ} (h : c.shouldstop.isSome = true) : late c = true := by
  unfold late; rw [h]; rfl

theorem late_of_over {c : Ctl.State (Load.State τ) τ} (h : over c = true) : late c = true := by
  unfold late; rw [h]; simp

theorem late_of_completed {c : Ctl.State (Load.State τ) τ} (h : Load.collectionIsCompleted c.sched = true) : late c = true := by
  unfold late; rw [h]; simp

/-- one scheduler call of an early iteration -/
theorem callSched_early {c a : Ctl.State (Load.State τ) τ} {op : SOp τ} {r : Option τ}
    (h : callSched loadI c op = .ok (a, r)) (h0 : Load.EarlyS c.sched) (hnd : (AList.keys c.sched.node2pending).Nodup)
    (hc : Load.collectionIsCompleted a.sched = false) :
    a = { c with sched := a.sched } ∧ r = none ∧ Load.EarlyS a.sched ∧ a.sched.numnodes = c.sched.numnodes ∧
    (∀ m, m ∈ AList.keys a.sched.node2pending → m ∈ AList.keys c.sched.node2pending ∨ op = .addNode m) ∧
    (∀ k, k ∈ AList.keys c.sched.node2collection → k ∈ AList.keys a.sched.node2collection) ∧
    (∀ n ids, op = .addNodeCollection n ids → n ∈ AList.keys a.sched.node2collection) := by
  unfold callSched at h
  obtain ⟨x, hx, hb⟩ := map_ok.1 h
  simp only [Prod.mk.injEq] at hb
  obtain ⟨rfl, rfl⟩ := hb
  have hstep : Load.step c.sched c.env op = .ok (x.1, x.2.1, x.2.2) := by rw [← hx]; rfl
  obtain ⟨e1, e2, e3, e4, e5⟩ := Load.step_early h0 hnd hstep hc
  refine ⟨?_, e2, e3, (Load.step_static hstep).1, e4, fun k hk => Load.step_regkeys_mono hstep hk, e5⟩
  simp only
  rw [e1]

/-- what an iteration that leaves the run *early* has done -/
structure EarlyIter (c c' : Ctl.State (Load.State τ) τ) (ev : Ctl.Event τ) : Prop where
  env : c'.env = c.env
  sd : c'.shuttingdown = false
  early : Load.EarlyS c'.sched
  len : c'.active.length = c.active.length
  nn : c'.sched.numnodes = c.sched.numnodes
  keys : ∀ m, m ∈ AList.keys c'.sched.node2pending → m ∈ AList.keys c.sched.node2pending ∨ ev = .workerready m
  reg : ∀ k, k ∈ AList.keys c.sched.node2collection → k ∈ AList.keys c'.sched.node2collection
  coll : ∀ n ids, ev = .collectionfinish n ids → n ∈ AList.keys c'.sched.node2pending → n ∈ AList.keys c'.sched.node2collection

theorem EarlyIter.same {c c' : Ctl.State (Load.State τ) τ} {ev : Ctl.Event τ} (h1 : c'.env = c.env) (h2 : c'.shuttingdown = false)
    (h3 : c'.sched = c.sched) (h4 : c'.active = c.active) (h0 : Load.EarlyS c.sched)
    (hcoll : ∀ n ids, ev = .collectionfinish n ids → n ∉ AList.keys c.sched.node2pending) : EarlyIter c c' ev :=
  ⟨h1, h2, by rw [h3]; exact h0, by rw [h4], by rw [h3], by rw [h3]; exact fun m hm => Or.inl hm, by rw [h3]; exact fun k hk => hk,
    by rw [h3]; exact fun n ids he hn => absurd hn (hcoll n ids he)⟩


/-- `remove_node` while nothing has been handed out: the book is empty, nothing is recovered, nothing is sent -/
theorem removeNode_early {s s' : Load.State τ} {e e' : Env} {n : Nat} {r : Option τ} (h0 : Load.EarlyS s)
    (h : Load.step s e (.removeNode n) = .ok (s', e', r)) :
    e' = e ∧ r = none ∧ Load.EarlyS s' ∧ s'.numnodes = s.numnodes ∧ s'.node2collection = s.node2collection ∧
    (∀ m, m ∈ AList.keys s'.node2pending → m ∈ AList.keys s.node2pending) := by
  obtain ⟨hcol, hpend, hmem⟩ := h0
  simp only [Load.step] at h
  unfold Load.removeNode at h
  obtain ⟨⟨book, n2p⟩, hp, h1⟩ := bind_ok.1 h
  obtain ⟨hl, rfl⟩ := AList.pop_eq_ok.1 hp
  have := hmem (n, book) (Load.mem_of_lookup hl)
  simp only at this
  subst this
  simp only [Except.ok.injEq, Prod.mk.injEq] at h1
  obtain ⟨rfl, rfl, rfl⟩ := h1
  exact ⟨rfl, rfl, ⟨hcol, hpend, fun p hp => hmem p (Load.mem_erase hp)⟩, rfl, rfl,
    fun m hm => AList.mem_keys_of_mem_keys_erase _ _ _ hm⟩

/-- the restart decision and the removal from the active set, in an iteration that leaves the run early -/
theorem restart_tail {st2 st1 : Ctl.State (Load.State τ) τ} {n : Nat}
    (h : removeActive (restartOrStop loadI st2 n) n = .ok st1) (hlate : late st1 = false) :
    st1.env = st2.env ∧ st1.shuttingdown = false ∧ st1.sched = st2.sched ∧ st1.active.length = st2.active.length := by
  have hwithin : restartOrStop loadI st2 n = cloneNode { st2 with failedNodes := st2.failedNodes + 1, shuttingdown := false } := by
    rcases Option.eq_none_or_eq_some st2.maxRestart with hm | ⟨b, hm⟩
    · exact restartOrStop_within loadI st2 n (Or.inl hm)
    · by_cases hb : ((st2.failedNodes + 1 : Nat) : Int) > b
      · exfalso
        rw [restartOrStop_exceeded loadI st2 n b hm hb] at h
        generalize hs3 : ({ st2 with failedNodes := st2.failedNodes + 1, summary := some (if b = 0 then Summary.disabled n else Summary.maximum b) } : Ctl.State (Load.State τ) τ) = st3 at h
        have ho : Ctl.overB st3 = true := by
          rw [← hs3]; simp only [Ctl.overB, hm, decide_eq_true_eq]; exact ⟨Nat.succ_pos _, hb⟩
        have := overB_mono ((os_triggerShutdown loadI st3).trans (os_removeActive h)) ho
        rw [late_of_over (by rw [over_eq]; exact this)] at hlate
        cases hlate
      · exact restartOrStop_within loadI st2 n (Or.inr ⟨b, hm, hb⟩)
  rw [hwithin] at h
  unfold removeActive at h
  split at h
  · rename_i hmem
    simp only [Except.ok.injEq] at h
    subst h
    refine ⟨rfl, rfl, rfl, ?_⟩
    simp only [cloneNode] at hmem ⊢
    rw [List.length_erase_of_mem hmem]
    simp
  · simp at h

/-- **An iteration of the load mode after which the run is still early** has sent nothing and has kept the number of
    active workers; at most it registered a worker or a collection. -/
theorem early_iteration {c c' : Ctl.State (Load.State τ) τ} {ev : Ctl.Event τ}
    (hl : loopOnce loadI c ev = .ok c') (hlate' : late c' = false) (hlate : late c = false)
    (hsd : c.shuttingdown = false) (h0 : Load.EarlyS c.sched) (hnd : (AList.keys c.sched.node2pending).Nodup)
    (hfin : evFinOk (late c) ev = true) (hni : ∀ n, ev ≠ .internalError n) : EarlyIter c c' ev := by
  unfold loopOnce at hl
  split at hl
  · cases hl
  obtain ⟨st1, h1, rfl⟩ := map_ok.1 hl
  have hts : (afterHandler loadI st1).sched = st1.sched := afterHandler_sched' loadI st1
  have htf : Load.testsFinished st1.sched = false := by
    cases hh : Load.testsFinished st1.sched with
    | false => rfl
    | true =>
      have : Load.collectionIsCompleted st1.sched = true := by
        unfold Load.testsFinished at hh
        simp only [Bool.and_eq_true] at hh
        exact hh.1.1
      rw [late_of_completed (by rw [hts]; exact this)] at hlate'; cases hlate'
  have hss : st1.shouldstop.isSome = false := by
    cases hh : st1.shouldstop.isSome with
    | false => rfl
    | true => rw [late_of_stop ((os_afterHandler loadI st1).stop hh)] at hlate'; cases hlate'
  have haft : afterHandler loadI st1 = st1 := by
    unfold afterHandler
    simp only [loadI, htf, Bool.false_eq_true, ↓reduceIte, hss]
  rw [haft] at hlate' ⊢
  have hc1 := (late_false hlate').2.2
  cases ev with
  | workerready n =>
    simp only [handle, hsd, Bool.false_eq_true, ↓reduceIte] at h1
    obtain ⟨a, ha, hb⟩ := map_ok.1 h1
    subst hb
    obtain ⟨e0, _, e3, e4, e5, e6, _⟩ :=
      callSched_early (show callSched loadI c (.addNode n) = .ok (a.1, a.2) by rw [ha]) h0 hnd hc1
    refine ⟨by rw [e0], by rw [e0]; exact hsd, e3, by rw [e0], e4, ?_, e6, by intro n' ids he; cases he⟩
    intro m hm
    rcases e5 m hm with h | h
    · exact Or.inl h
    · right; cases h; rfl
  | workerfinished n x sf ss =>
    exfalso
    simp only [evFinOk, finOk, hlate, Bool.or_false, Bool.or_eq_true, beq_iff_eq] at hfin
    simp only [handle] at h1
    unfold workerfinished at h1
    by_cases hx : x = 2
    · simp only [hx, ↓reduceIte] at h1
      have := (os_errordown loadI h1).stop (by rw [(triggerShutdown_fields loadI _).1]; rfl)
      rw [this] at hss; cases hss
    · simp only [hx, ↓reduceIte] at h1
      have key : ∀ c0 : Ctl.State (Load.State τ) τ, removeActive c0 n = .ok st1 → c0.shouldstop.isSome = true → False := by
        intro c0 hr hs
        have := (os_removeActive hr).stop hs
        rw [this] at hss; cases hss
      cases sf with
      | some r =>
        simp only at h1
        exact key _ h1 (by cases hcs : c.shouldstop <;> simp [hcs])
      | none =>
        cases ss with
        | some r =>
          simp only at h1
          exact key _ h1 (by cases hcs : c.shouldstop <;> simp [hcs])
        | none =>
          rcases hfin with (h | h) | h
          · exact hx h
          · cases h
          · cases h
  | internalError n => exact absurd rfl (hni n)
  | errordown n rq =>
    simp only [handle] at h1
    unfold errordown at h1
    simp only at h1
    split at h1
    · -- the scheduler does not know the node
      obtain ⟨t1, t2, t3, t4⟩ := restart_tail h1 hlate'
      exact ⟨t1, t2, by rw [t3]; exact h0, t4, by rw [t3], by rw [t3]; exact fun m hm => Or.inl hm, by rw [t3]; exact fun k hk => hk,
        by intro n' ids he; cases he⟩
    · cases h1
    · rename_i st' hc
      obtain ⟨hstep, _, _, hact, _⟩ := callSched_fields loadI hc
      obtain ⟨r1, _, r3, r4, r5, r6⟩ := removeNode_early (s := c.sched) h0 hstep
      obtain ⟨t1, t2, t3, t4⟩ := restart_tail h1 hlate'
      refine ⟨by rw [t1, r1], t2, by rw [t3]; exact r3, by rw [t4, hact], by rw [t3, r4], ?_, by rw [t3, r5]; exact fun k hk => hk,
        by intro n' ids he; cases he⟩
      rw [t3]; exact fun m hm => Or.inl (r6 m hm)
    · rename_i st' x hc
      obtain ⟨hstep, _⟩ := callSched_fields loadI hc
      obtain ⟨_, r2, _⟩ := removeNode_early (s := c.sched) h0 hstep
      cases r2
  | collectionfinish n ids =>
    simp only [handle, collectionfinish, hsd, Bool.false_eq_true, ↓reduceIte] at h1
    split at h1
    · rename_i hnn
      simp only [Except.ok.injEq] at h1
      subst h1
      exact EarlyIter.same rfl hsd rfl rfl h0 (fun n' ids' he => by cases he; exact hnn)
    · obtain ⟨r, h2, h3⟩ := bind_ok.1 h1
      split at h3
      · exfalso
        rename_i hcc
        obtain ⟨a, ha, hb⟩ := map_ok.1 h3
        subst hb
        obtain ⟨hstep, _⟩ := callSched_fields loadI (r := a.2) (show callSched loadI r.1 .schedule = .ok (a.1, a.2) by rw [ha])
        have hstep' : Load.step r.1.sched r.1.env SOp.schedule = .ok (a.1.sched, a.1.env, a.2) := hstep
        have := Load.step_completed_mono hstep' hcc
        rw [this] at hc1; cases hc1
      · simp only [Except.ok.injEq] at h3
        subst h3
        obtain ⟨e0, _, e3, e4, e5, e6, e7⟩ :=
          callSched_early (show callSched loadI c (.addNodeCollection n ids) = .ok (r.1, r.2) by rw [h2]) h0 hnd hc1
        refine ⟨by rw [e0], by rw [e0]; exact hsd, e3, by rw [e0], e4, ?_, e6, ?_⟩
        · intro m hm
          rcases e5 m hm with h | h
          · exact Or.inl h
          · cases h
        · intro n' ids' he _
          cases he
          exact e7 n ids rfl
  | testreport n failed =>
    simp only [handle, Except.ok.injEq] at h1
    subst h1
    obtain ⟨f1, f2, f3, _⟩ := handleFailures_fields ({ c with pubs := c.pubs ++ [Pub.report n failed] } : Ctl.State (Load.State τ) τ) failed
    have f4 := (handleFailures_act ({ c with pubs := c.pubs ++ [Pub.report n failed] } : Ctl.State (Load.State τ) τ) failed).1
    exact EarlyIter.same f1 (by rw [f3]; exact hsd) f2 f4 h0 (by intro n' ids he; cases he)
  | complete n i slow =>
    simp only [handle] at h1
    obtain ⟨a, ha, hb⟩ := map_ok.1 h1
    subst hb
    obtain ⟨e0, _, e3, e4, e5, e6, _⟩ :=
      callSched_early (show callSched loadI c (.markComplete n i slow) = .ok (a.1, a.2) by rw [ha]) h0 hnd hc1
    refine ⟨by rw [e0], by rw [e0]; exact hsd, e3, by rw [e0], e4, ?_, e6, by intro n' ids he; cases he⟩
    intro m hm
    rcases e5 m hm with h | h
    · exact Or.inl h
    · cases h
  | unscheduled n is =>
    simp only [handle] at h1
    obtain ⟨a, ha, hb⟩ := map_ok.1 h1
    subst hb
    obtain ⟨e0, _, e3, e4, e5, e6, _⟩ :=
      callSched_early (show callSched loadI c (.removePending n is) = .ok (a.1, a.2) by rw [ha]) h0 hnd hc1
    refine ⟨by rw [e0], by rw [e0]; exact hsd, e3, by rw [e0], e4, ?_, e6, by intro n' ids he; cases he⟩
    intro m hm
    rcases e5 m hm with h | h
    · exact Or.inl h
    · cases h
  | collectreport n key failed =>
    simp only [handle] at h1
    split at h1
    · simp only [Except.ok.injEq] at h1
      subst h1
      exact EarlyIter.same rfl hsd rfl rfl h0 (by intro n' ids he; cases he)
    · simp only [Except.ok.injEq] at h1
      subst h1
      obtain ⟨f1, f2, f3, _⟩ := handleFailures_fields
        ({ c with seenCollect := c.seenCollect ++ [key], pubs := c.pubs ++ [Pub.collect key] } : Ctl.State (Load.State τ) τ) failed
      have f4 := (handleFailures_act
        ({ c with seenCollect := c.seenCollect ++ [key], pubs := c.pubs ++ [Pub.collect key] } : Ctl.State (Load.State τ) τ) failed).1
      exact EarlyIter.same f1 (by rw [f3]; exact hsd) f2 f4 h0 (by intro n' ids he; cases he)
  | other =>
    simp only [handle, Except.ok.injEq] at h1
    subst h1
    exact EarlyIter.same rfl hsd rfl rfl h0 (by intro n' ids he; cases he)

end Xdist.Sys
