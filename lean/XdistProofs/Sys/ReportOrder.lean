import XdistProofs.Sys.DeathOnce
import XdistProofs.Sys.CollectOnce
/-!
  C04, whole system, all six modes: **the test reports of a worker reach the controller's reporting hook exactly once and in the
  order the worker produced them.**  For a worker `k` let `R k` be the sequence "reports of `k` already published ++ reports of `k`
  waiting in the controller's queue ++ reports of `k` still on the channel".  As long as the worker has not been written off, every
  step of every thread leaves `R k` unchanged or appends to its end: a report is never dropped, duplicated, overtaken or invented
  on its way, and what is published about `k` at any time is a prefix of what is published about it later.
-/
namespace Xdist.Sys
open Xdist Xdist.Ctl Xdist.Contract

set_option linter.unusedSectionVars false

variable {σ τ : Type} [DecidableEq τ]

/-- the reports of worker `k` published so far (`pytest_runtest_logreport` calls), as `failed` flags, in order -/
def pubReports (k : Nat) (pubs : List (Pub τ)) : List Bool :=
  pubs.filterMap fun p => match p with | .report n f => if n = k then some f else none | _ => none

def evReports (l : List (Ctl.Event τ)) : List Bool :=
  l.filterMap fun e => match e with | .testreport _ f => some f | _ => none

def msgReports (l : List (WMsg τ)) : List Bool :=
  l.filterMap fun m => match m with | .ev (.testreport _ f) => some f | _ => none

/-- published ++ queued ++ on the channel -/
def seqR (c : Ctl.State σ τ) (k : Nat) (w : Wk τ) : List Bool :=
  pubReports k c.pubs ++ evReports w.posted ++ msgReports w.outbox

/-- every test report on its way from worker `k` carries `k` -/
def OwnT (k : Nat) (w : Wk τ) : Prop :=
  (∀ n f, Ctl.Event.testreport n f ∈ w.posted → n = k) ∧ (∀ n f, WMsg.ev (Ctl.Event.testreport n f) ∈ w.outbox → n = k)

theorem pubReports_append (k : Nat) (a b : List (Pub τ)) : pubReports k (a ++ b) = pubReports k a ++ pubReports k b := by
  simp [pubReports, List.filterMap_append]

theorem evReports_append (a b : List (Ctl.Event τ)) : evReports (a ++ b) = evReports a ++ evReports b := by
  simp [evReports, List.filterMap_append]

theorem msgReports_append (a b : List (WMsg τ)) : msgReports (a ++ b) = msgReports a ++ msgReports b := by
  simp [msgReports, List.filterMap_append]

/-! ### what a handler publishes -/

/-- the handler of a test report publishes exactly that report; no other handler publishes a test report -/
def PubSpec (c c1 : Ctl.State σ τ) (ev : Ctl.Event τ) : Prop :=
  ∃ added, c1.pubs = c.pubs ++ added ∧
    (∀ n f, ev = .testreport n f → added = [.report n f]) ∧
    ((∀ n f, ev ≠ .testreport n f) → ∀ n f, Pub.report n f ∉ added)

theorem pubSpec_of_same {c c1 : Ctl.State σ τ} {ev : Ctl.Event τ} (h : c1.pubs = c.pubs) (hev : ∀ n f, ev ≠ .testreport n f) :
    PubSpec c c1 ev :=
  ⟨[], by rw [h]; simp, fun n f he => absurd he (hev n f), fun _ n f hm => by cases hm⟩

theorem pubSpec_other {c c1 : Ctl.State σ τ} {ev : Ctl.Event τ} (added : List (Pub τ)) (h : c1.pubs = c.pubs ++ added)
    (hev : ∀ n f, ev ≠ .testreport n f) (hno : ∀ n f, Pub.report n f ∉ added) : PubSpec c c1 ev :=
  ⟨added, h, fun n f he => absurd he (hev n f), fun _ => hno⟩

theorem callSched_pubs (I : SchedI σ τ) {c c' : Ctl.State σ τ} {op : SOp τ} {r : Option τ} (h : callSched I c op = .ok (c', r)) :
    c'.pubs = c.pubs := by
  unfold callSched at h
  obtain ⟨a, _, hb⟩ := map_ok.1 h
  simp only [Prod.mk.injEq] at hb
  obtain ⟨rfl, _⟩ := hb
  rfl

theorem triggerShutdown_pubs (I : SchedI σ τ) (c : Ctl.State σ τ) : (triggerShutdown I c).pubs = c.pubs := by
  unfold triggerShutdown; split <;> rfl

theorem handleFailures_pubs (c : Ctl.State σ τ) (f : Bool) : (handleFailures c f).pubs = c.pubs := by
  unfold handleFailures
  split
  · simp only; split <;> rfl
  · rfl

theorem removeActive_pubs {c c' : Ctl.State σ τ} {n : Nat} (h : removeActive c n = .ok c') : c'.pubs = c.pubs := by
  unfold removeActive at h
  split at h
  · simp only [Except.ok.injEq] at h; subst h; rfl
  · cases h

/-- what `worker_errordown` adds to the publications: no test report -/
theorem errordown_pubs (I : SchedI σ τ) {c c' : Ctl.State σ τ} {n : Nat} {rq : Bool} (h : errordown I c n rq = .ok c') :
    ∃ added, c'.pubs = c.pubs ++ added ∧ ∀ m f, Pub.report m f ∉ added := by
  have ros : ∀ (a : Ctl.State σ τ), ∃ ad, (restartOrStop I a n).pubs = a.pubs ++ ad ∧ ∀ m f, Pub.report m f ∉ ad := by
    intro a
    rcases restartOrStop_cases I a n with ⟨b, hh⟩ | hh
    · rw [hh, triggerShutdown_pubs]; exact ⟨[], by simp, fun m f hm => by cases hm⟩
    · rw [hh]; exact ⟨[.spawn a.nextId], rfl, fun m f hm => by simp at hm⟩
  have key : ∀ (a : Ctl.State σ τ) (ad0 : List (Pub τ)), a.pubs = c.pubs ++ ad0 → (∀ m f, Pub.report m f ∉ ad0) →
      removeActive (restartOrStop I a n) n = .ok c' → ∃ added, c'.pubs = c.pubs ++ added ∧ ∀ m f, Pub.report m f ∉ added := by
    intro a ad0 ha h0 hr
    obtain ⟨ad, h1, h2⟩ := ros a
    refine ⟨ad0 ++ ad, by rw [removeActive_pubs hr, h1, ha, List.append_assoc], ?_⟩
    intro m f hm
    rcases List.mem_append.1 hm with hm | hm
    · exact h0 m f hm
    · exact h2 m f hm
  unfold errordown at h
  simp only at h
  split at h
  · exact key _ [.nodedown n true] rfl (fun m f hm => by simp at hm) h
  · cases h
  · rename_i c1 hc
    exact key _ [.nodedown n true] (by rw [callSched_pubs I hc]) (fun m f hm => by simp at hm) h
  · rename_i c1 x hc
    obtain ⟨c2, h2, h3⟩ := bind_ok.1 h
    unfold handleCrashItem at h2
    obtain ⟨c3, h4, h5⟩ := map_ok.1 h2
    subst h5
    have hc3 : c3.pubs = c1.pubs := by
      split at h4
      · obtain ⟨a, ha, hb⟩ := map_ok.1 h4
        subst hb
        exact callSched_pubs I (show callSched I c1 (.markPending x) = .ok (a.1, a.2) by rw [ha])
      · simp only [Except.ok.injEq] at h4; subst h4; rfl
    exact key _ [.nodedown n true, .crash n x rq] (by simp only; rw [hc3, callSched_pubs I hc]; simp)
      (fun m f hm => by simp at hm) h3

theorem handle_pubSpec (I : SchedI σ τ) {c c1 : Ctl.State σ τ} {ev : Ctl.Event τ} (h : handle I c ev = .ok c1) : PubSpec c c1 ev := by
  cases ev with
  | workerready n =>
    simp only [handle] at h
    split at h
    · simp only [Except.ok.injEq] at h; subst h; exact pubSpec_of_same rfl (by intro n f hh; cases hh)
    · obtain ⟨a, ha, hb⟩ := map_ok.1 h
      subst hb
      exact pubSpec_of_same (callSched_pubs I (show callSched I c (.addNode n) = .ok (a.1, a.2) by rw [ha])) (by intro n f hh; cases hh)
  | workerfinished n x sf ss =>
    simp only [handle] at h
    have mk : ∀ added, c1.pubs = c.pubs ++ added → (∀ m f, Pub.report m f ∉ added) → PubSpec c c1 (.workerfinished n x sf ss) :=
      fun added h1 h2 => pubSpec_other added h1 (by intro m f hh; cases hh) h2
    unfold workerfinished at h
    split at h
    · simp only at h
      obtain ⟨ad, h1, h2⟩ := errordown_pubs I h
      rw [triggerShutdown_pubs] at h1
      refine mk ([.nodedown n false] ++ ad) (by rw [h1]; simp) ?_
      intro m f hm
      rcases List.mem_append.1 hm with hm | hm
      · simp at hm
      · exact h2 m f hm
    · simp only at h
      split at h
      · refine mk [.nodedown n false] ?_ (fun m f hm => by simp at hm)
        rw [removeActive_pubs h]
        split <;> rfl
      · split at h
        · split at h
          · cases h
          · cases h
          · rename_i c2 hc
            refine mk [.nodedown n false] ?_ (fun m f hm => by simp at hm)
            rw [removeActive_pubs h, callSched_pubs I hc]
        · refine mk [.nodedown n false] ?_ (fun m f hm => by simp at hm)
          rw [removeActive_pubs h]
  | internalError n =>
    simp only [handle] at h
    obtain ⟨a, ha, hb⟩ := map_ok.1 h
    subst hb
    exact pubSpec_other [.internalError n] (by simp only; rw [removeActive_pubs ha]) (by intro m f hh; cases hh) (by intro m f hm; simp at hm)
  | errordown n rq =>
    simp only [handle] at h
    obtain ⟨ad, h1, h2⟩ := errordown_pubs I h
    exact pubSpec_other ad h1 (by intro m f hh; cases hh) h2
  | collectionfinish n ids =>
    simp only [handle, collectionfinish] at h
    split at h
    · simp only [Except.ok.injEq] at h; subst h; exact pubSpec_of_same rfl (by intro n f hh; cases hh)
    · split at h
      · simp only [Except.ok.injEq] at h; subst h; exact pubSpec_of_same rfl (by intro n f hh; cases hh)
      · obtain ⟨r, hr, h2⟩ := bind_ok.1 h
        have a1 := callSched_pubs I (show callSched I c (.addNodeCollection n ids) = .ok (r.1, r.2) by rw [hr])
        split at h2
        · obtain ⟨a, ha, hb⟩ := map_ok.1 h2
          subst hb
          have b1 := callSched_pubs I (show callSched I r.1 .schedule = .ok (a.1, a.2) by rw [ha])
          exact pubSpec_of_same (b1.trans a1) (by intro n f hh; cases hh)
        · simp only [Except.ok.injEq] at h2; subst h2
          exact pubSpec_of_same a1 (by intro n f hh; cases hh)
  | testreport n failed =>
    simp only [handle, Except.ok.injEq] at h; subst h
    refine ⟨[.report n failed], by rw [handleFailures_pubs], ?_, ?_⟩
    · intro m f hh; cases hh; rfl
    · intro hne; exact absurd rfl (hne n failed)
  | complete n i slow =>
    simp only [handle] at h
    obtain ⟨a, ha, hb⟩ := map_ok.1 h
    subst hb
    exact pubSpec_of_same (callSched_pubs I (show callSched I c (.markComplete n i slow) = .ok (a.1, a.2) by rw [ha])) (by intro n f hh; cases hh)
  | unscheduled n is =>
    simp only [handle] at h
    obtain ⟨a, ha, hb⟩ := map_ok.1 h
    subst hb
    exact pubSpec_of_same (callSched_pubs I (show callSched I c (.removePending n is) = .ok (a.1, a.2) by rw [ha])) (by intro n f hh; cases hh)
  | collectreport n key failed =>
    simp only [handle] at h
    split at h
    · simp only [Except.ok.injEq] at h; subst h; exact pubSpec_of_same rfl (by intro n f hh; cases hh)
    · simp only [Except.ok.injEq] at h; subst h
      exact pubSpec_other [.collect key] (by rw [handleFailures_pubs]) (by intro m f hh; cases hh) (by intro m f hm; simp at hm)
  | other => simp only [handle, Except.ok.injEq] at h; subst h; exact pubSpec_of_same rfl (by intro n f hh; cases hh)

theorem afterHandler_pubs' (I : SchedI σ τ) (c : Ctl.State σ τ) : (afterHandler I c).pubs = c.pubs := by
  unfold afterHandler
  simp only
  split
  · split
    · rw [triggerShutdown_pubs, triggerShutdown_pubs]
    · rw [triggerShutdown_pubs]
  · split
    · rw [triggerShutdown_pubs]
    · rfl

theorem loopOnce_pubSpec (I : SchedI σ τ) {c c' : Ctl.State σ τ} {ev : Ctl.Event τ} (h : loopOnce I c ev = .ok c') : PubSpec c c' ev := by
  unfold loopOnce at h
  split at h
  · cases h
  obtain ⟨c1, hh1, rfl⟩ := map_ok.1 h
  obtain ⟨added, h1, h2, h3⟩ := handle_pubSpec I hh1
  exact ⟨added, by rw [afterHandler_pubs', h1], h2, h3⟩


/-! ### the workers' side -/

/-- a main-thread step appends to the outbox; test reports it appends carry the worker's own number -/
theorem mainStep_appends {k : Nat} {w w' : Wk τ} {p : MainP} (h : mainStep k w p = some w') :
    w'.posted = w.posted ∧ ∃ ms, w'.outbox = w.outbox ++ ms ∧ ∀ n f, WMsg.ev (Ctl.Event.testreport n f) ∈ ms → n = k := by
  unfold mainStep at h
  split at h
  · cases h
  cases hph : w.phase with
  | boot =>
    simp only [hph, Option.some.injEq] at h; subst h
    exact ⟨rfl, _, rfl, by intro n f hm; simp at hm⟩
  | collect =>
    simp only [hph] at h
    cases p with
    | collect errs garbage intr sf0 =>
      simp only at h
      split at h
      · simp only [Option.some.injEq] at h; subst h
        refine ⟨rfl, _, rfl, ?_⟩
        intro n f hm
        simp only [List.mem_append, List.mem_singleton, List.mem_map, List.mem_cons, List.not_mem_nil, or_false] at hm
        rcases hm with (hm | ⟨x, _, hm⟩) | hm <;> cases hm
      · simp only [Option.some.injEq] at h; subst h
        refine ⟨rfl, _, (List.append_assoc _ _ _), ?_⟩
        intro n f hm
        simp only [List.mem_append, List.mem_singleton, List.mem_map, List.mem_cons, List.not_mem_nil, or_false] at hm
        rcases hm with ((hm | ⟨x, _, hm⟩) | hm) | hm
        · cases hm
        · cases hm
        · cases hm
        · split at hm <;> simp at hm
    | none => cases h
    | reports a b c d => cases h
    | complete s => cases h
  | loop =>
    simp only [hph] at h
    cases hpc : w.w.pc with
    | init =>
      simp only [hpc] at h
      obtain ⟨w1, _, h2⟩ := Option.map_eq_some_iff.1 h
      subst h2; exact ⟨rfl, [], by simp, by intro n f hm; cases hm⟩
    | haveItem =>
      simp only [hpc] at h
      obtain ⟨w1, _, h2⟩ := Option.map_eq_some_iff.1 h
      subst h2; exact ⟨rfl, [], by simp, by intro n f hm; cases hm⟩
    | running =>
      simp only [hpc] at h
      split at h
      · simp only [Option.some.injEq] at h; subst h
        exact ⟨rfl, _, rfl, by intro n f hm; simp at hm⟩
      · simp only [Option.some.injEq] at h; subst h
        refine ⟨rfl, _, (List.append_assoc _ _ _), ?_⟩
        intro n f hm
        simp only [List.mem_append, List.mem_map, List.mem_singleton, WMsg.ev.injEq] at hm
        rcases hm with ⟨g, _, hm⟩ | hm
        · cases hm; rfl
        · cases hm
      · split at h
        · simp only [Option.some.injEq] at h; subst h; exact ⟨rfl, [], by simp, by intro n f hm; cases hm⟩
        · split at h
          · simp only [Option.some.injEq] at h; subst h
            exact ⟨rfl, _, rfl, by intro n f hm; simp at hm⟩
          · cases h
      · cases h
    | done => simp only [hpc] at h; cases h
  | finish =>
    simp only [hph, Option.some.injEq] at h; subst h
    exact ⟨rfl, _, rfl, by intro n f hm; simp at hm⟩
  | done => simp only [hph] at h; cases h

theorem deliverStep_appends {k : Nat} {w w' : Wk τ} (h : deliverStep k w = some w') :
    w'.posted = w.posted ∧ ∃ ms, w'.outbox = w.outbox ++ ms ∧ ∀ n f, WMsg.ev (Ctl.Event.testreport n f) ∈ ms → n = k := by
  unfold deliverStep at h
  split at h
  · cases h
  split at h
  · cases h
  · rename_i c rest hin
    cases c with
    | run is => simp only [Option.some.injEq] at h; subst h; exact ⟨rfl, [], by simp, by intro n f hm; cases hm⟩
    | runAll => simp only [Option.some.injEq] at h; subst h; exact ⟨rfl, [], by simp, by intro n f hm; cases hm⟩
    | shutdown => simp only [Option.some.injEq] at h; subst h; exact ⟨rfl, [], by simp, by intro n f hm; cases hm⟩
    | steal is =>
      simp only [Option.some.injEq] at h; subst h
      exact ⟨rfl, _, rfl, by intro n f hm; simp at hm⟩

theorem msgReports_cons_ev (e : Ctl.Event τ) (rest : List (WMsg τ)) :
    msgReports (WMsg.ev e :: rest) = evReports [e] ++ msgReports rest := by
  cases e <;> simp [msgReports, evReports]

theorem msgReports_no_report {ms : List (WMsg τ)} (h : ∀ n f, WMsg.ev (Ctl.Event.testreport n f) ∉ ms) : msgReports ms = [] := by
  unfold msgReports
  rw [List.filterMap_eq_nil_iff]
  intro m hm
  cases m with
  | ev e =>
    cases e with
    | testreport n f => exact absurd hm (h n f)
    | _ => rfl
  | _ => rfl

def OwnTAll (st : State σ τ) : Prop := ∀ k w, st.wk[k]? = some w → OwnT k w

theorem ownT_emit {k : Nat} {w w' : Wk τ} {ms : List (WMsg τ)} (h : OwnT k w) (hp : w'.posted = w.posted) (ho : w'.outbox = w.outbox ++ ms)
    (hms : ∀ n f, WMsg.ev (Ctl.Event.testreport n f) ∈ ms → n = k) : OwnT k w' := by
  refine ⟨by rw [hp]; exact h.1, ?_⟩
  intro n f hm
  rw [ho, List.mem_append] at hm
  rcases hm with hm | hm
  · exact h.2 n f hm
  · exact hms n f hm

/-- what a step does to one worker's sequence of reports -/
def Extends (st st' : State σ τ) : Prop :=
  st.wk.length ≤ st'.wk.length ∧
  ∀ k w w', st.wk[k]? = some w → st'.wk[k]? = some w' → (st'.ctl.env.flags.get k).down = false →
    (st.ctl.env.flags.get k).down = false ∧ ∃ new, seqR st'.ctl k w' = seqR st.ctl k w ++ new

theorem step_reports (I : SchedI σ τ) (hK : KeepsDown I) (idsOf : Nat → List τ) {st st' : State σ τ} (a : Step) (hown : OwnTAll st)
    (h : step I idsOf st a = .ok st') : OwnTAll st' ∧ Extends st st' := by
  cases a with
  | main j p =>
    simp only [Sys.step] at h
    split at h
    · cases h
    rename_i w hw
    split at h
    · cases h
    rename_i w' hm
    simp only [Except.ok.injEq] at h; subst h
    obtain ⟨m1, ms, m2, m3⟩ := mainStep_appends hm
    refine ⟨?_, by simp [setWk], ?_⟩
    · intro k wk hk
      simp only [setWk] at hk
      by_cases hkj : j = k
      · subst hkj
        rw [List.getElem?_set_self (lt_len_of_get hw)] at hk
        cases hk
        exact ownT_emit (hown j w hw) m1 m2 m3
      · rw [List.getElem?_set_ne hkj] at hk
        exact hown k wk hk
    · intro k wk wk' hk hk' hdn
      refine ⟨hdn, ?_⟩
      simp only [setWk] at hk'
      by_cases hkj : j = k
      · subst hkj
        rw [List.getElem?_set_self (lt_len_of_get hw)] at hk'
        cases hk'
        rw [hw] at hk; cases hk
        exact ⟨msgReports ms, by simp only [seqR, setWk, m1, m2, msgReports_append, List.append_assoc]⟩
      · rw [List.getElem?_set_ne hkj] at hk'
        rw [hk] at hk'; cases hk'
        exact ⟨[], by simp [seqR, setWk]⟩
  | deliver j =>
    simp only [Sys.step] at h
    split at h
    · cases h
    rename_i w hw
    split at h
    · cases h
    rename_i w' hm
    simp only [Except.ok.injEq] at h; subst h
    obtain ⟨m1, ms, m2, m3⟩ := deliverStep_appends hm
    refine ⟨?_, by simp [setWk], ?_⟩
    · intro k wk hk
      simp only [setWk] at hk
      by_cases hkj : j = k
      · subst hkj
        rw [List.getElem?_set_self (lt_len_of_get hw)] at hk
        cases hk
        exact ownT_emit (hown j w hw) m1 m2 m3
      · rw [List.getElem?_set_ne hkj] at hk
        exact hown k wk hk
    · intro k wk wk' hk hk' hdn
      refine ⟨hdn, ?_⟩
      simp only [setWk] at hk'
      by_cases hkj : j = k
      · subst hkj
        rw [List.getElem?_set_self (lt_len_of_get hw)] at hk'
        cases hk'
        rw [hw] at hk; cases hk
        exact ⟨msgReports ms, by simp only [seqR, setWk, m1, m2, msgReports_append, List.append_assoc]⟩
      · rw [List.getElem?_set_ne hkj] at hk'
        rw [hk] at hk'; cases hk'
        exact ⟨[], by simp [seqR, setWk]⟩
  | recv j =>
    simp only [Sys.step] at h
    split at h
    · cases h
    rename_i s1 hr
    simp only [Except.ok.injEq] at h; subst h
    obtain ⟨w, m, rest, fl', w2, outs', hw, ho, rfl, hfl, hw2⟩ := recvStep_shape' hr
    have hpo : w2.posted = w.posted ++ (Receiver.step { down := (st.ctl.env.flags.get j).down, shutdownSent := (st.ctl.env.flags.get j).sent }
        (toRecv j m)).2.1.map (ofPost j) ∧ w2.outbox = rest := by
      rw [hw2]; simp only
      split
      · split <;> exact ⟨rfl, rfl⟩
      · exact ⟨rfl, rfl⟩
    have hflagj : (Flags.get (AList.set st.ctl.env.flags j fl') j).down =
        (Receiver.step { down := (st.ctl.env.flags.get j).down, shutdownSent := (st.ctl.env.flags.get j).sent } (toRecv j m)).1.down := by
      rw [flags_get_set]; simp [hfl]
    have hj := hown j w hw
    refine ⟨?_, by simp, ?_⟩
    · intro k wk hk
      simp only at hk
      by_cases hkj : j = k
      · subst hkj
        rw [List.getElem?_set_self (lt_len_of_get hw)] at hk
        cases hk
        refine ⟨?_, ?_⟩
        · intro n f hm
          rw [hpo.1, List.mem_append] at hm
          rcases hm with hm | hm
          · exact hj.1 n f hm
          · obtain ⟨p, hp, hpe⟩ := List.mem_map.1 hm
            cases m with
            | ev e =>
              cases hdn : (st.ctl.env.flags.get j).down <;> simp [Receiver.step, toRecv, hdn] at hp
              subst hp
              simp only [ofPost] at hpe
              subst hpe
              exact hj.2 n f (by rw [ho]; simp)
            | ignored => cases hdn : (st.ctl.env.flags.get j).down <;> simp [Receiver.step, toRecv, hdn] at hp
            | fin x sf ss =>
              cases hdn : (st.ctl.env.flags.get j).down <;> simp [Receiver.step, toRecv, hdn] at hp
              subst hp; simp [ofPost] at hpe
            | garbage =>
              cases hdn : (st.ctl.env.flags.get j).down <;> simp [Receiver.step, toRecv, hdn] at hp
              subst hp; simp [ofPost] at hpe
            | endMarker =>
              cases hdn : (st.ctl.env.flags.get j).down <;> simp [Receiver.step, toRecv, hdn] at hp
              subst hp; simp [ofPost] at hpe
        · intro n f hm
          rw [hpo.2] at hm
          exact hj.2 n f (by rw [ho]; exact List.mem_cons_of_mem _ hm)
      · rw [List.getElem?_set_ne hkj] at hk
        exact hown k wk hk
    · intro k wk wk' hk hk' hdn'
      simp only at hk' hdn'
      by_cases hkj : j = k
      · subst hkj
        rw [List.getElem?_set_self (lt_len_of_get hw)] at hk'
        cases hk'
        rw [hw] at hk; cases hk
        rw [hflagj] at hdn'
        cases hdn : (st.ctl.env.flags.get j).down with
        | true =>
          exfalso
          rw [hdn] at hdn'
          cases m <;> simp [Receiver.step, toRecv] at hdn'
        | false =>
          refine ⟨rfl, [], ?_⟩
          rw [hdn] at hdn' hpo
          simp only [seqR, List.append_nil, hpo.1, hpo.2, ho]
          cases m with
          | ev e =>
            simp only [Receiver.step, toRecv, List.map_cons, List.map_nil, ofPost, Bool.false_eq_true, if_false]
            rw [evReports_append, msgReports_cons_ev]
            simp only [List.append_assoc]
          | ignored =>
            simp only [Receiver.step, toRecv, List.map_nil, List.append_nil, Bool.false_eq_true, if_false]
            simp [msgReports]
          | fin x sf ss => simp [Receiver.step, toRecv] at hdn'
          | garbage => simp [Receiver.step, toRecv] at hdn'
          | endMarker => simp [Receiver.step, toRecv] at hdn'
      · rw [List.getElem?_set_ne hkj] at hk'
        rw [hk] at hk'; cases hk'
        have hkj' : k ≠ j := fun hh => hkj hh.symm
        have : (Flags.get (AList.set st.ctl.env.flags j fl') k) = st.ctl.env.flags.get k := by
          rw [flags_get_set]; simp [hkj']
        rw [this] at hdn'
        exact ⟨hdn', [], by simp [seqR]⟩
  | crash j b =>
    simp only [Sys.step] at h
    split at h
    · cases h
    rename_i s1 hc
    simp only [Except.ok.injEq] at h; subst h
    unfold crashStep at hc
    split at hc
    · cases hc
    rename_i w hw
    split at hc
    · cases hc
    have hset : ∀ k wk, (st.wk.set j ({ w with alive := false, inbox := [], outbox := w.outbox ++ [WMsg.endMarker] } : Wk τ))[k]? = some wk →
        ∃ w0, st.wk[k]? = some w0 ∧ wk.posted = w0.posted ∧ wk.outbox = w0.outbox ++ (if k = j then [WMsg.endMarker] else []) := by
      intro k wk hk
      by_cases hkj : j = k
      · subst hkj
        rw [List.getElem?_set_self (lt_len_of_get hw)] at hk
        cases hk
        exact ⟨w, hw, rfl, by simp⟩
      · rw [List.getElem?_set_ne hkj] at hk
        have hkj' : k ≠ j := fun hh => hkj hh.symm
        exact ⟨wk, hk, rfl, by simp [hkj']⟩
    have hall : OwnTAll ({ st with wk := st.wk.set j ({ w with alive := false, inbox := [], outbox := w.outbox ++ [WMsg.endMarker] } : Wk τ) } : State σ τ) := by
      intro k wk hk
      obtain ⟨w0, h0, hp, hoo⟩ := hset k wk hk
      exact ownT_emit (hown k w0 h0) hp hoo (by intro n f hm; split at hm <;> simp at hm)
    have hext : ∀ (c' : Ctl.State σ τ), c'.pubs = st.ctl.pubs → (∀ n, (c'.env.flags.get n).down = (st.ctl.env.flags.get n).down) →
        Extends st ({ ctl := c', wk := st.wk.set j ({ w with alive := false, inbox := [], outbox := w.outbox ++ [WMsg.endMarker] } : Wk τ) } : State σ τ) := by
      intro c' hpub hdown
      refine ⟨by simp, ?_⟩
      intro k wk wk' hk hk' hdn'
      obtain ⟨w0, h0, hp, hoo⟩ := hset k wk' hk'
      rw [hk] at h0; cases h0
      rw [hdown k] at hdn'
      refine ⟨hdn', [], ?_⟩
      simp only [seqR, hpub, hp, hoo, msgReports_append, List.append_nil]
      have : msgReports (if k = j then [WMsg.endMarker] else [] : List (WMsg τ)) = [] := by split <;> rfl
      rw [this]; simp
    split at hc
    · simp only [Option.some.injEq] at hc; subst hc
      refine ⟨hall, hext _ rfl ?_⟩
      intro n
      show (Flags.get (AList.set st.ctl.env.flags j { st.ctl.env.flags.get j with broken := true }) n).down = _
      rw [flags_get_set]
      by_cases hnj : n = j
      · subst hnj; simp
      · simp [hnj]
    · simp only [Option.some.injEq] at hc; subst hc
      exact ⟨hall, hext _ rfl (fun _ => rfl)⟩
  | ctl j rq =>
    simp only [Sys.step] at h
    obtain ⟨w, ev, rest, c', hw, hp, hl, rfl⟩ := ctlStep_shape' h
    have hj := hown j w hw
    have hjlt := lt_len_of_get hw
    obtain ⟨as, hsteps, _⟩ := loopOnce_steps hl
    have hdown := steps_down hK hsteps
    obtain ⟨added, ha1, ha2, ha3⟩ := loopOnce_pubSpec I hl
    -- the records after the step, one by one
    have hget : ∀ k wk', (route (spawn idsOf (st.wk.set j { w with posted := rest }) c'.nextId) (c'.env.outs.drop st.ctl.env.outs.length))[k]? = some wk' →
        (k < st.wk.length → ∃ w0, st.wk[k]? = some w0 ∧ wk'.outbox = w0.outbox ∧ wk'.posted = (if k = j then rest else w0.posted)) ∧
        (st.wk.length ≤ k → wk'.outbox = [] ∧ wk'.posted = []) := by
      intro k wk' hk
      rw [route_get] at hk
      cases hsp : (spawn idsOf (st.wk.set j { w with posted := rest }) c'.nextId)[k]? with
      | none => rw [hsp] at hk; cases hk
      | some w0 =>
        rw [hsp] at hk
        simp only [Option.map_some, Option.some.injEq] at hk
        subst hk
        have hro : (routed k (c'.env.outs.drop st.ctl.env.outs.length) w0).outbox = w0.outbox ∧
            (routed k (c'.env.outs.drop st.ctl.env.outs.length) w0).posted = w0.posted := by
          unfold routed; split <;> exact ⟨rfl, rfl⟩
        constructor
        · intro hklt
          rw [spawn_get_old _ _ _ _ (by simp only [List.length_set]; exact hklt)] at hsp
          by_cases hkj : j = k
          · subst hkj
            rw [List.getElem?_set_self hjlt] at hsp
            cases hsp
            exact ⟨w, hw, hro.1, by rw [hro.2]; simp⟩
          · rw [List.getElem?_set_ne hkj] at hsp
            have hkj' : k ≠ j := fun hh => hkj hh.symm
            exact ⟨w0, hsp, hro.1, by rw [hro.2]; simp [hkj']⟩
        · intro hge
          have hlt2 : k < c'.nextId := by
            rcases Nat.lt_or_ge k c'.nextId with h' | h'
            · exact h'
            · exfalso
              have : (spawn idsOf (st.wk.set j { w with posted := rest }) c'.nextId).length ≤ k := by
                simp only [spawn, List.length_append, List.length_map, List.length_range, List.length_set]; omega
              rw [List.getElem?_eq_none this] at hsp; cases hsp
          rw [spawn_get_new _ _ _ _ (by simp only [List.length_set]; exact hge) hlt2] at hsp
          cases hsp
          exact ⟨hro.1, hro.2⟩
    refine ⟨?_, ⟨?_, ?_⟩⟩
    · intro k wk' hk
      obtain ⟨g1, g2⟩ := hget k wk' hk
      rcases Nat.lt_or_ge k st.wk.length with hklt | hge
      · obtain ⟨w0, h0, ho, hpp⟩ := g1 hklt
        have h00 := hown k w0 h0
        refine ⟨?_, by rw [ho]; exact h00.2⟩
        intro n f hm
        rw [hpp] at hm
        split at hm
        · rename_i hkj
          subst hkj
          rw [hw] at h0; cases h0
          exact h00.1 n f (by rw [hp]; exact List.mem_cons_of_mem _ hm)
        · exact h00.1 n f hm
      · obtain ⟨o1, o2⟩ := g2 hge
        refine ⟨?_, ?_⟩
        · intro n f hm; rw [o2] at hm; cases hm
        · intro n f hm; rw [o1] at hm; cases hm
    · rw [route_length]
      simp only [spawn, List.length_append, List.length_map, List.length_range, List.length_set]
      omega
    · intro k wk wk' hk hk' hdn'
      simp only at hk' hdn'
      obtain ⟨g1, _⟩ := hget k wk' hk'
      obtain ⟨w0, h0, ho, hpp⟩ := g1 (lt_len_of_get hk)
      rw [hk] at h0; cases h0
      rw [hdown k] at hdn'
      refine ⟨hdn', [], ?_⟩
      simp only [seqR, ha1, pubReports_append, ho, hpp, List.append_nil]
      -- is the handled event a test report of worker `j`?
      have hevcase : (∃ f, ev = .testreport j f) ∨ (∀ n f, fixRq rq ev ≠ .testreport n f) := by
        cases ev with
        | testreport n f =>
          left
          have : n = j := hj.1 n f (by rw [hp]; simp)
          subst this; exact ⟨f, rfl⟩
        | _ => right; intro n f hh; simp [fixRq] at hh
      by_cases hkj : k = j
      · subst hkj
        rw [hw] at hk; cases hk
        simp only [if_true]
        rcases hevcase with ⟨f, rfl⟩ | hno
        · have := ha2 k f rfl
          rw [this, hp]
          simp [pubReports, evReports]
        · have hnone : pubReports k added = [] := by
            unfold pubReports
            rw [List.filterMap_eq_nil_iff]
            intro p hp'
            cases p with
            | report n f => exact absurd hp' (ha3 hno n f)
            | _ => rfl
          rw [hnone, hp]
          have : evReports (ev :: rest) = evReports rest := by
            cases ev with
            | testreport n f => exact absurd rfl (hno n f)
            | _ => simp [evReports]
          rw [this]; simp
      · simp only [hkj, if_false]
        have hnone : pubReports k added = [] := by
          rcases hevcase with ⟨f, rfl⟩ | hno
          · rw [ha2 j f rfl]
            have hjk : j ≠ k := fun hh => hkj hh.symm
            simp [pubReports, hjk]
          · unfold pubReports
            rw [List.filterMap_eq_nil_iff]
            intro p hp'
            cases p with
            | report n f => exact absurd hp' (ha3 hno n f)
            | _ => rfl
        rw [hnone]; simp


theorem Extends.refl (st : State σ τ) : Extends st st :=
  ⟨Nat.le_refl _, fun k w w' hk hk' hdn => by rw [hk] at hk'; cases hk'; exact ⟨hdn, [], by simp⟩⟩

theorem Extends.trans {a b c : State σ τ} (h1 : Extends a b) (h2 : Extends b c) : Extends a c := by
  refine ⟨Nat.le_trans h1.1 h2.1, ?_⟩
  intro k wa wc hka hkc hdn
  have hkb : k < b.wk.length := Nat.lt_of_lt_of_le (lt_len_of_get hka) h1.1
  obtain ⟨wb, hwb⟩ : ∃ wb, b.wk[k]? = some wb := ⟨b.wk[k], by simp [List.getElem?_eq_getElem hkb]⟩
  obtain ⟨d2, n2, e2⟩ := h2.2 k wb wc hwb hkc hdn
  obtain ⟨d1, n1, e1⟩ := h1.2 k wa wb hka hwb d2
  exact ⟨d1, n1 ++ n2, by rw [e2, e1, List.append_assoc]⟩

theorem run_reports (I : SchedI σ τ) (hK : KeepsDown I) (idsOf : Nat → List τ) : ∀ (steps : List Step) {st st' : State σ τ},
    OwnTAll st → run I idsOf st steps = .ok st' → OwnTAll st' ∧ Extends st st' := by
  intro steps
  induction steps with
  | nil => intro st st' ho h; simp only [run, Except.ok.injEq] at h; subst h; exact ⟨ho, Extends.refl st⟩
  | cons a rest ih =>
    intro st st' ho h
    simp only [run] at h
    split at h
    · cases h
    · rename_i st1 hs
      obtain ⟨o1, e1⟩ := step_reports I hK idsOf a ho hs
      obtain ⟨o2, e2⟩ := ih o1 h
      exact ⟨o2, e1.trans e2⟩

/-- **Reports reach the controller once and in order — whole system** (C04; every scheduler whose calls leave `_down` alone: all
    six).  Take any execution up to a state `st1` and continue it in any way to `st2`.  For every worker `k` that has not been
    written off in `st2`: the sequence "reports of `k` published ++ reports of `k` waiting in the controller's queue ++ reports
    of `k` on the channel" in `st2` is the same sequence in `st1` **with something appended**.  So no report of a live worker is
    ever lost, duplicated, overtaken or invented between the worker's `pytest_runtest_logreport` and the controller's; the reports
    published about `k` at any moment are, in this order, the first reports `k` produced. -/
theorem C04_sys_reports_once_in_order (I : SchedI σ τ) (hK : KeepsDown I) (s0 : σ) (numnodes maxfail : Nat) (mr : Option Int)
    (idsOf : Nat → List τ) (pre post : List Step) {st1 st2 : State σ τ}
    (h1 : run I idsOf (init I s0 numnodes maxfail mr idsOf) pre = .ok st1) (h2 : run I idsOf st1 post = .ok st2)
    {k : Nat} {w1 w2 : Wk τ} (hk1 : st1.wk[k]? = some w1) (hk2 : st2.wk[k]? = some w2)
    (hlive : (st2.ctl.env.flags.get k).down = false) :
    ∃ new, pubReports k st2.ctl.pubs ++ evReports w2.posted ++ msgReports w2.outbox =
      (pubReports k st1.ctl.pubs ++ evReports w1.posted ++ msgReports w1.outbox) ++ new := by
  have h0 : OwnTAll (init I s0 numnodes maxfail mr idsOf) := by
    intro j w hj
    simp only [init, List.getElem?_map] at hj
    cases hr : (List.range numnodes)[j]? with
    | none => rw [hr] at hj; cases hj
    | some x =>
      rw [hr] at hj
      simp only [Option.map_some, Option.some.injEq] at hj
      subst hj
      refine ⟨?_, ?_⟩
      · intro n f hm; cases hm
      · intro n f hm; cases hm
  obtain ⟨o1, _⟩ := run_reports I hK idsOf pre h0 h1
  obtain ⟨_, e2⟩ := run_reports I hK idsOf post o1 h2
  exact (e2.2 k w1 w2 hk1 hk2 hlive).2

/-- … in each of the six `--dist` modes -/
theorem C04_sys_reports_once_in_order_all_modes (specs : AList Nat Nat) (s0 : Sched.Any) (numnodes maxfail : Nat) (mr : Option Int)
    (idsOf : Nat → List String) (pre post : List Step) {st1 st2 : State Sched.Any String}
    (h1 : run (Sched.iface specs) idsOf (init (Sched.iface specs) s0 numnodes maxfail mr idsOf) pre = .ok st1)
    (h2 : run (Sched.iface specs) idsOf st1 post = .ok st2)
    {k : Nat} {w1 w2 : Wk String} (hk1 : st1.wk[k]? = some w1) (hk2 : st2.wk[k]? = some w2)
    (hlive : (st2.ctl.env.flags.get k).down = false) :
    ∃ new, pubReports k st2.ctl.pubs ++ evReports w2.posted ++ msgReports w2.outbox =
      (pubReports k st1.ctl.pubs ++ evReports w1.posted ++ msgReports w1.outbox) ++ new :=
  C04_sys_reports_once_in_order (Sched.iface specs) (iface_keepsDown specs) s0 numnodes maxfail mr idsOf pre post h1 h2 hk1 hk2 hlive

end Xdist.Sys
