import XdistProofs.Sys.ActiveIds
import XdistProofs.Sched.EnvRel
/-!
  C17, whole system, all six modes: **a worker's death is handled exactly once, and the handler always finds the worker among the
  active ones** — `self._active_nodes.remove(node)` never raises `KeyError`, whatever the order of deaths, finishes, undecodable
  messages, replacements and stop requests; after the handler nothing of that worker is ever handed to the controller again.
-/
namespace Xdist.Sys
open Xdist Xdist.Ctl Xdist.Contract

set_option linter.unusedSectionVars false

variable {σ τ : Type} [DecidableEq τ]

/-- the scheduler's calls leave `_down` alone (true of all six: `Sched.any_step_flagFrame`) -/
def KeepsDown (I : SchedI σ τ) : Prop :=
  ∀ {s : σ} {e : Env} {op : SOp τ} {s' : σ} {e' : Env} {r : Option τ}, I.step s e op = .ok (s', e', r) →
    ∀ n, (e'.flags.get n).down = (e.flags.get n).down

/-- a death notice: the events after which the controller writes a worker off -/
def isDeath (ev : Ctl.Event τ) : Bool := (downOfEv ev).isSome

/-- what the receiver thread and the controller know about worker `k` -/
structure DInv (c : Ctl.State σ τ) (k : Nat) (w : Wk τ) : Prop where
  /-- a death notice waiting in the queue is about this worker -/
  ownP : ∀ ev ∈ w.posted, ∀ n, downOfEv ev = some n → n = k
  /-- a worker never sends a death notice as an ordinary event -/
  plainO : ∀ e, WMsg.ev e ∈ w.outbox → downOfEv e = none
  /-- a death notice is the last thing the receiver thread posts -/
  last : ∀ a ev b, w.posted = a ++ ev :: b → isDeath ev = true → b = []
  noticeDown : (∃ ev ∈ w.posted, isDeath ev = true) → (c.env.flags.get k).down = true
  inactive : k ∉ c.active → w.posted = [] ∧ (c.env.flags.get k).down = true

def DAll (st : State σ τ) : Prop := ∀ k w, st.wk[k]? = some w → DInv st.ctl k w

theorem fixRq_downOfEv (rq : Bool) (ev : Ctl.Event τ) : downOfEv (fixRq rq ev) = downOfEv ev := by cases ev <;> rfl

/-- what a step of the main thread or a command delivery adds to the outbox is never a death notice -/
theorem mainStep_out {k : Nat} {w w' : Wk τ} {p : MainP} (h : mainStep k w p = some w') :
    w'.posted = w.posted ∧ ∀ e, WMsg.ev e ∈ w'.outbox → WMsg.ev e ∈ w.outbox ∨ downOfEv e = none := by
  unfold mainStep at h
  split at h
  · cases h
  cases hph : w.phase with
  | boot =>
    simp only [hph, Option.some.injEq] at h; subst h
    refine ⟨rfl, ?_⟩
    intro e he
    simp only [List.mem_append, List.mem_singleton, WMsg.ev.injEq] at he
    rcases he with he | he
    · exact Or.inl he
    · subst he; exact Or.inr rfl
  | collect =>
    simp only [hph] at h
    cases p with
    | collect errs garbage intr sf0 =>
      simp only at h
      have key : ∀ e, WMsg.ev e ∈ ([WMsg.ignored] ++ errs.map (fun x => WMsg.ev (Ctl.Event.collectreport k x.1 x.2)) ++ [WMsg.ev (.collectionfinish k w.ids)] : List (WMsg τ)) →
          downOfEv e = none := by
        intro e he
        simp only [List.mem_append, List.mem_singleton, List.mem_map, List.mem_cons, List.not_mem_nil, or_false] at he
        rcases he with (he | ⟨x, _, he⟩) | he
        · cases he
        · cases he; rfl
        · cases he; rfl
      split at h
      · simp only [Option.some.injEq] at h; subst h
        refine ⟨rfl, ?_⟩
        intro e he
        simp only [List.mem_append] at he
        rcases he with he | he
        · exact Or.inl he
        · exact Or.inr (key e (by simpa [List.mem_append] using he))
      · simp only [Option.some.injEq] at h; subst h
        refine ⟨rfl, ?_⟩
        intro e he
        rw [List.append_assoc, List.mem_append] at he
        rcases he with he | he
        · exact Or.inl he
        · rw [List.mem_append] at he
          rcases he with he | he
          · exact Or.inr (key e he)
          · split at he <;> simp at he
    | none => cases h
    | reports a b c d => cases h
    | complete s => cases h
  | loop =>
    simp only [hph] at h
    cases hpc : w.w.pc with
    | init =>
      simp only [hpc] at h
      obtain ⟨w1, _, h2⟩ := Option.map_eq_some_iff.1 h
      subst h2; exact ⟨rfl, fun e he => Or.inl he⟩
    | haveItem =>
      simp only [hpc] at h
      obtain ⟨w1, _, h2⟩ := Option.map_eq_some_iff.1 h
      subst h2; exact ⟨rfl, fun e he => Or.inl he⟩
    | running =>
      simp only [hpc] at h
      split at h
      · simp only [Option.some.injEq] at h; subst h
        refine ⟨rfl, ?_⟩
        intro e he
        simp only [List.mem_append, List.mem_singleton, WMsg.ev.injEq] at he
        rcases he with he | he
        · exact Or.inl he
        · subst he; exact Or.inr rfl
      · simp only [Option.some.injEq] at h; subst h
        refine ⟨rfl, ?_⟩
        intro e he
        simp only [List.mem_append, List.mem_map, List.mem_singleton, WMsg.ev.injEq] at he
        rcases he with (he | ⟨f, _, he⟩) | he
        · exact Or.inl he
        · subst he; exact Or.inr rfl
        · subst he; exact Or.inr rfl
      · split at h
        · simp only [Option.some.injEq] at h; subst h; exact ⟨rfl, fun e he => Or.inl he⟩
        · split at h
          · simp only [Option.some.injEq] at h; subst h
            refine ⟨rfl, ?_⟩
            intro e he
            simp only [List.mem_append, List.mem_singleton, WMsg.ev.injEq] at he
            rcases he with he | he
            · exact Or.inl he
            · subst he; exact Or.inr rfl
          · cases h
      · cases h
    | done => simp only [hpc] at h; cases h
  | finish =>
    simp only [hph, Option.some.injEq] at h; subst h
    refine ⟨rfl, ?_⟩
    intro e he
    simp only [List.mem_append, List.mem_cons, List.not_mem_nil, or_false] at he
    rcases he with he | he | he
    · exact Or.inl he
    · cases he
    · cases he
  | done => simp only [hph] at h; cases h

theorem deliverStep_out {k : Nat} {w w' : Wk τ} (h : deliverStep k w = some w') :
    w'.posted = w.posted ∧ ∀ e, WMsg.ev e ∈ w'.outbox → WMsg.ev e ∈ w.outbox ∨ downOfEv e = none := by
  unfold deliverStep at h
  split at h
  · cases h
  split at h
  · cases h
  · rename_i c rest hin
    cases c with
    | run is => simp only [Option.some.injEq] at h; subst h; exact ⟨rfl, fun e he => Or.inl he⟩
    | runAll => simp only [Option.some.injEq] at h; subst h; exact ⟨rfl, fun e he => Or.inl he⟩
    | shutdown => simp only [Option.some.injEq] at h; subst h; exact ⟨rfl, fun e he => Or.inl he⟩
    | steal is =>
      simp only [Option.some.injEq] at h; subst h
      refine ⟨rfl, ?_⟩
      intro e he
      simp only [List.mem_append, List.mem_singleton, WMsg.ev.injEq] at he
      rcases he with he | he
      · exact Or.inl he
      · subst he; exact Or.inr rfl

theorem dinv_local {c : Ctl.State σ τ} {k : Nat} {w w' : Wk τ} (h : DInv c k w) (hp : w'.posted = w.posted)
    (ho : ∀ e, WMsg.ev e ∈ w'.outbox → WMsg.ev e ∈ w.outbox ∨ downOfEv e = none) : DInv c k w' :=
  { ownP := by rw [hp]; exact h.ownP
    plainO := fun e he => (ho e he).elim (h.plainO e) id
    last := by rw [hp]; exact h.last
    noticeDown := by rw [hp]; exact h.noticeDown
    inactive := by rw [hp]; exact h.inactive }

theorem dinv_ctl_congr {c c' : Ctl.State σ τ} {k : Nat} {w : Wk τ} (h : DInv c k w)
    (hd : (c.env.flags.get k).down = true → (c'.env.flags.get k).down = true) (ha : k ∉ c'.active → k ∉ c.active) : DInv c' k w :=
  { ownP := h.ownP, plainO := h.plainO, last := h.last
    noticeDown := fun x => hd (h.noticeDown x)
    inactive := fun x => ⟨(h.inactive (ha x)).1, hd (h.inactive (ha x)).2⟩ }

/-- the receiver thread: once the worker is written off it posts nothing; otherwise at most one event, and a death notice
    exactly when it writes the worker off -/
theorem receiver_posts {α : Type} (s : Receiver.State) (m : Receiver.Msg α) :
    (s.down = true → (Receiver.step s m).2.1 = [] ∧ (Receiver.step s m).1.down = true) ∧
    (s.down = false → ∀ p ∈ (Receiver.step s m).2.1,
        (∃ nm pl, m = .event nm pl ∧ p = .event nm pl) ∨
        ((p = .errordown ∨ ∃ pl, p = .workerfinished pl ∧ m = .workerfinished pl) ∧ (Receiver.step s m).1.down = true ∧
          (Receiver.step s m).2.1 = [p])) := by
  obtain ⟨d, ss⟩ := s
  cases m <;> cases d <;> simp [Receiver.step]


theorem lt_len_of_get {α : Type} {l : List α} {k : Nat} {w : α} (h : l[k]? = some w) : k < l.length := by
  rcases Nat.lt_or_ge k l.length with h' | h'
  · exact h'
  · rw [List.getElem?_eq_none h'] at h; cases h

/-- `ctlStep_shape` for an arbitrary scheduler -/
theorem ctlStep_shape' {I : SchedI σ τ} {idsOf : Nat → List τ} {st st' : State σ τ} {k : Nat} {rq : Bool}
    (h : ctlStep I idsOf st k rq = .ok st') :
    ∃ w ev0 rest c', st.wk[k]? = some w ∧ w.posted = ev0 :: rest ∧ Ctl.loopOnce I st.ctl (fixRq rq ev0) = .ok c' ∧
      st' = { ctl := c', wk := route (spawn idsOf (st.wk.set k { w with posted := rest }) c'.nextId)
                                  (c'.env.outs.drop st.ctl.env.outs.length) } := by
  unfold ctlStep at h
  split at h
  · cases h
  split at h
  · cases h
  split at h
  · cases h
  rename_i w hw
  split at h
  · cases h
  rename_i ev0 rest hp
  have hfix : (match ev0 with | .errordown n _ => Ctl.Event.errordown n rq | e => e) = fixRq rq ev0 := by
    cases ev0 <;> rfl
  simp only [hfix] at h
  split at h
  · cases h
  rename_i c' hl
  simp only [Except.ok.injEq] at h
  exact ⟨w, ev0, rest, c', hw, hp, hl, h.symm⟩

/-- `recvStep_shape` for an arbitrary scheduler -/
theorem recvStep_shape' {st st' : State σ τ} {k : Nat} (h : recvStep st k = some st') :
    ∃ w m rest fl' w2 outs', st.wk[k]? = some w ∧ w.outbox = m :: rest ∧
      st' = { st with ctl := { st.ctl with env := { flags := AList.set st.ctl.env.flags k fl', outs := outs' } },
                      wk := st.wk.set k w2 } ∧
      (let fl := st.ctl.env.flags.get k
       let r := Receiver.step { down := fl.down, shutdownSent := fl.sent } (toRecv k m)
       fl' = { down := r.1.down, sent := r.1.shutdownSent, broken := brokenAfter m fl.broken w.alive } ∧
       w2 = (let w1 : Wk τ := { w with outbox := rest, posted := w.posted ++ r.2.1.map (ofPost k) }
             if (r.2.2 && !fl.broken) = true then
               (if w1.alive then ({ w1 with inbox := w1.inbox ++ [.shutdown] } : Wk τ) else w1)
             else w1)) := by
  unfold recvStep at h
  split at h
  · cases h
  rename_i w hw
  split at h
  · cases h
  rename_i m rest ho
  have hk : k < st.wk.length := lt_len_of_get hw
  simp only [Option.some.injEq] at h
  refine ⟨w, m, rest,
    { down := (Receiver.step { down := (st.ctl.env.flags.get k).down, shutdownSent := (st.ctl.env.flags.get k).sent } (toRecv k m)).1.down,
      sent := (Receiver.step { down := (st.ctl.env.flags.get k).down, shutdownSent := (st.ctl.env.flags.get k).sent } (toRecv k m)).1.shutdownSent,
      broken := brokenAfter m (st.ctl.env.flags.get k).broken w.alive },
    _,
    (if ((Receiver.step { down := (st.ctl.env.flags.get k).down, shutdownSent := (st.ctl.env.flags.get k).sent } (toRecv k m)).2.2 &&
          !(st.ctl.env.flags.get k).broken) = true then st.ctl.env.outs ++ [SOut.shutdown k] else st.ctl.env.outs),
    hw, ho, ?_, rfl, rfl⟩
  rw [← h]
  congr 1
  split
  · rw [route_set_shutdown _ _ _ hk]
  · rfl

theorem steps_down {I : SchedI σ τ} (hK : KeepsDown I) {s s' : σ} {e e' : Env} {as : List (Atom τ)} (h : Steps I s e as s' e') :
    ∀ n, (e'.flags.get n).down = (e.flags.get n).down := by
  induction h with
  | nil => intro n; rfl
  | call hc _ ih => intro n; rw [ih n, hK hc n]
  | shut k _ ih =>
    intro n
    rw [ih n]
    exact ((flagFrame_envRel.shutdown _ k).1 n).1

theorem append_single_split {α : Type} {l a b : List α} {q x : α} (h : l ++ [q] = a ++ x :: b) : (b = [] ∧ x = q) ∨ x ∈ l := by
  induction l generalizing a with
  | nil =>
    cases a with
    | nil =>
      simp only [List.nil_append, List.cons.injEq] at h
      exact Or.inl ⟨h.2.symm, h.1.symm⟩
    | cons y t =>
      simp only [List.nil_append, List.cons_append, List.cons.injEq] at h
      have := h.2
      cases t <;> simp at this
  | cons y t ih =>
    cases a with
    | nil => simp only [List.cons_append, List.nil_append, List.cons.injEq] at h; exact Or.inr (by rw [h.1]; simp)
    | cons z a' =>
      simp only [List.cons_append, List.cons.injEq] at h
      rcases ih h.2 with h' | h'
      · exact Or.inl h'
      · exact Or.inr (List.mem_cons_of_mem _ h')

/-- **every step of every thread keeps what receiver threads and controller know about each worker's death** -/
theorem step_dall (I : SchedI σ τ) (hK : KeepsDown I) (idsOf : Nat → List τ) {st st' : State σ τ} (a : Step) (hlen : st.wk.length = st.ctl.nextId)
    (hd : DAll st) (h : step I idsOf st a = .ok st') : DAll st' := by
  cases a with
  | main j p =>
    simp only [Sys.step] at h
    split at h
    · cases h
    rename_i w hw
    split at h
    · cases h
    rename_i w' hm
    simp only [Except.ok.injEq] at h; subst h
    obtain ⟨m1, m2⟩ := mainStep_out hm
    intro k wk hk
    simp only [setWk] at hk
    by_cases hkj : j = k
    · subst hkj
      rw [List.getElem?_set_self (lt_len_of_get hw)] at hk
      cases hk
      exact dinv_local (hd j w hw) m1 m2
    · rw [List.getElem?_set_ne hkj] at hk
      exact hd k wk hk
  | deliver j =>
    simp only [Sys.step] at h
    split at h
    · cases h
    rename_i w hw
    split at h
    · cases h
    rename_i w' hm
    simp only [Except.ok.injEq] at h; subst h
    obtain ⟨m1, m2⟩ := deliverStep_out hm
    intro k wk hk
    simp only [setWk] at hk
    by_cases hkj : j = k
    · subst hkj
      rw [List.getElem?_set_self (lt_len_of_get hw)] at hk
      cases hk
      exact dinv_local (hd j w hw) m1 m2
    · rw [List.getElem?_set_ne hkj] at hk
      exact hd k wk hk
  | recv j =>
    simp only [Sys.step] at h
    split at h
    · cases h
    rename_i s1 hr
    simp only [Except.ok.injEq] at h; subst h
    obtain ⟨w, m, rest, fl', w2, outs', hw, ho, rfl, hfl, hw2⟩ := recvStep_shape' hr
    generalize hrr : Receiver.step { down := (st.ctl.env.flags.get j).down, shutdownSent := (st.ctl.env.flags.get j).sent }
      (toRecv j m) = r at hfl hw2
    obtain ⟨p1, p2⟩ := receiver_posts { down := (st.ctl.env.flags.get j).down, shutdownSent := (st.ctl.env.flags.get j).sent } (toRecv j m)
    rw [hrr] at p1 p2
    simp only at p1 p2
    have hj := hd j w hw
    have hflag : ∀ n, n ≠ j → (Flags.get (AList.set st.ctl.env.flags j fl') n) = st.ctl.env.flags.get n := by
      intro n hn; rw [flags_get_set]; simp [hn]
    have hflagj : (Flags.get (AList.set st.ctl.env.flags j fl') j).down = r.1.down := by
      rw [flags_get_set]; simp [hfl]
    intro k wk hk
    simp only at hk
    by_cases hkj : j = k
    · subst hkj
      rw [List.getElem?_set_self (lt_len_of_get hw)] at hk
      cases hk
      -- the worker whose message is processed
      have hpo : w2.posted = w.posted ++ r.2.1.map (ofPost j) ∧ w2.outbox = rest := by
        rw [hw2]; simp only
        split
        · split <;> exact ⟨rfl, rfl⟩
        · exact ⟨rfl, rfl⟩
      have hplain : ∀ e, WMsg.ev e ∈ w2.outbox → downOfEv e = none := by
        intro e he; rw [hpo.2] at he
        exact hj.plainO e (by rw [ho]; exact List.mem_cons_of_mem _ he)
      cases hdn : (st.ctl.env.flags.get j).down with
      | true =>
        obtain ⟨q1, q2⟩ := p1 hdn
        have hpp : w2.posted = w.posted := by rw [hpo.1, q1]; simp
        exact { ownP := by rw [hpp]; exact hj.ownP
                plainO := hplain
                last := by rw [hpp]; exact hj.last
                noticeDown := fun _ => by simp only; rw [hflagj]; exact q2
                inactive := fun hna => ⟨by rw [hpp]; exact (hj.inactive hna).1, by simp only; rw [hflagj]; exact q2⟩ }
      | false =>
        have hnodeath : ∀ ev ∈ w.posted, isDeath ev = false := by
          intro ev hev
          cases hde : isDeath ev with
          | false => rfl
          | true => have := hj.noticeDown ⟨ev, hev, hde⟩; rw [hdn] at this; cases this
        have hq := p2 hdn
        -- what is posted: nothing, one ordinary event of the worker, or one death notice about it (and it is written off)
        have hposts : r.2.1 = [] ∨ (∃ e, r.2.1.map (ofPost j) = [e] ∧ downOfEv e = none) ∨
            (∃ e, r.2.1.map (ofPost j) = [e] ∧ downOfEv e = some j ∧ r.1.down = true) := by
          cases hl : r.2.1 with
          | nil => exact Or.inl rfl
          | cons p t =>
            right
            rcases hq p (by rw [hl]; simp) with ⟨nm, pl, hm, hp⟩ | ⟨hkind, hdown, hsingle⟩
            · -- an ordinary event
              have hmsg : m = WMsg.ev pl := by
                cases m <;> simp [toRecv] at hm
                exact hm.2 ▸ rfl
              have hpl : downOfEv pl = none := hj.plainO pl (by rw [ho, hmsg]; simp)
              have ht : t = [] := by
                have := p2 hdn
                cases m <;> simp [toRecv] at hm
                have hs : r.2.1 = [Receiver.Post.event "" pl] := by
                  rw [← hrr, hdn]; simp [Receiver.step, toRecv, hm.2]
                rw [hl] at hs; simp at hs; exact hs.2
              left
              exact ⟨pl, by rw [ht, hp]; rfl, hpl⟩
            · right
              rw [hl] at hsingle
              simp only [List.cons.injEq, true_and] at hsingle
              subst hsingle
              rcases hkind with rfl | ⟨pl, rfl, hm⟩
              · exact ⟨.errordown j false, rfl, rfl, hdown⟩
              · have : ∃ x sf ss, pl = Ctl.Event.workerfinished j x sf ss := by
                  cases m <;> simp [toRecv] at hm
                  exact ⟨_, _, _, hm.symm⟩
                obtain ⟨x, sf, ss, rfl⟩ := this
                exact ⟨_, rfl, rfl, hdown⟩
        rcases hposts with h0 | ⟨e, he, hpl⟩ | ⟨e, he, hpl, hdown⟩
        · have hpp : w2.posted = w.posted := by rw [hpo.1, h0]; simp
          exact { ownP := by rw [hpp]; exact hj.ownP
                  plainO := hplain
                  last := by rw [hpp]; exact hj.last
                  noticeDown := fun ⟨ev, hev, hde⟩ => by rw [hpp] at hev; rw [hnodeath ev hev] at hde; cases hde
                  inactive := fun hna => by have := (hj.inactive hna).2; rw [hdn] at this; cases this }
        · have hpp : w2.posted = w.posted ++ [e] := by rw [hpo.1, he]
          have hnd : isDeath e = false := by unfold isDeath; rw [hpl]; rfl
          exact { ownP := by
                    intro ev hev n hn
                    rw [hpp, List.mem_append] at hev
                    rcases hev with hev | hev
                    · exact hj.ownP ev hev n hn
                    · simp at hev; subst hev; rw [hpl] at hn; cases hn
                  plainO := hplain
                  last := by
                    intro a ev b hsplit hde
                    rw [hpp] at hsplit
                    rcases append_single_split hsplit with ⟨hb, hx⟩ | hx
                    · exact hb
                    · rw [hnodeath ev hx] at hde; cases hde
                  noticeDown := fun ⟨ev, hev, hde⟩ => by
                    rw [hpp, List.mem_append] at hev
                    rcases hev with hev | hev
                    · rw [hnodeath ev hev] at hde; cases hde
                    · simp at hev; subst hev; rw [hnd] at hde; cases hde
                  inactive := fun hna => by have := (hj.inactive hna).2; rw [hdn] at this; cases this }
        · have hpp : w2.posted = w.posted ++ [e] := by rw [hpo.1, he]
          exact { ownP := by
                    intro ev hev n hn
                    rw [hpp, List.mem_append] at hev
                    rcases hev with hev | hev
                    · exact hj.ownP ev hev n hn
                    · simp at hev; subst hev; rw [hpl] at hn; cases hn; rfl
                  plainO := hplain
                  last := by
                    intro a ev b hsplit hde
                    rw [hpp] at hsplit
                    rcases append_single_split hsplit with ⟨hb, hx⟩ | hx
                    · exact hb
                    · rw [hnodeath ev hx] at hde; cases hde
                  noticeDown := fun _ => by simp only; rw [hflagj]; exact hdown
                  inactive := fun hna => by have := (hj.inactive hna).2; rw [hdn] at this; cases this }
    · rw [List.getElem?_set_ne hkj] at hk
      have hk' := hd k wk hk
      refine dinv_ctl_congr hk' ?_ (fun x => x)
      intro hdk
      simp only
      rw [hflag k (fun hh => hkj hh.symm)]
      exact hdk
  | crash j b =>
    simp only [Sys.step] at h
    split at h
    · cases h
    rename_i s1 hc
    simp only [Except.ok.injEq] at h; subst h
    unfold crashStep at hc
    split at hc
    · cases hc
    rename_i w hw
    split at hc
    · cases hc
    have hloc : DInv st.ctl j ({ w with alive := false, inbox := [], outbox := w.outbox ++ [WMsg.endMarker] } : Wk τ) :=
      dinv_local (hd j w hw) rfl (by
        intro e he
        simp only [List.mem_append, List.mem_singleton] at he
        rcases he with he | he
        · exact Or.inl he
        · cases he)
    have hall : ∀ k wk, (st.wk.set j ({ w with alive := false, inbox := [], outbox := w.outbox ++ [WMsg.endMarker] } : Wk τ))[k]? = some wk →
        DInv st.ctl k wk := by
      intro k wk hk
      by_cases hkj : j = k
      · subst hkj
        rw [List.getElem?_set_self (lt_len_of_get hw)] at hk
        cases hk; exact hloc
      · rw [List.getElem?_set_ne hkj] at hk
        exact hd k wk hk
    split at hc
    · simp only [Option.some.injEq] at hc; subst hc
      intro k wk hk
      refine dinv_ctl_congr (hall k wk hk) ?_ (fun x => x)
      intro hdk
      show (Flags.get (AList.set st.ctl.env.flags j { st.ctl.env.flags.get j with broken := true }) k).down = true
      rw [flags_get_set]
      by_cases hkj : k = j
      · subst hkj; simp only [if_true]; exact hdk
      · simp only [hkj, if_false]; exact hdk
    · simp only [Option.some.injEq] at hc; subst hc
      exact hall
  | ctl j rq =>
    simp only [Sys.step] at h
    obtain ⟨w, ev, rest, c', hw, hp, hl, rfl⟩ := ctlStep_shape' h
    have hj := hd j w hw
    have hjlt := lt_len_of_get hw
    obtain ⟨as, hsteps, _⟩ := loopOnce_steps hl
    have hdown := steps_down hK hsteps
    have hact := loopOnce_act I hl
    rw [fixRq_downOfEv] at hact
    have hgone : ∀ g, downOfEv ev = some g → g = j := fun g hg => hj.ownP ev (by rw [hp]; simp) g hg
    intro k wk hk
    simp only at hk
    rw [route_get] at hk
    cases hsp : (spawn idsOf (st.wk.set j { w with posted := rest }) c'.nextId)[k]? with
    | none => rw [hsp] at hk; cases hk
    | some w0 =>
      rw [hsp] at hk
      simp only [Option.map_some, Option.some.injEq] at hk
      subst hk
      have hrouted : ∀ (x : Wk τ), DInv c' k x → DInv c' k (routed k (c'.env.outs.drop st.ctl.env.outs.length) x) := by
        intro x hx
        refine dinv_local hx ?_ ?_
        · unfold routed; split <;> rfl
        · intro e he; left
          unfold routed at he; split at he <;> exact he
      apply hrouted
      by_cases hklt : k < (st.wk.set j { w with posted := rest }).length
      · rw [spawn_get_old _ _ _ _ hklt] at hsp
        by_cases hkj : j = k
        · subst hkj
          rw [List.getElem?_set_self hjlt] at hsp
          cases hsp
          -- the worker whose event was handled
          exact { ownP := fun e he => hj.ownP e (by rw [hp]; exact List.mem_cons_of_mem _ he)
                  plainO := hj.plainO
                  last := by
                    intro a e b hsplit hde
                    have hs' : rest = a ++ e :: b := hsplit
                    exact hj.last (ev :: a) e b (by rw [hp, hs']; rfl) hde
                  noticeDown := fun ⟨e, he, hde⟩ => by
                    rw [hdown j]
                    exact hj.noticeDown ⟨e, by rw [hp]; exact List.mem_cons_of_mem _ he, hde⟩
                  inactive := by
                    intro hna
                    have hin : j ∈ st.ctl.active := by
                      apply Classical.byContradiction
                      intro hni
                      have := (hj.inactive hni).1
                      rw [hp] at this; cases this
                    rcases hact.keep j hin with h' | h'
                    · exact absurd h' hna
                    · have hde : isDeath ev = true := by unfold isDeath; rw [h']; rfl
                      refine ⟨hj.last [] ev rest (by rw [hp]; rfl) hde, ?_⟩
                      rw [hdown j]
                      exact hj.noticeDown ⟨ev, by rw [hp]; simp, hde⟩ }
        · rw [List.getElem?_set_ne hkj] at hsp
          have hk' := hd k w0 hsp
          refine dinv_ctl_congr hk' (fun x => by rw [hdown k]; exact x) ?_
          intro hna hin
          rcases hact.keep k hin with h' | h'
          · exact hna h'
          · exact hkj (hgone k h').symm
      · -- a worker started in this iteration
        simp only [List.length_set] at hklt
        have hge : st.wk.length ≤ k := Nat.le_of_not_lt hklt
        have hlt2 : k < c'.nextId := by
          rcases Nat.lt_or_ge k c'.nextId with h' | h'
          · exact h'
          · exfalso
            have : (spawn idsOf (st.wk.set j { w with posted := rest }) c'.nextId).length ≤ k := by
              simp only [spawn, List.length_append, List.length_map, List.length_range, List.length_set]; omega
            rw [List.getElem?_eq_none this] at hsp; cases hsp
        rw [spawn_get_new _ _ _ _ (by simp only [List.length_set]; exact hge) hlt2] at hsp
        cases hsp
        have hkact : k ∈ c'.active :=
          hact.fresh (fun g hg => by rw [hgone g hg, ← hlen]; exact hjlt) k (by rw [← hlen]; exact hge) hlt2
        exact { ownP := by intro e he; cases he
                plainO := by intro e he; cases he
                last := by intro a e b hsplit; cases a <;> cases hsplit
                noticeDown := fun ⟨e, he, _⟩ => by cases he
                inactive := fun hna => absurd hkact hna }


theorem iface_keepsDown (specs : AList Nat Nat) : KeepsDown (Sched.iface specs) := by
  intro s e op s' e' r h n
  exact ((Sched.any_step_flagFrame specs h).1 n).1

theorem run_dall (I : SchedI σ τ) (hK : KeepsDown I) (idsOf : Nat → List τ) {k : Nat} {mr : Option Int} :
    ∀ (steps : List Step) {st st' : State σ τ}, BudgetSys k mr st → DAll st → run I idsOf st steps = .ok st' → DAll st' := by
  intro steps
  induction steps with
  | nil => intro st st' _ hd h; simp only [run, Except.ok.injEq] at h; subst h; exact hd
  | cons a rest ih =>
    intro st st' hb hd h
    simp only [run] at h
    split at h
    · cases h
    · rename_i st1 hs
      exact ih (step_budgetSys I idsOf a hb hs) (step_dall I hK idsOf a hb.2 hd hs) h

/-- **A worker's death is handled once, and the handler finds the worker** (C17; whole system; every scheduler whose calls leave
    `_down` alone — all six, `iface_keepsDown`).  In every state any execution can reach — any order of crashes, normal finishes,
    undecodable messages, replacements, stop requests —:
    * a death notice (`errordown`, `workerfinished`, internal error) at the head of a worker's events is **about that worker**,
      the worker **is still counted active** — so `self._active_nodes.remove(node)` in the handler cannot raise `KeyError` —
      and **nothing follows it** in the queue;
    * a worker that is no longer active has nothing waiting in the queue and is written off (`_down`), so its receiver thread
      hands the controller nothing any more: no death is handled twice. -/
theorem C17_sys_death_handled_once (I : SchedI σ τ) (hK : KeepsDown I) (s0 : σ) (numnodes maxfail : Nat) (mr : Option Int)
    (idsOf : Nat → List τ) (steps : List Step) {st : State σ τ}
    (h : run I idsOf (init I s0 numnodes maxfail mr idsOf) steps = .ok st) :
    (∀ j w ev rest n, st.wk[j]? = some w → w.posted = ev :: rest → downOfEv ev = some n →
        n = j ∧ j ∈ st.ctl.active ∧ rest = []) ∧
    (∀ k w, st.wk[k]? = some w → k ∉ st.ctl.active → w.posted = [] ∧ (st.ctl.env.flags.get k).down = true) := by
  have hb0 : BudgetSys numnodes mr (init I s0 numnodes maxfail mr idsOf) :=
    ⟨Ctl.init_inv I s0 numnodes maxfail mr, by simp [init, Ctl.init]⟩
  have hd0 : DAll (init I s0 numnodes maxfail mr idsOf) := by
    intro k w hk
    simp only [init, List.getElem?_map] at hk
    cases hr : (List.range numnodes)[k]? with
    | none => rw [hr] at hk; cases hk
    | some x =>
      rw [hr] at hk
      simp only [Option.map_some, Option.some.injEq] at hk
      subst hk
      have hx : x = k ∧ k < numnodes := by
        have := List.getElem?_eq_some_iff.1 hr
        obtain ⟨hlt, heq⟩ := this
        simp only [List.length_range] at hlt
        simp only [List.getElem_range] at heq
        exact ⟨heq.symm, hlt⟩
      exact { ownP := by intro e he; cases he
              plainO := by intro e he; cases he
              last := by intro a e b hsplit; cases a <;> cases hsplit
              noticeDown := fun ⟨e, he, _⟩ => by cases he
              inactive := fun hna => absurd (by simp [init, Ctl.init, hx.2]) hna }
  have hd := run_dall I hK idsOf steps hb0 hd0 h
  refine ⟨?_, fun k w hw hna => (hd k w hw).inactive hna⟩
  intro j w ev rest n hw hp hn
  have hj := hd j w hw
  have hde : isDeath ev = true := by unfold isDeath; rw [hn]; rfl
  refine ⟨hj.ownP ev (by rw [hp]; simp) n hn, ?_, hj.last [] ev rest (by rw [hp]; rfl) hde⟩
  apply Classical.byContradiction
  intro hna
  have := (hj.inactive hna).1
  rw [hp] at this; cases this

/-- … in particular in each of the six `--dist` modes -/
theorem C17_sys_death_handled_once_all_modes (specs : AList Nat Nat) (s0 : Sched.Any) (numnodes maxfail : Nat) (mr : Option Int)
    (idsOf : Nat → List String) (steps : List Step) {st : State Sched.Any String}
    (h : run (Sched.iface specs) idsOf (init (Sched.iface specs) s0 numnodes maxfail mr idsOf) steps = .ok st) :
    (∀ j w ev rest n, st.wk[j]? = some w → w.posted = ev :: rest → downOfEv ev = some n →
        n = j ∧ j ∈ st.ctl.active ∧ rest = []) ∧
    (∀ k w, st.wk[k]? = some w → k ∉ st.ctl.active → w.posted = [] ∧ (st.ctl.env.flags.get k).down = true) :=
  C17_sys_death_handled_once (Sched.iface specs) (iface_keepsDown specs) s0 numnodes maxfail mr idsOf steps h

end Xdist.Sys
