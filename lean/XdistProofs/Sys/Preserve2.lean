import XdistProofs.Sys.Inv2
import XdistProofs.Sys.PreserveSteps
/-! The worker-side steps (`main`, `deliver`, `crash`) keep the second layer of the invariant (`Sys/Inv2.lean`). -/
namespace Xdist.Sys
open Xdist

variable {τ : Type} [DecidableEq τ]

theorem inv2_of {st : LState τ} (hc : CtlInv2 st.ctl) (hw : ∀ j w, st.wk[j]? = some w → WkInv2 st.ctl j w) : Inv2 st := by
  refine ⟨hc, ?_⟩
  intro p hp
  rw [List.mem_zipIdx_iff_getElem?] at hp
  exact hw p.2 p.1 (by simpa using hp)

/-- a step that changes one worker and leaves the controller alone -/
theorem inv2_setWk {st : LState τ} {k : Nat} {w w' : Wk τ} (hinv : Inv2 st) (hw : st.wk[k]? = some w)
    (h' : WkInv2 st.ctl k w') : Inv2 (setWk st k w') := by
  refine inv2_of hinv.1 ?_
  intro j wj hj
  by_cases hjk : j = k
  · subst hjk
    simp only [setWk] at hj
    rw [getElem?_set_self' hw] at hj
    cases hj
    exact h'
  · simp only [setWk] at hj
    rw [List.getElem?_set_ne (Ne.symm hjk)] at hj
    exact hinv.wk hj

theorem finOk_two (lt : Bool) (sf ss : Option String) : finOk lt 2 sf ss = true := by simp [finOk]

/-- a main-thread step that only emits messages -/
theorem wkInv2_emit {c : Ctl.State (Load.State τ) τ} {k : Nat} {w w' : Wk τ} (ms : List (WMsg τ)) (h : WkInv2 c k w)
    (hposted : w'.posted = w.posted) (houtbox : w'.outbox = w.outbox ++ ms)
    (hcoll : collPending k w = true → collPending k w' = true)
    (hshut : shutSeen w' = true → shutSeen w = true)
    (hrun : w'.w.pc = .running → w'.w.next.isSome = true)
    (hfin : (w'.phase = .finish ∨ w'.phase = .done) →
      finOk (late c) w'.exitstatus w'.sf w'.ss = true ∨ (c.env.flags.get k).down = true)
    (hms : ∀ m ∈ ms, msgFinOk (late c) m = true ∨ (c.env.flags.get k).down = true) : WkInv2 c k w' := by
  refine ⟨?_, fun hs => h.shutProv (hshut hs), hrun, hfin, ?_, by rw [hposted]; exact h.finPosted⟩
  · rcases h.reg with hh | hh
    · exact Or.inl (hcoll hh)
    · exact Or.inr hh
  · intro m hm
    rw [houtbox] at hm
    rcases List.mem_append.1 hm with hm | hm
    · exact h.finOut m hm
    · exact hms m hm

theorem shutSeen_of_parts {w w' : Wk τ} (hi : w'.inbox = w.inbox)
    (ht : w'.w.torun.contains .shutdown = true → shutSeen w = true)
    (hn : w'.w.next = some .shutdown → shutSeen w = true) (h : shutSeen w' = true) : shutSeen w = true := by
  unfold shutSeen at h
  simp only [Bool.or_eq_true] at h
  rcases h with (h | h) | h
  · unfold shutSeen; rw [hi] at h; simp only [Bool.or_eq_true]; exact Or.inl (Or.inl h)
  · exact ht h
  · exact hn (by simpa using h)

theorem shutSeen_torun {w : Wk τ} (h : w.w.torun.contains .shutdown = true) : shutSeen w = true := by
  unfold shutSeen; simp only [Bool.or_eq_true]; exact Or.inl (Or.inr h)

theorem shutSeen_next {w : Wk τ} (h : w.w.next = some .shutdown) : shutSeen w = true := by
  unfold shutSeen; simp [h]

/-- **every step of a worker's main thread keeps the second layer** -/
theorem mainStep_inv2 {c : Ctl.State (Load.State τ) τ} {k : Nat} {w w' : Wk τ} {p : MainP} (h : WkInv2 c k w)
    (hm : mainStep k w p = some w') : WkInv2 c k w' := by
  unfold mainStep at hm
  have ha : w.alive = true := by
    cases hh : w.alive with
    | true => rfl
    | false => simp [hh] at hm
  have hna : (!w.alive) = false := by simp [ha]
  simp only [hna, Bool.false_eq_true, ↓reduceIte] at hm
  cases hph : w.phase with
  | boot =>
    simp only [hph, Option.some.injEq] at hm
    subst hm
    refine wkInv2_emit [.ev (.workerready k)] h rfl rfl (fun _ => by simp [collPending]) (fun hs => hs) h.runNext
      (by intro hh; simp at hh) (by intro m hm; simp at hm; subst hm; left; rfl)
  | collect =>
    simp only [hph] at hm
    cases p with
    | collect errs garbage intr sf0 =>
      simp only at hm
      split at hm
      · simp only [Option.some.injEq] at hm
        subst hm
        refine wkInv2_emit _ h rfl rfl (fun _ => by simp [collPending, flight, List.filterMap_append, evOf, isColl]) (fun hs => hs)
          h.runNext (fun _ => Or.inl (finOk_two _ _ _)) ?_
        intro m hm
        simp only [List.mem_append, List.mem_cons, List.mem_map, List.mem_singleton, List.not_mem_nil, or_false, false_or] at hm
        rcases hm with (rfl | ⟨x, _, rfl⟩) | rfl <;> exact Or.inl rfl
      · simp only [Option.some.injEq] at hm
        subst hm
        refine wkInv2_emit (([WMsg.ignored] ++ errs.map (fun e => WMsg.ev (Ctl.Event.collectreport k e.1 e.2)) ++
            [WMsg.ev (Ctl.Event.collectionfinish k w.ids)]) ++ (if garbage then [WMsg.garbage] else [])) h rfl (by simp [List.append_assoc])
          (fun _ => by simp [collPending, flight, List.filterMap_append, evOf, isColl]) (fun hs => hs)
          h.runNext (by intro hh; simp at hh) ?_
        intro m hm
        simp only [List.mem_append, List.mem_cons, List.mem_map, List.mem_singleton, List.not_mem_nil, or_false, false_or] at hm
        rcases hm with ((rfl | ⟨x, _, rfl⟩) | rfl) | hm
        · exact Or.inl rfl
        · exact Or.inl rfl
        · exact Or.inl rfl
        · split at hm <;> simp at hm
          subst hm; exact Or.inl rfl
    | none => simp at hm
    | reports fs sf ss ex => simp at hm
    | complete slow => simp at hm
  | finish =>
    simp only [hph, Option.some.injEq] at hm
    subst hm
    have hnb : w.phase ≠ .boot := by rw [hph]; simp
    have hnc : w.phase ≠ .collect := by rw [hph]; simp
    refine wkInv2_emit [.fin w.exitstatus w.sf w.ss, .endMarker] h rfl rfl (collPending_emit k rfl rfl hnb hnc) (fun hs => hs) h.runNext
      (fun _ => h.finCause (Or.inl hph)) ?_
    intro m hm
    simp only [List.mem_cons, List.not_mem_nil, or_false] at hm
    rcases hm with rfl | rfl
    · exact h.finCause (Or.inl hph)
    · exact Or.inl rfl
  | done => simp [hph] at hm
  | loop =>
    simp only [hph] at hm
    have hnb : w.phase ≠ .boot := by rw [hph]; simp
    have hnc : w.phase ≠ .collect := by rw [hph]; simp
    cases hpc : w.w.pc with
    | init =>
      simp only [hpc] at hm
      obtain ⟨v, hv, rfl⟩ := Option.map_eq_some_iff.1 hm
      unfold Worker.get0 at hv
      simp only [hpc, ne_eq, not_true_eq_false, ↓reduceIte] at hv
      split at hv
      · cases hv
      · rename_i q r htr
        simp only [Option.some.injEq] at hv
        subst hv
        refine wkInv2_emit [] h rfl (by simp) (collPending_emit k rfl (List.append_nil _).symm hnb hnc) ?_ ?_ ?_ (by simp)
        · refine shutSeen_of_parts rfl ?_ ?_
          · intro hh; simp only at hh; exact shutSeen_torun (by rw [htr]; simp only [List.contains_cons, Bool.or_eq_true]; exact Or.inr hh)
          · intro hh; simp only [Option.some.injEq] at hh; subst hh; exact shutSeen_torun (by rw [htr]; simp)
        · intro hh; cases q <;> simp at hh
        · intro hh
          simp only at hh
          cases q with
          | test j => simp at hh
          | shutdown =>
            rcases h.shutProv (shutSeen_torun (by rw [htr]; simp)) with hl | hd
            · left; simp [finOk, hl]
            · exact Or.inr hd
    | haveItem =>
      simp only [hpc] at hm
      obtain ⟨v, hv, rfl⟩ := Option.map_eq_some_iff.1 hm
      unfold Worker.get1 at hv
      simp only [hpc, ne_eq, not_true_eq_false, ↓reduceIte] at hv
      split at hv
      · rename_i i q r hnx htr
        simp only [Option.some.injEq] at hv
        subst hv
        refine wkInv2_emit [] h rfl (by simp) (collPending_emit k rfl (List.append_nil _).symm hnb hnc) ?_ (fun _ => rfl) ?_ (by simp)
        · refine shutSeen_of_parts rfl ?_ ?_
          · intro hh; simp only at hh; exact shutSeen_torun (by rw [htr]; simp only [List.contains_cons, Bool.or_eq_true]; exact Or.inr hh)
          · intro hh; simp only [Option.some.injEq] at hh; subst hh; exact shutSeen_torun (by rw [htr]; simp)
        · intro hh; simp [hph] at hh
      · cases hv
    | done => simp [hpc] at hm
    | running =>
      simp only [hpc] at hm
      have hnx := h.runNext hpc
      split at hm
      · -- logstart
        simp only [Option.some.injEq] at hm
        subst hm
        refine wkInv2_emit [.ev .other] h rfl rfl (collPending_emit k rfl rfl hnb hnc) (fun hs => hs) (fun _ => hnx)
          (by intro hh; simp [hph] at hh) (by intro m hm; simp at hm; subst hm; exact Or.inl rfl)
      · -- the reports
        simp only [Option.some.injEq] at hm
        subst hm
        refine wkInv2_emit _ h rfl (List.append_assoc _ _ _) (collPending_emit k rfl (List.append_assoc _ _ _) hnb hnc) (fun hs => hs)
          (fun _ => hnx) (by intro hh; simp [hph] at hh) ?_
        intro m hm
        simp only [List.mem_append, List.mem_map, List.mem_singleton] at hm
        rcases hm with ⟨x, _, rfl⟩ | rfl <;> exact Or.inl rfl
      · -- the completion
        split at hm
        · simp only [Option.some.injEq] at hm
          subst hm
          rename_i hex
          refine wkInv2_emit [] h rfl (by simp) (collPending_emit k rfl (List.append_nil _).symm hnb hnc) (fun hs => hs) (fun _ => hnx)
            (fun _ => Or.inl (by simp only; rw [hex]; exact finOk_two _ _ _)) (by simp)
        · split at hm
          · rename_i i v hcur hfin
            simp only [Option.some.injEq] at hm
            subst hm
            unfold Worker.finish at hfin
            simp only [hpc, ne_eq, not_true_eq_false, ↓reduceIte, hcur, Option.some.injEq] at hfin
            subst hfin
            refine wkInv2_emit [.ev (.complete k i _)] h rfl rfl (collPending_emit k rfl rfl hnb hnc) ?_ ?_ ?_
              (by intro m hm; simp at hm; subst hm; exact Or.inl rfl)
            · exact shutSeen_of_parts rfl (fun hh => shutSeen_torun hh) (fun hh => shutSeen_next hh)
            · intro hh
              simp only at hh
              split at hh
              · cases hh
              · split at hh <;> cases hh
            · intro hh
              simp only at hh
              by_cases hstop : (w.sf.isSome || w.ss.isSome) = true
              · left
                simp only [Bool.or_eq_true] at hstop
                rcases hstop with hs | hs <;> simp [finOk, hs]
              · have hnext : w.w.next = some .shutdown := by
                  cases hn : w.w.next with
                  | none => rw [hn] at hnx; cases hnx
                  | some q =>
                    cases q with
                    | shutdown => rfl
                    | test j =>
                      exfalso
                      simp only [hstop, Bool.false_eq_true, ↓reduceIte, hn] at hh
                      rcases hh with hh | hh <;> simp at hh
                rcases h.shutProv (shutSeen_next hnext) with hl | hd
                · left; simp [finOk, hl]
                · exact Or.inr hd
          · cases hm
      · cases hm

/-- **the worker's receiver thread (`handle_command`) keeps the second layer** -/
theorem deliverStep_inv2 {c : Ctl.State (Load.State τ) τ} {k : Nat} {w w' : Wk τ} (h1 : WkInv c k w) (h : WkInv2 c k w)
    (hd : deliverStep k w = some w') : WkInv2 c k w' := by
  unfold deliverStep at hd
  split at hd
  · cases hd
  cases hi : w.inbox with
  | nil => simp [hi] at hd
  | cons cmd rest =>
    simp only [hi] at hd
    have hk := h1.inboxK cmd (by rw [hi]; simp)
    have hcp : ∀ (ww : Worker.State), collPending k ({ w with inbox := rest, w := ww } : Wk τ) = collPending k w := fun _ => rfl
    have key : ∀ (ww : Worker.State), ww.pc = w.w.pc → ww.next = w.w.next →
        (ww.torun.contains .shutdown = true → shutSeen w = true) →
        WkInv2 c k ({ w with inbox := rest, w := ww } : Wk τ) := by
      intro ww hpc hnx htr
      refine ⟨by rw [hcp]; exact h.reg, ?_, by simp only; rw [hpc, hnx]; exact h.runNext, h.finCause, h.finOut, h.finPosted⟩
      intro hs
      apply h.shutProv
      unfold shutSeen at hs
      simp only [Bool.or_eq_true] at hs
      rcases hs with (hs | hs) | hs
      · unfold shutSeen; simp only [Bool.or_eq_true]; left; left
        rw [hi]; simp only [List.contains_cons, Bool.or_eq_true]; exact Or.inr hs
      · exact htr hs
      · rw [hnx] at hs; unfold shutSeen; simp only [Bool.or_eq_true]; exact Or.inr hs
    cases cmd with
    | run is =>
      simp only [Option.some.injEq] at hd
      subst hd
      obtain ⟨f1, f2, _, f4⟩ := putMany_fields w.w is
      refine key _ f2 f4 ?_
      intro hh
      rw [f1] at hh
      simp only [List.contains_eq_mem, List.mem_append, List.mem_map, reduceCtorEq, and_false, exists_false, or_false,
        decide_eq_true_eq] at hh
      exact shutSeen_torun (by simpa using hh)
    | shutdown =>
      simp only [Option.some.injEq] at hd
      subst hd
      refine key _ rfl rfl ?_
      intro _
      unfold shutSeen; rw [hi]; simp
    | runAll => simp [loadCmd] at hk
    | steal is => simp [loadCmd] at hk

/-- a worker dies -/
theorem crash_wk2 {c : Ctl.State (Load.State τ) τ} {k : Nat} {w : Wk τ} (h : WkInv2 c k w) :
    WkInv2 c k ({ w with alive := false, inbox := [], outbox := w.outbox ++ [.endMarker] } : Wk τ) := by
  have hfl : flight k ({ w with alive := false, inbox := [], outbox := w.outbox ++ [.endMarker] } : Wk τ) = flight k w := by
    simp [flight, List.filterMap_append, evOf]
  have hcp : collPending k ({ w with alive := false, inbox := [], outbox := w.outbox ++ [.endMarker] } : Wk τ) = collPending k w := by
    simp only [collPending, hfl]
  refine ⟨by rw [hcp]; exact h.reg, ?_, h.runNext, h.finCause, ?_, h.finPosted⟩
  · intro hs
    apply h.shutProv
    unfold shutSeen at hs ⊢
    simp only [Bool.or_eq_true] at hs ⊢
    rcases hs with (hs | hs) | hs
    · simp at hs
    · exact Or.inl (Or.inr hs)
    · exact Or.inr hs
  · intro m hm
    rcases List.mem_append.1 hm with hm | hm
    · exact h.finOut m hm
    · simp at hm; subst hm; exact Or.inl rfl

end Xdist.Sys
