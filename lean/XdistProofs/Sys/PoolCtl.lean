import XdistProofs.Sched.LoadPool
import XdistProofs.Sys.EarlyCtl
/-!
  The pool side of one controller iteration of the load mode, in a run without worker loss (`failedNodes = 0` afterwards):
  what left the pool is exactly what was put on the wire as run commands; the first `schedule()` turns the agreed
  collection into the pool.
-/
namespace Xdist.Ctl
open Xdist

variable {σ τ : Type}

theorem restartOrStop_failed (I : SchedI σ τ) (st : State σ τ) (n : Nat) :
    (restartOrStop I st n).failedNodes = st.failedNodes + 1 := by
  rcases restartOrStop_cases I st n with ⟨b, h⟩ | h
  · rw [h, (keeps_triggerShutdown I _).failedNodes]
  · rw [h]; rfl

theorem errordown_failed (I : SchedI σ τ) {st st' : State σ τ} {n : Nat} {rq : Bool} (h : errordown I st n rq = .ok st') :
    st'.failedNodes = st.failedNodes + 1 := by
  unfold errordown at h
  simp only at h
  split at h
  · rw [(keeps_removeActive h).failedNodes, restartOrStop_failed]
  · simp at h
  · rename_i st1 hc
    rw [(keeps_removeActive h).failedNodes, restartOrStop_failed, (keeps_callSched I hc).failedNodes]
  · rename_i st1 x hc
    obtain ⟨st2, h2, h3⟩ := bind_ok.1 h
    rw [(keeps_removeActive h3).failedNodes, restartOrStop_failed, (keeps_handleCrashItem I h2).failedNodes,
      (keeps_callSched I hc).failedNodes]

end Xdist.Ctl

namespace Xdist.Sys
open Xdist Xdist.Ctl Xdist.Load

variable {τ : Type} [DecidableEq τ]

/-- the pool side of a controller iteration -/
structure PoolIter (c c' : Ctl.State (Load.State τ) τ) (new : List SOut) : Prop where
  outs : c'.env.outs = c.env.outs ++ new
  nb : NoBroken c'.env
  led : (c'.sched.collection = c.sched.collection ∧ c.sched.pending = runsOf new ++ c'.sched.pending) ∨
        (c.sched.collection = none ∧ c.shuttingdown = false ∧ ∃ col, c'.sched.collection = some col ∧
          List.range col.length = runsOf new ++ c'.sched.pending)

theorem PoolIter.same {c c' : Ctl.State (Load.State τ) τ} (h1 : c'.env = c.env) (h2 : c'.sched.pending = c.sched.pending)
    (h3 : c'.sched.collection = c.sched.collection) (hb : NoBroken c.env) : PoolIter c c' [] :=
  ⟨by rw [h1]; simp, by rw [h1]; exact hb, Or.inl ⟨h3, by rw [h2]; rfl⟩⟩

theorem PoolIter.ofPool {c c' : Ctl.State (Load.State τ) τ} {new : List SOut}
    (a : Pool c.sched.pending c.env new c'.sched.pending c'.env) (hc : c'.sched.collection = c.sched.collection)
    (hb : NoBroken c.env) : PoolIter c c' new :=
  ⟨a.outs, a.noBroken hb, Or.inl ⟨hc, a.pool⟩⟩

/-- shutdown signals after the handler change nothing in the ledger -/
theorem PoolIter.thenShut {c c1 c' : Ctl.State (Load.State τ) τ} {new n2 : List SOut} (x : PoolIter c c1 new)
    (hs : c'.sched = c1.sched) (a : Pool c1.sched.pending c1.env n2 c1.sched.pending c'.env) (hr : runsOf n2 = []) :
    PoolIter c c' (new ++ n2) := by
  refine ⟨by rw [a.outs, x.outs, List.append_assoc], a.noBroken x.nb, ?_⟩
  rw [runsOf_append, hr, List.append_nil, hs]
  exact x.led

theorem triggerShutdown_pool (st : Ctl.State (Load.State τ) τ) :
    (triggerShutdown loadI st).sched = st.sched ∧
    ∃ n2, Pool st.sched.pending st.env n2 st.sched.pending (triggerShutdown loadI st).env ∧ runsOf n2 = [] := by
  unfold triggerShutdown
  split
  · exact ⟨rfl, [], Pool.refl _ _, rfl⟩
  · exact ⟨rfl, shutdownAll_pool _ _ _⟩

theorem afterHandler_pool (st : Ctl.State (Load.State τ) τ) :
    (afterHandler loadI st).sched = st.sched ∧
    ∃ n2, Pool st.sched.pending st.env n2 st.sched.pending (afterHandler loadI st).env ∧ runsOf n2 = [] := by
  unfold afterHandler
  simp only
  split
  · split
    · obtain ⟨s1, n1, a1, r1⟩ := triggerShutdown_pool st
      obtain ⟨s2, n2, a2, r2⟩ := triggerShutdown_pool (triggerShutdown loadI st)
      rw [s1] at a2
      exact ⟨s2.trans s1, n1 ++ n2, a1.trans a2, by rw [runsOf_append, r1, r2]; rfl⟩
    · exact triggerShutdown_pool st
  · split
    · exact triggerShutdown_pool st
    · exact ⟨rfl, [], Pool.refl _ _, rfl⟩

/-- a scheduler call as the controller makes it -/
theorem callSched_step {c a : Ctl.State (Load.State τ) τ} {op : SOp τ} {r : Option τ} (h : callSched loadI c op = .ok (a, r)) :
    Load.step c.sched c.env op = .ok (a.sched, a.env, r) ∧ a.failedNodes = c.failedNodes := by
  unfold callSched at h
  obtain ⟨x, hx, hb⟩ := map_ok.1 h
  simp only [Prod.mk.injEq] at hb
  obtain ⟨rfl, rfl⟩ := hb
  exact ⟨by rw [← hx]; rfl, rfl⟩

/-- **The pool side of a loop iteration without worker loss.** -/
theorem pool_iteration {c c' : Ctl.State (Load.State τ) τ} {ev : Ctl.Event τ} (hl : loopOnce loadI c ev = .ok c')
    (hfn : c'.failedNodes = 0) (hb : NoBroken c.env) (hnc : c.sched.collection = none → c.sched.pending = []) :
    ∃ new, PoolIter c c' new := by
  unfold loopOnce at hl
  split at hl
  · cases hl
  obtain ⟨st1, h1, rfl⟩ := map_ok.1 hl
  obtain ⟨hs, n2, a2, r2⟩ := afterHandler_pool st1
  have hf1 : st1.failedNodes = 0 := by rw [← (afterHandler_keeps loadI st1).failedNodes]; exact hfn
  suffices h : ∃ new, PoolIter c st1 new by
    obtain ⟨new, x⟩ := h
    exact ⟨new ++ n2, x.thenShut hs a2 r2⟩
  cases ev with
  | workerready n =>
    simp only [handle] at h1
    split at h1
    · simp only [Except.ok.injEq] at h1; subst h1
      obtain ⟨new, a, _⟩ := shutdown_pool c.sched.pending c.env n
      exact ⟨new, PoolIter.ofPool a rfl hb⟩
    · obtain ⟨a, ha, hb'⟩ := map_ok.1 h1
      subst hb'
      obtain ⟨hstep, _⟩ := callSched_step (show callSched loadI c (.addNode n) = .ok (a.1, a.2) by rw [ha])
      simp only [Load.step] at hstep
      obtain ⟨s', hs', hx⟩ := map_ok.1 hstep
      simp only [Prod.mk.injEq] at hx
      obtain ⟨h1', h2', _⟩ := hx
      unfold Load.addNode at hs'
      split at hs'
      · cases hs'
      · simp only [Except.ok.injEq] at hs'; subst hs'
        exact ⟨[], PoolIter.same h2'.symm (by rw [← h1']) (by rw [← h1']) hb⟩
  | workerfinished n x sf ss =>
    simp only [handle] at h1
    unfold workerfinished at h1
    split at h1
    · exfalso
      have := errordown_failed loadI h1
      omega
    · simp only at h1
      split at h1
      · obtain ⟨he, hsch, _⟩ := removeActive_fields h1
        refine ⟨[], PoolIter.same (he.trans ?_) (by rw [hsch]; split <;> rfl) (by rw [hsch]; split <;> rfl) hb⟩
        split <;> rfl
      · split at h1
        · split at h1
          · cases h1
          · cases h1
          · rename_i st' hc
            obtain ⟨hstep, _⟩ := callSched_step hc
            obtain ⟨e1, e2, e3⟩ := removeNode_none (show Load.removeNode _ _ n = .ok (st'.sched, st'.env, none) from hstep)
            obtain ⟨he, hsch, _⟩ := removeActive_fields h1
            exact ⟨[], PoolIter.same (he.trans e1) (by rw [hsch]; exact e2) (by rw [hsch]; exact e3) hb⟩
        · obtain ⟨he, hsch, _⟩ := removeActive_fields h1
          exact ⟨[], PoolIter.same he (by rw [hsch]) (by rw [hsch]) hb⟩
  | internalError n =>
    simp only [handle] at h1
    obtain ⟨a, ha, hb'⟩ := map_ok.1 h1
    subst hb'
    obtain ⟨he, hsch, _⟩ := removeActive_fields ha
    exact ⟨[], PoolIter.same he (by show a.sched.pending = _; rw [hsch]) (by show a.sched.collection = _; rw [hsch]) hb⟩
  | errordown n rq =>
    exfalso
    simp only [handle] at h1
    have := errordown_failed loadI h1
    omega
  | collectionfinish n ids =>
    simp only [handle, collectionfinish] at h1
    split at h1
    · simp only [Except.ok.injEq] at h1; subst h1; exact ⟨[], PoolIter.same rfl rfl rfl hb⟩
    · rename_i hsd
      have hsd' : c.shuttingdown = false := by cases hh : c.shuttingdown <;> simp_all
      split at h1
      · simp only [Except.ok.injEq] at h1; subst h1; exact ⟨[], PoolIter.same rfl rfl rfl hb⟩
      · obtain ⟨r, h2, h3⟩ := bind_ok.1 h1
        obtain ⟨hstep, _⟩ := callSched_step (show callSched loadI c (.addNodeCollection n ids) = .ok (r.1, r.2) by rw [h2])
        -- `add_node_collection` leaves pool, agreed collection and wire alone
        have hanc : r.1.env = c.env ∧ r.1.sched.pending = c.sched.pending ∧ r.1.sched.collection = c.sched.collection := by
          simp only [Load.step] at hstep
          obtain ⟨s', hs', hx⟩ := map_ok.1 hstep
          simp only [Prod.mk.injEq] at hx
          obtain ⟨h1', h2', _⟩ := hx
          rw [← h1', ← h2']
          unfold Load.addNodeCollection at hs'
          split at hs'
          · cases hs'
          · split at hs'
            · split at hs'
              · cases hs'
              · split at hs'
                · cases hs'
                · split at hs' <;> (simp only [Except.ok.injEq] at hs'; subst hs'; exact ⟨rfl, rfl, rfl⟩)
            · simp only [Except.ok.injEq] at hs'; subst hs'; exact ⟨rfl, rfl, rfl⟩
        split at h3
        · obtain ⟨a, ha, hb'⟩ := map_ok.1 h3
          subst hb'
          obtain ⟨hst2, _⟩ := callSched_step (show callSched loadI r.1 .schedule = .ok (a.1, a.2) by rw [ha])
          simp only [Load.step] at hst2
          obtain ⟨x, hx, hy⟩ := map_ok.1 hst2
          simp only [Prod.mk.injEq] at hy
          obtain ⟨y1, y2, _⟩ := hy
          have hb1 : NoBroken r.1.env := by rw [hanc.1]; exact hb
          obtain ⟨new, o1, o2, o3⟩ := schedule_pool hb1 (by rw [hanc.2.2, hanc.2.1]; exact hnc)
            (show Load.schedule r.1.sched r.1.env = .ok (x.1, x.2) by rw [hx])
          refine ⟨new, ⟨by rw [← y2, o1, hanc.1], by rw [← y2]; exact o2, ?_⟩⟩
          rw [← y1]
          rw [hanc.2.2, hanc.2.1] at o3
          rcases o3 with o3 | ⟨o4, o5⟩
          · exact Or.inl o3
          · exact Or.inr ⟨o4, hsd', o5⟩
        · simp only [Except.ok.injEq] at h3; subst h3
          exact ⟨[], PoolIter.same hanc.1 hanc.2.1 hanc.2.2 hb⟩
  | testreport n failed =>
    simp only [handle, Except.ok.injEq] at h1; subst h1
    obtain ⟨f1, f2, _⟩ := handleFailures_fields ({ c with pubs := c.pubs ++ [Pub.report n failed] } : Ctl.State (Load.State τ) τ) failed
    exact ⟨[], PoolIter.same f1 (by rw [f2]) (by rw [f2]) hb⟩
  | complete n i slow =>
    simp only [handle] at h1
    obtain ⟨a, ha, hb'⟩ := map_ok.1 h1
    subst hb'
    obtain ⟨hstep, _⟩ := callSched_step (show callSched loadI c (.markComplete n i slow) = .ok (a.1, a.2) by rw [ha])
    simp only [Load.step] at hstep
    obtain ⟨x, hx, hy⟩ := map_ok.1 hstep
    simp only [Prod.mk.injEq] at hy
    obtain ⟨y1, y2, _⟩ := hy
    obtain ⟨new, p, pc⟩ := markComplete_pool hb (show Load.markComplete c.sched c.env n i slow = .ok (x.1, x.2) by rw [hx])
    rw [y1, y2] at p
    rw [y1] at pc
    exact ⟨new, PoolIter.ofPool p pc hb⟩
  | unscheduled n is =>
    simp only [handle] at h1
    obtain ⟨a, ha, _⟩ := map_ok.1 h1
    obtain ⟨hstep, _⟩ := callSched_step (show callSched loadI c (.removePending n is) = .ok (a.1, a.2) by rw [ha])
    simp [Load.step] at hstep
  | collectreport n key failed =>
    simp only [handle] at h1
    split at h1
    · simp only [Except.ok.injEq] at h1; subst h1; exact ⟨[], PoolIter.same rfl rfl rfl hb⟩
    · simp only [Except.ok.injEq] at h1; subst h1
      obtain ⟨f1, f2, _⟩ := handleFailures_fields
        ({ c with seenCollect := c.seenCollect ++ [key], pubs := c.pubs ++ [Pub.collect key] } : Ctl.State (Load.State τ) τ) failed
      exact ⟨[], PoolIter.same f1 (by rw [f2]) (by rw [f2]) hb⟩
  | other =>
    simp only [handle, Except.ok.injEq] at h1; subst h1
    exact ⟨[], PoolIter.same rfl rfl rfl hb⟩

end Xdist.Sys
