import XdistProofs.Sys.Done2
/-! The receiver-thread step keeps the fourth layer (`Inv6`). -/
namespace Xdist.Sys
open Xdist Xdist.Ctl Xdist.Load

variable {τ : Type} [DecidableEq τ]

theorem completes_toList_wf (j x : Nat) (sf ss : Option String) :
    completes ([Ctl.Event.workerfinished (τ := τ) j x sf ss]) = [] := rfl

theorem recv_inv6 (idsOf : Nat → List τ) {st st' : LState τ} {k : Nat} (hinv1 : Inv st) (hinv : Inv6 st)
    (h : step Ctl.loadI idsOf st (.recv k) = .ok st') : Inv6 st' := by
  simp only [step] at h
  split at h
  · cases h
  rename_i s1 hr
  simp only [Except.ok.injEq] at h
  subst h
  obtain ⟨w, m, rest, fl', w2, outs', hw, ho, rfl, hfl', hw2⟩ := recvStep_shape hr
  simp only at hfl' hw2
  have wi := hinv1.wk hw
  have wi6 := hinv k w hw
  intro j wj hj
  by_cases hjk : j ≠ k
  · simp only at hj
    rw [List.getElem?_set_ne (Ne.symm hjk)] at hj
    exact WkInv6.congr_env _ (hinv j wj hj)
  have hjk : j = k := Classical.byContradiction hjk
  subst hjk
  simp only at hj
  rw [getElem?_set_self' hw] at hj
  cases hj
  refine WkInv6.congr_env _ ?_
  -- what is posted, and the shape of the record afterwards
  generalize hevs : (Receiver.step (α := Ctl.Event τ) { down := (st.ctl.env.flags.get j).down, shutdownSent := (st.ctl.env.flags.get j).sent }
    (toRecv j m)).2.1.map (ofPost j) = evs at hw2
  have hposts := recv_posts j (st.ctl.env.flags.get j).down (st.ctl.env.flags.get j).sent m
  simp only [hevs] at hposts
  have hshape : w2 = ({ w with outbox := rest, posted := w.posted ++ evs } : Wk τ) ∨
      w2 = ({ w with outbox := rest, posted := w.posted ++ evs, inbox := w.inbox ++ [.shutdown] } : Wk τ) := by
    rw [hw2]
    split
    · split
      · exact Or.inr rfl
      · exact Or.inl rfl
    · exact Or.inl rfl
  have hal2 : w2.alive = w.alive := by rcases hshape with h | h <;> rw [h]
  have hph2 : w2.phase = w.phase := by rcases hshape with h | h <;> rw [h]
  have hob2 : w2.outbox = rest := by rcases hshape with h | h <;> rw [h]
  have hpo2 : w2.posted = w.posted ++ evs := by rcases hshape with h | h <;> rw [h]
  have hheld2 : heldS w2 = heldS w := by rcases hshape with h | h <;> rw [h] <;> rfl
  have hruns2 : inboxRuns w2 = inboxRuns w := by
    rcases hshape with h | h <;> rw [h]
    · rfl
    · unfold inboxRuns; simp [List.flatMap_append]
  have hfl1 : flight j w = w.posted ++ ((evOf j m).toList ++ rest.filterMap (evOf j)) := by
    unfold flight; rw [ho, filterMap_cons_toList]
  have hfl2 : flight j w2 = w.posted ++ (evs ++ rest.filterMap (evOf j)) := by
    unfold flight; rw [hpo2, hob2, List.append_assoc]
  -- a `workerfinished` is posted only for the worker's own `workerfinished` message
  have hwfm : evs.any isWf = true → (st.ctl.env.flags.get j).down = false ∧ ∃ x sf ss, m = .fin x sf ss := by
    intro hany
    obtain ⟨e, he, hwf⟩ := List.any_eq_true.1 hany
    rcases hposts with h' | ⟨hd, h'⟩ | ⟨hd, h', _⟩
    · rw [h'] at he; cases he
    · refine ⟨hd, ?_⟩
      rw [h'] at he
      cases m with
      | fin x sf ss => exact ⟨x, sf, ss, rfl⟩
      | ev e0 =>
        exfalso
        simp only [evOf, Option.toList_some, List.mem_singleton] at he
        subst he
        have hpl := wi.evPlain (.ev e) (by rw [ho]; simp)
        simp only [plainMsg, Bool.not_eq_eq_eq_not, Bool.not_true] at hpl
        rw [isWf_notice hwf] at hpl; cases hpl
      | ignored => simp [evOf] at he
      | garbage => simp [evOf] at he
      | endMarker => simp [evOf] at he
    · rw [h'] at he; simp at he; subst he; cases hwf
  refine ⟨?_, ?_, ?_, ?_, ?_, ?_⟩
  · intro ha hp x hx
    rw [hob2] at hx
    exact wi6.finNoneO (by rw [← hal2]; exact ha) (by rw [← hph2]; exact hp) x (by rw [ho]; exact List.mem_cons_of_mem _ hx)
  · intro ha hp e he
    rw [hpo2] at he
    rcases List.mem_append.1 he with he | he
    · exact wi6.finNoneP (by rw [← hal2]; exact ha) (by rw [← hph2]; exact hp) e he
    · cases hwf : isWf e with
      | false => rfl
      | true =>
        exfalso
        obtain ⟨_, x, sf, ss, hm⟩ := hwfm (List.any_eq_true.2 ⟨e, he, hwf⟩)
        have := wi6.finNoneO (by rw [← hal2]; exact ha) (by rw [← hph2]; exact hp) m (by rw [ho]; simp)
        rw [hm] at this; cases this
  · intro ha a x sf ss b hs
    rw [hob2] at hs
    exact wi6.finLast (by rw [← hal2]; exact ha) (m :: a) x sf ss b (by rw [ho, hs]; rfl)
  · intro ha hk hnk
    obtain ⟨x1, x2, x3⟩ := wi6.nr (by rw [← hal2]; exact ha) hk hnk
    refine ⟨?_, by rw [hheld2]; exact x2, by rw [hruns2]; exact x3⟩
    rw [hfl1, completes_append, completes_append] at x1
    simp only [List.append_eq_nil_iff] at x1
    obtain ⟨c1, c2, c3⟩ := x1
    rw [hfl2, completes_append, completes_append, c1, c3]
    rcases hposts with h' | ⟨_, h'⟩ | ⟨_, h', _⟩
    · rw [h']; rfl
    · rw [h', c2]; rfl
    · rw [h']; rfl
  · -- the book of a worker whose `workerfinished` is on the event queue
    intro ha hany
    rw [hpo2, List.any_append, Bool.or_eq_true] at hany
    have ha0 : w.alive = true := by rw [← hal2]; exact ha
    rcases hany with hany | hany
    · -- it was there before: the worker is written off for the receiver thread, which drops what still arrives
      have hd : (st.ctl.env.flags.get j).down = true :=
        wi.noticeDown (by
          obtain ⟨e, he, hwf⟩ := List.any_eq_true.1 hany
          exact List.any_eq_true.2 ⟨e, he, isWf_notice hwf⟩)
      have hev0 : evs = [] := by
        rcases hposts with h' | ⟨hd', _⟩ | ⟨hd', _, _⟩
        · exact h'
        · rw [hd] at hd'; cases hd'
        · rw [hd] at hd'; cases hd'
      have hd0 := wi6.doneSync ha0 hany
      unfold DoneD at hd0 ⊢
      rw [hpo2, hev0, List.append_nil, hheld2, hruns2]
      exact hd0
    · -- it has just been posted
      obtain ⟨hd, x, sf, ss, hm⟩ := hwfm hany
      subst hm
      have hrest : rest = [.endMarker] := wi6.finLast ha0 [] x sf ss rest (by rw [ho]; rfl)
      have hev1 : evs = [Ctl.Event.workerfinished j x sf ss] := by
        rcases hposts with h' | ⟨_, h'⟩ | ⟨_, _, h'⟩
        · rw [h'] at hany; cases hany
        · rw [h']; rfl
        · simp [evOf] at h'
      have hs := wi.sync ha0 hd
      have hact : j ∈ st.ctl.active := by
        apply Classical.byContradiction
        intro hna
        rw [wi.inactiveDown hna] at hd; cases hd
      have hflw : completes (flight j w) = completes w.posted := by
        rw [hfl1, hrest, completes_append]
        simp [evOf, completes, complIdx]
      unfold SyncD at hs
      unfold DoneD
      rw [hpo2, hev1, completes_append, completes_toList_wf, List.append_nil, hheld2, hruns2]
      cases hb : AList.lookup st.ctl.sched.node2pending j with
      | none =>
        simp only
        have hnk : j ∉ AList.keys st.ctl.sched.node2pending := by
          intro hk
          have := (AList.lookup_isSome_iff_mem_keys _ _).2 hk
          rw [hb] at this; cases this
        obtain ⟨x1, x2, x3⟩ := wi6.nr ha0 hact hnk
        rw [hflw] at x1
        exact ⟨x1, x2, x3⟩
      | some book =>
        rw [hb] at hs
        simp only at hs ⊢
        rw [hs, hflw]
  · intro ha f1 f2 f3
    obtain ⟨y1, y2, y3⟩ := wi6.idleDone (by rw [← hal2]; exact ha) f1 f2 f3
    exact ⟨by rw [hph2]; exact y1, by rw [hheld2]; exact y2, by rw [hruns2]; exact y3⟩

end Xdist.Sys
