import XdistProofs.Sys.BlocksSeq
import XdistProofs.Sys.After4
import XdistProofs.Sys.WireSys
/-!
  C16 at the worker, for every mode whose scheduler looks at `shutting_down` before it sends (`each`, `worksteal`, `loadscope`,
  `loadfile`, `loadgroup`): **in a worker's queue no test stands behind the shutdown marker, and once the marker is in the queue
  nothing more arrives** — in every execution of the composed system.

  The bridge is generic (any scheduler that only appends to the log): the commands a worker's receiver thread has taken so far (`D`,
  a ghost), followed by its inbox, are a subsequence in log order of the commands addressed to it in the log; and its queue is a
  subsequence of the queue entries those commands stand for.  The wire-level theorem `C16_sys_nothing_after_the_shutdown_signal`
  then carries over to the queue.
-/
namespace Xdist.Sys
open Xdist Xdist.Ctl Xdist.Contract

set_option linter.unusedSectionVars false

variable {σ τ : Type} [DecidableEq τ]

/-- the queue entries a command stands for -/
def itemsOf (n : Nat) : List Cmd → List Worker.QItem
  | [] => []
  | .run is :: r => is.map .test ++ itemsOf n r
  | .runAll :: r => (List.range n).map .test ++ itemsOf n r
  | .shutdown :: r => .shutdown :: itemsOf n r
  | .steal _ :: r => itemsOf n r

theorem itemsOf_append (n : Nat) (a b : List Cmd) : itemsOf n (a ++ b) = itemsOf n a ++ itemsOf n b := by
  induction a with
  | nil => rfl
  | cons c r ih => cases c <;> simp [itemsOf, ih]

/-- nothing at all follows a shutdown command -/
def okC : List Cmd → Bool
  | [] => true
  | .shutdown :: r => r.isEmpty
  | _ :: r => okC r

/-- no test follows a shutdown marker -/
def okQ : List Worker.QItem → Bool
  | [] => true
  | .shutdown :: r => r.all (· == .shutdown)
  | .test _ :: r => okQ r

theorem okQ_of_all {l : List Worker.QItem} (h : l.all (· == .shutdown) = true) : okQ l = true := by
  induction l with
  | nil => rfl
  | cons a r ih =>
    simp only [List.all_cons, Bool.and_eq_true, beq_iff_eq] at h
    obtain ⟨rfl, hr⟩ := h
    simp only [okQ]; exact hr

theorem okQ_sublist {l' l : List Worker.QItem} (hs : l'.Sublist l) (h : okQ l = true) : okQ l' = true := by
  induction hs with
  | slnil => rfl
  | cons a _ ih =>
    cases a with
    | test i => exact ih h
    | shutdown => exact ih (okQ_of_all h)
  | cons_cons a hs' ih =>
    cases a with
    | test i => exact ih h
    | shutdown =>
      simp only [okQ] at h ⊢
      rw [List.all_eq_true] at h ⊢
      exact fun x hx => h x (hs'.subset hx)

theorem okC_sublist {l' l : List Cmd} (hs : l'.Sublist l) (h : okC l = true) : okC l' = true := by
  induction hs with
  | slnil => rfl
  | cons a _ ih =>
    cases a with
    | shutdown =>
      simp only [okC, List.isEmpty_iff] at h
      subst h
      rename_i l1 hs'
      have : l1 = [] := List.sublist_nil.1 hs'
      subst this; rfl
    | run is => exact ih h
    | runAll => exact ih h
    | steal is => exact ih h
  | cons_cons a hs' ih =>
    cases a with
    | shutdown =>
      simp only [okC, List.isEmpty_iff] at h ⊢
      subst h
      exact List.sublist_nil.1 hs'
    | run is => exact ih h
    | runAll => exact ih h
    | steal is => exact ih h

theorem okQ_tests_append (ts : List Nat) (q : List Worker.QItem) : okQ (ts.map .test ++ q) = okQ q := by
  induction ts with
  | nil => rfl
  | cons t r ih => simp [okQ, ih]

theorem okQ_itemsOf (n : Nat) : ∀ {D : List Cmd}, okC D = true → okQ (itemsOf n D) = true := by
  intro D
  induction D with
  | nil => intro _; rfl
  | cons c r ih =>
    intro h
    cases c with
    | shutdown =>
      simp only [okC, List.isEmpty_iff] at h
      subst h; rfl
    | run is => simp only [itemsOf, okQ_tests_append]; exact ih h
    | runAll => simp only [itemsOf, okQ_tests_append]; exact ih h
    | steal is => exact ih h

/-- after a shutdown command in a well-formed sequence there is nothing -/
theorem okC_after {x y : List Cmd} (h : okC (x ++ Cmd.shutdown :: y) = true) : y = [] := by
  induction x with
  | nil => simpa [okC] using h
  | cons c r ih =>
    cases c with
    | shutdown =>
      simp only [List.cons_append, okC, List.isEmpty_iff] at h
      cases r <;> simp at h
    | run is => exact ih h
    | runAll => exact ih h
    | steal is => exact ih h

theorem mem_itemsOf_shutdown {n : Nat} {D : List Cmd} (h : Worker.QItem.shutdown ∈ itemsOf n D) : Cmd.shutdown ∈ D := by
  induction D with
  | nil => cases h
  | cons c r ih =>
    cases c with
    | shutdown => exact List.mem_cons_self
    | run is =>
      simp only [itemsOf, List.mem_append, List.mem_map] at h
      rcases h with ⟨_, _, h⟩ | h
      · cases h
      · exact List.mem_cons_of_mem _ (ih h)
    | runAll =>
      simp only [itemsOf, List.mem_append, List.mem_map] at h
      rcases h with ⟨_, _, h⟩ | h
      · cases h
      · exact List.mem_cons_of_mem _ (ih h)
    | steal is => exact List.mem_cons_of_mem _ (ih h)

/-- what is delivered to `k` from a log in which nothing follows a worker's shutdown signal -/
theorem okC_deliverTo (k : Nat) : ∀ (outs : List SOut), NoAfter outs → okC (deliverTo k outs) = true := by
  intro outs
  induction outs with
  | nil => intro _; rfl
  | cons o rest ih =>
    intro hna
    have hrest : NoAfter rest := by
      intro pre post n hsplit x hx
      exact hna (o :: pre) post n (by rw [hsplit]; rfl) x hx
    rw [deliverTo_cons]
    cases hc : cmdOf o with
    | none => simpa using ih hrest
    | some p =>
      obtain ⟨n, c⟩ := p
      simp only
      by_cases hn : n = k
      · simp only [hn, if_true, List.singleton_append]
        cases c with
        | shutdown =>
          have ho : o = SOut.shutdown k := by
            cases o <;> simp [cmdOf] at hc
            rw [← hn, hc]
          subst ho
          have hnone : ∀ x ∈ rest, cmdNode x ≠ some k := hna [] rest k rfl
          have : deliverTo k rest = [] := by
            unfold deliverTo
            rw [List.filterMap_eq_nil_iff]
            intro x hx
            have hx' := hnone x hx
            cases x <;> simp [cmdOf, cmdNode] at hx' ⊢ <;> exact hx'
          simp [okC, this]
        | run is => simp only [okC]; exact ih hrest
        | runAll => simp only [okC]; exact ih hrest
        | steal is => simp only [okC]; exact ih hrest
      · simp only [hn, if_false, List.nil_append]; exact ih hrest

/-- the withdrawal requests among the commands -/
def stealsIn (D : List Cmd) : Nat := (D.filter (fun c => c matches .steal _)).length

/-- the `unscheduled` replies a worker has sent -/
def repliesOf (s : Worker.State) : Nat := (s.sent.filter (fun e => e matches .unscheduled _)).length

theorem stealsIn_append (a b : List Cmd) : stealsIn (a ++ b) = stealsIn a + stealsIn b := by
  simp [stealsIn, List.filter_append]

theorem get0_facts {s s' : Worker.State} (h : Worker.get0 s = some s') : s'.torun.Sublist s.torun ∧ s'.sent = s.sent := by
  unfold Worker.get0 at h
  split at h
  · cases h
  · split at h
    · cases h
    · rename_i q r hq
      simp only [Option.some.injEq] at h; subst h
      exact ⟨by show r.Sublist s.torun; rw [hq]; exact List.sublist_cons_self _ _, rfl⟩

theorem get1_facts {s s' : Worker.State} (h : Worker.get1 s = some s') : s'.torun.Sublist s.torun ∧ s'.sent = s.sent := by
  unfold Worker.get1 at h
  split at h
  · cases h
  · split at h
    · rename_i i q r _ hq
      simp only [Option.some.injEq] at h; subst h
      exact ⟨by show r.Sublist s.torun; rw [hq]; exact List.sublist_cons_self _ _, rfl⟩
    · cases h

theorem finish_facts {s s' : Worker.State} {stop : Bool} (h : Worker.finish s stop = some s') : s'.torun = s.torun ∧ repliesOf s' = repliesOf s := by
  unfold Worker.finish at h
  split at h
  · cases h
  · split at h
    · cases h
    · simp only [Option.some.injEq] at h; subst h
      exact ⟨rfl, by simp [repliesOf, List.filter_append]⟩

theorem steal_replies (s : Worker.State) (req : List Nat) : repliesOf (Worker.steal s req) = repliesOf s + 1 := by
  unfold Worker.steal repliesOf
  simp only
  split <;> simp [List.filter_append]

/-- the commands taken so far, then the inbox, are a subsequence of what the log addressed to the worker; the queue is a subsequence
    of the entries the taken commands stand for -/
def QSeq (outs : List SOut) (k : Nat) (w : Wk τ) : Prop :=
  ∃ D : List Cmd, (D ++ w.inbox).Sublist (deliverTo k outs) ∧ w.w.torun.Sublist (itemsOf w.ids.length D) ∧
    stealsIn D = repliesOf w.w

def QSeqAll (st : State σ τ) : Prop := ∀ k w, st.wk[k]? = some w → QSeq st.ctl.env.outs k w

theorem qseq_mono {outs : List SOut} {k : Nat} {w : Wk τ} (h : QSeq outs k w) (new : List SOut) : QSeq (outs ++ new) k w := by
  obtain ⟨D, h1, h2, h3⟩ := h
  exact ⟨D, by rw [deliverTo_append]; exact h1.trans (List.sublist_append_left _ _), h2, h3⟩

theorem qseq_congr {outs : List SOut} {k : Nat} {w w' : Wk τ} (h : QSeq outs k w) (h1 : w'.w.torun.Sublist w.w.torun)
    (h2 : w'.inbox = w.inbox) (h3 : w'.ids = w.ids) (h4 : repliesOf w'.w = repliesOf w.w) : QSeq outs k w' := by
  obtain ⟨D, a, b, c⟩ := h
  exact ⟨D, by rw [h2]; exact a, by rw [h3]; exact h1.trans b, by rw [h4]; exact c⟩

theorem steal_torun (s : Worker.State) (req : List Nat) : (Worker.steal s req).torun.Sublist s.torun := by
  unfold Worker.steal
  simp only
  split
  · exact List.filter_sublist
  · exact List.Sublist.refl _

/-- the main thread only takes entries from the front of the queue -/
theorem mainStep_torun {k : Nat} {w w' : Wk τ} {p : MainP} (h : mainStep k w p = some w') :
    w'.w.torun.Sublist w.w.torun ∧ w'.inbox = w.inbox ∧ w'.ids = w.ids ∧ repliesOf w'.w = repliesOf w.w := by
  unfold mainStep at h
  split at h
  · cases h
  cases hph : w.phase with
  | boot => simp only [hph, Option.some.injEq] at h; subst h; exact ⟨List.Sublist.refl _, rfl, rfl, rfl⟩
  | collect =>
    simp only [hph] at h
    cases p with
    | collect errs garbage intr sf0 =>
      simp only at h
      split at h
      · simp only [Option.some.injEq] at h; subst h; exact ⟨List.Sublist.refl _, rfl, rfl, rfl⟩
      · simp only [Option.some.injEq] at h; subst h; exact ⟨List.Sublist.refl _, rfl, rfl, rfl⟩
    | none => simp at h
    | reports fs sf ss ex => simp at h
    | complete slow => simp at h
  | loop =>
    simp only [hph] at h
    cases hpc : w.w.pc with
    | init =>
      simp only [hpc, Option.map_eq_some_iff] at h
      obtain ⟨w1, h1, rfl⟩ := h
      obtain ⟨f1, f2⟩ := get0_facts h1
      exact ⟨f1, rfl, rfl, by simp [repliesOf, f2]⟩
    | haveItem =>
      simp only [hpc, Option.map_eq_some_iff] at h
      obtain ⟨w1, h1, rfl⟩ := h
      obtain ⟨f1, f2⟩ := get1_facts h1
      exact ⟨f1, rfl, rfl, by simp [repliesOf, f2]⟩
    | running =>
      simp only [hpc] at h
      split at h
      · simp only [Option.some.injEq] at h; subst h; exact ⟨List.Sublist.refl _, rfl, rfl, rfl⟩
      · simp only [Option.some.injEq] at h; subst h; exact ⟨List.Sublist.refl _, rfl, rfl, rfl⟩
      · split at h
        · simp only [Option.some.injEq] at h; subst h; exact ⟨List.Sublist.refl _, rfl, rfl, rfl⟩
        · split at h
          · rename_i i w1 _ hf
            simp only [Option.some.injEq] at h; subst h
            obtain ⟨f1, f2⟩ := finish_facts hf
            exact ⟨by show w1.torun.Sublist w.w.torun; rw [f1]; exact List.Sublist.refl _, rfl, rfl, f2⟩
          · cases h
      · cases h
    | done => simp [hpc] at h
  | finish => simp only [hph, Option.some.injEq] at h; subst h; exact ⟨List.Sublist.refl _, rfl, rfl, rfl⟩
  | done => simp [hph] at h

theorem deliverStep_qseq {outs : List SOut} {k : Nat} {w w' : Wk τ} (h : deliverStep k w = some w') (hb : QSeq outs k w) : QSeq outs k w' := by
  unfold deliverStep at h
  split at h
  · cases h
  split at h
  · cases h
  rename_i c rest hin
  obtain ⟨D, h1, h2, h3⟩ := hb
  rw [hin] at h1
  have h1' : ((D ++ [c]) ++ rest).Sublist (deliverTo k outs) := by simpa using h1
  cases c with
  | run is =>
    simp only [Option.some.injEq] at h; subst h
    refine ⟨D ++ [Cmd.run is], h1', ?_, ?_⟩
    · show (Worker.putMany w.w is).torun.Sublist _
      rw [putMany_torun, itemsOf_append]
      exact List.Sublist.append h2 (by simp [itemsOf])
    · show _ = repliesOf (Worker.putMany w.w is)
      rw [stealsIn_append, h3]; simp [repliesOf, putMany_sent, stealsIn]
  | runAll =>
    simp only [Option.some.injEq] at h; subst h
    refine ⟨D ++ [Cmd.runAll], h1', ?_, ?_⟩
    · show (Worker.putMany w.w (List.range w.ids.length)).torun.Sublist _
      rw [putMany_torun, itemsOf_append]
      exact List.Sublist.append h2 (by simp [itemsOf])
    · show _ = repliesOf (Worker.putMany w.w (List.range w.ids.length))
      rw [stealsIn_append, h3]; simp [repliesOf, putMany_sent, stealsIn]
  | shutdown =>
    simp only [Option.some.injEq] at h; subst h
    refine ⟨D ++ [Cmd.shutdown], h1', ?_, ?_⟩
    · show (w.w.torun ++ [Worker.QItem.shutdown]).Sublist _
      rw [itemsOf_append]
      exact List.Sublist.append h2 (by simp [itemsOf])
    · show _ = repliesOf (Worker.putShutdown w.w)
      rw [stealsIn_append, h3]; simp [repliesOf, Worker.putShutdown, stealsIn]
  | steal is =>
    simp only [Option.some.injEq] at h; subst h
    refine ⟨D ++ [Cmd.steal is], h1', ?_, ?_⟩
    · show (Worker.steal w.w is).torun.Sublist _
      rw [itemsOf_append]
      exact ((steal_torun w.w is).trans h2).trans (List.sublist_append_left _ _)
    · show _ = repliesOf (Worker.steal w.w is)
      rw [stealsIn_append, h3, steal_replies]; simp [stealsIn]

theorem routed_qseq {outs : List SOut} {k : Nat} {w : Wk τ} (new : List SOut) (hb : QSeq outs k w) : QSeq (outs ++ new) k (routed k new w) := by
  unfold routed
  split
  · obtain ⟨D, h1, h2, h3⟩ := hb
    refine ⟨D, ?_, h2, h3⟩
    show (D ++ (w.inbox ++ deliverTo k new)).Sublist _
    rw [deliverTo_append, ← List.append_assoc]
    exact List.Sublist.append h1 (List.Sublist.refl _)
  · exact qseq_mono hb new

theorem qseq_fresh (outs : List SOut) (k : Nat) (ids : List τ) : QSeq outs k ({ ids := ids } : Wk τ) :=
  ⟨[], by simp, by simp [itemsOf], rfl⟩

theorem step_qseq (I : SchedI σ τ) (hA : Appends I) (idsOf : Nat → List τ) {st st' : State σ τ} (a : Step)
    (hb : QSeqAll st) (h : step I idsOf st a = .ok st') : QSeqAll st' := by
  cases a with
  | main j p =>
    simp only [Sys.step] at h
    split at h
    · cases h
    rename_i w hw
    split at h
    · cases h
    rename_i w' hm
    simp only [Except.ok.injEq] at h; subst h
    obtain ⟨m1, m2, m3, m4⟩ := mainStep_torun hm
    intro k wk hk
    simp only [setWk] at hk
    by_cases hkj : j = k
    · subst hkj
      rw [List.getElem?_set_self (lt_len_of_get hw)] at hk
      cases hk
      exact qseq_congr (hb j w hw) m1 m2 m3 m4
    · rw [List.getElem?_set_ne hkj] at hk
      exact hb k wk hk
  | deliver j =>
    simp only [Sys.step] at h
    split at h
    · cases h
    rename_i w hw
    split at h
    · cases h
    rename_i w' hm
    simp only [Except.ok.injEq] at h; subst h
    intro k wk hk
    simp only [setWk] at hk
    by_cases hkj : j = k
    · subst hkj
      rw [List.getElem?_set_self (lt_len_of_get hw)] at hk
      cases hk
      exact deliverStep_qseq hm (hb j w hw)
    · rw [List.getElem?_set_ne hkj] at hk
      exact hb k wk hk
  | recv j =>
    simp only [Sys.step] at h
    split at h
    · cases h
    rename_i s1 hr
    simp only [Except.ok.injEq] at h; subst h
    unfold recvStep at hr
    split at hr
    · cases hr
    rename_i w hw
    split at hr
    · cases hr
    rename_i m rest ho
    simp only [Option.some.injEq] at hr
    subst hr
    have hjl := lt_len_of_get hw
    intro k wk hk
    simp only at hk ⊢
    have key : ∀ w1, (st.wk.set j { w with outbox := rest, posted := w.posted ++ (Receiver.step { down := (st.ctl.env.flags.get j).down, shutdownSent := (st.ctl.env.flags.get j).sent } (toRecv j m)).2.1.map (ofPost j) })[k]? = some w1 →
        QSeq st.ctl.env.outs k w1 := by
      intro w1 h1
      by_cases hkj : j = k
      · subst hkj
        rw [List.getElem?_set_self hjl] at h1
        cases h1
        exact qseq_congr (hb j w hw) (List.Sublist.refl _) rfl rfl rfl
      · rw [List.getElem?_set_ne hkj] at h1
        exact hb k w1 h1
    split at hk
    · rename_i hcond
      rw [route_get] at hk
      simp only [Option.map_eq_some_iff] at hk
      obtain ⟨w1, h1, rfl⟩ := hk
      simp only [hcond, if_true]
      exact routed_qseq _ (key w1 h1)
    · rename_i hcond
      simp only [hcond]
      exact key wk hk
  | crash j b =>
    simp only [Sys.step] at h
    split at h
    · cases h
    rename_i s1 hc
    simp only [Except.ok.injEq] at h; subst h
    unfold crashStep at hc
    split at hc
    · cases hc
    rename_i w hw
    split at hc
    · cases hc
    have key : ∀ k wk, (st.wk.set j { w with alive := false, inbox := [], outbox := w.outbox ++ [.endMarker] })[k]? = some wk →
        QSeq st.ctl.env.outs k wk := by
      intro k wk hk
      by_cases hkj : j = k
      · subst hkj
        rw [List.getElem?_set_self (lt_len_of_get hw)] at hk
        cases hk
        obtain ⟨D, h1, h2, h3⟩ := hb j w hw
        refine ⟨D, ?_, h2, h3⟩
        show (D ++ []).Sublist _
        exact (List.Sublist.append (List.Sublist.refl D) (List.nil_sublist w.inbox)).trans h1
      · rw [List.getElem?_set_ne hkj] at hk
        exact hb k wk hk
    split at hc
    · simp only [Option.some.injEq] at hc; subst hc
      intro k wk hk
      exact key k wk hk
    · simp only [Option.some.injEq] at hc; subst hc
      intro k wk hk
      exact key k wk hk
  | ctl j rq =>
    simp only [Sys.step] at h
    obtain ⟨w, ev0, rest, c', hw, hp, hl, rfl⟩ := ctlStep_shape' h
    obtain ⟨as, hsteps, _⟩ := loopOnce_steps hl
    obtain ⟨new, hnew⟩ := steps_appends hA hsteps
    have hdrop : c'.env.outs.drop st.ctl.env.outs.length = new := by rw [hnew]; simp
    intro k wk hk
    simp only at hk ⊢
    rw [hdrop, route_get] at hk
    simp only [Option.map_eq_some_iff] at hk
    obtain ⟨w0, h0, rfl⟩ := hk
    rw [hnew]
    refine routed_qseq new ?_
    rcases spawn_get h0 with h0 | h0
    · by_cases hkj : j = k
      · subst hkj
        rw [List.getElem?_set_self (lt_len_of_get hw)] at h0
        cases h0
        exact qseq_congr (hb j w hw) (List.Sublist.refl _) rfl rfl rfl
      · rw [List.getElem?_set_ne hkj] at h0
        exact hb k w0 h0
    · subst h0
      exact qseq_fresh _ _ _

theorem run_qseq (I : SchedI σ τ) (hA : Appends I) (idsOf : Nat → List τ) : ∀ (steps : List Step) {st st' : State σ τ},
    QSeqAll st → run I idsOf st steps = .ok st' → QSeqAll st' := by
  intro steps
  induction steps with
  | nil => intro st st' hs h; simp only [run, Except.ok.injEq] at h; subst h; exact hs
  | cons a rest ih =>
    intro st st' hs h
    simp only [run] at h
    split at h
    · cases h
    · rename_i st1 hs1
      exact ih (step_qseq I hA idsOf a hs hs1) h

/-- **Nothing behind the shutdown marker in a worker's queue, whole system** (C16; `--dist each`, `worksteal`, `loadscope`,
    `loadfile`, `loadgroup`).  After any execution of the composed system, for every worker process: in its queue (`torun`) no test
    stands behind a shutdown marker; in its inbox nothing at all follows a shutdown command; and once a shutdown marker is in the
    queue the inbox is empty — nothing more arrives. -/
theorem C16_sys_worker_queue_nothing_behind_shutdown (specs : AList Nat Nat) (s0 : Sched.Any) (hmode : s0.guarded)
    (numnodes maxfail : Nat) (mr : Option Int) (idsOf : Nat → List String) (steps : List Step) {st : State Sched.Any String}
    (h : run (Sched.iface specs) idsOf (init (Sched.iface specs) s0 numnodes maxfail mr idsOf) steps = .ok st)
    (k : Nat) (w : Wk String) (hw : st.wk[k]? = some w) :
    okQ w.w.torun = true ∧ okC w.inbox = true ∧ (Worker.QItem.shutdown ∈ w.w.torun → w.inbox = []) := by
  have hna : NoAfter st.ctl.env.outs := (C16_sys_nothing_after_the_shutdown_signal specs s0 hmode numnodes maxfail mr idsOf steps h).1
  have h0 : QSeqAll (init (Sched.iface specs) s0 numnodes maxfail mr idsOf) := by
    intro k w hk
    simp only [init, List.getElem?_map, Option.map_eq_some_iff] at hk
    obtain ⟨i, _, rfl⟩ := hk
    exact qseq_fresh _ _ _
  obtain ⟨D, h1, h2, _⟩ := run_qseq (Sched.iface specs) (iface_appends specs) idsOf steps h0 h k w hw
  have hall : okC (D ++ w.inbox) = true := okC_sublist h1 (okC_deliverTo k _ hna)
  have hD : okC D = true := okC_sublist (List.sublist_append_left _ _) hall
  refine ⟨okQ_sublist h2 (okQ_itemsOf _ hD), okC_sublist (List.sublist_append_right _ _) hall, ?_⟩
  intro hs
  have hsD : Cmd.shutdown ∈ D := mem_itemsOf_shutdown (h2.subset hs)
  obtain ⟨x, y, rfl⟩ := List.append_of_mem hsD
  have : y ++ w.inbox = [] := okC_after (x := x) (by simpa using hall)
  exact (List.append_eq_nil_iff.1 this).2

/-- **Every withdrawal request a worker has taken is answered** (C07; any scheduler whose calls only append to the log).  After any
    execution, for every worker process: the number of `unscheduled` replies it has sent equals the number of `steal` requests its
    receiver thread has taken, and those, followed by the requests still waiting in its inbox, are a subsequence in log order of the
    requests the log addressed to it. -/
theorem C07_sys_steals_taken_are_answered (I : SchedI σ τ) (hA : Appends I) (s0 : σ) (numnodes maxfail : Nat) (mr : Option Int)
    (idsOf : Nat → List τ) (steps : List Step) {st : State σ τ} (h : run I idsOf (init I s0 numnodes maxfail mr idsOf) steps = .ok st)
    (k : Nat) (w : Wk τ) (hw : st.wk[k]? = some w) :
    ∃ D : List Cmd, (D ++ w.inbox).Sublist (deliverTo k st.ctl.env.outs) ∧ stealsIn D = repliesOf w.w := by
  have h0 : QSeqAll (init I s0 numnodes maxfail mr idsOf) := by
    intro k w hk
    simp only [init, List.getElem?_map, Option.map_eq_some_iff] at hk
    obtain ⟨i, _, rfl⟩ := hk
    exact qseq_fresh _ _ _
  obtain ⟨D, h1, _, h3⟩ := run_qseq I hA idsOf steps h0 h k w hw
  exact ⟨D, h1, h3⟩

/-- Non-vacuity: in the each-mode execution of `Sys/EachOnce`, two deliveries later, worker 0's queue is the whole collection followed
    by the shutdown marker, and its inbox is empty. -/
theorem eachRun_queue :
    (match run (Sched.iface []) eachIds eachInit (eachSteps ++ [.deliver 0, .deliver 0]) with
      | .ok st => st.wk.map (fun w => (w.w.torun, w.inbox.length)) | .error _ => []) =
    [([.test 0, .test 1, .shutdown], 0)] := by decide +kernel

end Xdist.Sys
