import XdistProofs.Sys.DeadEnd
/-!
  C03 / C01 at the level of the whole system (`--dist load`), **with crashes**: the controller's ledger.

  The scheduler-level ledger (`Contract.Bal`, `Load.step_bal`: pool + books + completed + crashed = started + re-queued, as
  multisets, along every sequence of scheduler calls) is lifted to every execution of the composed system: a ghost history
  (`Contract.Ghost`) is carried along the controller steps — each is a sequence of scheduler calls and shutdown signals
  (`Ctl.loopOnce_steps`) — and never read by any step.
-/
namespace Xdist.Sys
open Xdist Xdist.Ctl Xdist.Load Xdist.Contract

variable {τ : Type} [DecidableEq τ]

/-- executing a sequence of atoms with the ghost history of the scheduler calls -/
inductive StepsG : Load.State τ → Env → Ghost → List (Atom τ) → Load.State τ → Env → Ghost → Prop where
  | nil (s : Load.State τ) (e : Env) (g : Ghost) : StepsG s e g [] s e g
  | call {s : Load.State τ} {e : Env} {g : Ghost} {op : SOp τ} {s1 : Load.State τ} {e1 : Env} {r : Option τ}
      {as : List (Atom τ)} {s2 : Load.State τ} {e2 : Env} {g2 : Ghost}
      (h : Load.step s e op = .ok (s1, e1, r)) (t : StepsG s1 e1 (Load.ghostOp s s1 g op) as s2 e2 g2) :
      StepsG s e g (.call op :: as) s2 e2 g2
  | shut {s : Load.State τ} {e : Env} {g : Ghost} {as : List (Atom τ)} {s2 : Load.State τ} {e2 : Env} {g2 : Ghost} (n : Nat)
      (t : StepsG s (e.shutdown n) g as s2 e2 g2) : StepsG s e g (.shut n :: as) s2 e2 g2

theorem steps_toG {s s' : Load.State τ} {e e' : Env} {as : List (Atom τ)} (h : Steps (loadI (τ := τ)) s e as s' e') (g : Ghost) :
    ∃ g', StepsG s e g as s' e' g' := by
  induction h generalizing g with
  | nil s e => exact ⟨g, StepsG.nil s e g⟩
  | @call s e op s1 e1 r as s2 e2 hs _ ih =>
    obtain ⟨g', hg⟩ := ih (Load.ghostOp s s1 g op)
    exact ⟨g', StepsG.call hs hg⟩
  | shut n _ ih =>
    obtain ⟨g', hg⟩ := ih g
    exact ⟨g', StepsG.shut n hg⟩

/-- the ledger of the scheduler -/
def BalS (s : Load.State τ) (g : Ghost) : Prop := Load.Fresh s ∧ Bal (Load.view s) g ∧ Load.StartedOK s g

theorem stepsG_bal {s s' : Load.State τ} {e e' : Env} {g g' : Ghost} {as : List (Atom τ)}
    (h : StepsG s e g as s' e' g') (hb : BalS s g) : BalS s' g' := by
  induction h with
  | nil => exact hb
  | call hs _ ih =>
    obtain ⟨hf, hbal, hst⟩ := hb
    obtain ⟨hf1, hb1⟩ := Load.step_bal hf hbal hs
    exact ih ⟨hf1, hb1, Load.step_started hf hst hs⟩
  | shut n _ ih => exact ih hb

end Xdist.Sys
