import XdistProofs.Sys.DeadEnd
/-!
  C03 / C01 at the level of the whole system (`--dist load`), **with crashes**: the controller's ledger.

  The scheduler-level ledger (`Contract.Bal`, `Load.step_bal`: pool + books + completed + crashed = started + re-queued, as
  multisets, along every sequence of scheduler calls) is lifted to every execution of the composed system: a ghost history
  (`Contract.Ghost`) is carried along the controller steps — each is a sequence of scheduler calls and shutdown signals
  (`Ctl.loopOnce_steps`) — and never read by any step.
-/
namespace Xdist.Sys
open Xdist Xdist.Ctl Xdist.Load Xdist.Contract

variable {τ : Type} [DecidableEq τ]

/-- executing a sequence of atoms with the ghost history of the scheduler calls -/
inductive StepsG : Load.State τ → Env → Ghost → List (Atom τ) → Load.State τ → Env → Ghost → Prop where
  | nil (s : Load.State τ) (e : Env) (g : Ghost) : StepsG s e g [] s e g
  | call {s : Load.State τ} {e : Env} {g : Ghost} {op : SOp τ} {s1 : Load.State τ} {e1 : Env} {r : Option τ}
      {as : List (Atom τ)} {s2 : Load.State τ} {e2 : Env} {g2 : Ghost}
      (h : Load.step s e op = .ok (s1, e1, r)) (t : StepsG s1 e1 (Load.ghostOp s s1 g op) as s2 e2 g2) :
      StepsG s e g (.call op :: as) s2 e2 g2
  | shut {s : Load.State τ} {e : Env} {g : Ghost} {as : List (Atom τ)} {s2 : Load.State τ} {e2 : Env} {g2 : Ghost} (n : Nat)
      (t : StepsG s (e.shutdown n) g as s2 e2 g2) : StepsG s e g (.shut n :: as) s2 e2 g2

theorem steps_toG {s s' : Load.State τ} {e e' : Env} {as : List (Atom τ)} (h : Steps (loadI (τ := τ)) s e as s' e') (g : Ghost) :
    ∃ g', StepsG s e g as s' e' g' := by
  induction h generalizing g with
  | nil s e => exact ⟨g, StepsG.nil s e g⟩
  | @call s e op s1 e1 r as s2 e2 hs _ ih =>
    obtain ⟨g', hg⟩ := ih (Load.ghostOp s s1 g op)
    exact ⟨g', StepsG.call hs hg⟩
  | shut n _ ih =>
    obtain ⟨g', hg⟩ := ih g
    exact ⟨g', StepsG.shut n hg⟩

/-- the ledger of the scheduler -/
def BalS (s : Load.State τ) (g : Ghost) : Prop := Load.Fresh s ∧ Bal (Load.view s) g ∧ Load.StartedOK s g

theorem stepsG_bal {s s' : Load.State τ} {e e' : Env} {g g' : Ghost} {as : List (Atom τ)}
    (h : StepsG s e g as s' e' g') (hb : BalS s g) : BalS s' g' := by
  induction h with
  | nil => exact hb
  | call hs _ ih =>
    obtain ⟨hf, hbal, hst⟩ := hb
    obtain ⟨hf1, hb1⟩ := Load.step_bal hf hbal hs
    exact ih ⟨hf1, hb1, Load.step_started hf hst hs⟩
  | shut n _ ih => exact ih hb

/-- executions of the system with both ghosts: the workers written off because of an undecodable message, and the history of
    the scheduler calls made by the controller -/
inductive ReachB (idsOf : Nat → List τ) (st0 : LState τ) : LState τ → List Nat → Ghost → Prop where
  | init : ReachB idsOf st0 st0 [] {}
  | other {st st' : LState τ} {W : List Nat} {g : Ghost} (a : Step) (hn : ∀ k rq, a ≠ .ctl k rq) :
      ReachB idsOf st0 st W g → step loadI idsOf st a = .ok st' → ReachB idsOf st0 st' (ghostW st a W) g
  | ctl {st st' : LState τ} {W : List Nat} {g g' : Ghost} {as : List (Atom τ)} (k : Nat) (rq : Bool)
      {w : Wk τ} {ev0 : Ctl.Event τ} {rest : List (Ctl.Event τ)} :
      ReachB idsOf st0 st W g → step loadI idsOf st (.ctl k rq) = .ok st' →
      st.wk[k]? = some w → w.posted = ev0 :: rest → Shape loadI st.ctl st'.ctl (fixRq rq ev0) as →
      StepsG st.ctl.sched st.ctl.env g as st'.ctl.sched st'.ctl.env g' →
      ReachB idsOf st0 st' (ghostW st (.ctl k rq) W) g'

theorem ReachB.reachG {idsOf : Nat → List τ} {st0 st : LState τ} {W : List Nat} {g : Ghost} (h : ReachB idsOf st0 st W g) :
    ReachG idsOf st0 st W := by
  induction h with
  | init => exact ReachG.init
  | other a _ _ hs ih => exact ReachG.step a ih hs
  | ctl k rq _ hs _ _ _ _ ih => exact ReachG.step (.ctl k rq) ih hs

/-- every execution has its ghost history -/
theorem ReachG.reachB {idsOf : Nat → List τ} {st0 st : LState τ} {W : List Nat} (h : ReachG idsOf st0 st W) :
    ∃ g, ReachB idsOf st0 st W g := by
  induction h with
  | init => exact ⟨{}, ReachB.init⟩
  | step a _ hs ih =>
    obtain ⟨g, hg⟩ := ih
    cases a with
    | main k p => exact ⟨g, ReachB.other _ (by intro _ _ hh; cases hh) hg hs⟩
    | deliver k => exact ⟨g, ReachB.other _ (by intro _ _ hh; cases hh) hg hs⟩
    | recv k => exact ⟨g, ReachB.other _ (by intro _ _ hh; cases hh) hg hs⟩
    | crash k b => exact ⟨g, ReachB.other _ (by intro _ _ hh; cases hh) hg hs⟩
    | ctl k rq =>
      have hs' := hs
      simp only [Sys.step] at hs'
      obtain ⟨w, ev0, rest, c', hw, hp, hl, rfl⟩ := ctlStep_shape hs'
      obtain ⟨as, hst, hsh⟩ := loopOnce_steps hl
      obtain ⟨g', hg'⟩ := steps_toG hst g
      exact ⟨g', ReachB.ctl k rq hg hs hw hp hsh hg'⟩

/-- steps of the workers, of the receiver threads and crashes leave the scheduler alone -/
theorem other_sched {idsOf : Nat → List τ} {st st' : LState τ} (a : Step) (hn : ∀ k rq, a ≠ .ctl k rq)
    (h : step loadI idsOf st a = .ok st') : st'.ctl.sched = st.ctl.sched := by
  cases a with
  | main k p =>
    simp only [Sys.step] at h
    split at h
    · cases h
    · split at h
      · cases h
      · simp only [Except.ok.injEq] at h; subst h; rfl
  | deliver k =>
    simp only [Sys.step] at h
    split at h
    · cases h
    · split at h
      · cases h
      · simp only [Except.ok.injEq] at h; subst h; rfl
  | recv k =>
    simp only [Sys.step] at h
    split at h
    · cases h
    rename_i s1 hr
    simp only [Except.ok.injEq] at h; subst h
    obtain ⟨w, m, rest, fl', w2, outs', _, _, rfl, _⟩ := recvStep_shape hr
    rfl
  | crash k b =>
    simp only [Sys.step] at h
    split at h
    · cases h
    rename_i s1 hc
    simp only [Except.ok.injEq] at h; subst h
    unfold crashStep at hc
    split at hc
    · cases hc
    split at hc
    · cases hc
    split at hc
    · simp only [Option.some.injEq] at hc; subst hc; rfl
    · simp only [Option.some.injEq] at hc; subst hc; rfl
  | ctl k rq => exact absurd rfl (hn k rq)

/-- **The controller's ledger in every reachable state of the system**, whatever crashed: pool + books + completions handled +
    crash items = the indices of the agreed collection + what the crash hook re-queued, as multisets. -/
theorem reachB_bal (numnodes maxfail : Nat) (msc maxRestart : Option Int) (idsOf : Nat → List τ) {st : LState τ} {W : List Nat}
    {g : Ghost} (h : ReachB idsOf (init loadI (Load.init numnodes msc) numnodes maxfail maxRestart idsOf) st W g) :
    BalS st.ctl.sched g := by
  induction h with
  | init =>
    refine ⟨by intro _; rfl, ?_, ?_⟩
    · simp [Bal, Load.view, Load.init, View.all, AList.values, init, Ctl.init]
    · simp [Load.StartedOK, Load.init, init, Ctl.init]
  | other a hn _ hs ih => rw [other_sched a hn hs]; exact ih
  | ctl k rq _ _ _ _ _ hg ih => exact stepsG_bal hg ih

end Xdist.Sys
