import XdistProofs.Sys.AcctEnd
/-!
  Non-vacuity of `C03_sys_load_accounting_at_end`: a concrete execution of the system model — one worker, three tests; gw0 dies
  inside the first test, its replacement gw1 runs the other two, the session finishes without a stop reason and within the
  budget — meets every hypothesis.  The step list is a schedule taken from the simulation of the real controller
  (`--dist load -n1 --maxschedchunk 2 --max-worker-restart 4`), replayed here by the kernel.
-/
namespace Xdist.Sys
open Xdist Xdist.Ctl Xdist.Load Xdist.Contract

/-- run a list of steps, carrying the ghost `W` -/
def runW {τ : Type} [DecidableEq τ] (idsOf : Nat → List τ) : LState τ → List Nat → List Step → Option (LState τ × List Nat)
  | st, W, [] => some (st, W)
  | st, W, a :: r =>
    match step loadI idsOf st a with
    | .ok st' => runW idsOf st' (ghostW st a W) r
    | .error _ => none

theorem runW_reach {τ : Type} [DecidableEq τ] (idsOf : Nat → List τ) (st0 : LState τ) (steps : List Step) :
    ∀ (st st' : LState τ) (W W' : List Nat), ReachG idsOf st0 st W → runW idsOf st W steps = some (st', W') → ReachG idsOf st0 st' W' := by
  induction steps with
  | nil => intro st st' W W' hr h; simp only [runW, Option.some.injEq, Prod.mk.injEq] at h; obtain ⟨rfl, rfl⟩ := h; exact hr
  | cons a r ih =>
    intro st st' W W' hr h
    simp only [runW] at h
    split at h
    · rename_i st1 hs
      exact ih st1 st' _ W' (ReachG.step a hr hs) h
    · cases h

def exIds : Nat → List Nat := fun _ => [10, 11, 12]

def exSteps : List Step :=
  [.main 0 .none, .main 0 (.collect [] false false none), .recv 0, .ctl 0 false, .recv 0, .recv 0,
   .ctl 0 false, .deliver 0, .main 0 .none, .main 0 .none, .main 0 .none, .crash 0 false,
   .recv 0, .ctl 0 false, .recv 0, .ctl 0 false, .main 1 .none, .main 1 (.collect [] false false none),
   .recv 1, .ctl 1 false, .recv 1, .recv 1, .ctl 1 false, .deliver 1,
   .main 1 .none, .main 1 .none, .main 1 .none, .main 1 (.reports [false, false, false] none none false), .main 1 (.complete false), .recv 1,
   .recv 1, .recv 1, .ctl 1 false, .recv 1, .ctl 1 false, .ctl 1 false,
   .ctl 1 false, .recv 1, .ctl 1 false, .recv 1, .ctl 1 false, .deliver 1,
   .main 1 .none, .main 1 .none, .recv 1, .ctl 1 false, .main 1 (.reports [false, false, false] none none false), .recv 1,
   .ctl 1 false, .recv 1, .ctl 1 false, .recv 1, .ctl 1 false, .main 1 (.complete false),
   .recv 1, .recv 1, .ctl 1 false, .ctl 1 false, .main 1 .none, .recv 1,
   .ctl 1 false]

def exInit : LState Nat := init loadI (Load.init 1 (some 2)) 1 0 (some 4) exIds

def exCheck (p : LState Nat × List Nat) : Bool :=
  p.2.isEmpty && Ctl.sessionFinished p.1.ctl && p.1.ctl.shouldstop.isNone && p.1.ctl.summary.isNone &&
    (p.1.ctl.sched.collection == some [10, 11, 12]) && (p.1.ctl.failedNodes == 1) &&
    (p.1.wk.flatMap doneIdx == [2, 1]) && (crashIds p.1.ctl.pubs == [10]) && (rqIds p.1.ctl.pubs == [])

theorem exRun : (runW exIds exInit [] exSteps).map exCheck = some true := by decide +kernel

/-- the hypotheses of the end-of-session theorem are met by an execution with a crash: gw0 died inside test 0, gw1 completed
    tests 1 and 2 -/
example : ∃ (st : LState Nat) (g : Ghost), ReachB exIds exInit st [] g ∧ st.ctl.sched.collection = some [10, 11, 12] ∧
    Ctl.sessionFinished st.ctl = true ∧ st.ctl.shouldstop = none ∧ st.ctl.summary = none ∧ st.ctl.failedNodes = 1 ∧
    st.wk.flatMap doneIdx = [2, 1] ∧ crashIds st.ctl.pubs = [10] ∧ rqIds st.ctl.pubs = [] := by
  have h := exRun
  cases hr : runW exIds exInit [] exSteps with
  | none => rw [hr] at h; cases h
  | some p =>
    obtain ⟨st, W⟩ := p
    rw [hr] at h
    simp only [Option.map_some, Option.some.injEq, exCheck, Bool.and_eq_true, List.isEmpty_iff, Option.isNone_iff_eq_none,
      beq_iff_eq] at h
    obtain ⟨⟨⟨⟨⟨⟨⟨⟨hW, h1⟩, h2⟩, h3⟩, h4⟩, h5⟩, h6⟩, h7⟩, h8⟩ := h
    subst hW
    have hg := runW_reach exIds exInit exSteps exInit st [] [] ReachG.init hr
    obtain ⟨g, hb⟩ := reachG_reachB 1 0 (some 2) (some 4) exIds hg
    exact ⟨st, g, hb, h4, h1, h2, h3, h5, h6, h7, h8⟩

end Xdist.Sys
