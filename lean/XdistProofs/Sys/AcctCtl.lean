import XdistProofs.Sys.AcctWk3
/-! The controller step keeps the eighth layer. -/
namespace Xdist.Sys
open Xdist Xdist.Ctl Xdist.Load Xdist.Contract

variable {τ : Type} [DecidableEq τ]

theorem routed_done (j : Nat) (new : List SOut) (w : Wk τ) :
    doneIdx (routed j new w) = doneIdx w ∧ inflightC (routed j new w) = inflightC w := by
  obtain ⟨_, _, r3, r4, r5⟩ := routed_fields j new w
  exact ⟨by unfold doneIdx; rw [r5], by unfold inflightC; rw [r3, r4]⟩

theorem handled_congr {w w' : Wk τ} (h1 : doneIdx w' = doneIdx w) (h2 : inflightC w' = inflightC w) : handled w' = handled w := by
  unfold handled; rw [h1, h2]

theorem wkInv8_routed {c c' : Ctl.State (Load.State τ) τ} {W : List Nat} {j : Nat} {w : Wk τ} (new : List SOut)
    (hd : (c'.env.flags.get j).down = (c.env.flags.get j).down) (h : WkInv8 c W j w) : WkInv8 c' W j (routed j new w) := by
  obtain ⟨r1, r2, r3, r4, r5⟩ := routed_fields j new w
  obtain ⟨d1, d2⟩ := routed_done j new w
  refine ⟨?_, fun hW => ?_⟩
  · rw [r1, r2, r3, hd]; exact h.tailA
  · obtain ⟨pre, hp⟩ := h.suf hW
    exact ⟨pre, by rw [d1, d2]; exact hp⟩

/-- taking the oldest event of a worker from the queue -/
theorem suf_pop {w : Wk τ} {ev0 : Ctl.Event τ} {rest : List (Ctl.Event τ)} (hp : w.posted = ev0 :: rest) (h : Suf w) :
    Suf ({ w with posted := rest } : Wk τ) ∧
      handled ({ w with posted := rest } : Wk τ) = handled w ++ (complIdx ev0).toList := by
  obtain ⟨pre, hpre⟩ := h
  have hin : inflightC w = (complIdx ev0).toList ++ inflightC ({ w with posted := rest } : Wk τ) := by
    unfold inflightC
    rw [hp]
    simp only [completes, filterMap_cons_toList, List.append_assoc]
  have hd : doneIdx ({ w with posted := rest } : Wk τ) = (pre ++ (complIdx ev0).toList) ++ inflightC ({ w with posted := rest } : Wk τ) := by
    show doneIdx w = _
    rw [hpre, hin, List.append_assoc]
  exact ⟨⟨_, hd⟩, by rw [handled_of_suf hd, handled_of_suf hpre]⟩

theorem ctl_inv8w (idsOf : Nat → List τ) {st st' : LState τ} {W : List Nat} {k : Nat} {rq : Bool} (hinv1 : Inv st)
    (hinv : Inv8w st W) (h : step Ctl.loadI idsOf st (.ctl k rq) = .ok st') : Inv8w st' (ghostW st (.ctl k rq) W) := by
  simp only [Sys.step] at h
  obtain ⟨w, ev0, rest, c', hw, hp, hl, rfl⟩ := ctlStep_shape h
  have hk : k < st.wk.length := by
    rcases Nat.lt_or_ge k st.wk.length with h' | h'
    · exact h'
    · rw [List.getElem?_eq_none h'] at hw; cases hw
  have hlen := hinv1.1.len
  have wi := hinv1.wk hw
  have hown : Own k ev0 = true := wi.ownP ev0 (by rw [hp]; simp)
  obtain ⟨new, b1, f⟩ := ctl_facts hinv1.1 (by rw [← hlen]; exact hk) (fixRq_own rq hown) hl
  have hnew : c'.env.outs.drop st.ctl.env.outs.length = new := by rw [f.outs]; simp
  rw [hnew]
  have hsetlen : (st.wk.set k ({ w with posted := rest } : Wk τ)).length = st.ctl.nextId := by simp [hlen]
  show Inv8w _ W
  intro j wj hj
  simp only at hj
  rw [route_get] at hj
  by_cases hjl : j < st.wk.length
  · rw [spawn_get_old _ _ _ _ (by simpa using hjl)] at hj
    by_cases hjk : j = k
    · subst hjk
      rw [getElem?_set_self' hw] at hj
      simp only [Option.map_some, Option.some.injEq] at hj
      subst hj
      have h8 := hinv j w hw
      refine wkInv8_routed new (f.acc.other j).1 ⟨h8.tailA, fun hW => (suf_pop hp (h8.suf hW)).1⟩
    · rw [List.getElem?_set_ne (Ne.symm hjk)] at hj
      cases hwj : st.wk[j]? with
      | none => rw [hwj] at hj; cases hj
      | some w0 =>
        rw [hwj] at hj
        simp only [Option.map_some, Option.some.injEq] at hj
        subst hj
        exact wkInv8_routed new (f.acc.other j).1 (hinv j w0 hwj)
  · have hjl' : st.wk.length ≤ j := Nat.le_of_not_lt hjl
    by_cases hju : j < c'.nextId
    · rw [spawn_get_new _ _ _ _ (by simpa using hjl') hju] at hj
      simp only [Option.map_some, Option.some.injEq] at hj
      subst hj
      obtain ⟨r1, r2, r3, r4, r5⟩ := routed_fields j new ({ ids := idsOf j } : Wk τ)
      obtain ⟨d1, d2⟩ := routed_done j new ({ ids := idsOf j } : Wk τ)
      refine ⟨?_, fun _ => ⟨[], by rw [d1, d2]; rfl⟩⟩
      intro _ hp'
      rw [r2] at hp'; cases hp'
    · have : (spawn idsOf (st.wk.set k ({ w with posted := rest } : Wk τ)) c'.nextId)[j]? = none := by
        apply List.getElem?_eq_none
        rw [spawn_length _ _ _ (by rw [hsetlen]; exact f.nextLe)]
        omega
      rw [this] at hj; cases hj

theorem init_inv8w (numnodes maxfail : Nat) (msc maxRestart : Option Int) (idsOf : Nat → List τ) :
    Inv8w (init loadI (Load.init numnodes msc) numnodes maxfail maxRestart idsOf) [] := by
  intro j w hj
  simp only [init, List.getElem?_map] at hj
  cases hr : (List.range numnodes)[j]? with
  | none => rw [hr] at hj; cases hj
  | some x =>
    rw [hr] at hj
    simp only [Option.map_some, Option.some.injEq] at hj
    subst hj
    refine ⟨?_, fun _ => ⟨[], rfl⟩⟩
    intro _ hp; cases hp

theorem step_inv8w (idsOf : Nat → List τ) {st st' : LState τ} {W : List Nat} (a : Step) (h1 : Inv st) (h6 : Inv6 st)
    (h7 : Inv7 st W) (h8 : Inv8w st W) (h : step loadI idsOf st a = .ok st') : Inv8w st' (ghostW st a W) := by
  cases a with
  | main k p => exact main_inv8w idsOf h6 h7 h8 h
  | deliver k => exact deliver_inv8w idsOf h8 h
  | recv k => exact recv_inv8w idsOf h6 h7 h8 h
  | crash k b => exact crash_inv8w idsOf h8 h
  | ctl k rq => exact ctl_inv8w idsOf h1 h8 h

end Xdist.Sys
