import XdistProofs.Sys.BudgetShut
import XdistProofs.Sys.StopSys
import XdistProofs.Sys.Prog1
/-!
  C02, whole system, all six modes: **when the scheduler says the tests are finished, the shutdown is in force and every worker the
  scheduler knows has been told to shut down (or is down)** — in every reachable state, so a worker holding its last test is never
  left waiting for the next item once `tests_finished` holds.
-/
namespace Xdist.Sys
open Xdist Xdist.Ctl

set_option linter.unusedSectionVars false

variable {σ τ : Type} [DecidableEq τ]

def TfShut (I : SchedI σ τ) (c : Ctl.State σ τ) : Prop := I.testsFinished c.sched = true → c.shuttingdown = true

theorem afterHandler_tfShut (I : SchedI σ τ) (c : Ctl.State σ τ) : TfShut I (afterHandler I c) := by
  intro htf
  rw [afterHandler_sched' I c] at htf
  unfold afterHandler
  simp only [htf, if_true]
  split
  · exact triggerShutdown_shut I _
  · exact triggerShutdown_shut I _

theorem step_tfShut (I : SchedI σ τ) (idsOf : Nat → List τ) {st st' : State σ τ} (a : Step) (hi : TfShut I st.ctl)
    (h : step I idsOf st a = .ok st') : TfShut I st'.ctl := by
  cases a with
  | main j p =>
    simp only [Sys.step] at h
    split at h
    · cases h
    · split at h
      · cases h
      · simp only [Except.ok.injEq] at h; subst h; exact hi
  | deliver j =>
    simp only [Sys.step] at h
    split at h
    · cases h
    · split at h
      · cases h
      · simp only [Except.ok.injEq] at h; subst h; exact hi
  | recv j =>
    simp only [Sys.step] at h
    split at h
    · cases h
    rename_i s1 hr
    simp only [Except.ok.injEq] at h; subst h
    obtain ⟨w, m, rest, fl', w2, outs', _, _, rfl, _⟩ := recvStep_shape' hr
    exact hi
  | crash j b =>
    simp only [Sys.step] at h
    split at h
    · cases h
    rename_i s1 hc
    simp only [Except.ok.injEq] at h; subst h
    unfold crashStep at hc
    split at hc
    · cases hc
    split at hc
    · cases hc
    split at hc
    · simp only [Option.some.injEq] at hc; subst hc; exact hi
    · simp only [Option.some.injEq] at hc; subst hc; exact hi
  | ctl j rq =>
    simp only [Sys.step] at h
    obtain ⟨w, ev, rest, c', hw, hp, hl, rfl⟩ := ctlStep_shape' h
    unfold loopOnce at hl
    split at hl
    · cases hl
    obtain ⟨c1, hh1, rfl⟩ := map_ok.1 hl
    exact afterHandler_tfShut I c1

/-- **`tests_finished` ⇒ the shutdown is in force and everybody has been told — whole system, every quiet scheduler** (C02). -/
theorem C02_sys_finished_means_everyone_told (I : SchedI σ τ) (hQ : Quiet I) (s0 : σ) (h0 : I.testsFinished s0 = false)
    (numnodes maxfail : Nat) (mr : Option Int) (idsOf : Nat → List τ) (steps : List Step) {st : State σ τ}
    (h : run I idsOf (init I s0 numnodes maxfail mr idsOf) steps = .ok st) (htf : I.testsFinished st.ctl.sched = true) :
    st.ctl.shuttingdown = true ∧ ∀ n ∈ I.nodes st.ctl.sched, st.ctl.env.flags.shuttingDown n = true := by
  have key : ∀ (steps : List Step) {x y : State σ τ}, TfShut I x.ctl → run I idsOf x steps = .ok y → TfShut I y.ctl := by
    intro steps
    induction steps with
    | nil => intro x y hi h; simp only [run, Except.ok.injEq] at h; subst h; exact hi
    | cons s rest ih =>
      intro x y hi h
      simp only [run] at h
      split at h
      · cases h
      · rename_i x1 hs
        exact ih (step_tfShut I idsOf s hi hs) h
  have ht0 : TfShut I (init I s0 numnodes maxfail mr idsOf).ctl := by
    intro hh; simp only [init, Ctl.init] at hh; rw [h0] at hh; cases hh
  have hsd := key steps ht0 h htf
  have hs0 : StopInv I (init I s0 numnodes maxfail mr idsOf).ctl :=
    ⟨init_shutInv I s0 numnodes maxfail mr, by intro hs; simp [init, Ctl.init] at hs⟩
  obtain ⟨hsi, _⟩ := run_stop I hQ idsOf steps hs0 h
  exact ⟨hsd, hsi.1 hsd⟩

/-- … for the scheduler `pytest_xdist_make_scheduler` builds for each `--dist` mode -/
theorem C02_sys_finished_means_everyone_told_all_modes (specs : AList Nat Nat) (mode : String) (numnodes maxfail : Nat) (msc mr : Option Int)
    (hnn : 0 < numnodes) (idsOf : Nat → List String) (steps : List Step) {st : State Sched.Any String}
    (h : run (Sched.iface specs) idsOf (init (Sched.iface specs) (Sched.make mode numnodes msc) numnodes maxfail mr idsOf) steps = .ok st)
    (htf : (Sched.iface specs).testsFinished st.ctl.sched = true) :
    st.ctl.shuttingdown = true ∧ ∀ n ∈ (Sched.iface specs).nodes st.ctl.sched, st.ctl.env.flags.shuttingDown n = true := by
  refine C02_sys_finished_means_everyone_told (Sched.iface specs) (Sched.iface_quiet specs) _ ?_ numnodes maxfail mr idsOf steps h htf
  unfold Sched.make Sched.iface
  simp only
  split
  · simp [Sched.Any.tf, Load.testsFinished, Load.collectionIsCompleted, Load.init]; omega
  · split
    · simp [Sched.Any.tf, WorkSteal.testsFinished, WorkSteal.collectionIsCompleted, WorkSteal.init]; omega
    · split
      · simp [Sched.Any.tf, Each.testsFinished, Each.init]
      · simp [Sched.Any.tf, LoadScope.testsFinished, LoadScope.collectionIsCompleted, LoadScope.init]; omega

end Xdist.Sys
