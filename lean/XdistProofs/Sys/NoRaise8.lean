import XdistProofs.Sys.NoRaise7
/-!
  C17, whole system, `--dist load`: **every event except `workerfinished` is handled without raising**
  (`C17_sys_load_events_never_raise`), for workers collecting the same non-empty list of tests.
-/
namespace Xdist.Sys
open Xdist Xdist.Ctl Xdist.Load Xdist.Contract

variable {τ : Type} [DecidableEq τ]

theorem reachB_inv12 {ids : List τ} (numnodes maxfail : Nat) (msc maxRestart : Option Int) (idsOf : Nat → List τ)
    (hids : ∀ j, idsOf j = ids) (hnn : 0 < numnodes) {st : LState τ} {W : List Nat} {g : Ghost}
    (h : ReachB idsOf (init loadI (Load.init numnodes msc) numnodes maxfail maxRestart idsOf) st W g) : Inv12 ids st := by
  induction h with
  | init =>
    refine ⟨⟨⟨?_, ?_⟩, ?_⟩, ?_⟩
    · intro p hp; simp [init, Ctl.init, Load.init] at hp
    · intro col hc; simp [init, Ctl.init, Load.init] at hc
    · intro hc
      simp [init, Ctl.init, Load.init, Load.collectionIsCompleted] at hc
      omega
    · intro j w hj
      simp only [init, List.getElem?_map] at hj
      cases hr : (List.range numnodes)[j]? with
      | none => rw [hr] at hj; cases hj
      | some x =>
        rw [hr] at hj
        simp only [Option.map_some, Option.some.injEq] at hj
        subst hj
        exact ⟨hids x, by intro e he; simp [flight] at he⟩
  | other a hn _ hs ih => exact other_inv12 idsOf a hn ih hs
  | ctl k rq hprev hs hw hp hsh hg _ ih =>
    exact ctl_inv12_sys idsOf hids ih (reachB_bal numnodes maxfail msc maxRestart idsOf hprev) hs hw hp hsh hg

theorem anc_n2c_nonempty {s s1 : Load.State τ} {n : Nat} {c : List τ} (h : Load.addNodeCollection s n c = .ok s1)
    (hc : s1.collection = none) : s1.node2collection ≠ [] := by
  have hset : ∀ (d : AList Nat (List τ)), AList.set d n c ≠ [] := by
    intro d; cases d with
    | nil => simp [AList.set]
    | cons p t => obtain ⟨k, v⟩ := p; simp only [AList.set]; split <;> simp
  unfold Load.addNodeCollection at h
  split at h
  · cases h
  · split at h
    · split at h
      · cases h
      · rename_i col hcol
        split at h
        · cases h
        · split at h
          · simp only [Except.ok.injEq] at h; subst h; rw [hcol] at hc; cases hc
          · simp only [Except.ok.injEq] at h; subst h; rw [hcol] at hc; cases hc
    · simp only [Except.ok.injEq] at h; subst h; exact hset _

/-- **`worker_collectionfinish` returns** -/
theorem handle_cf_total {ids : List τ} {c : Ctl.State (Load.State τ) τ} {g : Ghost} (hne : ids ≠ []) (h12 : CtlInv12 ids c)
    (hso : SchedOk c.sched g) (n : Nat) : ∃ c1, handle loadI c (.collectionfinish n ids) = .ok c1 := by
  simp only [handle, collectionfinish]
  split
  · exact ⟨_, rfl⟩
  · split
    · exact ⟨_, rfl⟩
    · rename_i hnodes
      have hn : n ∈ AList.keys c.sched.node2pending := by
        cases hd : decide (n ∈ loadI.nodes c.sched) <;> simp_all [loadI, Load.nodes]
      obtain ⟨s1, hs1⟩ := Load.addNodeCollection_total c.sched ids hn (by
        intro hc
        have := h12.comp hc
        cases hcol : c.sched.collection with
        | none => exact absurd hcol this
        | some col => exact ⟨col, rfl, by rw [h12.si.2 col hcol]; exact hne⟩)
      obtain ⟨hv, hcoll, _, hmsc⟩ := Load.addNodeCollection_view hs1
      have hcall : callSched loadI c (.addNodeCollection n ids) = .ok (({ c with sched := s1 } : Ctl.State (Load.State τ) τ), none) := by
        unfold callSched
        simp only [loadI, Load.step, hs1, Except.map]
      simp only [hcall, Except.bind]
      split
      · rename_i hcomp
        have hpend : s1.pending = c.sched.pending := by
          have := congrArg View.pool hv; simpa [Load.view] using this
        have hbooks : s1.node2pending = c.sched.node2pending := by
          have := congrArg View.books hv; simpa [Load.view] using this
        obtain ⟨⟨s2, e2⟩, hsch⟩ := Load.schedule_total s1 c.env hcomp
          (by intro hp; rw [hmsc]; exact hso.mscOk (by rw [← hpend]; exact hp))
          (by rw [hbooks]; intro hh; rw [hh] at hn; simp [AList.keys] at hn)
          (fun hcn => anc_n2c_nonempty hs1 hcn)
        simp only [callSched, loadI, Load.step, hsch, Except.map]
        exact ⟨_, rfl⟩
      · exact ⟨_, rfl⟩

def coveredEvent : Ctl.Event τ → Bool
  | .workerfinished _ _ _ _ => false
  | .internalError _ => false
  | .unscheduled _ _ => false
  | _ => true

/-- **Handling an event never raises** (`--dist load`, whole system, every worker collects the same non-empty list of tests).
    In every reachable state of every execution, for every worker that was not written off because of an undecodable message: the
    iteration of the controller loop that handles the oldest event of that worker on the controller's queue — the worker
    reporting ready, reporting its collection, a test completion, a test or collection report, a log event, or the notice that the
    worker died — returns: no `AssertionError` (`assert node not in self.node2pending`, `assert self.collection`), no `KeyError`,
    `ValueError`, `IndexError`, `ZeroDivisionError` or `TypeError`.
    Partial: the `workerfinished` event (`assert not crashitem`) is not covered by this theorem. -/
theorem C17_sys_load_events_never_raise {ids : List τ} (numnodes maxfail : Nat) (msc maxRestart : Option Int) (idsOf : Nat → List τ)
    (hids : ∀ j, idsOf j = ids) (hne : ids ≠ []) (hnn : 0 < numnodes) {st : LState τ} {W : List Nat} {g : Ghost}
    (h : ReachB idsOf (init loadI (Load.init numnodes msc) numnodes maxfail maxRestart idsOf) st W g)
    {k : Nat} {w : Wk τ} {ev0 : Ctl.Event τ} {rest : List (Ctl.Event τ)} (hw : st.wk[k]? = some w) (hW : k ∉ W)
    (hp : w.posted = ev0 :: rest) (hev : coveredEvent ev0 = true) (hnf : Ctl.sessionFinished st.ctl = false) (rq : Bool) :
    ∃ st', step loadI idsOf st (.ctl k rq) = .ok st' := by
  cases hpl : plainEvent ev0 with
  | true => exact C17_sys_load_events_never_raise_partial numnodes maxfail msc maxRestart idsOf h hw hW hp hpl hnf rq
  | false =>
    obtain ⟨i1, i11⟩ := reach_inv11 numnodes maxfail msc maxRestart idsOf h.reachG.reach
    have i12 := reachB_inv12 numnodes maxfail msc maxRestart idsOf hids hnn h
    have hso := reachB_schedOk numnodes maxfail msc maxRestart idsOf h
    have wi := i1.wk hw
    have hact : k ∈ st.ctl.active := by
      apply Classical.byContradiction
      intro hna
      have := wi.inactive hna
      rw [hp] at this; cases this
    have hnem : st.ctl.active.isEmpty = false := by
      cases hh : st.ctl.active with
      | nil => rw [hh] at hact; cases hact
      | cons a t => rfl
    have hhandle : ∃ c1, handle loadI st.ctl (fixRq rq ev0) = .ok c1 := by
      cases ev0 with
      | workerready n => exact handle_ready_total i1 i11 hw hp
      | collectionfinish n cc =>
        have hmem : Ctl.Event.collectionfinish n cc ∈ flight k w := by unfold flight; rw [hp]; simp
        have hcc : cc = ids := (i12.2 k w hw).2 _ hmem
        subst hcc
        exact handle_cf_total hne i12.1 hso n
      | complete n i slow => cases hpl
      | errordown n r => cases hpl
      | testreport n f => cases hpl
      | collectreport n key f => cases hpl
      | other => cases hpl
      | workerfinished n x sf ss => cases hev
      | internalError n => cases hev
      | unscheduled n is => cases hev
    obtain ⟨c1, hc1⟩ := hhandle
    have hloop : loopOnce loadI st.ctl (fixRq rq ev0) = .ok (afterHandler loadI c1) := by
      simp only [loopOnce, hnem, Bool.false_eq_true, ↓reduceIte, hc1, Except.map]
    have : step loadI idsOf st (.ctl k rq) = .ok
        { ctl := afterHandler loadI c1,
          wk := route (spawn idsOf (st.wk.set k { w with posted := rest }) (afterHandler loadI c1).nextId)
            ((afterHandler loadI c1).env.outs.drop st.ctl.env.outs.length) } := by
      simp only [Sys.step, ctlStep, hnf, Bool.false_eq_true, ↓reduceIte, hnem, hw, hp]
      cases ev0 <;> simp only [fixRq] at hloop <;> simp only [hloop]
    exact ⟨_, this⟩

/-- **`workerfinished` of a worker that ended with a keyboard interrupt / collection error (exit status 2), with a stop or
    fail-fast request, or that the scheduler does not know** never raises.  (Partial: the remaining case — a registered worker
    that finished normally, `assert not crashitem` — needs "nothing is sent behind the shutdown signal" at the level of the whole
    system and is validated by the simulation, not proved.) -/
theorem C17_sys_load_workerfinished_never_raises_partial (numnodes maxfail : Nat) (msc maxRestart : Option Int) (idsOf : Nat → List τ)
    {st : LState τ} {W : List Nat} {g : Ghost}
    (h : ReachB idsOf (init loadI (Load.init numnodes msc) numnodes maxfail maxRestart idsOf) st W g)
    {k n x : Nat} {sf ss : Option String} {w : Wk τ} {rest : List (Ctl.Event τ)} (hw : st.wk[k]? = some w)
    (hp : w.posted = .workerfinished n x sf ss :: rest)
    (hcase : x = 2 ∨ sf.isSome = true ∨ ss.isSome = true ∨ n ∉ AList.keys st.ctl.sched.node2pending)
    (hnf : Ctl.sessionFinished st.ctl = false) (rq : Bool) :
    ∃ st', step loadI idsOf st (.ctl k rq) = .ok st' := by
  obtain ⟨i1, _⟩ := reach_inv11 numnodes maxfail msc maxRestart idsOf h.reachG.reach
  have hso := reachB_schedOk numnodes maxfail msc maxRestart idsOf h
  have wi := i1.wk hw
  have hown := wi.ownP (.workerfinished n x sf ss) (by rw [hp]; simp)
  have hnk : n = k := by simpa [Own] using hown
  subst hnk
  have hact : n ∈ st.ctl.active := by
    apply Classical.byContradiction
    intro hna
    have := wi.inactive hna
    rw [hp] at this; cases this
  have hnem : st.ctl.active.isEmpty = false := by
    cases hh : st.ctl.active with
    | nil => rw [hh] at hact; cases hact
    | cons a t => rfl
  have hhandle : ∃ c1, handle loadI st.ctl (.workerfinished n x sf ss) = .ok c1 := by
    simp only [handle]
    unfold workerfinished
    split
    · -- exit status 2: treated as a lost worker
      simp only
      refine errordown_total (g := g) ?_ false ?_
      · rw [(triggerShutdown_fields loadI _).2.1]; exact hso
      · rw [(triggerShutdown_fields loadI _).2.2.1]; exact hact
    · rename_i hx
      simp only
      split
      · apply removeActive_ok
        split <;> exact hact
      · rename_i hnone
        split
        · rename_i hmem
          exfalso
          rcases hcase with h' | h' | h' | h'
          · exact hx h'
          · cases sf with
            | none => cases h'
            | some r => simp at hnone
          · cases sf with
            | some r => simp at hnone
            | none =>
              cases ss with
              | none => cases h'
              | some r => simp at hnone
          · exact h' hmem
        · exact removeActive_ok hact
  obtain ⟨c1, hc1⟩ := hhandle
  have hloop : loopOnce loadI st.ctl (.workerfinished n x sf ss) = .ok (afterHandler loadI c1) := by
    simp only [loopOnce, hnem, Bool.false_eq_true, ↓reduceIte, hc1, Except.map]
  have : step loadI idsOf st (.ctl n rq) = .ok
      { ctl := afterHandler loadI c1,
        wk := route (spawn idsOf (st.wk.set n { w with posted := rest }) (afterHandler loadI c1).nextId)
          ((afterHandler loadI c1).env.outs.drop st.ctl.env.outs.length) } := by
    simp only [Sys.step, ctlStep, hnf, Bool.false_eq_true, ↓reduceIte, hnem, hw, hp, hloop]
  exact ⟨_, this⟩

end Xdist.Sys
