import XdistProofs.Sys.Term3
/-!
  C02, whole system, `--dist load`: **every execution is finite** (with a restart budget), and — together with genuine
  progress — every way of running the system ends, after finitely many steps, with the session finished.
-/
namespace Xdist.Sys
open Xdist Xdist.Ctl Xdist.Load Xdist.Contract

set_option linter.unusedSectionVars false

variable {τ : Type} [DecidableEq τ]

/-- a live worker that was not written off has no `errordown` waiting — along every execution -/
theorem reachB_inv10 (numnodes maxfail : Nat) (msc maxRestart : Option Int) (idsOf : Nat → List τ) {st : LState τ} {W : List Nat}
    {g : Ghost} (h : ReachB idsOf (init loadI (Load.init numnodes msc) numnodes maxfail maxRestart idsOf) st W g) : Inv10 st W := by
  induction h with
  | init =>
    intro j w hj _ _ e he
    simp only [init, List.getElem?_map] at hj
    cases hr : (List.range numnodes)[j]? with
    | none => rw [hr] at hj; cases hj
    | some x =>
      rw [hr] at hj
      simp only [Option.map_some, Option.some.injEq] at hj
      subst hj
      cases he
  | other a hn hprev hs ih =>
    obtain ⟨a1, _, a7, a8, _, _⟩ := reachB_all numnodes maxfail msc maxRestart idsOf hprev
    exact step_inv10 idsOf a a1 a7 a8 ih hs
  | ctl k rq hprev hs _ _ _ _ _ ih =>
    obtain ⟨a1, _, a7, a8, _, _⟩ := reachB_all numnodes maxfail msc maxRestart idsOf hprev
    exact step_inv10 idsOf _ a1 a7 a8 ih hs

/-- `--max-worker-restart` does not change during a run -/
theorem step_maxRestart (idsOf : Nat → List τ) {st st' : LState τ} (a : Step) (h : step loadI idsOf st a = .ok st') :
    st'.ctl.maxRestart = st.ctl.maxRestart := by
  cases a with
  | main k p =>
    simp only [Sys.step] at h
    split at h
    · cases h
    · split at h
      · cases h
      · simp only [Except.ok.injEq] at h; subst h; rfl
  | deliver k =>
    simp only [Sys.step] at h
    split at h
    · cases h
    · split at h
      · cases h
      · simp only [Except.ok.injEq] at h; subst h; rfl
  | recv k =>
    simp only [Sys.step] at h
    split at h
    · cases h
    rename_i s1 hr
    simp only [Except.ok.injEq] at h; subst h
    obtain ⟨w, m, rest, fl', w2, outs', _, _, rfl, _⟩ := recvStep_shape hr
    rfl
  | crash k b =>
    simp only [Sys.step] at h
    split at h
    · cases h
    rename_i s1 hc
    simp only [Except.ok.injEq] at h; subst h
    unfold crashStep at hc
    split at hc
    · cases hc
    split at hc
    · cases hc
    split at hc
    · simp only [Option.some.injEq] at hc; subst hc; rfl
    · simp only [Option.some.injEq] at hc; subst hc; rfl
  | ctl k rq =>
    simp only [Sys.step] at h
    obtain ⟨w, ev0, rest, c', hw, hp, hl, rfl⟩ := ctlStep_shape h
    unfold loopOnce at hl
    split at hl
    · cases hl
    obtain ⟨c1, hh1, rfl⟩ := map_ok.1 hl
    exact (os_afterHandler loadI c1).mr.trans (os_handle loadI hh1).mr

theorem reachB_maxRestart (numnodes maxfail : Nat) (msc maxRestart : Option Int) (idsOf : Nat → List τ) {st : LState τ}
    {W : List Nat} {g : Ghost}
    (h : ReachB idsOf (init loadI (Load.init numnodes msc) numnodes maxfail maxRestart idsOf) st W g) :
    st.ctl.maxRestart = maxRestart := by
  induction h with
  | init => rfl
  | other a _ _ hs ih => rw [step_maxRestart idsOf a hs]; exact ih
  | ctl k rq _ hs _ _ _ _ _ ih => rw [step_maxRestart idsOf _ hs]; exact ih

/-- **Every step decreases the measure** (`--dist load`, whole system; every worker collects the same list of tests; a restart
    budget `b`; no undecodable message): whichever thread moves — a worker's main thread, a command delivery, a receiver
    thread, the controller — and also when a worker crashes. -/
theorem C02_sys_load_every_step_decreases {ids : List τ} (numnodes maxfail : Nat) (msc : Option Int) (b : Int) (idsOf : Nat → List τ)
    (hids : ∀ j, idsOf j = ids) (hnn : 0 < numnodes) {st st' : LState τ} {g : Ghost}
    (h : ReachB idsOf (init loadI (Load.init numnodes msc) numnodes maxfail (some b) idsOf) st [] g)
    (a : Step) (hs : step loadI idsOf st a = .ok st') : Dec (mu ids.length st') (mu ids.length st) := by
  cases a with
  | main k p => exact main_dec _ idsOf hs
  | deliver k =>
    obtain ⟨i1, _⟩ := reachB_all numnodes maxfail msc (some b) idsOf h
    exact deliver_dec _ idsOf i1 hs
  | recv k => exact recv_dec _ idsOf hs
  | crash k br => exact crash_dec _ idsOf hs
  | ctl k rq =>
    obtain ⟨i1, _⟩ := reachB_all numnodes maxfail msc (some b) idsOf h
    have i10 := reachB_inv10 numnodes maxfail msc (some b) idsOf h
    have i12 := reachB_inv12 numnodes maxfail msc (some b) idsOf hids hnn h
    obtain ⟨i13, _, _⟩ := reachB_after numnodes maxfail msc (some b) idsOf hids hnn h rfl
    exact ctl_dec idsOf (reachB_maxRestart numnodes maxfail msc (some b) idsOf h) i1 i10 i12 i13 hs

/-- **The distributed session terminates** (C02, `--dist load`, whole system; every worker collects the same list of tests; a
    restart budget `b`, as `-n` always sets one; no undecodable message).  There is no infinite execution: no sequence of states
    `f 0, f 1, …`, each reachable, in which every `f (i+1)` arises from `f i` by a step of some thread **or by a crash** — for
    every schedule, every pattern of worker deaths (at start-up, during collection, inside a test, while finishing), every
    outcome of every test, every budget. -/
theorem C02_sys_load_terminates {ids : List τ} (numnodes maxfail : Nat) (msc : Option Int) (b : Int) (idsOf : Nat → List τ)
    (hids : ∀ j, idsOf j = ids) (hnn : 0 < numnodes) (f : Nat → LState τ) (a : Nat → Step)
    (hreach : ∀ i, ∃ g, ReachB idsOf (init loadI (Load.init numnodes msc) numnodes maxfail (some b) idsOf) (f i) [] g)
    (hstep : ∀ i, step loadI idsOf (f i) (a i) = .ok (f (i + 1))) : False := by
  apply no_infinite_descent dec_wf (fun i => mu ids.length (f i))
  intro i
  obtain ⟨g, hg⟩ := hreach i
  exact C02_sys_load_every_step_decreases numnodes maxfail msc b idsOf hids hnn hg (a i) (hstep i)

/-- **Whatever the schedule, the run reaches its end** (C02, `--dist load`): from every reachable state, *any* strategy of
    choosing the next step among those that stay free of undecodable messages — any scheduler of threads, any adversary
    crashing workers — arrives after finitely many steps in a state where the session is finished; and as long as it is not
    finished a step that succeeds exists (`C02_sys_load_progress`), so the run cannot stop short of it either.
    Formally: the relation "a step leads from a reachable unfinished state to the next" is well-founded. -/
theorem C02_sys_load_reaches_its_end {ids : List τ} (numnodes maxfail : Nat) (msc : Option Int) (b : Int) (idsOf : Nat → List τ)
    (hids : ∀ j, idsOf j = ids) (hne : ids ≠ []) (hnn : 0 < numnodes) :
    WellFounded (fun (st' st : LState τ) =>
      (∃ g, ReachB idsOf (init loadI (Load.init numnodes msc) numnodes maxfail (some b) idsOf) st [] g) ∧
      ∃ a, step loadI idsOf st a = .ok st') ∧
    ∀ (st : LState τ) (g : Ghost), ReachB idsOf (init loadI (Load.init numnodes msc) numnodes maxfail (some b) idsOf) st [] g →
      Ctl.sessionFinished st.ctl = false →
      ∃ (a : Step) (st' : LState τ), (∀ k br, a ≠ .crash k br) ∧ step loadI idsOf st a = .ok st' := by
  constructor
  · apply Subrelation.wf (r := InvImage Dec (mu ids.length)) _ (InvImage.wf _ dec_wf)
    intro st' st ⟨⟨g, hg⟩, a, ha⟩
    exact C02_sys_load_every_step_decreases numnodes maxfail msc b idsOf hids hnn hg a ha
  · intro st g hg hnf
    exact C02_sys_load_progress numnodes maxfail msc (some b) idsOf hids hne hnn hg hnf

end Xdist.Sys
